"""GenWrites.v : every in-place write site of every function in pybaselines (registered method bodies, the
helpers they call, helper classes), with the root each write goes through and how that root was bound,
as a small statement language (coq/C13/Writes.v) that the Coq checker `writes_ok` analyses.

Fail closed: statement/expression forms that are not recognised become SUnknown / RUnknown, which the checker
rejects (RUnknown only when something is written through it).

What is trusted here (listed in the evidence): the classification of NumPy/SciPy/builtin calls (do not write
their inputs unless `out=`/`output=`/`overwrite_*` or one of the listed in-place functions/methods; which of
them may return views), the resolution of callees by name, and the assumption that a call to another
*registered* method does not write its arguments (that is this very theorem, one call level down)."""
import ast
import glob
import os

from trlib import TranslateError

PKG = 'pybaselines'
SKIP_FILES = ('__init__.py', '_version.py')

# external functions that may return a view of / the very object they are given
VIEW_FUNCS = {
    'asarray', 'asanyarray', 'ascontiguousarray', 'asfortranarray', 'asarray_chkfinite', 'atleast_1d',
    'atleast_2d', 'atleast_3d', 'ravel', 'reshape', 'squeeze', 'transpose', 'swapaxes', 'moveaxis',
    'rollaxis', 'expand_dims', 'broadcast_to', 'broadcast_arrays', 'real', 'imag', 'diagonal', 'diag',
    'split', 'array_split', 'hsplit', 'vsplit', 'dsplit', 'flip', 'fliplr', 'flipud', 'rot90', 'require',
    'as_strided', 'sliding_window_view', 'trim_zeros', 'nan_to_num', 'array', 'permute_dims', 'matrix_transpose',
    'mapdomain', 'getdomain', 'as_series', 'trimseq', 'real_if_close', 'positive', 'tril', 'triu'}
# `np.array(x)` copies unless copy=False; handled specially below
# external functions that write their FIRST argument in place
INPLACE_FUNCS = {'put', 'place', 'copyto', 'putmask', 'fill_diagonal', 'shuffle', 'put_along_axis', 'at',
                 'heapify', 'heappush', 'heappop', 'insort', 'setdiag'}
# methods (ndarray / dict / list / set / sparse) that modify the receiver
INPLACE_METHODS = {'sort', 'fill', 'resize', 'itemset', 'partition', 'put', 'setfield', 'setflags', 'byteswap',
                   'append', 'extend', 'insert', 'remove', 'reverse', 'clear', 'update', 'pop', 'popitem',
                   'setdefault', 'add', 'discard', 'setdiag', '__setitem__', '__delitem__', 'sort_indices',
                   'eliminate_zeros', 'sum_duplicates', 'appendleft', 'popleft'}
# methods that store their arguments into the receiver
STORING_METHODS = {'append', 'extend', 'insert', 'update', 'setdefault', 'add', '__setitem__', 'appendleft'}
# methods that may return a view of / an element of the receiver
VIEW_METHODS = {'ravel', 'reshape', 'view', 'squeeze', 'transpose', 'swapaxes', 'diagonal', 'get', 'pop',
                'items', 'values', 'keys', 'setdefault', 'popitem', 'tocsr', 'tocsc', 'todia', 'tocoo', 'asformat',
                'astype', '__getitem__', 'toarray', 'todense', 'newbyteorder', 'getfield', 'conj', 'conjugate',
                'popleft', 'most_common', 'elements', 'index', 'count'}
# methods that return a new object holding the same elements
SHALLOW_COPY_METHODS = {'copy', 'tolist', 'flatten', '__copy__'}
PURE_BUILTINS = {'len', 'range', 'int', 'float', 'bool', 'abs', 'round', 'isinstance', 'issubclass', 'any', 'all',
                 'sum', 'str', 'repr', 'type', 'divmod', 'hasattr', 'callable', 'print', 'slice', 'ord', 'chr',
                 'hash', 'id', 'complex', 'pow', 'format', 'bytes', 'super', 'object', 'vars', 'dir'}
CONTAINER_BUILTINS = {'list', 'tuple', 'dict', 'set', 'frozenset', 'zip', 'enumerate', 'reversed', 'sorted', 'map',
                      'filter', 'iter', 'next', 'getattr', 'max', 'min', 'defaultdict', 'partial', 'product',
                      'chain', 'deepcopy', 'OrderedDict', 'namedtuple', 'wraps', 'signature', 'cycle', 'repeat',
                      'islice', 'deque', 'Counter', 'property', 'staticmethod', 'classmethod'}
# external functions re-exported by _compat.py (pentapy.solve, numba.jit/prange, scipy.integrate.trapezoid)
EXTERNAL_VIA_COMPAT = {'_pentapy_solve', 'jit', 'prange', 'trapezoid', '_HAS_NUMBA', '_HAS_PENTAPY'}
# which positional argument an overwrite_* flag of a SciPy/NumPy function refers to
OVERWRITE_ARGS = {
    'solveh_banded': {'overwrite_ab': 0, 'overwrite_b': 1},
    'solve_banded': {'overwrite_ab': 1, 'overwrite_b': 2},
    'solve': {'overwrite_a': 0, 'overwrite_b': 1},
    'eig_banded': {'overwrite_a_band': 0}, 'eigh': {'overwrite_a': 0, 'overwrite_b': 1},
    'cho_factor': {'overwrite_a': 0}, 'cholesky': {'overwrite_a': 0}, 'cho_solve': {'overwrite_b': 1},
    'cholesky_banded': {'overwrite_ab': 0}, 'cho_solve_banded': {'overwrite_b': 1},
    'median': {'overwrite_input': 0}, 'percentile': {'overwrite_input': 0}, 'quantile': {'overwrite_input': 0},
    'lstsq': {'overwrite_a': 0, 'overwrite_b': 1}, 'inv': {'overwrite_a': 0}, 'lu_factor': {'overwrite_a': 0},
}
# in-place methods that modify the BUFFERS behind an object (ndarray / scipy.sparse), as opposed to container
# operations (append, update, ...) that only change the container itself: for an object that keeps references to
# arrays it was built from (sparse (data, indices, indptr) / (data, offsets) constructors do not copy) these write
# through to those arrays
DEEP_INPLACE_METHODS = {'sort', 'fill', 'resize', 'itemset', 'partition', 'put', 'setfield', 'byteswap', 'setdiag',
                        'sort_indices', 'eliminate_zeros', 'sum_duplicates', 'prune', '__imul__', '__iadd__',
                        '__isub__', '__itruediv__', '__setitem__'}
HOLDER_FUNCS_OLD = {'partial', 'diags', 'spdiags', 'dia_matrix', 'csr_matrix', 'csc_matrix', 'dia_array', 'csr_array',
                'csc_array', 'coo_matrix', 'identity', 'eye', 'kron', 'block_diag', 'interp1d', 'splrep', 'splu',
                'factorized', 'lru_cache', 'wraps', 'product', 'chain', 'zip_longest', 'dia_object', 'csr_object',
                'meshgrid', 'nditer', 'ndenumerate', 'broadcast', 'vectorize', 'frompyfunc', 'fit', 'groupby'}
FIRST_ARG_VIEW_FUNCS = {'reshape', 'transpose', 'swapaxes', 'moveaxis', 'rollaxis', 'expand_dims', 'broadcast_to',
                        'squeeze', 'diagonal', 'diag', 'split', 'array_split', 'hsplit', 'vsplit', 'dsplit', 'flip',
                        'fliplr', 'flipud', 'rot90', 'require', 'asarray', 'asanyarray', 'ascontiguousarray',
                        'asfortranarray', 'asarray_chkfinite', 'ravel', 'tril', 'triu', 'real', 'imag',
                        'permute_dims', 'matrix_transpose', 'trim_zeros'}
# constructors / functions whose RESULT may keep a reference to (a view of) their array arguments
HOLDER_FUNCS = {'partial', 'spdiags', 'dia_matrix', 'csr_matrix', 'csc_matrix', 'bsr_matrix', 'coo_matrix',
                'lil_matrix', 'dia_array', 'csr_array', 'csc_array', 'bsr_array', 'coo_array', 'lil_array',
                'interp1d', 'splrep', 'splu', 'spilu', 'factorized', 'lru_cache', 'wraps', 'product', 'chain',
                'zip_longest', 'meshgrid', 'nditer', 'ndenumerate', 'broadcast', 'vectorize', 'frompyfunc', 'fit',
                'groupby', 'aslinearoperator', 'LinearOperator', 'BSpline', 'PPoly', 'memoryview', 'ix_', 'matrix',
                'asmatrix', 'bmat', 'hstack_', 'tee', 'starmap', 'accumulate_'}
# constructors that are known to COPY their array arguments (listed so that the choice is explicit)
COPYING_FUNCS = {'diags', 'diags_array', 'identity', 'eye', 'kron', 'kronsum', 'block_diag', 'hstack', 'vstack',
                 'concatenate', 'stack', 'column_stack', 'pad', 'copy', 'full', 'full_like', 'zeros_like', 'ones_like',
                 'empty_like', 'tile', 'repeat', 'sort', 'take', 'where', 'interp', 'polyvander', 'polyvander2d'}
SETUPS_W = {'_setup_whittaker': 3, '_setup_polynomial': None, '_setup_spline': None, '_setup_classification': 2}


BASES = {}
WORLD_WAIVED = []
WORLD_INFO = {}
LAST_WORLD = [None]
ONE_D_IMPORTS_TWO_D = []


# Hand-reviewed write statements the analysis cannot resolve (path-/type-insensitive); matched by function and
# exact statement text, so any edit of the statement drops the waiver.  Listed in the evidence as trusted.
WAIVERS = {
    ('adaptive_minmax', 'poly_orders[1] += 1'):
        'guarded by scalar_poly_order: _check_scalar returned np.full(...) (a new array) on that path',
    ('collab_pls', "params['method_params'][key].append(value)"):
        "receiver is a list inside the defaultdict(list) created two statements earlier",
    ('adaptive_minmax', "params['method_params'][key].append(value)"):
        "receiver is a list inside the defaultdict(list) created in this body",
    ('individual_axes', "params[f'params_{keys[axis]}'][key].append(value)"):
        "receiver is a list inside the defaultdict(list) created in this body",
    ('optimize_extended_range', "params['method_params'][key] = params['method_params'][key][0 if side == 'right' else added_window:None if side == 'left' else -added_window]"):
        "stores into the params dict returned by the inner method call (a new dict), not into method_kwargs",
}


# bodies with a recorded finding (known_findings.txt): while the translator's own analysis still rejects them they are
# emitted in `known_bad` (not covered by the theorem); once the code is repaired they move back into `bodies`.
KNOWN_FINDING_BODIES = set()    # snip: fixed by b3fb302


def cont(q):
    return q if q.endswith('.*') else q + '.*'


class Fn:
    def __init__(self, mod, cls, node, registered):
        self.mod, self.cls, self.node, self.registered = mod, cls, node, registered
        self.name = node.name
        a = node.args
        self.params = [x.arg for x in a.posonlyargs + a.args]
        self.kwonly = [x.arg for x in a.kwonlyargs]
        self.vararg = a.vararg.arg if a.vararg else None
        self.kwarg = a.kwarg.arg if a.kwarg else None
        self.defaults = {}
        pos = a.posonlyargs + a.args
        for p, d in zip(pos[len(pos) - len(a.defaults):], a.defaults):
            self.defaults[p.arg] = d
        for p, d in zip(a.kwonlyargs, a.kw_defaults):
            if d is not None:
                self.defaults[p.arg] = d
        self.qual = f'{mod}:{cls + "." if cls else ""}{self.name}'
        self.is_method = cls is not None and not any(
            isinstance(d, ast.Name) and d.id == 'staticmethod' for d in node.decorator_list)
        self.is_prop = any(isinstance(d, ast.Name) and d.id == 'property' for d in node.decorator_list)
        self.all_params = self.params + self.kwonly + ([self.vararg] if self.vararg else []) + \
            ([self.kwarg] if self.kwarg else [])
        # summary (filled by the fixpoint)
        self.W = set()      # {(source, cond_param or None)}
        self.A = set()      # sources the returned object may be
        self.AC = set()     # sources the returned object may contain
        self.ir = None
        self.ir_ret = None
        self.callable_params = set()
        rets = [n for n in ast.walk(node) if isinstance(n, ast.Return) and n.value is not None]
        self.ret2 = bool(rets) and all(isinstance(r.value, ast.Tuple) and len(r.value.elts) == 2 for r in rets)
        self.P1 = set()
        self.R1 = set()      # registered bodies: sources the returned params object may be


def _is_registered(node):
    for d in node.decorator_list:
        t = d.func if isinstance(d, ast.Call) else d
        if isinstance(t, ast.Attribute) and t.attr == '_register':
            return True
    return False


def load(repo):
    del ONE_D_IMPORTS_TWO_D[:]
    fns, imports = [], {}
    root = os.path.join(repo, PKG)
    files = sorted(glob.glob(os.path.join(root, '*.py')) + glob.glob(os.path.join(root, 'two_d', '*.py')))
    for path in files:
        if os.path.basename(path) in SKIP_FILES:
            continue
        mod = os.path.relpath(path, root)[:-3].replace(os.sep, '.')
        with open(path) as f:
            tree = ast.parse(f.read(), filename=path)
        ext, rep, mods, alias = set(), set(), set(), {}
        for node in ast.walk(tree):
            if isinstance(node, ast.Import):
                for al in node.names:
                    mods.add((al.asname or al.name).split('.')[0])
            elif isinstance(node, ast.ImportFrom):
                for al in node.names:
                    nm = al.asname or al.name
                    if node.level > 0:
                        rep.add(nm)
                        if al.asname:
                            alias[al.asname] = al.name
                    else:
                        ext.add(nm)
        imports[mod] = (ext, rep, mods, alias)
        if not mod.startswith('two_d'):
            for node in ast.walk(tree):
                if isinstance(node, ast.ImportFrom) and 'two_d' in (node.module or ''):
                    ONE_D_IMPORTS_TWO_D.append(mod)
                if isinstance(node, ast.ImportFrom) and node.level > 0 and any(al.name == 'two_d' for al in node.names):
                    ONE_D_IMPORTS_TWO_D.append(mod)
        for node in tree.body:
            if isinstance(node, ast.FunctionDef):
                fns.append(Fn(mod, None, node, False))
            elif isinstance(node, ast.ClassDef):
                BASES[node.name] = [b.id if isinstance(b, ast.Name) else getattr(b, 'attr', '?') for b in node.bases]
                for sub in node.body:
                    if isinstance(sub, ast.FunctionDef):
                        fns.append(Fn(mod, node.name, sub, _is_registered(sub)))
    return fns, imports


class Tr:
    """Translates one function body into the statement language."""

    def __init__(self, fn, world, want_ret):
        self.fn, self.world, self.want_ret = fn, world, want_ret
        self.ext, self.rep, self.mods, self.alias = world['imports'][fn.mod]
        self.tmp = 0
        self.cvars = {}     # local callable variables -> 'registered' | [candidate function names]
        self.locals = set(fn.all_params)
        for node in ast.walk(fn.node):
            if isinstance(node, ast.Name) and isinstance(node.ctx, (ast.Store, ast.Del)):
                self.locals.add(node.id)
        self.pos_info = {}
        self.scalars = scalar_names(fn)
        self.arrays = array_names(fn, self)

    # ---------------------------------------------------------------- helpers
    def fresh_tmp(self):
        self.tmp += 1
        return f'%t{self.tmp}'

    def bind(self, out, name, S, unknown=False):
        if unknown:
            out.append(('bind', name, ('unknown',)))
        elif S:
            out.append(('bind', name, ('alias', sorted(S))))
        else:
            out.append(('bind', name, ('fresh',)))

    def bind_val(self, out, name, val):
        S, C = val
        self.bind(out, name, S)
        self.bind(out, cont(name), C)

    def write_through(self, out, S, line, cond=None):
        """a write into the object whose possible identities are S"""
        S = set(S)
        if not S:
            return
        if len(S) == 1 and cond is None:
            out.append(('write', next(iter(S)), line, None))
            return
        t = self.fresh_tmp()
        self.bind(out, t, S)
        out.append(('write', t, line, cond))

    def store_into(self, out, target_val, val):
        """objects `val` become reachable from the object(s) target_val"""
        S, C = target_val
        add = val[0] | val[1]
        if not add:
            return
        for q in sorted(S | C):
            if q in self.arrays or q in self.scalars:
                continue
            out.append(('bind', cont(q), ('alias', sorted({cont(q)} | add))))
            if q.startswith('self.') and q != 'self.*':
                key = cont(q)[5:]
                if key in self.world['fresh_attrs']:
                    out.append(('assertfresh', cont(q), 0, key))

    @staticmethod
    def join(*vals):
        S, C = set(), set()
        for v in vals:
            S |= v[0]
            C |= v[1]
        return S, C

    @staticmethod
    def elem(v):
        """an element / view / attribute of v"""
        return v[0] | v[1], set(v[1])

    # ---------------------------------------------------------------- expressions
    def ev(self, e, out, raw=False):
        """(S, C): names the value may BE (or be a view of), names whose objects it may CONTAIN."""
        v = self.ev0(e, out)
        if len(v) == 3 and not raw:
            # (baseline, params) of a registered method used as a plain value
            return set(), v[1][0] | v[1][1] | v[2][0] | v[2][1]
        if len(v) == 5 and not raw:
            # a setup result used as a plain value: the tuple holds y, the weights, ...
            sp = v[3]
            extra = set(sp[2]) if sp else set()
            return set(), v[2][0] | v[2][1] | extra | v[4]
        return v

    def ev0(self, e, out):
        if e is None or isinstance(e, (ast.Constant, ast.JoinedStr, ast.FormattedValue)):
            if isinstance(e, ast.JoinedStr):
                for v in e.values:
                    if isinstance(v, ast.FormattedValue):
                        self.ev(v.value, out)
            return set(), set()
        if isinstance(e, ast.Name):
            if e.id in self.scalars and (self.fn.registered or e.id not in self.fn.all_params):
                # an immutable Python/NumPy scalar (parameters: only the documented types of the public methods
                # are relied on, helper docstrings are not)
                return set(), set()
            if e.id in self.arrays:
                return {e.id}, set()     # a NumPy array holds no other objects
            if e.id in self.locals:
                return {e.id}, {cont(e.id)}
            return set(), set()     # module-level constant / function / class
        if isinstance(e, ast.Attribute):
            if isinstance(e.value, ast.Name) and e.value.id == 'self' and 'self' in self.locals:
                nm = 'self.' + e.attr
                return {nm}, {cont(nm)}
            if isinstance(e.value, ast.Name) and e.value.id in self.mods | self.rep | self.ext \
                    and e.value.id not in self.locals:
                return set(), set()
            v = self.ev(e.value, out)
            if e.attr in ('shape', 'size', 'ndim', 'dtype', 'itemsize', 'nbytes', 'strides', 'flags', '__name__'):
                return set(), set()
            return self.elem(v)
        if isinstance(e, ast.Subscript):
            self.ev_index(e.slice, out)
            v = self.ev(e.value, out, raw=True)
            if len(v) == 3:
                v = (set(), v[1][0] | v[1][1] | v[2][0] | v[2][1])
            if len(v) == 5:
                if isinstance(e.slice, ast.Constant) and e.slice.value == 0:
                    return v[2]
                sp = v[3]
                v = (set(), v[2][0] | v[2][1] | (set(sp[2]) if sp else set()) | v[4])
            if isinstance(e.slice, ast.Tuple) and not e.slice.elts:
                return set(), set()      # x[()] : used on 0-d arrays only (scalar extraction)
            return self.elem(v)
        if isinstance(e, (ast.BinOp,)):
            self.ev(e.left, out)
            self.ev(e.right, out)
            return set(), set()
        if isinstance(e, ast.UnaryOp):
            self.ev(e.operand, out)
            return set(), set()
        if isinstance(e, ast.Compare):
            self.ev(e.left, out)
            for c in e.comparators:
                self.ev(c, out)
            return set(), set()
        if isinstance(e, ast.BoolOp):
            return self.join(*[self.ev(v, out) for v in e.values])
        if isinstance(e, ast.IfExp):
            self.ev(e.test, out)
            return self.join(self.ev(e.body, out), self.ev(e.orelse, out))
        if isinstance(e, (ast.Tuple, ast.List, ast.Set)):
            vals = [self.ev(v, out) for v in e.elts]
            j = self.join(*vals) if vals else (set(), set())
            return set(), j[0] | j[1]
        if isinstance(e, ast.Dict):
            vals = [self.ev(v, out) for v in list(e.keys) + list(e.values) if v is not None]
            j = self.join(*vals) if vals else (set(), set())
            return set(), j[0] | j[1]
        if isinstance(e, ast.Starred):
            return self.ev(e.value, out)
        if isinstance(e, (ast.ListComp, ast.SetComp, ast.GeneratorExp, ast.DictComp)):
            acc = set()
            for g in e.generators:
                v = self.ev(g.iter, out)
                acc |= v[0] | v[1]
                for t in ast.walk(g.target):
                    if isinstance(t, ast.Name):
                        self.bind_val(out, t.id, self.elem(v))
                for c in g.ifs:
                    self.ev(c, out)
            elts = [e.key, e.value] if isinstance(e, ast.DictComp) else [e.elt]
            for el in elts:
                v = self.ev(el, out)
                acc |= v[0] | v[1]
            return set(), acc
        if isinstance(e, ast.Lambda):
            v = self.ev(e.body, out)
            return set(), v[0] | v[1]
        if isinstance(e, ast.Call):
            return self.call(e, out)
        if isinstance(e, ast.Slice):
            self.ev_index(e, out)
            return set(), set()
        raise TranslateError(f'{self.fn.qual}:{getattr(e, "lineno", 0)}: unsupported expression {type(e).__name__}')

    def ev_index(self, s, out):
        if isinstance(s, ast.Slice):
            for p in (s.lower, s.upper, s.step):
                if p is not None:
                    self.ev(p, out)
        elif isinstance(s, ast.Tuple):
            for p in s.elts:
                self.ev_index(p, out)
        else:
            self.ev(s, out)

    # ---------------------------------------------------------------- calls
    @staticmethod
    def const_bool(node):
        if isinstance(node, ast.Constant) and isinstance(node.value, bool):
            return node.value
        if isinstance(node, ast.Constant) and node.value is None:
            return False
        return None

    def call(self, e, out):
        line = e.lineno
        f = e.func
        argv = [self.ev(a, out) for a in e.args]
        kwv = {}
        starkw = []
        for k in e.keywords:
            v = self.ev(k.value, out)
            if k.arg is None:
                starkw.append(self.elem(v))
            else:
                kwv[k.arg] = v
        allv = self.join(*(argv + list(kwv.values()) + starkw)) if (argv or kwv or starkw) else (set(), set())
        everything = allv[0] | allv[1]
        kwnode = {k.arg: k.value for k in e.keywords if k.arg}

        # out= / output= / overwrite_* : regardless of the callee
        for k in ('out', 'output'):
            if k in kwnode and not (isinstance(kwnode[k], ast.Constant) and kwnode[k].value is None) \
                    and not self.is_repo_callee(f):
                self.write_through(out, kwv[k][0], line)
        if not self.is_repo_callee(f):
            fname = f.id if isinstance(f, ast.Name) else (f.attr if isinstance(f, ast.Attribute) else '?')
            for k in [k for k in kwnode if k.startswith('overwrite_')]:
                b = self.const_bool(kwnode[k])
                if b is False:
                    continue
                cond = None
                if b is None and isinstance(kwnode[k], ast.Name) and kwnode[k].id in self.fn.all_params \
                        and self.const_bool(self.fn.defaults.get(kwnode[k].id)) is False:
                    cond = kwnode[k].id
                pos = OVERWRITE_ARGS.get(fname, {}).get(k)
                if pos is not None and pos < len(argv) and not any(isinstance(a, ast.Starred) for a in e.args):
                    targets = [argv[pos]]
                else:   # unknown function / flag: everything it is given
                    targets = argv + [kwv[k2] for k2 in kwv if not k2.startswith('overwrite_')]
                for v in targets:
                    # e.g. solve_banded((l, u), ab, b): the written argument may be given inside a tuple
                    self.write_through(out, v[0], line, cond)

        # ---- plain names
        if isinstance(f, ast.Name):
            nm = f.id
            if nm not in self.locals and nm in self.alias:
                nm = self.alias[nm]
            if nm in self.locals:
                return self.call_local(nm, e, argv, kwv, starkw, allv, out)
            if nm in self.world['funcs'] and nm not in self.ext:
                return self.call_repo(self.world['funcs'][nm], None, e, argv, kwv, starkw, out)
            if nm in self.world['classes'] and nm not in self.ext:
                inits = [fn for fn in self.world['methods'].get('__init__', []) if fn.cls == nm]
                if inits:
                    self.call_repo(inits, (set(), set()), e, argv, kwv, starkw, out)
                return set(), everything
            if nm in PURE_BUILTINS or (nm[:1].isupper() and (nm.endswith('Error') or nm.endswith('Warning')
                                                              or nm.endswith('Exception'))):
                return set(), set()
            if nm in CONTAINER_BUILTINS:
                if nm in ('getattr', 'max', 'min', 'next'):
                    return everything, everything
                if nm == 'deepcopy':
                    return set(), set()
                return set(), everything
            if nm in self.ext or nm in self.mods:
                return self.call_external(nm, e, argv, kwv, allv, out)
            if nm in self.rep and nm in ('Baseline', 'Baseline2D'):
                return set(), everything     # a fitter object (api.py): holds its arguments
            if nm in EXTERNAL_VIA_COMPAT:
                return self.call_external(nm, e, argv, kwv, allv, out)
            raise TranslateError(f'{self.fn.qual}:{line}: call of unknown name {nm}')
        # ---- attribute calls
        if isinstance(f, ast.Attribute):
            attr = f.attr
            # module-qualified
            base = f.value
            root = base
            while isinstance(root, ast.Attribute):
                root = root.value
            if isinstance(root, ast.Name) and root.id not in self.locals and \
                    (root.id in self.mods or root.id in self.rep or root.id in self.ext):
                if root.id in self.rep and isinstance(base, ast.Name):
                    # a module of this package: utils.f, _weighting._asls, whittaker (as a module object)
                    if attr in self.world['funcs']:
                        return self.call_repo(self.world['funcs'][attr], None, e, argv, kwv, starkw, out)
                    if attr in self.world['classes']:
                        inits = [fn for fn in self.world['methods'].get('__init__', []) if fn.cls == attr]
                        if inits:
                            self.call_repo(inits, (set(), set()), e, argv, kwv, starkw, out)
                        return set(), everything
                    raise TranslateError(f'{self.fn.qual}:{line}: unknown package attribute {root.id}.{attr}')
                return self.call_external(attr, e, argv, kwv, allv, out)
            # receiver object
            recv = self.ev(base, out)
            if isinstance(base, ast.Call) and isinstance(base.func, ast.Name) and base.func.id == 'super':
                recv = ({'self'}, {'self.*'})
                sup = [c for c in self.world['methods'].get(attr, []) if c.cls in BASES.get(self.fn.cls, [])]
                if sup:
                    return self.call_repo(sup, recv, e, argv, kwv, starkw, out)
            is_self = isinstance(base, ast.Name) and base.id == 'self' and 'self' in self.locals
            if is_self and attr in SETUPS_W or (is_self and attr in ('_setup_optimizer', '_setup_morphology',
                                                                      '_setup_smooth', '_setup_misc')):
                return self.call_setup(attr, e, argv, kwv, out)
            cands = self.world['methods'].get(attr, [])
            if is_self and self.fn.cls:
                same = [c for c in cands if c.cls == self.fn.cls or (c.mod == self.fn.mod)]
                if not same:
                    two = self.fn.mod.startswith('two_d')
                    same = [c for c in cands if c.mod.startswith('two_d') == two]
                if same:
                    cands = same
            if cands and not is_self and not self.fn.mod.startswith('two_d'):
                # the 1-D modules never import the 2-D classes (checked in load()): their objects are 1-D ones
                one = [c for c in cands if not c.mod.startswith('two_d')]
                if one and not self.world['one_d_imports_two_d']:
                    cands = one
            if cands and attr not in ('copy',):
                if all(c.registered for c in cands):
                    return everything | recv[0] | recv[1], everything | recv[0] | recv[1]
                res = self.call_repo([c for c in cands if not c.registered], recv, e, argv, kwv, starkw, out)
                if attr in INPLACE_METHODS | VIEW_METHODS | SHALLOW_COPY_METHODS:
                    res = self.join(res, self.call_method_external(attr, recv, e, argv, kwv, allv, out))
                return res
            return self.call_method_external(attr, recv, e, argv, kwv, allv, out)
        # ---- computed callee:  getattr(obj, name)(...), {...}[k](...), f(...)(...)
        fv = self.ev(f, out)
        if isinstance(f, ast.Call) and isinstance(f.func, ast.Name) and f.func.id == 'type':
            return set(), everything       # type(self)(...): a new object of this class holding its arguments
        if isinstance(f, ast.Call) and isinstance(f.func, ast.Name) and f.func.id == 'getattr':
            # a method looked up by name on a fitter object: a registered method (assumed by this theorem)
            return everything | fv[0] | fv[1], everything | fv[0] | fv[1]
        if isinstance(f, ast.Subscript) and isinstance(f.value, ast.Dict) and \
                all(isinstance(v, ast.Name) and v.id in self.world['funcs'] for v in f.value.values):
            fns = [fn for v in f.value.values for fn in self.world['funcs'][v.id]]
            return self.call_repo(fns, None, e, argv, kwv, starkw, out)
        out.append(('unknown', line, 'computed callee'))
        return everything, everything

    def is_repo_callee(self, f):
        if isinstance(f, ast.Name):
            return f.id not in self.locals and f.id not in self.ext and \
                (f.id in self.world['funcs'] or f.id in self.world['classes'])
        if isinstance(f, ast.Attribute):
            root = f.value
            while isinstance(root, ast.Attribute):
                root = root.value
            if isinstance(root, ast.Name) and root.id not in self.locals and (root.id in self.mods or root.id in self.ext):
                return False
            return f.attr in self.world['methods'] or f.attr in self.world['funcs']
        return False

    def odd_expr(self, node, depth=0):
        """syntactically of the form 2*k + 1 (k an integer expression): never zero"""
        if isinstance(node, ast.BinOp) and isinstance(node.op, ast.Add):
            for a, b in ((node.left, node.right), (node.right, node.left)):
                if isinstance(b, ast.Constant) and b.value == 1 and isinstance(a, ast.BinOp) and isinstance(a.op, ast.Mult) \
                        and any(isinstance(t, ast.Constant) and t.value == 2 for t in (a.left, a.right)):
                    return True
        if isinstance(node, ast.Name) and depth == 0:
            vals = [n.value for n in ast.walk(self.fn.node) if isinstance(n, ast.Assign)
                    and any(isinstance(t, ast.Name) and t.id == node.id for t in n.targets)]
            stores = [n for n in ast.walk(self.fn.node) if isinstance(n, ast.Name) and n.id == node.id
                      and isinstance(n.ctx, ast.Store)]
            return bool(vals) and len(vals) == len(stores) and all(self.odd_expr(v, 1) for v in vals) \
                and node.id not in self.fn.all_params
        return False

    def is_external_attr(self, node):
        root = node
        while isinstance(root, ast.Attribute):
            root = root.value
        return isinstance(root, ast.Name) and root.id not in self.locals and \
            (root.id in self.mods or root.id in self.ext) and root.id not in self.rep

    def call_local(self, nm, e, argv, kwv, starkw, allv, out):
        everything = allv[0] | allv[1] | {nm, cont(nm)}
        kind = self.cvars.get(nm)
        if self.fn.name == '_register' and nm == 'func' and len(argv) >= 2 and self.world.get('reg_ready'):
            # the decorated function: by construction one of the registered method bodies (that is how
            # `registered` is defined).  It does not write its arguments (C13_writes_safe for those bodies); the
            # `params` object it returns is described by the re-checked summary R1 of every body.
            two = self.fn.mod.startswith('two_d')
            regs = [f for f in self.world['registered'] if f.mod.startswith('two_d') == two]
            passed = self.join(*(argv + list(kwv.values()) + starkw))
            allp = passed[0] | passed[1]
            selfv = argv[0][0] | argv[0][1]
            s1 = set()
            for f in regs:
                for src in f.R1:
                    base = src[:-2] if src.endswith('.*') else src
                    if base.startswith('self'):
                        s1 |= selfv
                    elif f.params[1:2] == [base]:
                        s1 |= (argv[1][1] if src.endswith('.*') else argv[1][0])
                    else:
                        s1 |= allp
            return ('pos', (set(allp), set(allp)), (s1, set(allp)))
        if kind is None and nm in self.fn.all_params and not self.fn.registered:
            # a callable parameter of a helper: checked at every call site of the helper (call_repo)
            self.fn.callable_params.add(nm)
            return set(everything), set(everything)
        if kind is not None:
            res = (set(), set())
            for c in kind:
                if c == 'registered':
                    res = self.join(res, (set(everything), set(everything)))
                elif isinstance(c, tuple):
                    res = self.join(res, self.call_external(c[1], e, argv, kwv, allv, out))
                else:
                    res = self.join(res, self.call_repo([c], None, e, argv, kwv, starkw, out))
            return res
        # a callable parameter / unknown local callable: fail closed -- it may write everything it is given
        for v in argv + list(kwv.values()) + starkw:
            self.write_through(out, v[0], e.lineno)
        return set(everything), set(everything)

    def call_external(self, nm, e, argv, kwv, allv, out):
        line = e.lineno
        everything = allv[0] | allv[1]
        if nm in INPLACE_FUNCS and argv:
            self.write_through(out, argv[0][0], line)
            if nm in ('heappush', 'insort') and len(argv) > 1:
                self.store_into(out, argv[0], argv[1])
        if nm == 'array':
            cp = {k.arg: k.value for k in e.keywords}.get('copy')
            if cp is None or self.const_bool(cp) is True:
                return set(), everything
            return everything, everything
        if nm == 'nan_to_num':
            cp = {k.arg: k.value for k in e.keywords}.get('copy')
            if cp is not None and self.const_bool(cp) is not True and argv:
                self.write_through(out, argv[0][0], line)
                return everything, everything
            return set(), set()
        if nm in FIRST_ARG_VIEW_FUNCS and argv and not any(isinstance(a, ast.Starred) for a in e.args):
            # the other arguments are shapes / axes / dtypes
            return argv[0][0] | argv[0][1], set(argv[0][1])
        if nm in VIEW_FUNCS:
            return everything, everything
        if 'out' in kwv:
            return set(kwv['out'][0]), set(kwv['out'][1])
        if 'output' in kwv:
            return set(kwv['output'][0]), set(kwv['output'][1])
        # constructors of objects that keep references to their arguments (sparse matrices, interpolators, ...)
        if nm in HOLDER_FUNCS or nm[:1].isupper():
            return set(), everything
        # every other NumPy / SciPy / stdlib function returns a new array / scalar
        return set(), set()

    def call_method_external(self, attr, recv, e, argv, kwv, allv, out):
        line = e.lineno
        everything = allv[0] | allv[1]
        if attr in INPLACE_METHODS:
            self.write_through(out, recv[0], line)
            if attr in DEEP_INPLACE_METHODS:
                # the arrays the object was built from (sparse constructors keep references)
                self.write_through(out, recv[1], line)
        if attr in STORING_METHODS:
            self.store_into(out, recv, allv)
        if attr in SHALLOW_COPY_METHODS:
            base = e.func.value
            while isinstance(base, (ast.Attribute, ast.Subscript)):
                base = base.value
            looks_like_dict = isinstance(base, ast.Name) and any(t in base.id.lower() for t in ('kw', 'param', 'dict', 'map', 'opt'))
            # ndarray.copy() holds nothing; dict/list .copy() holds the same objects
            return set(), (set(recv[1]) if looks_like_dict or attr != 'copy' else set())
        if attr in INPLACE_METHODS and attr not in VIEW_METHODS:
            return set(), set()
        if attr == 'astype':
            cp = {k.arg: k.value for k in e.keywords}.get('copy')
            if cp is None or self.const_bool(cp) is True:
                return set(), set()
            return self.elem(recv)
        if attr in VIEW_METHODS or attr in ('T', 'real', 'imag', 'flat'):
            S, C = self.elem(recv)
            if attr in ('get', 'pop', 'setdefault'):
                return S | everything, C | everything      # the default may be what is returned
            return S, C                                    # the arguments are shapes / axes / keys
        if 'out' in kwv:
            return set(kwv['out'][0]), set(kwv['out'][1])
        if attr in ('dot', 'sum', 'mean', 'std', 'var', 'max', 'min', 'argmax', 'argmin', 'argsort', 'any', 'all',
                    'nonzero', 'cumsum', 'cumprod', 'prod', 'round', 'clip', 'repeat', 'take', 'compress',
                    'searchsorted', 'trace', 'ptp', 'item', 'tobytes', 'dump', 'dumps', 'lower', 'upper', 'split',
                    'join', 'format', 'startswith', 'endswith', 'strip', 'capitalize', 'replace', 'multiply',
                    'power', 'maximum', 'minimum', 'matvec', 'rmatvec', 'solve', 'tocsr_', 'warn', 'bind',
                    'bit_length', 'is_integer', 'groups', 'group', 'match', 'search', 'issubset', 'union',
                    'intersection', 'difference', 'nnz', 'getnnz', 'count_nonzero', 'reduce', 'accumulate', 'outer',
                    'catch_warnings', 'simplefilter', 'filterwarnings', 'title', 'isdigit', 'index'):
            return set(), set()
        # unknown method of an unknown object: fail closed
        self.write_through(out, recv[0], line)
        for v in argv + list(kwv.values()):
            self.write_through(out, v[0], line)
        out.append(('note', line, f'unknown method .{attr} treated as writing receiver and arguments'))
        S, C = self.elem(recv)
        return S | everything, C | everything

    def map_args(self, callee, recv, e, argv, kwv, starkw):
        """callee parameter -> value"""
        m = {}
        params = list(callee.params)
        if callee.is_method and recv is not None and params:
            m[params[0]] = recv
            params = params[1:]
        elif callee.is_method and recv is None and params and params[0] in ('self', 'cls'):
            params = params[1:]
        has_star = any(isinstance(a, ast.Starred) for a in e.args)
        if has_star:
            j = self.join(*argv) if argv else (set(), set())
            j = self.elem(j)
            for p in params + ([callee.vararg] if callee.vararg else []):
                m[p] = self.join(m.get(p, (set(), set())), j)
        else:
            for i, v in enumerate(argv):
                if i < len(params):
                    m[params[i]] = v
                elif callee.vararg:
                    m[callee.vararg] = self.join(m.get(callee.vararg, (set(), set())), (set(), v[0] | v[1]))
        for k, v in kwv.items():
            if k in callee.params or k in callee.kwonly:
                m[k] = v
            elif callee.kwarg:
                m[callee.kwarg] = self.join(m.get(callee.kwarg, (set(), set())), (set(), v[0] | v[1]))
        for v in starkw:
            for p in callee.params + callee.kwonly + ([callee.kwarg] if callee.kwarg else []):
                if p not in m or p == callee.kwarg:
                    m[p] = self.join(m.get(p, (set(), set())), v if p != callee.kwarg else (set(), v[0] | v[1]))
        return m

    def call_repo(self, callees, recv, e, argv, kwv, starkw, out):
        """A call of a function defined in this package: use its summary (checked separately in Coq)."""
        line = e.lineno
        kwnode = {k.arg: k.value for k in e.keywords if k.arg}
        S, C = set(), set()
        for callee in callees:
            m = self.map_args(callee, recv, e, argv, kwv, starkw)
            if callee.name == 'pad_edges' and callee.cls is None and len(e.args) >= 2 and self.odd_expr(e.args[1]):
                # utils.pad_edges returns its input only when pad_length == 0 (Model.pad_edges); an odd
                # pad length 2*k+1 is never 0, so the result is a new array
                continue
            for cp in sorted(callee.callable_params):
                node = kwnode.get(cp)
                if node is None and cp in callee.params:
                    idx = callee.params.index(cp) - (1 if callee.is_method and recv is not None else 0)
                    if 0 <= idx < len(e.args):
                        node = e.args[idx]
                cands = self.callable_cands(node) if node is not None else None
                if node is None and cp in callee.defaults:
                    cands = []
                if cands is None or any(isinstance(c, Fn) and c.W for c in cands):
                    if not (isinstance(node, ast.Name) and node.id in self.fn.all_params and not self.fn.registered):
                        out.append(('unknown', line, f'callable argument {cp} of {callee.name}'))
                    else:
                        self.fn.callable_params.add(node.id)
            for src, cond in sorted(callee.W, key=str):
                base = src[:-2] if src.endswith('.*') else src
                if base not in m:
                    continue
                val = m[base]
                target = val[1] if src.endswith('.*') else val[0]
                mycond = None
                if cond is not None:
                    # written only when the callee's flag `cond` is true
                    node = kwnode.get(cond)
                    if node is None and cond in callee.params:
                        idx = callee.params.index(cond) - (1 if callee.is_method else 0)
                        if 0 <= idx < len(e.args) and not any(isinstance(a, ast.Starred) for a in e.args):
                            node = e.args[idx]
                    if node is None:
                        if starkw or any(isinstance(a, ast.Starred) for a in e.args):
                            mycond = None
                        elif self.const_bool(callee.defaults.get(cond)) is False:
                            continue
                    else:
                        b = self.const_bool(node)
                        if b is False:
                            continue
                        if b is None and isinstance(node, ast.Name) and node.id in self.fn.all_params and \
                                self.const_bool(self.fn.defaults.get(node.id)) is False:
                            mycond = node.id
                self.write_through(out, target, line, mycond)
            for src in callee.A:
                base = src[:-2] if src.endswith('.*') else src
                if base in m:
                    S |= m[base][1] if src.endswith('.*') else m[base][0]
            for src in callee.AC:
                base = src[:-2] if src.endswith('.*') else src
                if base in m:
                    C |= m[base][1] if src.endswith('.*') else m[base][0]
            if callee.is_prop:
                pass
        if callees and all(c.ret2 and not c.registered for c in callees):
            s1 = set()
            for callee in callees:
                m = self.map_args(callee, recv, e, argv, kwv, starkw)
                for src in callee.P1:
                    base = src[:-2] if src.endswith('.*') else src
                    if base in m:
                        s1 |= m[base][1] if src.endswith('.*') else m[base][0]
            self.pos_info[id(e)] = s1
        return S, C | S

    def call_setup(self, attr, e, argv, kwv, out):
        """self._setup_*(y, ...): outputs according to the alias model (coq/C13/Model.v)."""
        two = self.fn.mod.startswith('two_d')
        callee = [c for c in self.world['methods'][attr] if c.mod.startswith('two_d') == two] or \
            list(self.world['methods'][attr])
        m = self.map_args(callee[0], ({'self'}, {'self.*'}), e, argv, kwv, [])
        for c in callee[1:]:
            m2 = self.map_args(c, ({'self'}, {'self.*'}), e, argv, kwv, [])
            for k, v in m2.items():
                m[k] = self.join(m.get(k, (set(), set())), v)
        # the setup functions themselves are analysed as helpers: apply their write summary as well
        self.call_repo(callee, ({'self'}, {'self.*'}), e, argv, kwv, [], out)
        kwnode = {k.arg: k.value for k in e.keywords if k.arg}
        y = m.get('y', (set(), set()))
        if attr in SETUPS_W:
            cwn = kwnode.get('copy_weights')
            if cwn is None:
                for c in callee:
                    if 'copy_weights' in c.params:
                        idx = c.params.index('copy_weights') - 1
                        if idx < len(e.args):
                            cwn = e.args[idx]
            cw = self.const_bool(cwn) if cwn is not None else False
            if cw is None:
                cw = False
            w = m.get('weights', (set(), set()))
            return ('setup', attr, y, ('setupw', cw, sorted(w[0])), set(w[1]))
        if attr == '_setup_optimizer':
            ckn = kwnode.get('copy_kwargs')
            if ckn is None:
                idx = callee[0].params.index('copy_kwargs') - 1
                ckn = e.args[idx] if idx < len(e.args) else None
            ck = self.const_bool(ckn) if ckn is not None else True
            if ck is None:
                ck = False
            mk = m.get('method_kwargs', (set(), set()))
            return ('setup', attr, y, ('setupkw', ck, sorted(mk[0])), set(mk[1]))
        if attr == '_setup_smooth':
            pt = kwnode.get('pad_type')
            if pt is None or (isinstance(pt, ast.Constant) and isinstance(pt.value, str)):
                # pad_edges with a validated half window >= 1 (Model.pad_edges false): a new, padded array
                y = (set(), set())
        return ('setup', attr, y, None, set())

    # ---------------------------------------------------------------- statements
    def assign(self, target, val, out, line, value_node=None):
        if isinstance(val, tuple) and len(val) == 5 and val[0] == 'setup':
            return self.assign_setup(target, val, out, line)
        if isinstance(val, tuple) and len(val) == 3 and val[0] == 'pos':
            if isinstance(target, (ast.Tuple, ast.List)) and len(target.elts) == 2 and \
                    all(isinstance(t, ast.Name) for t in target.elts):
                self.bind_val(out, target.elts[0].id, val[1])
                self.bind_val(out, target.elts[1].id, val[2])
                return
            val = (set(), val[1][0] | val[1][1] | val[2][0] | val[2][1])
        if isinstance(target, ast.Name):
            self.bind_val(out, target.id, val)
            self.note_callable(target.id, value_node)
        elif isinstance(target, (ast.Tuple, ast.List)):
            if isinstance(value_node, (ast.Tuple, ast.List)) and len(value_node.elts) == len(target.elts) \
                    and not any(isinstance(t, ast.Starred) for t in target.elts):
                tmp = []
                for vn in value_node.elts:
                    tmp.append(self.ev(vn, out))
                for t, v, vn in zip(target.elts, tmp, value_node.elts):
                    self.assign(t, v, out, line, vn)
            elif len(target.elts) == 2 and all(isinstance(t, ast.Name) for t in target.elts) and \
                    isinstance(value_node, ast.Call) and id(value_node) in self.pos_info:
                # `a, b = helper(...)` where every return of the helper is a pair: b is described by its summary
                self.assign(target.elts[0], self.elem(val), out, line)
                self.bind_val(out, target.elts[1].id, (set(self.pos_info[id(value_node)]), self.elem(val)[1]))
            else:
                for t in target.elts:
                    self.assign(t.value if isinstance(t, ast.Starred) else t, self.elem(val), out, line)
        elif isinstance(target, ast.Attribute):
            if isinstance(target.value, ast.Name) and target.value.id == 'self' and 'self' in self.locals:
                self.bind_val(out, 'self.' + target.attr, val)
                if target.attr in self.world['fresh_attrs']:
                    # claimed: this attribute never holds a caller-owned buffer (checked like a write site)
                    out.append(('assertfresh', 'self.' + target.attr, line, target.attr))
                if target.attr + '.*' in self.world['fresh_attrs']:
                    # claimed: nor does the object stored there hold one
                    out.append(('assertfresh', 'self.' + target.attr + '.*', line, target.attr + '.*'))
            else:
                tv = self.ev(target.value, out)
                self.store_into(out, tv, val)
                if target.attr in self.world['fresh_attrs'] and val[0]:
                    t = self.fresh_tmp()
                    self.bind(out, t, val[0])
                    out.append(('assertfresh', t, line, target.attr))
                if target.attr + '.*' in self.world['fresh_attrs'] and val[1]:
                    t = self.fresh_tmp()
                    self.bind(out, t, val[1])
                    out.append(('assertfresh', t, line, target.attr + '.*'))
        elif isinstance(target, ast.Subscript):
            self.ev_index(target.slice, out)
            tv = self.ev(target.value, out)
            self.write_through(out, tv[0], line)
            self.store_into(out, tv, val)
        elif isinstance(target, ast.Starred):
            self.assign(target.value, val, out, line)
        else:
            out.append(('unknown', line, 'assignment target'))

    def assign_setup(self, target, val, out, line):
        _, attr, y, special, wcont = val
        if not isinstance(target, (ast.Tuple, ast.List)):
            if attr == '_setup_misc' and isinstance(target, ast.Name):
                self.bind_val(out, target.id, y)
                return
            out.append(('unknown', line, 'setup result not unpacked'))
            return
        if any(isinstance(t, ast.Starred) for t in target.elts):
            every = y[0] | y[1] | (set(special[2]) if special else set()) | wcont
            for t in target.elts:
                t = t.value if isinstance(t, ast.Starred) else t
                if isinstance(t, ast.Name):
                    self.bind_val(out, t.id, (set(every), set(every)))
                else:
                    out.append(('unknown', line, 'setup result unpacked into a non-name'))
            return
        for i, t in enumerate(target.elts):
            if not isinstance(t, ast.Name):
                out.append(('unknown', line, 'setup result unpacked into a non-name'))
                continue
            if i == 0:
                self.bind_val(out, t.id, y)
            elif special is not None and ((special[0] == 'setupw' and i == 1) or (special[0] == 'setupkw' and i == 3)):
                out.append(('bind', t.id, special))
                self.bind(out, cont(t.id), wcont)
            else:
                # systems, half windows, pseudo-inverses, function objects: built by the setup
                out.append(('bind', t.id, ('fresh',)))
                out.append(('bind', cont(t.id), ('alias', ['self.*'])))
                if attr == '_setup_optimizer' and i == 1:
                    self.cvars[t.id] = ['registered']

    def callable_cands(self, node):
        """candidates a callable-valued expression may denote, or None when unknown"""
        if isinstance(node, ast.Call) and isinstance(node.func, ast.Name) and node.func.id == 'getattr':
            return ['registered']
        if isinstance(node, ast.Subscript) and isinstance(node.value, ast.Dict) and node.value.values:
            res = []
            for v in node.value.values:
                c = self.callable_cands(v)
                if c is None:
                    return None
                res += c
            return res
        if isinstance(node, ast.Name):
            if node.id in self.locals:
                return self.cvars.get(node.id)
            nm = self.alias.get(node.id, node.id)
            if nm in self.world['funcs'] and nm not in self.ext:
                return list(self.world['funcs'][nm])
            if nm in self.ext:
                return [('ext', nm)]
            return None
        if isinstance(node, ast.Attribute):
            if self.is_external_attr(node):
                return [('ext', node.attr)]
            if isinstance(node.value, ast.Name) and node.value.id in self.rep and node.attr in self.world['funcs']:
                return list(self.world['funcs'][node.attr])
            if node.attr in self.world['methods'] and all(c.registered for c in self.world['methods'][node.attr]):
                return ['registered']
            return None
        if isinstance(node, ast.IfExp):
            a, b = self.callable_cands(node.body), self.callable_cands(node.orelse)
            return None if a is None or b is None else a + b
        if isinstance(node, ast.Call) and isinstance(node.func, ast.Name) and node.func.id == 'partial' and node.args:
            return self.callable_cands(node.args[0])
        if isinstance(node, ast.Call) and ((isinstance(node.func, ast.Attribute) and self.is_external_attr(node.func))
                                              or (isinstance(node.func, ast.Name) and node.func.id in self.ext
                                                  and node.func.id not in self.locals)):
            # an interpolator / polynomial object from NumPy/SciPy: calling it evaluates, it does not write
            return [('ext', '__call__')]
        return None

    def note_callable(self, name, node):
        c = self.callable_cands(node) if node is not None else None
        if c is None:
            self.cvars.pop(name, None)
        else:
            self.cvars[name] = c

    def block(self, stmts):
        out = []
        for st in stmts:
            self.stmt(st, out)
        return ('seq', out)

    def stmt(self, st, out):
        line = getattr(st, 'lineno', 0)
        try:
            text = ast.unparse(st)
        except Exception:   # noqa
            text = ''
        if (self.fn.name, text) in WAIVERS:
            tmp = []
            self.stmt0(st, tmp)
            out.extend(strip_writes(x) for x in tmp)
            self.world.setdefault('waived', []).append((self.fn.qual, line, text, WAIVERS[(self.fn.name, text)]))
            return
        self.stmt0(st, out)

    def stmt0(self, st, out):
        line = getattr(st, 'lineno', 0)
        if isinstance(st, ast.Expr):
            if isinstance(st.value, ast.Constant):
                return
            v = self.ev(st.value, out)
            return
        if isinstance(st, ast.Assign):
            val = self.ev(st.value, out, raw=True)
            for t in st.targets:
                self.assign(t, val, out, line, st.value)
            return
        if isinstance(st, ast.AnnAssign):
            if st.value is not None:
                self.assign(st.target, self.ev(st.value, out), out, line, st.value)
            return
        if isinstance(st, ast.AugAssign):
            val = self.ev(st.value, out)
            t = st.target
            if isinstance(t, ast.Name) and t.id in self.scalars:
                pass        # a counter / scalar accumulator: rebinding, the value stays a scalar
            elif isinstance(t, ast.Name):
                # in place for arrays (and lists): a write through the name
                out.append(('write', t.id, line, None))
                if t.id not in self.arrays:
                    # `A *= 2` on a sparse matrix / `A += B`: modifies the arrays A holds
                    out.append(('write', cont(t.id), line, None))
                self.store_into(out, ({t.id}, set()), val)
            elif isinstance(t, ast.Subscript):
                self.ev_index(t.slice, out)
                tv = self.ev(t.value, out)
                self.write_through(out, tv[0], line)
                # the element itself may be an array updated in place (d[k] += v)
                self.write_through(out, tv[1], line)
                self.store_into(out, tv, val)
            elif isinstance(t, ast.Attribute):
                tv = self.ev(t, out)
                self.write_through(out, tv[0], line)
            else:
                out.append(('unknown', line, 'augmented assignment target'))
            return
        if isinstance(st, ast.Return):
            if st.value is not None:
                v = self.ev(st.value, out)
                if self.want_ret == 'pos':
                    # a registered body: which objects the returned `params` (second element) may be
                    if isinstance(st.value, ast.Tuple) and len(st.value.elts) == 2:
                        pv = self.ev(st.value.elts[1], [])
                        src = pv[0]
                    else:
                        src = v[0] | v[1]
                    t = self.fresh_tmp()
                    self.bind(out, t, src)
                    out.append(('retwrite', t, line, 'R1'))
                elif self.want_ret:
                    # the returned object (and, separately, what it holds)
                    t = self.fresh_tmp()
                    self.bind(out, t, v[0])
                    out.append(('retwrite', t, line, 'A'))
                    t2 = self.fresh_tmp()
                    self.bind(out, t2, v[1])
                    out.append(('retwrite', t2, line, 'AC'))
                    if self.fn.ret2:
                        # every return is `a, b`: which objects the second element may be
                        pv = self.ev(st.value.elts[1], []) if isinstance(st.value, ast.Tuple) and len(st.value.elts) == 2 \
                            else (v[0] | v[1], set())
                        t3 = self.fresh_tmp()
                        self.bind(out, t3, pv[0])
                        out.append(('retwrite', t3, line, 'P1'))
            return
        if isinstance(st, (ast.Pass, ast.Import, ast.ImportFrom)):
            return
        if isinstance(st, ast.Raise):
            if st.exc is not None:
                self.ev(st.exc, out)
            return
        if isinstance(st, ast.Assert):
            self.ev(st.test, out)
            return
        if isinstance(st, ast.Delete):
            for t in st.targets:
                if isinstance(t, ast.Subscript):
                    tv = self.ev(t.value, out)
                    self.write_through(out, tv[0], line)
                elif not isinstance(t, ast.Name):
                    out.append(('unknown', line, 'del target'))
            return
        if isinstance(st, ast.If):
            self.ev(st.test, out)
            saved = dict(self.cvars)
            a = self.block(st.body)
            ca = self.cvars
            self.cvars = dict(saved)
            b = self.block(st.orelse)
            cb = self.cvars
            merged = {}
            for k, v in ca.items():
                w = cb.get(k)
                if isinstance(v, list) and isinstance(w, list):
                    merged[k] = v + [x for x in w if x not in v]
            self.cvars = merged
            out.append(('if', a, b))
            return
        if isinstance(st, (ast.For, ast.While)):
            body_out = []
            if isinstance(st, ast.For):
                itv = self.ev(st.iter, out)
                self.assign(st.target, self.elem(itv), body_out, line)
            else:
                self.ev(st.test, body_out)
            saved = dict(self.cvars)
            for s2 in st.body:
                self.stmt(s2, body_out)
            self.cvars = {k: v for k, v in self.cvars.items() if saved.get(k) == v}
            out.append(('loop', ('seq', body_out)))
            if st.orelse:
                out.append(self.block(st.orelse))
            return
        if isinstance(st, ast.Break):
            out.append(('break',))
            return
        if isinstance(st, ast.Continue):
            out.append(('continue',))
            return
        if isinstance(st, ast.With):
            for it in st.items:
                v = self.ev(it.context_expr, out)
                if it.optional_vars is not None:
                    self.assign(it.optional_vars, v, out, line)
            out.append(self.block(st.body))
            return
        if isinstance(st, ast.Try):
            a = self.block(list(st.body))
            hs = ('seq', [])
            for h in st.handlers:
                hb = []
                if h.name:
                    self.bind_val(hb, h.name, (set(), set()))
                for s2 in h.body:
                    self.stmt(s2, hb)
                hs = ('if', ('seq', hb), hs)
            out.append(('if', ('seq', [a, self.block(st.orelse)]), ('seq', [weaken(a), hs])))
            out.append(self.block(st.finalbody))
            return
        if isinstance(st, ast.FunctionDef):
            # a nested function (the `inner` wrappers of the decorators): its body is analysed in place, as if it
            # may run any number of times, with every parameter of it unknown (caller-owned)
            body = []
            a = st.args
            for x in a.posonlyargs + a.args + a.kwonlyargs + ([a.vararg] if a.vararg else []) + ([a.kwarg] if a.kwarg else []):
                self.locals.add(x.arg)
                body.append(('bind', x.arg, ('unknown',)))
                body.append(('bind', cont(x.arg), ('unknown',)))
            for node in ast.walk(st):
                if isinstance(node, ast.Name) and isinstance(node.ctx, ast.Store):
                    self.locals.add(node.id)
            saved_ret = self.want_ret
            self.want_ret = False
            for s2 in _body(st):
                self.stmt(s2, body)
            self.want_ret = saved_ret
            out.append(('loop', ('seq', body)))
            self.locals.add(st.name)
            self.bind_val(out, st.name, (set(), set()))
            # calling it adds nothing: its body was analysed above with every parameter unknown (so any write
            # through a parameter is already rejected); the result may be any of its arguments
            self.cvars[st.name] = ['registered']
            return
        if isinstance(st, (ast.Global, ast.Nonlocal, ast.ClassDef)):
            out.append(('unknown', line, type(st).__name__))
            return
        out.append(('unknown', line, type(st).__name__))


SCALAR_CALLS = {'len', 'int', 'float', 'ceil', 'floor', 'abs', 'round', 'max', 'min', 'bool', 'sqrt', 'log10',
                'log', 'exp'}


def doc_scalars(fn):
    """parameters documented (numpydoc) as plain int / float / bool / str"""
    doc = ast.get_docstring(fn.node) or ''
    res = set()
    import re
    for m in re.finditer(r'^\s*([A-Za-z_][\w, ]*?)\s+:\s+(.+)$', doc, re.M):
        ty = m.group(2).strip().lower()
        if re.match(r'^(int|float|bool|str)\b', ty) and not re.search(r'array|sequence|container|list|tuple|iterable|callable|dict', ty):
            for nm in m.group(1).split(','):
                res.add(nm.strip())
    return res


def doc_plain(fn):
    """parameters documented (numpydoc) as arrays or scalars and not as dict/sequence of objects: such an object
    holds no other caller-owned objects, so only the object itself is tracked"""
    doc = ast.get_docstring(fn.node) or ''
    res = set()
    import re
    for m in re.finditer(r'^\s*([A-Za-z_][\w, ]*?)\s+:\s+(.+)$', doc, re.M):
        ty = m.group(2).strip().lower()
        if re.search(r'dict|callable|list of|sequence\[(array|numpy)', ty):
            continue
        if re.match(r'^(array|numpy\.ndarray|int|float|bool|str|scalar|\{|sequence|container|tuple|none)', ty):
            for nm in m.group(1).split(','):
                res.add(nm.strip())
    return res


def scalar_names(fn):
    """names that only ever hold Python/NumPy scalars: numeric-default or scalar-documented parameters, loop
    counters over range(), names assigned only from scalar expressions.  `name += ...` on these is a rebinding."""
    sc = set()
    docs = doc_scalars(fn)
    for p in fn.all_params:
        d = fn.defaults.get(p)
        if p in docs and (d is None or isinstance(d, ast.Constant) or isinstance(d, (ast.BinOp, ast.UnaryOp))):
            sc.add(p)
    assigns = {}
    for node in ast.walk(fn.node):
        if isinstance(node, ast.Assign):
            for t in node.targets:
                if isinstance(t, ast.Name):
                    assigns.setdefault(t.id, []).append(node.value)
                elif isinstance(t, (ast.Tuple, ast.List)):
                    for el in ast.walk(t):
                        if isinstance(el, ast.Name):
                            if isinstance(node.value, (ast.Tuple, ast.List)) and len(node.value.elts) == len(t.elts) \
                                    and el in t.elts:
                                assigns.setdefault(el.id, []).append(node.value.elts[t.elts.index(el)])
                            else:
                                assigns.setdefault(el.id, []).append(None)
        elif isinstance(node, ast.AugAssign) and isinstance(node.target, ast.Name):
            assigns.setdefault(node.target.id, [])
        elif isinstance(node, ast.For):
            it = node.iter
            if isinstance(node.target, ast.Name):
                ok = isinstance(it, ast.Call) and isinstance(it.func, ast.Name) and it.func.id in ('range', 'prange')
                assigns.setdefault(node.target.id, []).append(ast.Constant(0) if ok else None)
            else:
                for k, el in enumerate(getattr(node.target, 'elts', [])):
                    ok = k == 0 and isinstance(it, ast.Call) and isinstance(it.func, ast.Name) and it.func.id == 'enumerate'
                    for nm in ast.walk(el):
                        if isinstance(nm, ast.Name):
                            assigns.setdefault(nm.id, []).append(ast.Constant(0) if ok else None)
        elif isinstance(node, (ast.With, ast.comprehension, ast.ExceptHandler, ast.NamedExpr)):
            for nm in ast.walk(node):
                if isinstance(nm, ast.Name) and isinstance(nm.ctx, ast.Store):
                    assigns.setdefault(nm.id, []).append(None)

    def is_sc(e, sc):
        if e is None:
            return False
        if isinstance(e, ast.Constant):
            return isinstance(e.value, (int, float, bool)) or e.value is None
        if isinstance(e, ast.Name):
            return e.id in sc
        if isinstance(e, ast.BinOp):
            return is_sc(e.left, sc) and is_sc(e.right, sc)
        if isinstance(e, ast.UnaryOp):
            return is_sc(e.operand, sc)
        if isinstance(e, ast.Compare):
            return True
        if isinstance(e, ast.IfExp):
            return is_sc(e.body, sc) and is_sc(e.orelse, sc)
        if isinstance(e, ast.Call):
            f = e.func
            nm = f.id if isinstance(f, ast.Name) else (f.attr if isinstance(f, ast.Attribute) else None)
            if nm in SCALAR_CALLS:
                return True
            if nm in ('spacing',) and all(is_sc(a, sc) for a in e.args):
                return True
            return False
        if isinstance(e, ast.Attribute):
            return e.attr in ('size', 'ndim', 'itemsize')
        if isinstance(e, ast.Subscript):
            v = e.value
            return isinstance(v, ast.Attribute) and v.attr == 'shape'
        return False
    changed = True
    while changed:
        changed = False
        for nm, vals in assigns.items():
            if nm in sc or nm in fn.all_params:
                continue
            if vals and all(is_sc(v, sc) for v in vals):
                sc.add(nm)
                changed = True
    return sc


def array_names(fn, tr):
    """local names whose every binding is a NumPy/SciPy array expression (external call that is not a holder,
    arithmetic, comparison): storing into them copies values, they contain no objects"""
    assigns = {}
    bad = set(fn.all_params)
    for node in ast.walk(fn.node):
        if isinstance(node, ast.Assign):
            for t in node.targets:
                if isinstance(t, ast.Name):
                    assigns.setdefault(t.id, []).append(node.value)
                else:
                    for el in ast.walk(t):
                        if isinstance(el, ast.Name) and isinstance(el.ctx, ast.Store):
                            bad.add(el.id)
        elif isinstance(node, (ast.For, ast.With, ast.comprehension, ast.ExceptHandler, ast.NamedExpr, ast.AnnAssign)):
            tg = getattr(node, 'target', None)
            for el in ast.walk(tg) if tg is not None else []:
                if isinstance(el, ast.Name):
                    bad.add(el.id)
            if isinstance(node, ast.With):
                for it in node.items:
                    if it.optional_vars is not None:
                        for el in ast.walk(it.optional_vars):
                            if isinstance(el, ast.Name):
                                bad.add(el.id)

    def is_arr(e):
        if isinstance(e, (ast.BinOp, ast.UnaryOp, ast.Compare)):
            return True
        if isinstance(e, ast.Call):
            f = e.func
            if isinstance(f, ast.Attribute) and tr.is_external_attr(f):
                return f.attr not in HOLDER_FUNCS and not f.attr[:1].isupper() and f.attr not in VIEW_FUNCS | {'array'}
            if isinstance(f, ast.Name) and f.id in tr.ext and f.id not in tr.locals:
                return f.id not in HOLDER_FUNCS and not f.id[:1].isupper() and f.id not in VIEW_FUNCS
        return False
    return {nm for nm, vals in assigns.items() if nm not in bad and vals and all(is_arr(v) for v in vals)}


def strip_writes(ir):
    k = ir[0]
    if k == 'write':
        return ('seq', [])
    if k == 'seq':
        return ('seq', [strip_writes(s) for s in ir[1]])
    if k == 'if':
        return ('if', strip_writes(ir[1]), strip_writes(ir[2]))
    if k == 'loop':
        return ('loop', strip_writes(ir[1]))
    return ir


def weaken(ir):
    """every statement may or may not have happened (the state at the point an exception was raised)"""
    k = ir[0]
    if k == 'seq':
        return ('seq', [weaken(s) for s in ir[1]])
    if k == 'if':
        return ('if', weaken(ir[1]), weaken(ir[2]))
    if k == 'loop':
        return ('loop', weaken(ir[1]))
    if k in ('break', 'continue'):
        return ir
    return ('if', ir, ('seq', []))


# -------------------------------------------------------------------- the analysis (Python twin of Writes.analyse,
# over sets of sources instead of one taint bit; used only to compute the helper summaries that the Coq checker
# then re-checks)
def run_ir(ir, env, acc):
    """env: name -> frozenset(sources).  Returns (N, B, C) environments (None = unreachable)."""
    k = ir[0]
    if k == 'seq':
        cur, B, C = env, None, None
        for s in ir[1]:
            if cur is None:
                break
            cur, b, c = run_ir(s, cur, acc)
            B, C = join_env(B, b), join_env(C, c)
        return cur, B, C
    if k == 'bind':
        rhs = ir[2]
        e2 = dict(env)
        if rhs[0] == 'fresh':
            e2[ir[1]] = frozenset()
        elif rhs[0] == 'alias':
            e2[ir[1]] = frozenset().union(*[env.get(s, frozenset()) for s in rhs[1]]) if rhs[1] else frozenset()
        elif rhs[0] in ('setupw', 'setupkw'):
            copies = rhs[1]
            e2[ir[1]] = frozenset() if copies else \
                (frozenset().union(*[env.get(s, frozenset()) for s in rhs[2]]) if rhs[2] else frozenset())
        else:
            e2[ir[1]] = frozenset(['%unknown'])
        return e2, None, None
    if k == 'write':
        for s in env.get(ir[1], frozenset()):
            acc['W'].add((s, ir[3]))
        return env, None, None
    if k == 'retwrite':
        acc.setdefault(ir[3], set()).update(env.get(ir[1], frozenset()))
        return env, None, None
    if k == 'assertfresh':
        if env.get(ir[1]):
            acc.setdefault('AF', set()).add(ir[3])
        return env, None, None
    if k == 'if':
        n1, b1, c1 = run_ir(ir[1], env, acc)
        n2, b2, c2 = run_ir(ir[2], env, acc)
        return join_env(n1, n2), join_env(b1, b2), join_env(c1, c2)
    if k == 'loop':
        inv = env
        for _ in range(50):
            n, b, c = run_ir(ir[1], inv, {'W': set(), 'A': set(), 'AC': set(), 'AF': acc.setdefault('AF', set())})
            new = join_env(inv, join_env(n, c))
            if new == inv:
                break
            inv = new
        n, b, c = run_ir(ir[1], inv, acc)
        return join_env(inv, b), None, None
    if k == 'break':
        return None, env, None
    if k == 'continue':
        return None, None, env
    if k == 'unknown':
        acc['W'].add(('%unknown', None))
        return env, None, None
    if k == 'note':
        return env, None, None
    raise TranslateError(f'bad ir {k}')


def join_env(a, b):
    if a is None:
        return b
    if b is None:
        return a
    out = dict(a)
    for k, v in b.items():
        out[k] = out.get(k, frozenset()) | v
    return out


# -------------------------------------------------------------------- Coq emission
def q(s):
    return '"' + s.replace('"', "'") + '"'


def coq_rhs(r):
    if r[0] == 'fresh':
        return 'RFresh'
    if r[0] == 'alias':
        return 'RAlias [' + '; '.join(q(s) for s in r[1]) + ']' if r[1] else 'RFresh'
    if r[0] == 'setupw':
        return f'RSetupW {"true" if r[1] else "false"} [' + '; '.join(q(s) for s in r[2]) + ']'
    if r[0] == 'setupkw':
        return f'RSetupKw {"true" if r[1] else "false"} [' + '; '.join(q(s) for s in r[2]) + ']'
    return 'RUnknown'


def coq_stmt(ir, mode):
    """mode 'w': real writes only; mode 'A' / 'AC': only the pseudo-writes of returned objects."""
    k = ir[0]
    if k == 'seq':
        parts = [coq_stmt(s, mode) for s in ir[1]]
        parts = [p for p in parts if p != 'SSkip']
        if not parts:
            return 'SSkip'
        res = parts[-1]
        for p in reversed(parts[:-1]):
            res = f'SSeq ({p}) ({res})'
        return res
    if k == 'bind':
        return f'SBind {q(ir[1])} ({coq_rhs(ir[2])})'
    if k == 'write':
        return f'SWrite {q(ir[1])} {ir[2]}' if mode == 'w' else 'SSkip'
    if k == 'retwrite':
        return f'SWrite {q(ir[1])} {ir[2]}' if mode == ir[3] else 'SSkip'
    if k == 'assertfresh':
        return f'SWrite {q(ir[1])} {ir[2]}' if mode == 'w' else 'SSkip'
    if k == 'if':
        a, b = coq_stmt(ir[1], mode), coq_stmt(ir[2], mode)
        if a == 'SSkip' and b == 'SSkip':
            return 'SSkip'
        return f'SIf ({a}) ({b})'
    if k == 'loop':
        b = coq_stmt(ir[1], mode)
        return 'SSkip' if b == 'SSkip' else f'SLoop ({b})'
    if k == 'break':
        return 'SBreak'
    if k == 'continue':
        return 'SContinue'
    if k == 'unknown':
        return f'SUnknown {ir[1]}'
    if k == 'note':
        return 'SSkip'
    raise TranslateError(f'bad ir {k}')


def count_ir(ir, kinds):
    k = ir[0]
    n = 1 if k in kinds else 0
    if k == 'seq':
        n += sum(count_ir(s, kinds) for s in ir[1])
    elif k == 'if':
        n += count_ir(ir[1], kinds) + count_ir(ir[2], kinds)
    elif k == 'loop':
        n += count_ir(ir[1], kinds)
    return n


def analyse_all(repo):
    fns, imports = load(repo)
    world = {'imports': imports, 'funcs': {}, 'methods': {}, 'classes': set()}
    for fn in fns:
        if fn.cls is None:
            world['funcs'].setdefault(fn.name, []).append(fn)
        else:
            world['methods'].setdefault(fn.name, []).append(fn)
            world['classes'].add(fn.cls)
    registered = [fn for fn in fns if fn.registered]
    if len(registered) < 90:
        raise TranslateError(f'only {len(registered)} registered method bodies found (expected 95)')
    helpers = [fn for fn in fns if not fn.registered]
    world['registered'] = registered
    world['one_d_imports_two_d'] = [m for m in ONE_D_IMPORTS_TWO_D if m not in ('api',)]
    # candidate persistent attributes: every attribute name that is ever assigned (obj.attr = ...)
    cand = set()
    for fn in fns:
        for node in ast.walk(fn.node):
            if isinstance(node, ast.Attribute) and isinstance(node.ctx, ast.Store):
                cand.add(node.attr)
    world['fresh_attrs'] = set(cand) | {a + '.*' for a in cand}
    # greatest fixpoint: drop an attribute as soon as one of its bindings may hold a caller-owned buffer
    for outer in range(40):
        failed = analyse_round(world, registered, helpers)
        if not failed:
            break
        world['fresh_attrs'] -= failed
    else:
        raise TranslateError('persistent-attribute classification did not stabilise')
    world['all_attrs'] = cand
    LAST_WORLD[0] = world
    del WORLD_WAIVED[:]
    WORLD_WAIVED.extend(sorted(set(world['waived'])))
    WORLD_INFO.clear()
    WORLD_INFO.update({'fresh_attrs': sorted(world['fresh_attrs']), 'caller_attrs': sorted((cand | {a + '.*' for a in cand}) - world['fresh_attrs'])})
    return fns, registered, helpers


def self_attrs(fn):
    return sorted({n.attr for n in ast.walk(fn.node) if isinstance(n, ast.Attribute)
                   and isinstance(n.value, ast.Name) and n.value.id == 'self'})


def entry_env(fn, world):
    """what every name may denote when the function is entered: parameters are their own sources (registered
    bodies: the caller's objects); persistent attributes not proven fresh, and whatever any attribute holds, are
    'self.*' (possibly caller-owned: stored by an earlier call)"""
    env = {}
    plain = doc_plain(fn) if fn.registered else set()
    for p in fn.all_params:
        if p == 'self' and fn.registered:
            continue
        env[p] = frozenset([p])
        if p not in plain:
            env[cont(p)] = frozenset([cont(p)])
    env['self.*'] = frozenset(['self.*'])
    for a in self_attrs(fn):
        if a not in world['fresh_attrs']:
            env['self.' + a] = frozenset(['self.*'])
        if a + '.*' not in world['fresh_attrs']:
            env['self.' + a + '.*'] = frozenset(['self.*'])
    return env


def analyse_round(world, registered, helpers):
    failed = set()
    world['waived'] = []
    world['reg_ready'] = False
    for fn in helpers:
        fn.W, fn.A, fn.AC, fn.P1 = set(), set(), set(), set()
        fn.callable_params = set()

    def helper_pass(fns):
        changed = False
        for fn in fns:
            tr = Tr(fn, world, True)
            ir = tr.block(_body(fn.node))
            acc = {'W': set(), 'A': set(), 'AC': set(), 'AF': set()}
            run_ir(ir, entry_env(fn, world), acc)
            W = {(s, c) for s, c in acc['W']}
            # an unconditional write subsumes conditional ones
            W = {(s, c) for s, c in W if c is None or (s, None) not in W}
            if W != fn.W or acc['A'] != fn.A or acc['AC'] != fn.AC or acc.get('P1', set()) != fn.P1:
                fn.W, fn.A, fn.AC, fn.P1 = W, set(acc['A']), set(acc['AC']), set(acc.get('P1', set()))
                changed = True
            fn.ir = ir
            fn.AF = set(acc['AF'])
        return changed
    # fixpoint over the helper summaries
    for rnd in range(14):
        if not helper_pass(helpers):
            break
    else:
        raise TranslateError('helper summaries did not stabilise')
    for fn in registered:
        tr = Tr(fn, world, 'pos')
        fn.ir = tr.block(_body(fn.node))
        acc = {'W': set(), 'A': set(), 'AC': set(), 'AF': set(), 'R1': set()}
        run_ir(fn.ir, entry_env(fn, world), acc)
        fn.R1 = set(acc['R1'])
        fn.AF = set(acc['AF'])
        fn.Wreg = set(acc['W'])
    # the decorators call the registered bodies: translate them again now that the R1 summaries exist
    world['reg_ready'] = True
    helper_pass([fn for fn in helpers if fn.name == '_register'])
    for fn in registered + helpers:
        failed |= fn.AF
    return failed


def _body(node):
    body = list(node.body)
    if body and isinstance(body[0], ast.Expr) and isinstance(body[0].value, ast.Constant) \
            and isinstance(body[0].value.value, str):
        body = body[1:]
    return body


def gen(repo):
    fns, registered, helpers = analyse_all(repo)
    world = LAST_WORLD[0]
    lines = ['(* GENERATED by tools/gen_writes.py from the current source -- do not edit. *)',
             'From Coq Require Import List String.',
             'From PB Require Import C13.Model C13.Writes.',
             'Import ListNotations.',
             'Open Scope string_scope.',
             '']
    names = []
    wnames = []
    nwrites = 0
    # every persistent name that may denote a caller-owned object when a call starts
    cn = set(['self.*'])
    for fn in fns:
        cn |= {n for n, src in entry_env(fn, world).items() if n.startswith('self.') and src}
    cn = sorted(cn)
    lines.append('(* persistent names (attributes of `self`, and what they hold) that may denote caller-owned objects across')
    lines.append('   calls; every write-site body treats all of them that it mentions as caller-owned on entry *)')
    lines.append('Definition caller_names : list name := [' + '; '.join(q(n) for n in cn) + '].')
    lines.append('')

    def emit(ident, label, tainted, code, write_body=False):
        if not write_body and not tainted and 'SUnknown' not in code and 'RUnknown' not in code:
            return      # nothing can be tainted: trivially accepted
        tl = '[' + '; '.join(q(t) for t in tainted) + ']'
        if write_body:
            wnames.append(ident)
        else:
            names.append(ident)
        lines.append(f'Definition {ident} : body := {{| b_name := {q(label)}; b_tainted := {tl}; b_code := {code} |}}.')

    def tainted_of(fn, claimed):
        env = entry_env(fn, world)
        return sorted(n for n, src in env.items() if src and not src <= claimed)

    # registered method bodies: every parameter (and what it holds) is the caller's; so is every persistent
    # attribute of the fitter that is not proven fresh (self.x, self.z, ...) and whatever any attribute holds
    known_bad = []
    for i, fn in enumerate(registered):
        nwrites += count_ir(fn.ir, ('write',))
        emit(f'm{i}', fn.qual, tainted_of(fn, frozenset()), coq_stmt(fn.ir, 'w'), True)
        if fn.qual in KNOWN_FINDING_BODIES and fn.Wreg:
            known_bad.append(wnames.pop())
        # the `params` object a body returns: claimed sources, re-checked
        code = coq_stmt(fn.ir, 'R1')
        if code != 'SSkip':
            emit(f'm{i}r', fn.qual + ' [returned params object is only ' + ','.join(sorted(fn.R1)) + ']',
                 tainted_of(fn, frozenset(fn.R1)), code)
    # helpers: claimed summaries, re-checked: nothing outside the claimed sources is written / returned
    for i, fn in enumerate(helpers):
        if any(s == '%unknown' for s, _ in fn.W):
            emit(f'h{i}w', fn.qual + ' [unrecognised statement or write through an unknown (caller-owned) object]', tainted_of(fn, frozenset()), coq_stmt(fn.ir, 'w'), True)
            continue
        wsrc = frozenset(s for s, _ in fn.W)
        code = coq_stmt(fn.ir, 'w')
        if code != 'SSkip' and count_ir(fn.ir, ('write', 'unknown', 'assertfresh')):
            emit(f'h{i}w', fn.qual + ' [writes only ' + ','.join(sorted(wsrc)) + ']', tainted_of(fn, wsrc), code,
                 'self.*' not in wsrc)
            nwrites += count_ir(fn.ir, ('write',))
        for mode, claimed in (('A', fn.A), ('AC', fn.AC)) + ((('P1', fn.P1),) if fn.ret2 else ()):
            code = coq_stmt(fn.ir, mode)
            if code != 'SSkip' and count_ir(fn.ir, ('retwrite',)):
                emit(f'h{i}{mode.lower()}', fn.qual + f' [returns{" containers of" if mode == "AC" else (" as 2nd element" if mode == "P1" else "")} only '
                     + ','.join(sorted(claimed)) + ']', tainted_of(fn, frozenset(claimed) | {'%unknown'}), code)
    lines.append('')
    lines.append('(* the write-site bodies: registered methods, helpers, decorator closures *)')
    lines.append('Definition write_bodies : list body := [' + '; '.join(wnames) + '].')
    lines.append('(* re-checks of the claimed return summaries (and of helpers that claim to write through what self holds) *)')
    lines.append('Definition summary_bodies : list body := [' + '; '.join(names) + '].')
    lines.append('Definition bodies : list body := write_bodies ++ summary_bodies.')
    lines.append('Definition known_bad : list body := [' + '; '.join(known_bad) + '].')
    lines.append('(* every registered method body with ALL of its parameters (self excluded): used to check that a call of a')
    lines.append('   registered method from another body (optimizers, decorator) needs no assumption on its arguments *)')
    lines.append('Definition registered_params : list (string * list name) := ['
                 + '; '.join('(' + q(fn.qual) + ', [' + '; '.join(q(p_) for p_ in fn.all_params if p_ != 'self') + '])'
                             for fn in registered if fn.qual not in KNOWN_FINDING_BODIES or not fn.Wreg) + '].')
    lines.append('(* LIBRARY TABLE (trusted): how NumPy / SciPy / stdlib callables are treated by the translator.')
    lines.append('   Anything not listed: a lower-case function returns a new array/scalar and writes none of its inputs unless')
    lines.append('   out=/output=/overwrite_* is given; a Capitalised callable is a constructor that may keep its arguments. *)')
    lines.append('Definition library_table : list (string * list string) := [')
    tab = [('returns a view of / the object given as FIRST argument', sorted(FIRST_ARG_VIEW_FUNCS)),
           ('may return a view of ANY argument', sorted(VIEW_FUNCS - FIRST_ARG_VIEW_FUNCS)),
           ('result may KEEP A REFERENCE to its array arguments (contents alias the arguments)', sorted(HOLDER_FUNCS)),
           ('copies its array arguments (result is new)', sorted(COPYING_FUNCS)),
           ('writes its first argument in place', sorted(INPLACE_FUNCS)),
           ('method: modifies the receiver object', sorted(INPLACE_METHODS)),
           ('method: also writes the arrays the receiver was built from', sorted(DEEP_INPLACE_METHODS)),
           ('method: stores its arguments in the receiver', sorted(STORING_METHODS)),
           ('method: may return a view / element of the receiver', sorted(VIEW_METHODS)),
           ('method: returns a new object holding the same elements', sorted(SHALLOW_COPY_METHODS)),
           ('overwrite_* flag -> positional argument written', sorted(f'{k}:{a}->{p}' for k, d in OVERWRITE_ARGS.items() for a, p in d.items()))]
    lines.append(';\n'.join('  (' + q(k) + ', [' + '; '.join(q(x) for x in v) + '])' for k, v in tab))
    lines.append('].')
    lines.append('(* attributes (obj.attr = ...) proven to hold only library-allocated buffers at every binding: *)')
    lines.append('Definition fresh_attrs : list string := [' + '; '.join(q(a) for a in WORLD_INFO['fresh_attrs']) + '].')
    lines.append('(* attributes that may hold a caller-owned buffer across calls: treated as caller-owned in every body *)')
    lines.append('Definition caller_attrs : list string := [' + '; '.join(q(a) for a in WORLD_INFO['caller_attrs']) + '].')
    lines.append('(* hand-reviewed statements whose writes are waived (tools/gen_writes.py WAIVERS):')
    for w in WORLD_WAIVED:
        lines.append(f'   {w[0]}:{w[1]}: {w[2]}  -- {w[3]}')
    lines.append('*)')
    lines.append(f'Definition n_registered := {len(registered)}.')
    lines.append(f'Definition n_helpers := {len(helpers)}.')
    lines.append(f'Definition n_write_sites := {nwrites}.')
    # the summaries in readable form
    lines.append('(* helper summaries used at call sites (source, condition flag):')
    for fn in helpers:
        if fn.W:
            lines.append(f'   {fn.qual}: writes {sorted(fn.W, key=str)}')
    lines.append('*)')
    return '\n'.join(lines) + '\n'


GENERATORS = {'GenWrites': gen}
