#!/usr/bin/env python3
"""GenBandPurity: the functions of pybaselines/_banded_utils.py that the C11 models transcribe are
PLAIN functions of their arguments (fail-closed).

The C11 development models diff_penalty_diagonals, difference_matrix, diff_penalty_matrix, the band
helpers and PenalizedSystem as functions whose every call computes a NEW result from the arguments (and,
for methods, the object's own attributes).  That reading is wrong as soon as results are cached or shared
between calls, so this generator REFUSES
  * any decorator on a function or method of the module (functools.lru_cache / cache, memoizers ...),
  * module-level state: any module-level statement that is not the docstring, an import, a function or a
    class definition (an assignment of an immutable literal is tolerated),
  * `global` / `nonlocal` statements, mutable default arguments (list / dict / set displays or calls),
  * class-level assignments in the classes of the module (shared mutable class attributes),
  * the wrapper pybaselines.utils.difference_matrix being decorated or not forwarding to _banded_utils,
and otherwise emits the list of the module's functions and methods (recorded in the evidence)."""
import ast
import os

from trlib import TranslateError, _parse

REL = os.path.join('pybaselines', '_banded_utils.py')
IMMUTABLE = (int, float, str, bytes, bool, type(None), complex)


def _immutable_literal(node):
    if isinstance(node, ast.Constant):
        return isinstance(node.value, IMMUTABLE)
    if isinstance(node, ast.UnaryOp) and isinstance(node.op, (ast.USub, ast.UAdd)):
        return _immutable_literal(node.operand)
    if isinstance(node, ast.Tuple):
        return all(_immutable_literal(e) for e in node.elts)
    return False


def _check_function(fn, where):
    if fn.decorator_list:
        raise TranslateError(f'{where}: decorated with {", ".join(ast.unparse(d) for d in fn.decorator_list)} '
                             '(results may be cached / shared between calls)')
    for d in list(fn.args.defaults) + [d for d in fn.args.kw_defaults if d is not None]:
        if isinstance(d, (ast.List, ast.Dict, ast.Set, ast.ListComp, ast.DictComp, ast.SetComp, ast.Call)):
            raise TranslateError(f'{where}: mutable default argument {ast.unparse(d)}')
    for n in ast.walk(fn):
        if isinstance(n, (ast.Global, ast.Nonlocal)):
            raise TranslateError(f'{where}: {ast.unparse(n)}')
        if isinstance(n, ast.FunctionDef) and n is not fn and n.decorator_list:
            raise TranslateError(f'{where}: decorated inner function {n.name}')
        # function attributes used as a cache: f.attr = ... / f.attr[...] = ...
        if isinstance(n, (ast.Assign, ast.AugAssign)):
            for t in (n.targets if isinstance(n, ast.Assign) else [n.target]):
                base = t
                while isinstance(base, (ast.Subscript, ast.Attribute)):
                    base = base.value
                if isinstance(base, ast.Name) and base.id == fn.name:
                    raise TranslateError(f'{where}: stores state on the function object ({ast.unparse(t)})')


def gen_band_purity(repo=None):
    tree, _ = _parse(REL, repo)
    names = []
    for k, st in enumerate(tree.body):
        if k == 0 and isinstance(st, ast.Expr) and isinstance(st.value, ast.Constant) and isinstance(st.value.value, str):
            continue
        if isinstance(st, (ast.Import, ast.ImportFrom)):
            for a in st.names:
                if (getattr(st, 'module', None) or a.name).split('.')[0] == 'functools' or a.name in ('lru_cache', 'cache', 'cached_property'):
                    raise TranslateError(f'_banded_utils imports {ast.unparse(st)} (caching)')
            continue
        if isinstance(st, ast.FunctionDef):
            _check_function(st, f'_banded_utils.{st.name}')
            names.append(st.name)
            continue
        if isinstance(st, ast.ClassDef):
            if st.decorator_list:
                raise TranslateError(f'_banded_utils.{st.name}: decorated class')
            for c in st.body:
                if isinstance(c, ast.Expr) and isinstance(c.value, ast.Constant) and isinstance(c.value.value, str):
                    continue
                if isinstance(c, ast.FunctionDef):
                    _check_function(c, f'_banded_utils.{st.name}.{c.name}')
                    names.append(f'{st.name}.{c.name}')
                    continue
                raise TranslateError(f'_banded_utils.{st.name}: class-level statement {ast.unparse(c)[:80]} (shared state)')
            continue
        if isinstance(st, (ast.Assign, ast.AnnAssign)) and st.value is not None and _immutable_literal(st.value):
            continue
        raise TranslateError(f'_banded_utils: module-level statement `{ast.unparse(st)[:80]}` (module-level mutable state)')
    for need in ('difference_matrix', 'diff_penalty_diagonals', 'diff_penalty_matrix', '_lower_to_full', '_shift_rows',
                 '_pad_diagonals', '_add_diagonals', '_sparse_to_banded', '_diff_1_diags', '_diff_2_diags', '_diff_3_diags',
                 'PenalizedSystem.reset_diagonals', 'PenalizedSystem.add_diagonal', 'PenalizedSystem.add_penalty',
                 'PenalizedSystem.reverse_penalty', 'PenalizedSystem._update_bands'):
        if need not in names:
            raise TranslateError(f'_banded_utils.{need} not found')
    # the public wrapper
    utree, _ = _parse(os.path.join('pybaselines', 'utils.py'), repo)
    wrappers = [n for n in utree.body if isinstance(n, ast.FunctionDef) and n.name == 'difference_matrix']
    if len(wrappers) != 1:
        raise TranslateError('utils.difference_matrix not found')
    _check_function(wrappers[0], 'utils.difference_matrix')
    body = [s for s in wrappers[0].body if not (isinstance(s, ast.Expr) and isinstance(s.value, ast.Constant))]
    if not (len(body) == 1 and isinstance(body[0], ast.Return) and isinstance(body[0].value, ast.Call)
            and ast.unparse(body[0].value.func) == '_difference_matrix'):
        raise TranslateError('utils.difference_matrix does not simply forward to _banded_utils.difference_matrix')
    imp = [n for n in utree.body if isinstance(n, ast.ImportFrom) and n.module == '_banded_utils'
           and any(a.name == 'difference_matrix' and a.asname == '_difference_matrix' for a in n.names)]
    if not imp:
        raise TranslateError('utils._difference_matrix is not _banded_utils.difference_matrix')
    lines = ['(* Generated by tools/gen_band_purity.py from the current /repo source; do not edit. *)',
             'From Coq Require Import List String.',
             'Import ListNotations.',
             'Open Scope string_scope.',
             '',
             '(* functions and methods of pybaselines/_banded_utils.py: none is decorated, the module has no',
             '   module-level or class-level state, no global/nonlocal, no mutable default argument *)',
             'Definition banded_utils_plain_functions : list string := [' + '; '.join(f'"{n}"' for n in names) + '].']
    return '\n'.join(lines) + '\n'


GENERATORS = {'GenBandPurity': gen_band_purity}
