#!/usr/bin/env python3
"""GenLoops: the iteration loops of every registered method, as Coq data (fail-closed).

For every method decorated with `_register` whose body records a convergence history, the loop is
required to have the shape

    tol_history = np.empty(max_iter + ALLOC)            (or np.empty((max_iter + ALLOC, 2)))
    for i in range([START,] max_iter + STOP):
        ...
        [if exit_early: i -= DECR; break]
        ...
        tol_history[i + STORE] = ...
        if <c> < tol [and/or ...]: break
        ...
    ... tol_history[:i + SLICE] ...                       (the only slice of tol_history)

and (START, STOP, ALLOC, STORE, SLICE, has_early, DECR) is emitted.  Methods with a nested record
(2-D tol_history: brpls, pspline_brpls, goldindec) are emitted by name in GenLoops (the Coq side holds the
list of names it expects there) and, by the generator GenNested, with the parameters of their two-level
bookkeeping (see _nested_desc and coq/C01/Nested.v).  Anything else that stores into tol_history raises TranslateError.
"""
import ast
import os

from trlib import TranslateError, _parse, zlit

FILES = ['whittaker.py', 'spline.py', 'polynomial.py', 'morphological.py', 'smooth.py',
         'classification.py', 'misc.py', 'optimizers.py',
         'two_d/whittaker.py', 'two_d/spline.py', 'two_d/polynomial.py', 'two_d/morphological.py',
         'two_d/smooth.py', 'two_d/optimizers.py']
HIST = 'tol_history'


def _linear(node, var):
    """node = var + c | var - c | var | c  ->  (uses_var, c)"""
    if isinstance(node, ast.Name) and node.id == var:
        return True, 0
    if isinstance(node, ast.Constant) and isinstance(node.value, int) and not isinstance(node.value, bool):
        return False, node.value
    if isinstance(node, ast.BinOp) and isinstance(node.op, (ast.Add, ast.Sub)):
        ul, cl = _linear(node.left, var)
        ur, cr = _linear(node.right, var)
        if ur and isinstance(node.op, ast.Sub):
            raise TranslateError(f'negated loop variable in {ast.unparse(node)}')
        if ul and ur:
            raise TranslateError(f'non-linear expression {ast.unparse(node)}')
        return ul or ur, cl + cr if isinstance(node.op, ast.Add) else cl - cr
    raise TranslateError(f'unsupported index expression {ast.unparse(node)}')


def _is_hist(node):
    return isinstance(node, ast.Name) and node.id == HIST


def _stores(node):
    return [n for n in ast.walk(node) if isinstance(n, (ast.Assign, ast.AugAssign))
            and any(isinstance(t, ast.Subscript) and _is_hist(t.value)
                    for t in (n.targets if isinstance(n, ast.Assign) else [n.target]))]


def _method_loop(fn, where):
    allocs = [n for n in ast.walk(fn) if isinstance(n, ast.Assign)
              and any(_is_hist(t) for t in n.targets)]
    loops = [n for n in ast.walk(fn) if isinstance(n, ast.For) and _stores(n)]
    all_stores = _stores(fn)
    if not allocs and not all_stores:
        return None
    if len(allocs) != 1:
        raise TranslateError(f'{where}: {len(allocs)} allocations of {HIST}')
    alloc = allocs[0].value
    if not (isinstance(alloc, ast.Call) and ast.unparse(alloc.func) in ('np.empty', 'np.zeros')
            and len(alloc.args) == 1 and not alloc.keywords):
        raise TranslateError(f'{where}: unrecognised allocation {ast.unparse(alloc)}')
    shape = alloc.args[0]
    two_d = False
    if isinstance(shape, ast.Tuple):
        # (max_iter + c, 2): one record of pairs (jbcd); anything else is the nested record
        if len(shape.elts) == 2 and isinstance(shape.elts[1], ast.Constant):
            shape = shape.elts[0]
        else:
            two_d = True
    if two_d or len(loops) > 1:
        if not (two_d and len(loops) == 2):
            raise TranslateError(f'{where}: nested record with {len(loops)} loops / 2-D={two_d}')
        return 'nested'
    if len(loops) != 1:
        raise TranslateError(f'{where}: {HIST} is stored outside a for loop')
    loop = loops[0]
    if any(s not in _stores(loop) for s in all_stores):
        raise TranslateError(f'{where}: {HIST} is also stored outside the loop')
    if not (isinstance(loop.target, ast.Name) and not loop.orelse):
        raise TranslateError(f'{where}: loop target/else not recognised')
    var = loop.target.id
    it = loop.iter
    if not (isinstance(it, ast.Call) and isinstance(it.func, ast.Name) and it.func.id == 'range'
            and not it.keywords and len(it.args) in (1, 2)):
        raise TranslateError(f'{where}: loop iterable {ast.unparse(it)}')
    if len(it.args) == 1:
        start = 0
        stop_node = it.args[0]
    else:
        u, start = _linear(it.args[0], 'max_iter')
        if u:
            raise TranslateError(f'{where}: range start depends on max_iter')
        stop_node = it.args[1]
    u, stop = _linear(stop_node, 'max_iter')
    if not u:
        raise TranslateError(f'{where}: range stop {ast.unparse(stop_node)} does not depend on max_iter')
    u, alloc_off = _linear(shape, 'max_iter')
    if not u:
        raise TranslateError(f'{where}: allocation {ast.unparse(shape)} does not depend on max_iter')
    # the loop variable may only be re-assigned by the early-exit decrement
    early = False
    decr = 0
    store_offs = set()
    seen_store = False
    seen_test = False
    for st in loop.body:
        for n in ast.walk(st):
            if isinstance(n, (ast.Assign, ast.AugAssign, ast.For)):
                tg = n.targets if isinstance(n, ast.Assign) else [n.target]
                for t in tg:
                    if isinstance(t, ast.Name) and t.id == var and not (
                            isinstance(st, ast.If) and isinstance(st.test, ast.Name)
                            and st.test.id == 'exit_early'):
                        raise TranslateError(f'{where}: loop variable re-assigned')
        if isinstance(st, ast.If) and 'exit_early' in ast.unparse(st.test):
            if not (isinstance(st.test, ast.Name) and len(st.body) == 2 and not st.orelse
                    and isinstance(st.body[0], ast.AugAssign) and isinstance(st.body[0].op, ast.Sub)
                    and isinstance(st.body[0].target, ast.Name) and st.body[0].target.id == var
                    and isinstance(st.body[0].value, ast.Constant)
                    and isinstance(st.body[1], ast.Break)):
                raise TranslateError(f'{where}: early-exit block not recognised: {ast.unparse(st)[:80]}')
            if seen_store:
                raise TranslateError(f'{where}: early exit after the record was written')
            early = True
            decr = st.body[0].value.value
            continue
        sts = _stores(st)
        if sts:
            if not (isinstance(st, ast.Assign) and len(sts) == 1 and sts[0] is st):
                raise TranslateError(f'{where}: conditional or compound store into {HIST}')
            tgt = st.targets[0]
            u, off = _linear(tgt.slice, var)
            if not u:
                raise TranslateError(f'{where}: store index {ast.unparse(tgt.slice)}')
            store_offs.add(off)
            seen_store = True
            if seen_test:
                raise TranslateError(f'{where}: record written after the tolerance test')
            continue
        if any(isinstance(x, ast.Break) for x in ast.walk(st)):
            # the tolerance test: `if <name> < tol...: break` (possibly and/or of comparisons)
            if not (isinstance(st, ast.If) and not st.orelse and len(st.body) == 1
                    and isinstance(st.body[0], ast.Break)):
                raise TranslateError(f'{where}: break statement not recognised: {ast.unparse(st)[:80]}')
            comps = [c for c in ast.walk(st.test) if isinstance(c, ast.Compare)]
            tol_comps = [c for c in comps if any(isinstance(x, ast.Name) and x.id.startswith('tol')
                                                 for x in ast.walk(c))]
            if not tol_comps:
                raise TranslateError(f'{where}: break test without tol: {ast.unparse(st.test)}')
            for c in tol_comps:
                if not (len(c.ops) == 1 and isinstance(c.ops[0], ast.Lt)
                        and isinstance(c.comparators[0], ast.Name) and c.comparators[0].id.startswith('tol')):
                    raise TranslateError(f'{where}: tolerance test is not `value < tol`: {ast.unparse(c)}')
            if not seen_store:
                raise TranslateError(f'{where}: tolerance test before the record is written')
            seen_test = True
    if len(store_offs) != 1 or not seen_test:
        raise TranslateError(f'{where}: store offsets {store_offs}, tolerance test seen: {seen_test}')
    # every other mention of tol_history must be the single prefix slice
    slices = set()
    for n in ast.walk(fn):
        if isinstance(n, ast.Subscript) and _is_hist(n.value) and isinstance(n.ctx, ast.Load):
            s = n.slice
            if not (isinstance(s, ast.Slice) and s.lower is None and s.step is None and s.upper is not None):
                raise TranslateError(f'{where}: read of {HIST} that is not a prefix slice: {ast.unparse(n)}')
            u, off = _linear(s.upper, var)
            if not u:
                raise TranslateError(f'{where}: slice bound {ast.unparse(s.upper)}')
            slices.add(off)
    for n in ast.walk(fn):
        if _is_hist(n) and isinstance(n.ctx, ast.Load):
            pass  # covered: loads occur only as the value of Subscript nodes checked above / stores
    if len(slices) != 1:
        raise TranslateError(f'{where}: prefix slices of {HIST}: {slices}')
    return (start, stop, alloc_off, store_offs.pop(), slices.pop(), early, decr)


def _const(node):
    if isinstance(node, ast.Constant) and isinstance(node.value, int) and not isinstance(node.value, bool):
        return node.value
    raise TranslateError(f'integer constant expected, got {ast.unparse(node)}')


def _max_plus(node, names, where):
    """node = max(a, b) [+ c] with {a, b} == names  ->  c"""
    off = 0
    if isinstance(node, ast.BinOp) and isinstance(node.op, (ast.Add, ast.Sub)):
        c = _const(node.right)
        off = c if isinstance(node.op, ast.Add) else -c
        node = node.left
    if not (isinstance(node, ast.Call) and isinstance(node.func, ast.Name) and node.func.id == 'max'
            and len(node.args) == 2 and not node.keywords
            and all(isinstance(x, ast.Name) for x in node.args)
            and {x.id for x in node.args} == set(names)):
        raise TranslateError(f'{where}: expected max({", ".join(names)}) [+ c], got {ast.unparse(node)}')
    return off


def _range1(it, var, where):
    """range(var + c) -> c"""
    if not (isinstance(it, ast.Call) and isinstance(it.func, ast.Name) and it.func.id == 'range'
            and not it.keywords and len(it.args) == 1):
        raise TranslateError(f'{where}: loop iterable {ast.unparse(it)}')
    u, c = _linear(it.args[0], var)
    if not u:
        raise TranslateError(f'{where}: range {ast.unparse(it)} does not depend on {var}')
    return c


def _assigns_name(node, name):
    for n in ast.walk(node):
        if isinstance(n, (ast.Assign, ast.AugAssign, ast.For)):
            tg = n.targets if isinstance(n, ast.Assign) else [n.target]
            for t in tg:
                for x in ast.walk(t):
                    if isinstance(x, ast.Name) and x.id == name and isinstance(x.ctx, ast.Store):
                        return True
    return False


def _nested_desc(fn, where):
    """The bookkeeping of a method with a nested (2-D) record; see coq/C01/Nested.v.  Fail-closed."""
    allocs = [n for n in ast.walk(fn) if isinstance(n, ast.Assign) and any(_is_hist(t) for t in n.targets)]
    if len(allocs) != 1:
        raise TranslateError(f'{where}: {len(allocs)} allocations of {HIST}')
    alloc = allocs[0].value
    fname = ast.unparse(alloc.func)
    shape = alloc.args[0]
    if not (isinstance(shape, ast.Tuple) and len(shape.elts) == 2):
        raise TranslateError(f'{where}: nested allocation shape {ast.unparse(shape)}')
    u, arows = _linear(shape.elts[0], 'max_iter_2')
    if not u:
        raise TranslateError(f'{where}: rows {ast.unparse(shape.elts[0])} do not depend on max_iter_2')
    acols = _max_plus(shape.elts[1], ('max_iter', 'max_iter_2'), where)
    # the loops: exactly one outer loop in the function body, exactly one inner loop directly in it
    outers = [n for n in fn.body if isinstance(n, ast.For)]
    if len(outers) != 1 or [n for n in ast.walk(fn) if isinstance(n, (ast.For, ast.While))].__len__() != 2:
        raise TranslateError(f'{where}: expected exactly one outer and one inner loop')
    outer = outers[0]
    inners = [n for n in outer.body if isinstance(n, ast.For)]
    if len(inners) != 1 or outer.orelse or inners[0].orelse:
        raise TranslateError(f'{where}: inner loop is not a direct statement of the outer loop')
    inner = inners[0]
    if not (isinstance(outer.target, ast.Name) and isinstance(inner.target, ast.Name)):
        raise TranslateError(f'{where}: loop targets')
    iv, jv = outer.target.id, inner.target.id
    ostop = _range1(outer.iter, 'max_iter_2', where)
    istop = _range1(inner.iter, 'max_iter', where)
    # j_max = 0 before the loops, j_max = max(j, j_max) right after the inner loop, nowhere else
    jm_assigns = [n for n in ast.walk(fn) if isinstance(n, (ast.Assign, ast.AugAssign))
                  and any(isinstance(t, ast.Name) and t.id == 'j_max'
                          for t in (n.targets if isinstance(n, ast.Assign) else [n.target]))]
    pos_inner = outer.body.index(inner)
    nxt = outer.body[pos_inner + 1] if pos_inner + 1 < len(outer.body) else None
    init = [n for n in fn.body if isinstance(n, ast.Assign) and ast.unparse(n) == 'j_max = 0']
    if not (len(jm_assigns) == 2 and len(init) == 1 and fn.body.index(init[0]) < fn.body.index(outer)
            and nxt is not None and ast.unparse(nxt) in (f'j_max = max({jv}, j_max)', f'j_max = max(j_max, {jv})')):
        raise TranslateError(f'{where}: j_max bookkeeping not recognised')
    # inner body: [early-exit block] ... store ... tolerance test
    early, decr, irow, force = False, 0, None, False
    seen_store = seen_test = False
    for st in inner.body:
        if isinstance(st, ast.If) and isinstance(st.test, ast.Name) and st.test.id == 'exit_early':
            decs = [x for x in st.body if isinstance(x, ast.AugAssign)]
            if not (not st.orelse and isinstance(st.body[-1], ast.Break) and len(decs) == 1
                    and isinstance(decs[0].op, ast.Sub) and isinstance(decs[0].target, ast.Name)
                    and decs[0].target.id == jv and not seen_store and not early
                    and not any(_stores(x) for x in st.body)
                    and sum(isinstance(x, ast.Break) for x in ast.walk(st)) == 1):
                raise TranslateError(f'{where}: inner early-exit block not recognised')
            early, decr = True, _const(decs[0].value)
            force = any(isinstance(x, ast.Assign) and ast.unparse(x) == 'tol_2 = np.inf' for x in st.body)
            continue
        if _assigns_name(st, jv) or _assigns_name(st, iv):
            raise TranslateError(f'{where}: loop variable re-assigned in the inner loop')
        sts = _stores(st)
        if sts:
            if not (isinstance(st, ast.Assign) and len(sts) == 1 and sts[0] is st and not seen_store and not seen_test):
                raise TranslateError(f'{where}: conditional, repeated or late store in the inner loop')
            sl = st.targets[0].slice
            if not (isinstance(sl, ast.Tuple) and len(sl.elts) == 2 and isinstance(sl.elts[1], ast.Name)
                    and sl.elts[1].id == jv):
                raise TranslateError(f'{where}: inner store index {ast.unparse(sl)}')
            u, irow = _linear(sl.elts[0], iv)
            if not u:
                raise TranslateError(f'{where}: inner store row {ast.unparse(sl.elts[0])}')
            seen_store = True
            continue
        if any(isinstance(x, ast.Break) for x in ast.walk(st)):
            if not (isinstance(st, ast.If) and not st.orelse and isinstance(st.body[-1], ast.Break)
                    and sum(isinstance(x, ast.Break) for x in ast.walk(st)) == 1
                    and isinstance(st.test, ast.Compare) and len(st.test.ops) == 1
                    and isinstance(st.test.ops[0], ast.Lt) and isinstance(st.test.comparators[0], ast.Name)
                    and st.test.comparators[0].id == 'tol' and seen_store and not seen_test):
                raise TranslateError(f'{where}: inner break not recognised: {ast.unparse(st)[:80]}')
            seen_test = True
    if not (seen_store and seen_test):
        raise TranslateError(f'{where}: inner loop without store / tolerance test')
    # outer body: unconditional stores tol_history[k, i] with k = 0, 1, .. in program order
    orows = 0
    for st in outer.body:
        if st is inner:
            continue
        if _assigns_name(st, iv) or (st is not nxt and _assigns_name(st, jv)):
            raise TranslateError(f'{where}: loop variable re-assigned in the outer loop')
        if any(isinstance(x, ast.Break) for x in ast.walk(st)):
            # an exit of the OUTER loop: its tests may compare with the outer thresholds only (tol_2, tol_3) --
            # never with the inner threshold `tol`, and never read the inner loop's exit_early flag (the early
            # exit reaches the outer test through the forced tol_2 = inf)
            if not isinstance(st, ast.If):
                raise TranslateError(f'{where}: outer break outside an if statement')
            tests, node = [], st
            while isinstance(node, ast.If):
                tests.append(node.test)
                node = node.orelse[0] if len(node.orelse) == 1 and isinstance(node.orelse[0], ast.If) else None
            used = {x.id for t in tests for x in ast.walk(t) if isinstance(x, ast.Name)}
            thresholds = {u for u in used if u.startswith('tol')}
            if not thresholds or not thresholds <= {'tol_2', 'tol_3'} or 'exit_early' in used:
                raise TranslateError(f'{where}: the outer loop\'s stop test uses {sorted(thresholds | (used & {"exit_early"}))}; '
                                     'it must compare with tol_2 / tol_3 only')
        sts = _stores(st)
        if sts:
            if not (isinstance(st, ast.Assign) and len(sts) == 1 and sts[0] is st
                    and outer.body.index(st) > pos_inner):
                raise TranslateError(f'{where}: conditional store (or store before the inner loop) in the outer loop')
            sl = st.targets[0].slice
            if not (isinstance(sl, ast.Tuple) and len(sl.elts) == 2 and isinstance(sl.elts[1], ast.Name)
                    and sl.elts[1].id == iv and _const(sl.elts[0]) == orows):
                raise TranslateError(f'{where}: outer store index {ast.unparse(sl)} (expected row {orows}, column {iv})')
            orows += 1
    if len(_stores(fn)) != orows + 1:
        raise TranslateError(f'{where}: {HIST} is stored somewhere else as well')
    # the only read: tol_history[:i + r, :max(i, j_max) + c]
    reads = [n for n in ast.walk(fn) if isinstance(n, ast.Subscript) and _is_hist(n.value) and isinstance(n.ctx, ast.Load)]
    names = [n for n in ast.walk(fn) if _is_hist(n) and isinstance(n.ctx, ast.Load)]
    if len(reads) != 1 or len(names) != 1 + orows + 1:
        raise TranslateError(f'{where}: reads of {HIST}: {len(reads)} subscripts, {len(names)} mentions')
    sl = reads[0].slice
    if not (isinstance(sl, ast.Tuple) and len(sl.elts) == 2 and all(
            isinstance(x, ast.Slice) and x.lower is None and x.step is None and x.upper is not None for x in sl.elts)):
        raise TranslateError(f'{where}: final slice {ast.unparse(sl)}')
    u, srow = _linear(sl.elts[0].upper, iv)
    if not u:
        raise TranslateError(f'{where}: slice rows {ast.unparse(sl.elts[0].upper)}')
    scol = _max_plus(sl.elts[1].upper, (iv, 'j_max'), where)
    if any(isinstance(n, ast.Subscript) and _is_hist(n.value) and n not in reads
           and not isinstance(n.ctx, ast.Store) for n in ast.walk(fn)):
        raise TranslateError(f'{where}: other use of {HIST}')
    return dict(ostop=ostop, istop=istop, arows=arows, acols=acols, irow=irow, orows=orows, srow=srow, scol=scol,
                early=early, decr=decr, force=force, zeros=(fname == 'np.zeros'))


def gen_nested(repo=None):
    out = []
    for rel in FILES:
        tree, _ = _parse(os.path.join('pybaselines', rel), repo)
        mod = rel[:-3].replace('/', '.')
        for cls in [n for n in tree.body if isinstance(n, ast.ClassDef)]:
            for fn in [n for n in cls.body if isinstance(n, ast.FunctionDef)]:
                if not any('_register' in ast.unparse(d) for d in fn.decorator_list):
                    continue
                name = f'{mod}.{fn.name}'
                if _method_loop(fn, name) == 'nested':
                    out.append((name, _nested_desc(fn, name)))
    lines = ['(* Generated by tools/gen_loops.py (GenNested) from the current /repo source; do not edit. *)',
             'From Coq Require Import ZArith List String.',
             'From PB Require Import C01.Nested.',
             'Import ListNotations.',
             'Open Scope Z_scope.',
             'Open Scope string_scope.',
             '',
             'Definition nested_descs : list (string * ndesc) := [']
    for k, (name, d) in enumerate(out):
        sep = ';' if k + 1 < len(out) else ''
        b = lambda v: 'true' if v else 'false'   # noqa
        lines.append(f'  ("{name}", {{| n_ostop := {zlit(d["ostop"])}; n_istop := {zlit(d["istop"])}; n_arows := {zlit(d["arows"])}; '
                     f'n_acols := {zlit(d["acols"])}; n_irow := {zlit(d["irow"])}; n_orows := {d["orows"]}%nat; '
                     f'n_srow := {zlit(d["srow"])}; n_scol := {zlit(d["scol"])}; n_early := {b(d["early"])}; '
                     f'n_decr := {zlit(d["decr"])}; n_force := {b(d["force"])}; n_zeros := {b(d["zeros"])} |}}){sep}')
    lines.append('].')
    return '\n'.join(lines) + '\n'


def gen_loops(repo=None):
    regular, nested = [], []
    for rel in FILES:
        tree, _ = _parse(os.path.join('pybaselines', rel), repo)
        mod = rel[:-3].replace('/', '.')
        for cls in [n for n in tree.body if isinstance(n, ast.ClassDef)]:
            for fn in [n for n in cls.body if isinstance(n, ast.FunctionDef)]:
                if not any('_register' in ast.unparse(d) for d in fn.decorator_list):
                    continue
                name = f'{mod}.{fn.name}'
                res = _method_loop(fn, name)
                if res is None:
                    continue
                if res == 'nested':
                    nested.append(name)
                else:
                    regular.append((name, res))
    if len(regular) < 10:
        raise TranslateError(f'only {len(regular)} iteration loops recognised')
    lines = ['(* Generated by tools/gen_loops.py from the current /repo source; do not edit. *)',
             'From Coq Require Import ZArith List String.',
             'From PB Require Import C01.PyLoop.',
             'Import ListNotations.',
             'Open Scope Z_scope.',
             'Open Scope string_scope.',
             '',
             'Definition loops : list (string * ldesc) := [']
    for k, (name, (start, stop, alloc, store, slc, early, decr)) in enumerate(regular):
        sep = ';' if k + 1 < len(regular) else ''
        lines.append(f'  ("{name}", {{| l_start := {zlit(start)}; l_stop := {zlit(stop)}; l_alloc := {zlit(alloc)}; '
                     f'l_store := {zlit(store)}; l_slice := {zlit(slc)}; '
                     f'l_early := {"true" if early else "false"}; l_decr := {zlit(decr)} |}}){sep}')
    lines.append('].')
    lines.append('')
    lines.append('Definition nested_loops : list string := [' + '; '.join(f'"{n}"' for n in nested) + '].')
    return '\n'.join(lines) + '\n'


GENERATORS = {'GenLoops': gen_loops, 'GenNested': gen_nested}
