#!/bin/bash
# usage: tools/verify_seed.sh <dir with patch.diff demo.py meta.json> [fulltests]
# Confirms, in a scratch worktree of /repo (removed afterwards), that the seeded change (1) applies to /repo's HEAD,
# (2) the demonstration passes without it and fails with it, (3) the pinned test suite still passes with it
# (only when the second argument is "fulltests"; otherwise the test files named in meta.json are trusted).
d=$(readlink -f "$1"); full=$2
wt=$(mktemp -d /tmp/vseed.XXXXXX); rmdir "$wt"
git -C /repo worktree add -q "$wt" HEAD || exit 2
trap 'git -C /repo worktree remove --force "$wt" >/dev/null 2>&1' EXIT
cd "$wt" || exit 2
export PYTHONPATH="$wt" PYTHONDONTWRITEBYTECODE=1 NUMBA_CACHE_DIR="$wt/.numba_cache"
timeout 900 /venv/bin/python "$d/demo.py" > "$wt/demo_before.txt" 2>&1; before=$?
git apply "$d/patch.diff" || { echo "$(basename $d): PATCH-DOES-NOT-APPLY"; exit 3; }
timeout 900 /venv/bin/python "$d/demo.py" > "$wt/demo_after.txt" 2>&1; after=$?
tests="skipped"
if [ "$full" = "fulltests" ]; then
  timeout 3000 /venv/bin/python -m pytest -q -p no:cacheprovider --timeout=900 -x > "$wt/tests.txt" 2>&1; trc=$?
  tests="rc=$trc $(tail -1 "$wt/tests.txt")"
fi
echo "$(basename $d): demo_without=$before demo_with=$after tests: $tests"
[ "$before" = 0 ] && [ "$after" != 0 ] || { echo "   demo without: $(tail -2 $wt/demo_before.txt | tr '\n' ' ' | cut -c1-200)"; echo "   demo with: $(tail -2 $wt/demo_after.txt | tr '\n' ' ' | cut -c1-200)"; }
