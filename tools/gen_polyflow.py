#!/usr/bin/env python3
"""C08: abstracts every polynomial method (a class method with a `return_coef` parameter) to a regular
program over the events of coq/C08/Flow.v.  Fail-closed: any statement shape that could write `coef`,
`baseline` or params['coef'] in a way not understood raises TranslateError.

  coef = P @ <rhs> with P a pseudo-inverse of the (row-scaled) Vandermonde, i.e. a name only ever bound to the
         last result of self._setup_polynomial(..., calc_pinv=True) or to np.linalg.pinv(s[:, None] * V), or
  coef = np.linalg.lstsq(V * s[:, None], y * s, ...)[0]   (V = self._polynomial.vandermonde)  -> ECoef
         (the least-squares problem is handed to an SVD-based solver on the tall N x (p+1) matrix: the situation
         C08_pinv_optimal / C08_poly_weighted_optimal describe)
  coef = <anything else>  /  in-place write to coef             -> ECoefOther   (rejected by the flow checker)
  baseline = self._polynomial.vandermonde @ coef                 -> EBase
  baseline = <anything else> / in-place write to baseline        -> EOther
  params['coef'] = _convert_coef(coef, self.x_domain)            -> EReport
  params['coef'] = _convert_coef2d(coef, *self._polynomial.poly_order, self.x_domain, self.z_domain) -> EReport
  if / else                                                      -> Alt
  for / while                                                    -> Star, or Plus when the loop variable is read
        by a simple statement that follows the loop in the same block and is assigned nowhere else (zero
        iterations then raise NameError instead of returning)
  break: allowed when no event can follow it inside the loop body (a cut iteration then has the events of a
        full one)
"""
import ast

from trlib import TranslateError, _parse

FILES = [('pybaselines/polynomial.py', '1d'), ('pybaselines/two_d/polynomial.py', '2d'),
         ('pybaselines/classification.py', '1d')]
# loess returns one coefficient row per point and a baseline assembled by numba kernels plus interpolation of
# skipped points: not of the form vandermonde @ coef; covered by the oracle only
EXEMPT = {'loess'}
TRACKED = ('coef', 'baseline')
# callables that may receive `coef` / `baseline` as an argument without writing to it
PURE = {'relative_difference', 'loss_function', 'minimum', 'std', '_quantile', '_convert_coef', '_convert_coef2d',
        'sqrt', 'abs', 'max', 'min', 'sum', 'maximum', 'where', 'isfinite', 'dot'}
MUTATORS = {'sort', 'fill', 'put', 'resize', 'itemset', 'partition', 'setfield', 'setflags', 'byteswap', '__setitem__',
            '__iadd__', '__imul__', '__isub__'}


def src(node):
    return ast.unparse(node)


def base_name(node):
    while isinstance(node, (ast.Subscript, ast.Attribute, ast.Starred)):
        node = node.value
    return node.id if isinstance(node, ast.Name) else None


def is_vander_coef(node):
    return src(node) == 'self._polynomial.vandermonde @ coef'


def is_report_value(node):
    return src(node) in ('_convert_coef(coef, self.x_domain)',
                         '_convert_coef2d(coef, *self._polynomial.poly_order, self.x_domain, self.z_domain)')


def call_name(fn):
    if isinstance(fn, ast.Name):
        return fn.id
    if isinstance(fn, ast.Attribute):
        return fn.attr
    return None


VANDER = 'self._polynomial.vandermonde'


def is_scaled_vander(node):
    """V, s[:, None] * V or V * s[:, None] with s a name (or np.sqrt(name))."""
    if src(node) == VANDER:
        return True
    if isinstance(node, ast.BinOp) and isinstance(node.op, ast.Mult):
        for a, b in ((node.left, node.right), (node.right, node.left)):
            if src(a) == VANDER and isinstance(b, ast.Subscript) and src(b.slice) in ('(slice(None, None, None), None)', ':, None', '(:, None)'):
                return True
            if src(a) == VANDER and isinstance(b, ast.Subscript) and src(b).endswith('[:, None]'):
                return True
    return False


def is_pinv_source(value, target_is_last_of_tuple):
    if isinstance(value, ast.Call) and src(value.func) == 'np.linalg.pinv' and len(value.args) == 1 and not value.keywords \
            and not target_is_last_of_tuple:
        return is_scaled_vander(value.args[0])
    if isinstance(value, ast.Call) and src(value.func) == 'self._setup_polynomial' and target_is_last_of_tuple:
        return any(kw.arg == 'calc_pinv' and isinstance(kw.value, ast.Constant) and kw.value.value is True for kw in value.keywords)
    return False


def pinv_names(fn):
    """Names that are, at every binding in the function, a pseudo-inverse of the (row-scaled) Vandermonde."""
    good, bad = set(), set()
    for n in ast.walk(fn):
        targets = []
        if isinstance(n, ast.Assign):
            for t in n.targets:
                if isinstance(t, (ast.Tuple, ast.List)):
                    for k, e in enumerate(t.elts):
                        e2 = e.value if isinstance(e, ast.Starred) else e
                        if isinstance(e2, ast.Name):
                            targets.append((e2.id, k == len(t.elts) - 1 and not isinstance(e, ast.Starred), n.value))
                elif isinstance(t, ast.Name):
                    targets.append((t.id, None, n.value))
        elif isinstance(n, (ast.AugAssign, ast.AnnAssign)) and isinstance(n.target, ast.Name):
            bad.add(n.target.id)
        elif isinstance(n, (ast.For, ast.comprehension)):
            for t in ast.walk(n.target):
                if isinstance(t, ast.Name):
                    bad.add(t.id)
        elif isinstance(n, ast.NamedExpr):
            bad.add(n.target.id)
        for name, last, value in targets:
            ok = is_pinv_source(value, True) if last else (last is None and is_pinv_source(value, False))
            (good if ok else bad).add(name)
    for a in fn.args.args + fn.args.kwonlyargs:
        bad.add(a.arg)
    return good - bad


def is_direct_solve(value, pnames):
    if isinstance(value, ast.BinOp) and isinstance(value.op, ast.MatMult) and isinstance(value.left, ast.Name) \
            and value.left.id in pnames:
        return True
    if isinstance(value, ast.Subscript) and src(value.slice) == '0' and isinstance(value.value, ast.Call) \
            and src(value.value.func) == 'np.linalg.lstsq' and len(value.value.args) >= 2:
        A, b = value.value.args[0], value.value.args[1]
        if is_scaled_vander(A) and src(A) != VANDER and isinstance(b, ast.BinOp) and isinstance(b.op, ast.Mult):
            scale = [x for x in (A.left, A.right) if src(x) != VANDER][0]
            sname = src(scale)[:-len('[:, None]')]
            return sname in (src(b.left), src(b.right))
        return src(A) == VANDER
    return False


class Tr:
    def __init__(self, fn, where):
        self.fn, self.where = fn, where
        self.pnames = pinv_names(fn)

    def refuse(self, node, why):
        raise TranslateError(f'{self.where}:{getattr(node, "lineno", "?")}: {why}: {src(node)[:120]}')

    # ---- expression-level writes (calls)
    def check_calls(self, node):
        for n in ast.walk(node):
            if isinstance(n, ast.NamedExpr) and n.target.id in TRACKED:
                self.refuse(n, 'walrus assignment to a tracked name')
            if isinstance(n, (ast.ListComp, ast.SetComp, ast.DictComp, ast.GeneratorExp)):
                for g in n.generators:
                    for t in ast.walk(g.target):
                        if isinstance(t, ast.Name) and t.id in TRACKED:
                            self.refuse(n, 'comprehension rebinding a tracked name')
            if not isinstance(n, ast.Call):
                continue
            cn = call_name(n.func)
            if isinstance(n.func, ast.Attribute) and base_name(n.func.value) in TRACKED and isinstance(n.func.value, ast.Name) \
                    and cn in MUTATORS:
                self.refuse(n, 'mutating method call on a tracked array')
            for kw in n.keywords:
                if kw.arg == 'out' and any(isinstance(t, ast.Name) and t.id in TRACKED for t in ast.walk(kw.value)):
                    self.refuse(n, 'out= write to a tracked array')
            args = list(n.args) + [kw.value for kw in n.keywords]
            if any(isinstance(a, ast.Name) and a.id in TRACKED for a in args) and cn not in PURE:
                self.refuse(n, f'tracked array passed to `{cn}`, which is not known to leave it unchanged')

    # ---- statements
    def events_of(self, st):
        """[event names] of a simple statement."""
        if isinstance(st, (ast.Assign, ast.AnnAssign, ast.AugAssign)):
            targets = st.targets if isinstance(st, ast.Assign) else [st.target]
            value = st.value
            if value is not None:
                self.check_calls(value)
            flat = []
            for t in targets:
                flat += list(t.elts) if isinstance(t, (ast.Tuple, ast.List)) else [t]
            evs = []
            hit = set()
            for t in flat:
                b = base_name(t)
                if isinstance(t, ast.Subscript) and b == 'params':
                    key = t.slice
                    if isinstance(key, ast.Constant) and key.value == 'coef':
                        if isinstance(st, ast.AugAssign) or value is None or not is_report_value(value) or len(flat) != 1:
                            self.refuse(st, "params['coef'] is not `_convert_coef[2d](coef, <domains>)`")
                        evs.append('EReport')
                    continue
                if b in TRACKED:
                    hit.add(b)
                    if b == 'coef':
                        direct = isinstance(t, ast.Name) and isinstance(st, ast.Assign) and is_direct_solve(value, self.pnames)
                        evs.append('ECoef' if direct else 'ECoefOther')
                    elif isinstance(t, ast.Name) and isinstance(st, ast.Assign) and is_vander_coef(value):
                        evs.append('EBase')
                    else:
                        evs.append('EOther')
            if len(hit) > 1:
                self.refuse(st, 'one statement writes both coef and baseline')
            if isinstance(value, ast.Dict):
                for k in value.keys:
                    if isinstance(k, ast.Constant) and k.value == 'coef':
                        self.refuse(st, "dictionary literal with a 'coef' key")
            return evs
        if isinstance(st, ast.Expr):
            self.check_calls(st.value)
            return []
        if isinstance(st, (ast.Raise, ast.Pass, ast.Assert, ast.Import, ast.ImportFrom)):
            return []
        if isinstance(st, ast.Delete):
            for t in st.targets:
                if base_name(t) in TRACKED:
                    self.refuse(st, 'del of a tracked name')
            return []
        self.refuse(st, f'unsupported statement {type(st).__name__}')

    def has_events(self, st):
        return self.block([st], top=False, in_loop=True, dry=True) != 'Skip'

    def break_check(self, block):
        """True when the block can execute a break of the enclosing loop; refuses events after it."""
        seen = False
        for st in block:
            if seen and self.has_events(st):
                self.refuse(st, 'an event can follow a `break` inside the loop body')
            if isinstance(st, ast.Break):
                seen = True
            elif isinstance(st, ast.If):
                a = self.break_check(st.body)
                b = self.break_check(st.orelse)
                seen = seen or a or b
        return seen

    def loop_var_forces_iteration(self, loop, following):
        if not isinstance(loop, ast.For) or not isinstance(loop.target, ast.Name):
            return False
        var = loop.target.id
        stores = [n for n in ast.walk(self.fn) if isinstance(n, ast.Name) and n.id == var and isinstance(n.ctx, (ast.Store, ast.Del))]
        if len(stores) != 1 or any(a.arg == var for a in self.fn.args.args + self.fn.args.kwonlyargs):
            return False
        for st in following:
            if isinstance(st, (ast.Assign, ast.AugAssign, ast.AnnAssign, ast.Expr, ast.Return)):
                if any(isinstance(n, ast.Name) and n.id == var and isinstance(n.ctx, ast.Load) for n in ast.walk(st)):
                    return True
            if isinstance(st, (ast.For, ast.While, ast.If, ast.Return)) or self.has_events(st):
                return False   # only a use BEFORE anything relevant happens counts
        return False

    def block(self, stmts, top, in_loop, dry=False):
        parts = []
        for k, st in enumerate(stmts):
            if isinstance(st, ast.Return):
                if not top or k != len(stmts) - 1 or src(st) not in ('return baseline, params', 'return (baseline, params)'):
                    self.refuse(st, 'return is not the final `return baseline, params`')
                continue
            if isinstance(st, ast.If):
                self.check_calls(st.test)
                a = self.block(st.body, False, in_loop, dry)
                b = self.block(st.orelse, False, in_loop, dry)
                if a != 'Skip' or b != 'Skip':
                    parts.append(f'(Alt {a} {b})')
                continue
            if isinstance(st, (ast.For, ast.While)):
                if st.orelse:
                    self.refuse(st, 'loop with else clause')
                if isinstance(st, ast.For):
                    self.check_calls(st.iter)
                    for t in ast.walk(st.target):
                        if isinstance(t, ast.Name) and t.id in TRACKED:
                            self.refuse(st, 'loop variable is a tracked name')
                else:
                    self.check_calls(st.test)
                body = self.block(st.body, False, True, dry)
                if not dry:
                    self.break_check(st.body)
                if body != 'Skip':
                    plus = (not dry) and self.loop_var_forces_iteration(st, stmts[k + 1:])
                    parts.append(f'(Plus {body})' if plus else f'(Star {body})')
                continue
            if isinstance(st, ast.Break):
                if not in_loop:
                    self.refuse(st, 'break outside a loop')
                continue
            if isinstance(st, (ast.Try, ast.With)):
                inner = list(st.body)
                if isinstance(st, ast.Try):
                    inner += [h2 for h in st.handlers for h2 in h.body] + list(st.orelse) + list(st.finalbody)
                if any(isinstance(n, (ast.Return, ast.Break, ast.Continue)) for b in inner for n in ast.walk(b)) \
                        or self.block(inner, False, in_loop, True) != 'Skip':
                    self.refuse(st, 'try/with block that writes a tracked name or leaves the block')
                continue
            if isinstance(st, (ast.Continue, ast.FunctionDef, ast.ClassDef, ast.Global, ast.Nonlocal,
                               ast.AsyncFor, ast.AsyncWith, ast.Match)):
                self.refuse(st, f'unsupported statement {type(st).__name__}')
            for e in self.events_of(st):
                parts.append(f'(Atom {e})')
        if not parts:
            return 'Skip'
        out = parts[-1]
        for p in reversed(parts[:-1]):
            out = f'(Seq {p} {out})'
        return out


def gen_polyflow(repo):
    defs, table, exempt = [], [], []
    for rel, tag in FILES:
        tree, _ = _parse(rel, repo)
        for cls in [n for n in tree.body if isinstance(n, ast.ClassDef)]:
            for fn in [n for n in cls.body if isinstance(n, ast.FunctionDef)]:
                argnames = [a.arg for a in fn.args.args + fn.args.kwonlyargs]
                if 'return_coef' not in argnames:
                    continue
                name = f'{tag}_{fn.name}'
                if fn.name in EXEMPT:
                    exempt.append(name)
                    continue
                body = list(fn.body)
                if body and isinstance(body[0], ast.Expr) and isinstance(body[0].value, ast.Constant):
                    body = body[1:]
                tr = Tr(fn, f'{rel}:{fn.name}')
                # every store to a tracked name must be one the statement walker sees (no stores hidden in
                # unsupported places): the walker refuses unsupported statements, so only expressions remain
                prog = tr.block(body, top=True, in_loop=False)
                if not body or not isinstance(body[-1], ast.Return):
                    raise TranslateError(f'{rel}:{fn.name}: does not end with a return')
                defs.append(f'Definition m_{name} : prog :=\n  {prog}.')
                table.append(name)
    if not table:
        raise TranslateError('no polynomial method with a return_coef parameter found')
    out = ['(* generated by tools/gen_polyflow.py from the current source -- do not edit *)',
           'From Coq Require Import List String.', 'From PB Require Import C08.Flow.', 'Import ListNotations.',
           'Open Scope string_scope.', '']
    out += defs
    out.append('')
    out.append('Definition methods : list (string * prog) := [' + '; '.join(f'("{n}", m_{n})' for n in table) + '].')
    out.append('Definition exempt : list string := [' + '; '.join(f'"{n}"' for n in exempt) + '].')
    return '\n'.join(out) + '\n'


# ---------------------------------------------------------------------------------------------------
# _poly_transform_matrix / _convert_coef / _convert_coef2d: the statement shapes C08/Model.v transcribes.
# Pinned (comments and docstrings ignored): any edit of these bodies must be re-modelled.
EXPECTED_BODIES = {
    '_poly_transform_matrix': [
        'offset, scale = np.polynomial.polyutils.mapparms(np.array([-1.0, 1.0]), original_domain)',
        'transformation = np.zeros((num_coefficients, num_coefficients))',
        'skip_offset = np.equal(offset, 0)',
        'for i in range(num_coefficients):\n'
        '    for j in range(i, num_coefficients):\n'
        '        if skip_offset:\n'
        '            if j == i:\n'
        '                transformation[i, j] = binom(j, i) * scale ** (-j)\n'
        '        else:\n'
        '            transformation[i, j] = binom(j, i) * scale ** (-j) * (-offset) ** (j - i)',
        'return transformation',
    ],
    '_convert_coef': [
        'transformation = _poly_transform_matrix(coef.shape[0], original_domain)',
        'return transformation @ coef',
    ],
    '_convert_coef2d': [
        'x_order = poly_degree_x + 1',
        'z_order = poly_degree_z + 1',
        'transformation_x = _poly_transform_matrix(x_order, original_x_domain)',
        'transformation_z = _poly_transform_matrix(z_order, original_z_domain)',
        'return transformation_x @ coef.reshape((x_order, z_order)) @ transformation_z.T',
    ],
}


def gen_transform_shape(repo):
    tree, _ = _parse('pybaselines/utils.py', repo)
    imports_binom = any(isinstance(n, ast.ImportFrom) and n.module == 'scipy.special' and any(a.name == 'binom' and a.asname is None for a in n.names)
                        for n in tree.body)
    if not imports_binom:
        raise TranslateError('utils.py: `from scipy.special import binom` not found')
    lines = ['(* generated by tools/gen_polyflow.py from the current source -- do not edit *)',
             'From Coq Require Import List String.', 'Import ListNotations.', 'Open Scope string_scope.', '']
    names = []
    for name, expected in EXPECTED_BODIES.items():
        fns = [n for n in tree.body if isinstance(n, ast.FunctionDef) and n.name == name]
        if len(fns) != 1:
            raise TranslateError(f'utils.py: expected exactly one top-level def {name}')
        body = list(fns[0].body)
        if body and isinstance(body[0], ast.Expr) and isinstance(body[0].value, ast.Constant) and isinstance(body[0].value.value, str):
            body = body[1:]
        got = [ast.unparse(st) for st in body]
        if got != expected:
            k = next((i for i, (a, b) in enumerate(zip(got, expected)) if a != b), min(len(got), len(expected)))
            raise TranslateError(f'utils.py:{name}: statement {k} is not the shape transcribed in C08/Model.v: '
                                 f'{(got[k] if k < len(got) else "<missing>")[:200]!r}')
        names.append(name)
    lines.append('(* the bodies of these functions are, statement for statement, the ones C08/Model.v transcribes *)')
    lines.append('Definition transcribed : list string := [' + '; '.join(f'"{n}"' for n in names) + '].')
    lines.append('Definition inner_loop_starts_at_diagonal : bool := true.')
    return '\n'.join(lines) + '\n'


GENERATORS = {'GenPolyFlow': gen_polyflow, 'GenPolyTransform': gen_transform_shape}


# ---------------------------------------------------------------------------------------------------
# how the pseudo-inverse that the methods receive is produced (every entry path of the weighted solve)
EXPECTED_SETUP_TAIL = [
    'if weights is None:\n'
    '    pseudo_inverse = self._polynomial.pseudo_inverse\n'
    'else:\n'
    '    pseudo_inverse = np.linalg.pinv(np.sqrt(weight_array)[:, None] * self._polynomial.vandermonde)',
    'return (y, weight_array, pseudo_inverse)',
]
EXPECTED_PINV_PROPERTY = [
    'if self.pinv_stale or self._pseudo_inverse is None:\n'
    '    self._pseudo_inverse = np.linalg.pinv(self.vandermonde)\n'
    '    self.pinv_stale = False',
    'return self._pseudo_inverse',
]


def gen_solve_shape(repo):
    found = []
    for rel in ('pybaselines/_algorithm_setup.py', 'pybaselines/two_d/_algorithm_setup.py'):
        tree, _ = _parse(rel, repo)
        setups = [f for c in tree.body if isinstance(c, ast.ClassDef) for f in c.body
                  if isinstance(f, ast.FunctionDef) and f.name == '_setup_polynomial']
        props = [f for c in tree.body if isinstance(c, ast.ClassDef) and c.name.startswith('_PolyHelper') for f in c.body
                 if isinstance(f, ast.FunctionDef) and f.name == 'pseudo_inverse']
        if len(setups) != 1 or len(props) != 1:
            raise TranslateError(f'{rel}: expected one _setup_polynomial and one _PolyHelper*.pseudo_inverse')
        tail = [ast.unparse(st) for st in setups[0].body[-2:]]
        if tail != EXPECTED_SETUP_TAIL:
            raise TranslateError(f'{rel}:_setup_polynomial: the pseudo-inverse is no longer pinv(sqrt(w)[:, None] * V) / the cached pinv(V): {tail!r}'[:400])
        body = [ast.unparse(st) for st in props[0].body if not (isinstance(st, ast.Expr) and isinstance(st.value, ast.Constant))]
        if body != EXPECTED_PINV_PROPERTY:
            raise TranslateError(f'{rel}:pseudo_inverse property is no longer np.linalg.pinv(self.vandermonde): {body!r}'[:400])
        found.append(rel)
    return ('(* generated by tools/gen_polyflow.py from the current source -- do not edit *)\n'
            'From Coq Require Import List String.\nImport ListNotations.\nOpen Scope string_scope.\n'
            '(* in these files _setup_polynomial hands out pinv(sqrt(w)[:, None] * V) (weights given) or the cached pinv(V) *)\n'
            'Definition pinv_of_scaled_vandermonde : list string := [' + '; '.join(f'"{r}"' for r in found) + '].\n')


GENERATORS['GenPolySolve'] = gen_solve_shape
