"""GenC20.v : the index-level facts of the 2-D array algebra (C20), read off the current source.

  * _face_splitting: which factor of each scipy.sparse.kron is the basis;
  * WhittakerSystem2D._make_btwb / SplineBasis2D._make_btwb: the 4-D reshape (as indices into
    self._num_bases), the transposition axes and the final reshape;
  * WhittakerSystem2D.reset_diagonals: the repeat/tile counts of the eigenvalue penalty.

Everything else in those functions must have exactly the recognised shape (statements compared
after ast normalisation), otherwise the translation is refused (fail closed)."""
import ast
import copy
import glob
import os

from trlib import TranslateError, _parse, _func, _body_wo_doc

WU = 'pybaselines/two_d/_whittaker_utils.py'
SU = 'pybaselines/two_d/_spline_utils.py'


def _method(tree, cls, name):
    for node in ast.walk(tree):
        if isinstance(node, ast.ClassDef) and node.name == cls:
            for st in node.body:
                if isinstance(st, ast.FunctionDef) and st.name == name:
                    return st
    raise TranslateError(f'{cls}.{name} not found')


def _u(node):
    return ast.unparse(node)


def _nb_index(node, owner='self._num_bases'):
    """self._num_bases[i] -> i"""
    if (isinstance(node, ast.Subscript) and _u(node.value) == owner
            and isinstance(node.slice, ast.Constant) and isinstance(node.slice.value, int)
            and not isinstance(node.slice.value, bool) and node.slice.value in (0, 1)):
        return node.slice.value
    raise TranslateError(f'not an index into {owner}: {_u(node)}')


def _prod_indices(node):
    """self._num_bases[i] * self._num_bases[j]  |  np.prod(self._num_bases)  -> [i, j]"""
    if isinstance(node, ast.BinOp) and isinstance(node.op, ast.Mult):
        return _prod_indices(node.left) + _prod_indices(node.right)
    if isinstance(node, ast.Call) and _u(node.func) == 'np.prod' and len(node.args) == 1 \
            and not node.keywords and _u(node.args[0]) == 'self._num_bases':
        return [0, 1]
    return [_nb_index(node)]


def _face_splitting(tree):
    fn = _func(tree, '_face_splitting')
    if [a.arg for a in fn.args.args] != ['basis']:
        raise TranslateError('_face_splitting: unexpected signature')
    body = _body_wo_doc(fn)
    if len(body) != 2 or _u(body[0]) != 'ones = np.ones((1, basis.shape[1]))':
        raise TranslateError('_face_splitting: ones is not np.ones((1, basis.shape[1]))')
    ret = body[1]
    if not (isinstance(ret, ast.Return) and isinstance(ret.value, ast.Call)
            and isinstance(ret.value.func, ast.Attribute) and ret.value.func.attr == 'multiply'
            and len(ret.value.args) == 1 and not ret.value.keywords):
        raise TranslateError('_face_splitting: not kron(..).multiply(kron(..))')
    flags = []
    for call in (ret.value.func.value, ret.value.args[0]):
        if not (isinstance(call, ast.Call) and _u(call.func) == 'kron' and len(call.args) == 2
                and not call.keywords and all(isinstance(a, ast.Name) for a in call.args)):
            raise TranslateError(f'_face_splitting: unsupported factor {_u(call)}')
        names = [a.id for a in call.args]
        if sorted(names) != ['basis', 'ones']:
            raise TranslateError(f'_face_splitting: kron arguments {names}')
        flags.append(names[0] == 'basis')
    # kron must be scipy.sparse.kron
    imp = [n for n in ast.walk(tree) if isinstance(n, ast.ImportFrom) and n.module == 'scipy.sparse'
           and any(a.name == 'kron' and a.asname is None for a in n.names)]
    if not imp:
        raise TranslateError('kron is not imported from scipy.sparse')
    return flags


def _make_btwb(tree, cls, wrapper):
    fn = _method(tree, cls, '_make_btwb')
    if [a.arg for a in fn.args.args] != ['self', 'weights']:
        raise TranslateError(f'{cls}._make_btwb: unexpected signature')
    body = _body_wo_doc(fn)
    if len(body) != 2 or not (isinstance(body[0], ast.Assign) and _u(body[0].targets[0]) == 'F') \
            or _u(body[1]) != 'return F':
        raise TranslateError(f'{cls}._make_btwb: body is not "F = ...; return F"')
    val = body[0].value
    if wrapper is not None:
        if not (isinstance(val, ast.Call) and _u(val.func) == wrapper and len(val.args) == 1
                and not val.keywords):
            raise TranslateError(f'{cls}._make_btwb: result is not {wrapper}(...)')
        val = val.args[0]
    # np.transpose(X.reshape(shape4), axes).reshape(shape2)
    if not (isinstance(val, ast.Call) and isinstance(val.func, ast.Attribute)
            and val.func.attr == 'reshape' and len(val.args) == 1 and not val.keywords):
        raise TranslateError(f'{cls}._make_btwb: outer call is not .reshape(shape)')
    shape2, tr = val.args[0], val.func.value
    if not (isinstance(tr, ast.Call) and _u(tr.func) == 'np.transpose' and len(tr.args) == 2
            and not tr.keywords):
        raise TranslateError(f'{cls}._make_btwb: not np.transpose(array, axes)')
    inner, axes = tr.args
    if not (isinstance(inner, ast.Call) and isinstance(inner.func, ast.Attribute)
            and inner.func.attr == 'reshape' and len(inner.args) == 1 and not inner.keywords):
        raise TranslateError(f'{cls}._make_btwb: inner call is not .reshape(shape)')
    if _u(inner.func.value) != 'self._G_r.T @ weights @ self._G_c':
        raise TranslateError(f'{cls}._make_btwb: product is {_u(inner.func.value)}')
    shape4 = inner.args[0]
    if not (isinstance(shape4, ast.Tuple) and len(shape4.elts) == 4):
        raise TranslateError(f'{cls}._make_btwb: 4-D shape expected')
    dims = [_nb_index(e) for e in shape4.elts]
    if not (isinstance(axes, (ast.List, ast.Tuple)) and len(axes.elts) == 4
            and all(isinstance(e, ast.Constant) and isinstance(e.value, int)
                    and not isinstance(e.value, bool) for e in axes.elts)):
        raise TranslateError(f'{cls}._make_btwb: axes are not four integer constants')
    ax = [e.value for e in axes.elts]
    if sorted(ax) != [0, 1, 2, 3]:
        raise TranslateError(f'{cls}._make_btwb: axes {ax} are not a permutation of 0..3')
    if not (isinstance(shape2, ast.Tuple) and len(shape2.elts) == 2):
        raise TranslateError(f'{cls}._make_btwb: 2-D output shape expected')
    o1, o2 = (_prod_indices(e) for e in shape2.elts)
    if o1 != o2:
        raise TranslateError(f'{cls}._make_btwb: output shape is not square: {o1} x {o2}')
    return dims, ax, o1


def _require(fn, where, stmts):
    have = set()
    for node in ast.walk(fn):
        if isinstance(node, ast.stmt):
            have.add(_u(node))
    for s in stmts:
        if _u(ast.parse(s).body[0]) not in have:
            raise TranslateError(f'{where}: statement not found: {s}')


FLATTENERS = ('ravel', 'flatten', 'reshape')
ORDERS = {'C': 'OrdC', 'F': 'OrdF', 'A': 'OrdA', 'K': 'OrdK'}


def _flat_call(n):
    """(name, is_numpy_function) when n is a call of ravel / flatten / reshape, else None."""
    if not isinstance(n, ast.Call):
        return None
    if isinstance(n.func, ast.Attribute) and n.func.attr in FLATTENERS:
        is_np = isinstance(n.func.value, ast.Name) and n.func.value.id in ('np', 'numpy')
        return n.func.attr, is_np
    if isinstance(n.func, ast.Name) and n.func.id in FLATTENERS:
        return n.func.id, True
    return None


def _order_of(n, where):
    """The memory-order argument of a flattening call ('C' when absent); refuses anything that is
    not a literal 'C' / 'F' / 'A' / 'K'."""
    name, is_np = _flat_call(n)
    node = None
    for kw in n.keywords:
        if kw.arg == 'order':
            node = kw.value
        elif kw.arg is None:
            raise TranslateError(f'{where}: **kwargs in a call of {name}')
    if node is None:
        pos = None
        if name in ('ravel', 'flatten'):
            pos = 1 if is_np else 0          # np.ravel(a, order) | a.ravel(order)
        elif name == 'reshape' and is_np:
            pos = 2                          # np.reshape(a, shape, order)
        if pos is not None and len(n.args) > pos:
            node = n.args[pos]
    if node is None:
        return 'C'
    if isinstance(node, ast.Constant) and node.value in ORDERS:
        return node.value
    raise TranslateError(f'{where}: order argument of {name} is not a literal: {_u(node)}')


class _StripOrders(ast.NodeTransformer):
    def visit_Call(self, node):
        self.generic_visit(node)
        if _flat_call(node):
            node.keywords = [k for k in node.keywords if k.arg != 'order']
        return node


def _un(node):
    """unparse modulo the order= keyword of flattening calls (the orders are translated separately
    into gen_flatten_orders and judged by the Coq side, C20/Layout.v)."""
    return ast.unparse(_StripOrders().visit(copy.deepcopy(node)))


def _flatten_orders(repo):
    """Every ravel / flatten / reshape call of pybaselines/two_d/*.py with its order."""
    out = []
    files = sorted(glob.glob(os.path.join(repo, 'pybaselines', 'two_d', '*.py')))
    if len(files) < 8:
        raise TranslateError(f'pybaselines/two_d has only {len(files)} python files')
    for path in files:
        rel = os.path.relpath(path, repo)
        tree, _ = _parse(rel, repo)
        sites = sorted((n.lineno, n.col_offset, _order_of(n, rel)) for n in ast.walk(tree) if _flat_call(n))
        out.append((rel, [o for _, _, o in sites]))
    return out


REDUCERS = ('sum', 'mean', 'std', 'var', 'min', 'max', 'amin', 'amax', 'prod', 'median', 'average', 'any', 'all',
            'argmax', 'argmin', 'count_nonzero', 'nansum', 'nanmean', 'nanstd', 'nanmin', 'nanmax', 'ptp',
            'percentile', 'quantile')
ALWAYS_SHAPED = ('cumsum', 'cumprod', 'dot', 'matmul', 'trace', 'diagonal', 'diag', 'transpose', 'swapaxes',
                 'apply_along_axis', 'einsum', 'tensordot', 'outer', 'kron', 'argsort', 'sort', 'diff', 'gradient')
SUBSCRIPT_OK = ('tol_history', 'params', 'diff_order', 'lam', 'num_eigens', 'method_kwargs')


def _is_np(node):
    return isinstance(node, ast.Name) and node.id in ('np', 'numpy')


def _is_none(node):
    return isinstance(node, ast.Constant) and node.value is None


def _flat_form(node):
    """x.ravel() / x.flatten() / np.ravel(x) with the default order"""
    return _flat_call(node) is not None and _flat_call(node)[0] in ('ravel', 'flatten') \
        and _order_of(node, 'reduction argument') == 'C'


def _reduction_table(fn, where):
    """[(site text, 'RedFlat' | 'RedShape')] for everything in fn whose value can depend on whether its
    array argument is 1-D (direct branch) or 2-D (eigendecomposition branch)."""
    table = []
    # names that are 1-D on BOTH branches: boolean-mask selections  name = array[mask] / array[a < b]
    flat_names = set()
    for n in ast.walk(fn):
        if isinstance(n, ast.Assign) and len(n.targets) == 1 and isinstance(n.targets[0], ast.Name) \
                and isinstance(n.value, ast.Subscript) and isinstance(n.value.value, ast.Name) \
                and isinstance(n.value.slice, (ast.Name, ast.Compare)) \
                or isinstance(n, ast.Assign) and len(n.targets) == 1 and isinstance(n.targets[0], ast.Name) \
                and isinstance(n.value, ast.Subscript) and isinstance(n.value.slice, ast.UnaryOp) \
                and isinstance(n.value.slice.op, ast.Invert):
            flat_names.add(n.targets[0].id)
        elif isinstance(n, ast.Assign) and len(n.targets) == 1 and isinstance(n.targets[0], ast.Name) \
                and _flat_call(n.value) is not None and _flat_form(n.value):
            flat_names.add(n.targets[0].id)      # name = (...).ravel()
    # parameters with default None that are only passed through (classified at the call sites)
    pos = fn.args.args
    none_params = {a.arg for a, dflt in zip(pos[len(pos) - len(fn.args.defaults):], fn.args.defaults) if _is_none(dflt)}
    passthrough = fn.args.kwarg.arg if fn.args.kwarg else None

    def add(node, cls):
        table.append((f'{where}: {_u(node)[:70]}', cls))
    for n in ast.walk(fn):
        if isinstance(n, ast.Call):
            f = n.func
            name = f.attr if isinstance(f, ast.Attribute) else (f.id if isinstance(f, ast.Name) else None)
            kws = {k.arg: k.value for k in n.keywords}
            if name == '_safe_std':
                add(n, 'RedFlat' if len(n.args) == 1 and set(kws) <= {'ddof'} else 'RedShape')
                continue
            if None in kws:
                ok = (name in REDUCERS and not n.args and len(n.keywords) == 1 and isinstance(kws[None], ast.Name)
                      and kws[None].id == passthrough)       # x.std(**kwargs): judged where the helper is called
                add(n, 'RedFlat' if ok else 'RedShape')
                continue
            if name in ALWAYS_SHAPED and isinstance(f, ast.Attribute) and isinstance(f.value, ast.Name) \
                    and f.value.id in flat_names and all(isinstance(a, ast.Name) and a.id in flat_names for a in n.args):
                add(n, 'RedFlat')     # e.g. neg.dot(neg) on boolean-mask selections (1-D on both branches)
                continue
            if name == 'norm':
                arr = n.args[0] if n.args else None
                ordv = n.args[1] if len(n.args) > 1 else kws.get('ord')
                axis = n.args[2] if len(n.args) > 2 else kws.get('axis')
                if isinstance(ordv, ast.Name) and ordv.id in none_params:
                    ordv = None          # passed through from a default-None parameter: judged at the call sites
                plain = (ordv is None or _is_none(ordv)) and (axis is None or _is_none(axis))
                add(n, 'RedFlat' if plain or (arr is not None and _flat_form(arr) and (axis is None or _is_none(axis)))
                    else 'RedShape')
            elif name == 'relative_difference':
                ordv = n.args[2] if len(n.args) > 2 else kws.get('norm_order')
                add(n, 'RedFlat' if ordv is None or _is_none(ordv) else 'RedShape')
            elif name in REDUCERS:
                is_np_fn = isinstance(f, ast.Attribute) and _is_np(f.value) or isinstance(f, ast.Name)
                if isinstance(f, ast.Name) and name in ('min', 'max', 'any', 'all', 'sum'):
                    # python builtins on scalars / tuples (e.g. min(iteration, 50)); on arrays they iterate rows
                    add(n, 'RedFlat' if all(not isinstance(a, (ast.Name, ast.Attribute, ast.Subscript)) or len(n.args) > 1
                                            for a in n.args) else 'RedShape')
                    continue
                extra = n.args[1:] if is_np_fn else n.args
                axis = kws.get('axis')
                if name in ('percentile', 'quantile'):
                    extra = extra[1:]
                add(n, 'RedFlat' if not extra and (axis is None or _is_none(axis)) and 'keepdims' not in kws
                    else 'RedShape')
            elif name in ALWAYS_SHAPED or name == 'len':
                add(n, 'RedShape')
        elif isinstance(n, ast.Attribute) and isinstance(n.ctx, ast.Load):
            if n.attr in ('shape', 'ndim', 'T', 'flat'):
                add(n, 'RedShape')
            elif n.attr == 'size':
                add(n, 'RedFlat')
        elif isinstance(n, ast.BinOp) and isinstance(n.op, ast.MatMult):
            add(n, 'RedShape')
        elif isinstance(n, ast.Subscript) and isinstance(n.value, ast.Name) and n.value.id not in SUBSCRIPT_OK:
            idx = n.slice
            parts = idx.elts if isinstance(idx, ast.Tuple) else [idx]
            lit = any(isinstance(q, ast.Slice) or isinstance(q, ast.Constant) and isinstance(q.value, int)
                      or isinstance(q, ast.UnaryOp) and isinstance(q.operand, ast.Constant) for q in parts)
            if lit:
                add(n, 'RedShape')
    return table


def _host_reductions(repo):
    """Reduction tables of every eigen-capable 2-D Whittaker host (methods of _Whittaker with a num_eigens
    argument) and of the helpers they call (pybaselines._weighting.*, utils.relative_difference)."""
    wh, _ = _parse('pybaselines/two_d/whittaker.py', repo)
    cls = [n for n in ast.walk(wh) if isinstance(n, ast.ClassDef) and n.name == '_Whittaker']
    if len(cls) != 1:
        raise TranslateError('class _Whittaker not found in two_d/whittaker.py')
    hosts = [f for f in cls[0].body if isinstance(f, ast.FunctionDef)
             and 'num_eigens' in [a.arg for a in f.args.args + f.args.kwonlyargs]]
    if len(hosts) < 7:
        raise TranslateError(f'only {len(hosts)} eigen-capable hosts found')
    table, helpers = [], set()
    for f in hosts:
        table += _reduction_table(f, f'two_d.whittaker.{f.name}')
        for n in ast.walk(f):
            if isinstance(n, ast.Call) and isinstance(n.func, ast.Attribute) and isinstance(n.func.value, ast.Name) \
                    and n.func.value.id == '_weighting':
                helpers.add(n.func.attr)
    wt, _ = _parse('pybaselines/_weighting.py', repo)
    funcs = {f.name: f for f in wt.body if isinstance(f, ast.FunctionDef)}
    todo, seen = sorted(helpers), set()
    while todo:
        h = todo.pop(0)
        if h in seen:
            continue
        seen.add(h)
        if h not in funcs:
            raise TranslateError(f'_weighting.{h} not found')
        table += _reduction_table(funcs[h], f'_weighting.{h}')
        for n in ast.walk(funcs[h]):     # helpers of helpers defined in the same module
            if isinstance(n, ast.Call) and isinstance(n.func, ast.Name) and n.func.id in funcs:
                todo.append(n.func.id)
    ut, _ = _parse('pybaselines/utils.py', repo)
    table += _reduction_table(_func(ut, 'relative_difference'), 'utils.relative_difference')
    return [f.name for f in hosts], sorted(seen), table


def _require_body(fn, where, expected, loose=()):
    """The WHOLE body (docstring and comments aside) must be exactly the expected statement
    sequence -- an added branch (e.g. a fast path before the pinned statements) is refused.
    Indices in `loose` must be an `if` that assigns / returns nothing (validation only)."""
    body = _body_wo_doc(fn)
    if len(body) != len(expected):
        raise TranslateError(f'{where}: body has {len(body)} statements, expected {len(expected)} '
                             f'(first unexpected: {_u(body[min(len(body), len(expected)) - 1])[:80]!r})')
    for i, (st, exp) in enumerate(zip(body, expected)):
        if i in loose:
            if not isinstance(st, ast.If) or any(
                    isinstance(n, (ast.Assign, ast.AugAssign, ast.AnnAssign, ast.Return, ast.Call))
                    and not (isinstance(n, ast.Call) and _u(n.func) in ('warnings.warn', 'ValueError'))
                    for n in ast.walk(st)):
                raise TranslateError(f'{where}: statement {i} is not a pure validation if')
            continue
        if _un(st) != _un(ast.parse(exp).body[0]):
            raise TranslateError(f'{where}: statement {i} is {_u(st)[:120]!r}, expected {exp[:120]!r}')


SOLVE_SIG = (['self', 'y', 'weights', 'penalty', 'rhs_extra', 'assume_a'], ['None', 'None', "'pos'"])
SOLVE_BODY = [
    'if not self._using_svd:\n    return super().solve(y, weights, penalty, rhs_extra)',
    'rhs = (self.basis_r.T @ (weights * y) @ self.basis_c).ravel()',
    'if rhs_extra is not None:\n    rhs = rhs + rhs_extra',
    'if penalty is None:\n    penalty = self.penalty',
    'lhs = self._make_btwb(weights)',
    'np.fill_diagonal(lhs, lhs.diagonal() + penalty)',
    'self.coef = solve(lhs, rhs, lower=True, overwrite_a=True, overwrite_b=True, '
    'check_finite=False, assume_a=assume_a)',
    'output = self.basis_r @ self.coef.reshape(self._num_bases) @ self.basis_c.T',
    'return output',
]
DOF_SIG = (['self', 'weights', 'assume_a'], ["'pos'"])
DOF_BODY = [
    "if not self._using_svd:\n    raise ValueError('Cannot calculate degrees of freedom when not "
    "using eigendecomposition')",
    'lhs = self._make_btwb(weights)',
    'rhs = lhs.copy()',
    'np.fill_diagonal(lhs, lhs.diagonal() + self.penalty)',
    'dof = solve(lhs, rhs, lower=True, overwrite_a=True, overwrite_b=True, check_finite=False, '
    'assume_a=assume_a)',
    'return dof.diagonal().reshape(self._num_bases)',
]
EIG_BODY = [
    'penalty_bands = diff_penalty_diagonals(data_points, diff_order, lower_only=True)',
    None,   # validation if (messages free)
    "if diff_order == 1:\n    eigenvalues, eigenvectors = eigh_tridiagonal(penalty_bands[0], "
    "penalty_bands[1, :-1], select='i', select_range=(0, num_eigens - 1))\nelse:\n    "
    "eigenvalues, eigenvectors = eig_banded(penalty_bands, lower=True, select='i', "
    "select_range=(0, num_eigens - 1), overwrite_a_band=True)",
    'eigenvalues[:diff_order] = 0',
    'return (eigenvalues, eigenvectors)',
]
UPD_BODY = [
    "if not self._using_svd:\n    raise ValueError('Must call reset_diagonals if not using "
    "eigendecomposition')",
    'lam = _check_lam(lam, two_d=True)',
    'self.penalty_rows = lam[0] / self.lam[0] * self.penalty_rows',
    'self.penalty_columns = lam[1] / self.lam[1] * self.penalty_columns',
    'self.lam = lam',
    'self.penalty = self.penalty_rows + self.penalty_columns',
]


def _sig(fn, where, sig):
    got = ([a.arg for a in fn.args.args], [_u(d) for d in fn.args.defaults])
    if got != sig or fn.args.vararg or fn.args.kwarg or fn.args.kwonlyargs or fn.decorator_list:
        raise TranslateError(f'{where}: signature/decorators changed: {got}')


def _penalty(tree):
    fn = _method(tree, 'WhittakerSystem2D', 'reset_diagonals')
    rep = til = None
    for node in ast.walk(fn):
        if isinstance(node, ast.Assign) and len(node.targets) == 1:
            tgt = _u(node.targets[0])
            v = node.value
            if tgt == 'self.penalty_rows':
                if not (isinstance(v, ast.Call) and _u(v.func) == 'np.repeat' and len(v.args) == 2
                        and not v.keywords and _u(v.args[0]) == 'self.lam[0] * values_rows'):
                    raise TranslateError(f'penalty_rows is {_u(v)}')
                rep = _nb_index(v.args[1])
            elif tgt == 'self.penalty_columns':
                if not (isinstance(v, ast.Call) and _u(v.func) == 'np.tile' and len(v.args) == 2
                        and not v.keywords and _u(v.args[0]) == 'self.lam[1] * values_columns'):
                    raise TranslateError(f'penalty_columns is {_u(v)}')
                til = _nb_index(v.args[1])
    if rep is None or til is None:
        raise TranslateError('reset_diagonals: repeat/tile penalty not found')
    _sig(fn, 'WhittakerSystem2D.reset_diagonals', (['self', 'lam', 'diff_order'], ['1', '2']))
    _require_body(fn, 'WhittakerSystem2D.reset_diagonals', [
        'if not self._using_svd:\n    super().reset_diagonals(lam, diff_order)\n    return',
        # (since bf1c47d the request is validated into locals first and stored just before the penalty)
        "diff_order = _check_scalar_variable(diff_order, allow_zero=False, "
        "variable_name='difference order', two_d=True, dtype=int)",
        'lam = _check_lam(lam, two_d=True)',
        'values_rows, vectors_rows = self._calc_eigenvalues(self._num_points[0], '
        'diff_order[0], self._num_bases[0])',
        'if diff_order[0] == diff_order[1] and self._num_points[0] == self._num_points[1] '
        'and (self._num_bases[0] == self._num_bases[1]):\n'
        '    values_columns, vectors_columns = (values_rows, vectors_rows)\nelse:\n'
        '    values_columns, vectors_columns = self._calc_eigenvalues(self._num_points[1], '
        'diff_order[1], self._num_bases[1])',
        'self.diff_order = diff_order',
        'self.lam = lam',
        f'self.penalty_rows = np.repeat(self.lam[0] * values_rows, self._num_bases[{rep}])',
        f'self.penalty_columns = np.tile(self.lam[1] * values_columns, self._num_bases[{til}])',
        'self.penalty = self.penalty_rows + self.penalty_columns',
        'self.basis_r = vectors_rows',
        'self.basis_c = vectors_columns',
        'self._G_r = _face_splitting(self.basis_r)',
        'self._G_c = _face_splitting(self.basis_c)',
    ])
    fn = _method(tree, 'WhittakerSystem2D', '_calc_eigenvalues')
    _sig(fn, 'WhittakerSystem2D._calc_eigenvalues', (['self', 'data_points', 'diff_order', 'num_eigens'], []))
    _require_body(fn, 'WhittakerSystem2D._calc_eigenvalues', [e or 'pass' for e in EIG_BODY], loose=(1,))
    fn = _method(tree, 'WhittakerSystem2D', 'solve')
    _sig(fn, 'WhittakerSystem2D.solve', SOLVE_SIG)
    _require_body(fn, 'WhittakerSystem2D.solve', SOLVE_BODY)
    fn = _method(tree, 'WhittakerSystem2D', '_calc_dof')
    _sig(fn, 'WhittakerSystem2D._calc_dof', DOF_SIG)
    _require_body(fn, 'WhittakerSystem2D._calc_dof', DOF_BODY)
    fn = _method(tree, 'WhittakerSystem2D', 'update_penalty')
    _sig(fn, 'WhittakerSystem2D.update_penalty', (['self', 'lam'], []))
    _require_body(fn, 'WhittakerSystem2D.update_penalty', UPD_BODY)
    # `solve` inside the class must be scipy.linalg.solve, nothing may rebind these names
    imp = [n for n in ast.walk(tree) if isinstance(n, ast.ImportFrom) and n.module == 'scipy.linalg']
    names = sorted(a.name for n in imp for a in n.names if a.asname is None)
    if not {'eig_banded', 'eigh_tridiagonal', 'solve'} <= set(names):
        raise TranslateError(f'scipy.linalg imports are {names}')
    return rep, til


def _z4(v):
    return '(' + ', '.join(str(x) for x in v) + ')'


def _cfg(name, fs, dims, ax, out, rep, til):
    b = lambda x: 'true' if x else 'false'  # noqa: E731
    return (f'Definition {name} : cfg :=\n  mkcfg {b(fs[0])} {b(fs[1])} {_z4(dims)} {_z4(ax)} '
            f'[{"; ".join(str(x) for x in out)}] {rep} {til}.\n')


def gen_c20(repo):
    wt, _ = _parse(WU, repo)
    st, _ = _parse(SU, repo)
    fs = _face_splitting(wt)
    # the spline module must use the same _face_splitting
    imp = [n for n in ast.walk(st) if isinstance(n, ast.ImportFrom) and n.module == '_whittaker_utils'
           and n.level == 1 and any(a.name == '_face_splitting' and a.asname is None for a in n.names)]
    if not imp:
        raise TranslateError('_spline_utils does not import _face_splitting from ._whittaker_utils')
    _require(_method(st, 'SplineBasis2D', '__init__'), 'SplineBasis2D.__init__', [
        'self._G_r = _face_splitting(self.basis_r)',
        'self._G_c = _face_splitting(self.basis_c)',
        'self._num_bases = (self.basis_r.shape[1], self.basis_c.shape[1])',
    ])
    fn = _method(st, 'PSpline2D', 'solve')
    _sig(fn, 'PSpline2D.solve', (['self', 'y', 'weights', 'penalty', 'rhs_extra'], ['None', 'None']))
    _require_body(fn, 'PSpline2D.solve', [
        'if penalty is None:\n    penalty = self.penalty',
        'rhs = (self.basis.basis_r.T @ (weights * y) @ self.basis.basis_c).ravel()',
        'if rhs_extra is not None:\n    rhs = rhs + rhs_extra',
        'self.coef = spsolve(self.basis._make_btwb(weights) + penalty, rhs)',
        'output = self.basis.basis_r @ self.coef.reshape(self.basis._num_bases) @ self.basis.basis_c.T',
        'return output',
    ])
    # the analytical (num_eigens=None) branch: setup flattens, PenalizedSystem2D.solve solves
    at, _ = _parse('pybaselines/two_d/_algorithm_setup.py', repo)
    fn = _method(at, '_Algorithm2D', '_setup_whittaker')
    _sig(fn, '_Algorithm2D._setup_whittaker',
         (['self', 'y', 'lam', 'diff_order', 'weights', 'copy_weights', 'num_eigens'], ['1', '2', 'None', 'False', 'None']))
    _require_body(fn, '_Algorithm2D._setup_whittaker', [
        "diff_order = _check_scalar_variable(diff_order, allow_zero=False, variable_name='difference order', "
        "two_d=True, dtype=int)",
        "if (diff_order > 3).any():\n    warnings.warn('difference orders greater than 3 can have numerical "
        "issues; consider using a difference order of 2 or 1 instead', ParameterWarning, stacklevel=2)",
        'weight_array = _check_optional_array(self._shape, weights, dtype=float, copy_input=copy_weights, '
        'check_finite=self._check_finite, ensure_1d=False, axis=slice(None))',
        'if self._sort_order is not None and weights is not None:\n    weight_array = weight_array[self._sort_order]',
        'whittaker_system = WhittakerSystem2D(self._shape, lam, diff_order, num_eigens)',
        'if not whittaker_system._using_svd:\n    y = y.ravel()\n    weight_array = weight_array.ravel()',
        'return (y, weight_array, whittaker_system)',
    ])
    fn = _method(wt, 'PenalizedSystem2D', 'solve')
    _sig(fn, 'PenalizedSystem2D.solve', (['self', 'y', 'weights', 'penalty', 'rhs_extra'], ['None', 'None']))
    _require_body(fn, 'PenalizedSystem2D.solve', [
        'if penalty is None:\n    lhs = self.add_diagonal(weights)\nelse:\n    '
        'penalty.setdiag(penalty.diagonal() + weights)\n    lhs = penalty',
        'rhs = weights * y',
        'if rhs_extra is not None:\n    rhs = rhs + rhs_extra',
        'return self.direct_solve(lhs, rhs)',
    ])
    fn = _method(wt, 'PenalizedSystem2D', 'direct_solve')
    _sig(fn, 'PenalizedSystem2D.direct_solve', (['self', 'lhs', 'rhs'], []))
    _require_body(fn, 'PenalizedSystem2D.direct_solve', ['return spsolve(lhs, rhs)'])
    orders = _flatten_orders(repo)
    hosts, helpers, reds = _host_reductions(repo)
    wd, wa, wo = _make_btwb(wt, 'WhittakerSystem2D', None)
    sd, sa, so = _make_btwb(st, 'SplineBasis2D', 'csr_object')
    rep, til = _penalty(wt)
    out = ['(* GENERATED by tools/gen_c20.py from pybaselines/two_d/_whittaker_utils.py and',
           '   pybaselines/two_d/_spline_utils.py -- do not edit. *)',
           'From Coq Require Import ZArith List Bool.',
           'From PB Require Import C20.Model C20.Layout C20.Reductions.',
           'Import ListNotations.',
           'Open Scope Z_scope.',
           '',
           _cfg('gen_cfg_whittaker', fs, wd, wa, wo, rep, til),
           '(* SplineBasis2D has no eigenvalue penalty; the pen_* fields repeat the Whittaker ones *)',
           _cfg('gen_cfg_spline', fs, sd, sa, so, rep, til),
           '(* the order argument of every ravel / flatten / reshape call of pybaselines/two_d/*.py',
           '   (default = OrdC), file by file: ' + ', '.join(f'{os.path.basename(r)}:{len(o)}' for r, o in orders) + ' *)',
           'Definition gen_flatten_orders : list order :=\n  ['
           + '; '.join(ORDERS[o] for _, os_ in orders for o in os_) + '].\n',
           '(* reductions / shape-dependent operations in the eigen-capable hosts ' + ', '.join(hosts),
           '   and their helpers ' + ', '.join(helpers) + ', relative_difference; RedShape = depends on ndim:']
    out += ['   ' + cl + '  ' + site.replace('*)', '* )').replace('(*', '( *') for site, cl in reds]
    out += ['*)', 'Definition gen_reductions : list red :=\n  [' + '; '.join(cl for _, cl in reds) + '].\n']
    return '\n'.join(out)


GENERATORS = {'GenC20': gen_c20}
