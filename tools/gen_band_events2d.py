#!/usr/bin/env python3
"""GenBandEvents2D: for EVERY method of the 2-D penalized systems (PenalizedSystem2D, WhittakerSystem2D incl. its
eigendecomposition mode, PSpline2D) that assigns an attribute of self (constructors excepted), the events
`Raises what` / `Assigns attr` in source order, calls of the object's own methods inlined -- the same extraction and the
same classification of what can raise as tools/gen_band_effects.py (GenBandEffects.mutator_events) applies to the 1-D
classes.  Obligation: forallb strongly_safe = true (C11.EffectsProofs.strongly_safe_sound): no attribute of self is assigned
before the last statement that can raise, so an exception leaves the object as it was."""
import ast
import os

from trlib import TranslateError, _parse
from gen_band_effects import _Events, _classes, _functions, _methods, _raising_functions, coq_string

WHIT = os.path.join('pybaselines', 'two_d', '_whittaker_utils.py')
SPL = os.path.join('pybaselines', 'two_d', '_spline_utils.py')
BANDED = os.path.join('pybaselines', '_banded_utils.py')


def gen_band_events2d(repo=None):
    wtree, _ = _parse(WHIT, repo)
    stree, _ = _parse(SPL, repo)
    btree, _ = _parse(BANDED, repo)
    funcs = dict(_functions(btree))
    funcs.update(_functions(wtree))
    funcs.update(_functions(stree))
    raising = _raising_functions(funcs)
    wc, sc = _classes(wtree), _classes(stree)
    for need, table in (('PenalizedSystem2D', wc), ('WhittakerSystem2D', wc), ('PSpline2D', sc)):
        if need not in table:
            raise TranslateError(f'{need} not found')
    pm, wm, sm = _methods(wc['PenalizedSystem2D']), _methods(wc['WhittakerSystem2D']), _methods(sc['PSpline2D'])

    class _Ev2(_Events):
        # `super().reset_diagonals(...)` in WhittakerSystem2D: inline the base-class method
        def calls(self, node, where, stack):
            ev = []
            if node is None:
                return ev
            for n in ast.walk(node):
                if isinstance(n, ast.Call) and isinstance(n.func, ast.Attribute) and isinstance(n.func.value, ast.Call) \
                        and isinstance(n.func.value.func, ast.Name) and n.func.value.func.id == 'super':
                    m = pm.get(n.func.attr)
                    if m is None or ('super.' + n.func.attr) in stack:
                        raise TranslateError(f'{where}: super().{n.func.attr}')
                    ev += _Events(self.funcs, self.raising, lambda name: pm.get(name)).method(m, stack + ['super.' + n.func.attr])
                    n.func = ast.Name(id='len', ctx=ast.Load())      # neutralise for the generic walk below
            return ev + _Events.calls(self, node, where, stack)

    def paths(fn_body, ev2, where, stack, lookup):
        """alternative event lists of a statement list: an `if ...: ...; return` (or raise) without else splits the
        path; a statement that is just a call of one of the object's own methods is expanded path by path"""
        done, cur = [], [[]]
        for st in fn_body:
            if isinstance(st, ast.If) and not st.orelse and st.body and isinstance(st.body[-1], (ast.Return, ast.Raise)):
                test = ev2.calls(st.test, where, stack)
                inner = paths(st.body, ev2, where, stack, lookup)
                done += [p + test + q for p in cur for q in inner]
                cur = [p + test for p in cur]
                continue
            call = st.value if isinstance(st, (ast.Expr, ast.Return)) else None
            if isinstance(call, ast.Call) and isinstance(call.func, ast.Attribute) and not any(
                    isinstance(n, ast.Call) for a in list(call.args) + [k.value for k in call.keywords] for n in ast.walk(a)):
                f = call.func
                target = None
                if isinstance(f.value, ast.Name) and f.value.id == 'self':
                    target, tag, look = lookup(f.attr), f.attr, lookup
                elif isinstance(f.value, ast.Call) and isinstance(f.value.func, ast.Name) and f.value.func.id == 'super':
                    target, tag, look = pm.get(f.attr), 'super.' + f.attr, (lambda n: pm.get(n))
                if target is not None:
                    if tag in stack:
                        raise TranslateError(f'{where}: recursive call of {tag}')
                    sub = paths(target.body, _Ev2(funcs, raising, look), target.name, stack + [tag], look)
                    cur = [p + q for p in cur for q in sub]
                    continue
            ev = ev2.stmts([st], where, stack)
            cur = [p + ev for p in cur]
        return done + cur

    rows, exempt = [], []
    for cname, methods, lookup in (('PenalizedSystem2D', pm, lambda n: pm.get(n)),
                                   ('WhittakerSystem2D', wm, lambda n: wm.get(n) or pm.get(n)),
                                   ('PSpline2D', sm, lambda n: sm.get(n) or pm.get(n))):
        for name, fn in methods.items():
            if name == '__init__':
                exempt.append(f'{cname}.{name}')
                continue
            if fn.decorator_list and [ast.unparse(d) for d in fn.decorator_list] != ['property']:
                raise TranslateError(f'{cname}.{name}: decorated')
            alts = paths(fn.body, _Ev2(funcs, raising, lookup), name, [name], lookup)
            if len(alts) > 8:
                raise TranslateError(f'{cname}.{name}: too many paths')
            for k, ev in enumerate(alts):
                if any(kk == 'A' for kk, _ in ev):
                    rows.append((f'{cname}.{name}' + (f'[path {k + 1} of {len(alts)}]' if len(alts) > 1 else ''), ev))
    need = {'PenalizedSystem2D.reset_diagonals', 'PenalizedSystem2D.add_penalty', 'PenalizedSystem2D._update_bands',
            'WhittakerSystem2D.reset_diagonals', 'WhittakerSystem2D.update_penalty', 'WhittakerSystem2D.reset_penalty',
            'PSpline2D.reset_penalty'}
    missing = need - {r[0].split('[')[0] for r in rows}
    if missing:
        raise TranslateError(f'2-D mutators not found: {sorted(missing)}')

    def coq_ev(e):
        return ('Raises ' if e[0] == 'R' else 'Assigns ') + coq_string(e[1])
    lines = ['(* Generated by tools/gen_band_events2d.py from the current /repo source; do not edit. *)',
             'From Coq Require Import List String.',
             'From PB Require Import C11.Effects.',
             'Import ListNotations.',
             'Open Scope string_scope.',
             '',
             '(* every method of the 2-D systems that assigns an attribute of self (constructors excepted: ' + ', '.join(exempt) + ') *)',
             'Definition mutator2d_events : list (string * list event) := [']
    for i, (name, ev) in enumerate(rows):
        lines.append(f'  ({coq_string(name)}, [' + '; '.join(coq_ev(e) for e in ev) + '])' + (';' if i + 1 < len(rows) else ''))
    lines.append('].')
    return '\n'.join(lines) + '\n'


GENERATORS = {'GenBandEvents2D': gen_band_events2d}
