#!/usr/bin/env python3
"""Shared helpers of the fail-closed translator (see translate.py).

Only declarative facts are translated (constants, slice assignments with constant bounds,
dispatch conditions, decorator arguments, signatures).  Anything in a tracked function that is
not in the recognised shape raises TranslateError; the caller records that as a broken obligation.

usage: translate.py [--repo /repo] [--out /verif/coq/gen] [names...]   (default: all generators)
"""
import ast
import os
import sys

REPO = os.environ.get('VERIF_REPO', '/repo')


class TranslateError(Exception):
    pass


def _parse(relpath, repo=None):
    path = os.path.join(repo or REPO, relpath)
    with open(path) as f:
        src = f.read()
    return ast.parse(src, filename=path), src


def _func(tree, name):
    for node in ast.walk(tree):
        if isinstance(node, (ast.FunctionDef,)) and node.name == name:
            return node
    raise TranslateError(f'function {name} not found')


def _body_wo_doc(fn):
    body = list(fn.body)
    if body and isinstance(body[0], ast.Expr) and isinstance(body[0].value, ast.Constant) \
            and isinstance(body[0].value.value, str):
        body = body[1:]
    return body


def const_eval(node, env):
    """Evaluates an integer-valued constant expression over env (names -> int)."""
    if isinstance(node, ast.Constant):
        v = node.value
        if isinstance(v, bool) or not isinstance(v, (int, float)):
            raise TranslateError(f'non-numeric constant {v!r}')
        if isinstance(v, float):
            if v != int(v):
                raise TranslateError(f'non-integer constant {v!r}')
            v = int(v)
        return v
    if isinstance(node, ast.Name):
        if node.id in env:
            return env[node.id]
        raise TranslateError(f'unknown name {node.id}')
    if isinstance(node, ast.UnaryOp) and isinstance(node.op, ast.USub):
        return -const_eval(node.operand, env)
    if isinstance(node, ast.UnaryOp) and isinstance(node.op, ast.UAdd):
        return const_eval(node.operand, env)
    if isinstance(node, ast.BinOp) and isinstance(node.op, (ast.Add, ast.Sub, ast.Mult)):
        a, b = const_eval(node.left, env), const_eval(node.right, env)
        return {ast.Add: a + b, ast.Sub: a - b, ast.Mult: a * b}[type(node.op)]
    raise TranslateError(f'unsupported constant expression: {ast.dump(node)}')


def zlit(v):
    return f'({v})' if v < 0 else str(v)


def optz(v):
    return 'None' if v is None else f'(Some {zlit(v)})'




def bool_expr(node, names):
    """Python boolean/arith expression over integer names -> Coq bool/Z expression text."""
    if isinstance(node, ast.BoolOp):
        op = ' || ' if isinstance(node.op, ast.Or) else ' && '
        return '(' + op.join(bool_expr(v, names) for v in node.values) + ')'
    if isinstance(node, ast.UnaryOp) and isinstance(node.op, ast.Not):
        return f'(negb {bool_expr(node.operand, names)})'
    if isinstance(node, ast.Compare):
        parts = []
        left = node.left
        for op, right in zip(node.ops, node.comparators):
            sym = {ast.Lt: '<?', ast.LtE: '<=?', ast.Gt: '>?', ast.GtE: '>=?',
                   ast.Eq: '=?'}.get(type(op))
            if sym is None:
                if isinstance(op, ast.NotEq):
                    parts.append(f'(negb ({arith_expr(left, names)} =? {arith_expr(right, names)}))')
                    left = right
                    continue
                raise TranslateError(f'unsupported comparison {ast.dump(op)}')
            parts.append(f'({arith_expr(left, names)} {sym} {arith_expr(right, names)})')
            left = right
        return '(' + ' && '.join(parts) + ')'
    raise TranslateError(f'unsupported boolean expression {ast.dump(node)}')


def arith_expr(node, names):
    if isinstance(node, ast.Constant) and isinstance(node.value, int) \
            and not isinstance(node.value, bool):
        return zlit(node.value)
    if isinstance(node, ast.Name) and node.id in names:
        return node.id
    if isinstance(node, ast.UnaryOp) and isinstance(node.op, ast.USub):
        return f'(- {arith_expr(node.operand, names)})'
    if isinstance(node, ast.BinOp) and isinstance(node.op, (ast.Add, ast.Sub, ast.Mult)):
        sym = {ast.Add: '+', ast.Sub: '-', ast.Mult: '*'}[type(node.op)]
        return f'({arith_expr(node.left, names)} {sym} {arith_expr(node.right, names)})'
    raise TranslateError(f'unsupported arithmetic expression {ast.dump(node)}')


