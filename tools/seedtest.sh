#!/bin/bash
# usage: tools/seedtest.sh <patch.diff> <Cxx> [tier]
# Runs check Cxx against a seeded change WITHOUT touching /repo or /verif: both are copied to a scratch
# directory (the /verif copy keeps its compiled .vo files so only what changed is rebuilt), the patch is
# applied to the /repo copy, the copied check runs with VERIF_REPO pointing at it, then everything is removed.
# Prints the VIOLATION / KNOWN-FINDING / BROKEN lines and the summary line; exit status = the check's.
patch=$(readlink -f "$1"); prop=$2; tier=${3:-quick}
here=${SEEDTEST_SRC:-$(cd "$(dirname "$0")/.." && pwd)}   # SEEDTEST_SRC: a built snapshot of /verif to copy from
work=$(mktemp -d /tmp/seedtest.XXXXXX)
trap 'rm -rf "$work"' EXIT
rsync -a --exclude .git --exclude .cache --exclude evidence/replay --exclude coq/cases "$here/" "$work/verif/" 2>/dev/null
rsync -a --exclude .git /repo/ "$work/repo/"
( cd "$work/repo" && patch -p1 -s < "$patch" ) || { echo "patch does not apply"; exit 2; }
cd "$work/verif" || exit 2
NUMBA_CACHE_DIR="$work/numba" VERIF_REPO="$work/repo" ./bin/check "$prop" "$tier" > "$work/out.txt" 2>&1
rc=$?
grep -E "VIOLATION|KNOWN-FINDING|BROKEN|^\[C" "$work/out.txt" | cut -c1-500
if [ -n "$SEEDTEST_KEEP" ]; then mkdir -p "$SEEDTEST_KEEP"; cp "$work/out.txt" "$SEEDTEST_KEEP/$prop.$(basename "$(dirname "$patch")").out"; fi
exit $rc
