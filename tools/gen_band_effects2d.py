#!/usr/bin/env python3
"""GenBandEffects2D: PenalizedSystem2D.reset_diagonals (pybaselines/two_d/_whittaker_utils.py) as the sequence of
effects C11.Sys2D.exec2 runs, plus a fail-closed pin of everything the 2-D model takes for granted.

`reset2d_effects : list eff2` -- statement by statement; D is `self.diff_order` (FromSelf) or the checked local
`diff_order` (FromLocal), L is `self.lam` or the checked local `lam`:
    self.diff_order = _check_scalar_variable(diff_order, ...)   -> XCheckOrder; XSetOrder
    diff_order = _check_scalar_variable(diff_order, ...)        -> XCheckOrder          self.diff_order = diff_order -> XSetOrder
    self.lam = _check_lam(lam, two_d=True)                      -> XCheckLam; XSetLam   (local form likewise)
    penalty_rows = diff_penalty_matrix(self._num_bases[0], D[0])          -> XBuildRows src
    penalty_columns = diff_penalty_matrix(self._num_bases[1], D[1])       -> XBuildCols src
    P_rows = kron(L[0] * penalty_rows, identity(self._num_bases[1]))      -> XTermRows src
    P_columns = kron(identity(self._num_bases[0]), L[1] * penalty_columns)-> XTermCols src
    self.penalty = P_rows + P_columns                                     -> XSetPen
    self._update_bands()                                                  -> XBands
Anything else becomes XOther2 (no accepted order contains it).  In particular a statement that reads or writes
any OTHER attribute of self (a cache of intermediate results kept on the object) is XOther2.

Refused (TranslateError): class-level statements in PenalizedSystem2D / WhittakerSystem2D / PSpline2D (shared or
default state such as a cache slot), decorators, and any change of the bodies the model relies on:
PenalizedSystem2D.__init__ / _update_bands / add_diagonal / reset_diagonal / add_penalty,
WhittakerSystem2D.reset_diagonals (must delegate to super() when not self._using_svd) / reset_penalty,
PSpline2D.reset_penalty (must forward to reset_diagonals) / __init__ (super().__init__(self.basis._num_bases, lam, diff_order))."""
import ast
import os

from trlib import TranslateError, _parse

WHIT = os.path.join('pybaselines', 'two_d', '_whittaker_utils.py')
SPL = os.path.join('pybaselines', 'two_d', '_spline_utils.py')

CHECK_ORDER = ("_check_scalar_variable(diff_order, allow_zero=False, variable_name='difference order', "
               "two_d=True, dtype=int)")
CHECK_LAM = '_check_lam(lam, two_d=True)'
ALLOWED_SELF = {'_num_bases', 'diff_order', 'lam', 'penalty', '_update_bands'}


def _body(fn):
    return [s for s in fn.body if not (isinstance(s, ast.Expr) and isinstance(s.value, ast.Constant))]


def _texts(fn):
    return [ast.unparse(s) for s in _body(fn)]


def _class(tree, name):
    for n in tree.body:
        if isinstance(n, ast.ClassDef) and n.name == name:
            return n
    raise TranslateError(f'class {name} not found')


def _plain_methods(cls):
    if cls.decorator_list:
        raise TranslateError(f'{cls.name}: decorated class')
    out = {}
    for c in cls.body:
        if isinstance(c, ast.Expr) and isinstance(c.value, ast.Constant) and isinstance(c.value.value, str):
            continue
        if isinstance(c, ast.FunctionDef):
            if c.decorator_list and [ast.unparse(d) for d in c.decorator_list] != ['property']:
                raise TranslateError(f'{cls.name}.{c.name}: decorated')
            out[c.name] = c
            continue
        raise TranslateError(f'{cls.name}: class-level statement `{ast.unparse(c)[:60]}` (state shared by / defaulted for '
                             'every instance, e.g. a cache slot)')
    return out


def _self_attrs(node):
    return {n.attr for n in ast.walk(node)
            if isinstance(n, ast.Attribute) and isinstance(n.value, ast.Name) and n.value.id == 'self'}


def reset2d_effects(fn):
    if [a.arg for a in fn.args.args] != ['self', 'lam', 'diff_order']:
        raise TranslateError('PenalizedSystem2D.reset_diagonals: signature changed')
    effects = []
    local_d = local_l = False
    for st in _body(fn):
        src = ast.unparse(st)
        if _self_attrs(st) - ALLOWED_SELF:
            effects.append('XOther2')       # touches an attribute the model does not have
            continue
        if src == f'self.diff_order = {CHECK_ORDER}':
            effects += ['XCheckOrder', 'XSetOrder']
        elif src == f'diff_order = {CHECK_ORDER}':
            effects.append('XCheckOrder')
            local_d = True
        elif src == 'self.diff_order = diff_order' and local_d:
            effects.append('XSetOrder')
        elif src == f'self.lam = {CHECK_LAM}':
            effects += ['XCheckLam', 'XSetLam']
        elif src == f'lam = {CHECK_LAM}':
            effects.append('XCheckLam')
            local_l = True
        elif src == 'self.lam = lam' and local_l:
            effects.append('XSetLam')
        elif src == 'penalty_rows = diff_penalty_matrix(self._num_bases[0], self.diff_order[0])':
            effects.append('XBuildRows FromSelf')
        elif src == 'penalty_rows = diff_penalty_matrix(self._num_bases[0], diff_order[0])' and local_d:
            effects.append('XBuildRows FromLocal')
        elif src == 'penalty_columns = diff_penalty_matrix(self._num_bases[1], self.diff_order[1])':
            effects.append('XBuildCols FromSelf')
        elif src == 'penalty_columns = diff_penalty_matrix(self._num_bases[1], diff_order[1])' and local_d:
            effects.append('XBuildCols FromLocal')
        elif src == 'P_rows = kron(self.lam[0] * penalty_rows, identity(self._num_bases[1]))':
            effects.append('XTermRows FromSelf')
        elif src == 'P_rows = kron(lam[0] * penalty_rows, identity(self._num_bases[1]))' and local_l:
            effects.append('XTermRows FromLocal')
        elif src == 'P_columns = kron(identity(self._num_bases[0]), self.lam[1] * penalty_columns)':
            effects.append('XTermCols FromSelf')
        elif src == 'P_columns = kron(identity(self._num_bases[0]), lam[1] * penalty_columns)' and local_l:
            effects.append('XTermCols FromLocal')
        elif src == 'self.penalty = P_rows + P_columns':
            effects.append('XSetPen')
        elif src == 'self._update_bands()':
            effects.append('XBands')
        else:
            effects.append('XOther2')
    return effects


def _expect(cls, name, fn, want):
    got = _texts(fn)
    if got != want:
        raise TranslateError(f'{cls}.{name} changed: {got}')


def gen_band_effects2d(repo=None):
    wtree, _ = _parse(WHIT, repo)
    stree, _ = _parse(SPL, repo)
    p2 = _class(wtree, 'PenalizedSystem2D')
    w2 = _class(wtree, 'WhittakerSystem2D')
    s2 = _class(stree, 'PSpline2D')
    if p2.bases or [ast.unparse(b) for b in w2.bases] != ['PenalizedSystem2D'] \
            or [ast.unparse(b) for b in s2.bases] != ['PenalizedSystem2D']:
        raise TranslateError('class hierarchy of the 2-D systems changed')
    pm, wm, sm = _plain_methods(p2), _plain_methods(w2), _plain_methods(s2)
    for need in ('__init__', 'reset_diagonals', '_update_bands', 'add_diagonal', 'reset_diagonal', 'add_penalty'):
        if need not in pm:
            raise TranslateError(f'PenalizedSystem2D.{need} not found')
    # the imports the recognised statements rely on
    imports = {a.asname or a.name: (n.module, a.name) for n in wtree.body if isinstance(n, ast.ImportFrom) for a in n.names}
    for name, mod in (('kron', 'scipy.sparse'), ('diff_penalty_matrix', '_banded_utils'), ('identity', '_compat'),
                      ('_check_lam', '_validation'), ('_check_scalar_variable', '_validation')):
        if imports.get(name) != (mod, name):
            raise TranslateError(f'two_d._whittaker_utils: {name} is not {mod}.{name}')
    for n in ast.walk(wtree):
        if isinstance(n, (ast.Global, ast.Nonlocal)):
            raise TranslateError('two_d._whittaker_utils: global / nonlocal')
    effects = reset2d_effects(pm['reset_diagonals'])
    _expect('PenalizedSystem2D', '__init__', pm['__init__'],
            ['self._num_bases = data_size', 'self.reset_diagonals(lam, diff_order)'])
    _expect('PenalizedSystem2D', '_update_bands', pm['_update_bands'], ['self.main_diagonal = self.penalty.diagonal()'])
    _expect('PenalizedSystem2D', 'add_diagonal', pm['add_diagonal'],
            ['self.penalty.setdiag(self.main_diagonal + value)', 'return self.penalty'])
    _expect('PenalizedSystem2D', 'reset_diagonal', pm['reset_diagonal'], ['self.penalty.setdiag(self.main_diagonal)'])
    _expect('PenalizedSystem2D', 'add_penalty', pm['add_penalty'],
            ['self.penalty = self.penalty + penalty', 'self._update_bands()', 'return self.penalty'])
    # WhittakerSystem2D without eigendecomposition IS PenalizedSystem2D
    wb = _texts(wm['reset_diagonals']) if 'reset_diagonals' in wm else None
    if not wb or wb[0] != 'if not self._using_svd:\n    super().reset_diagonals(lam, diff_order)\n    return':
        raise TranslateError('WhittakerSystem2D.reset_diagonals does not delegate to PenalizedSystem2D.reset_diagonals '
                             'when not self._using_svd')
    if [a.arg for a in wm['reset_diagonals'].args.args] != ['self', 'lam', 'diff_order']:
        raise TranslateError('WhittakerSystem2D.reset_diagonals: signature changed')
    if 'reset_penalty' in wm:
        _expect('WhittakerSystem2D', 'reset_penalty', wm['reset_penalty'], ['self.reset_diagonals(lam, diff_order)'])
    wi = _texts(wm['__init__'])
    if wi[-1] != 'self.reset_diagonals(lam, diff_order)' or \
            not any('self._num_bases = data_size\n    self._using_svd = False' in t for t in wi):
        raise TranslateError('WhittakerSystem2D.__init__ changed')
    for name in ('_update_bands', 'add_diagonal', 'reset_diagonal', 'add_penalty'):
        if name in wm or name in sm:
            raise TranslateError(f'{name} is overridden in a 2-D subclass')
    # PSpline2D
    if 'reset_diagonals' in sm:
        raise TranslateError('PSpline2D overrides reset_diagonals')
    _expect('PSpline2D', 'reset_penalty', sm['reset_penalty'], ['self.reset_diagonals(lam, diff_order)'])
    si = _texts(sm['__init__'])
    if 'super().__init__(self.basis._num_bases, lam, diff_order)' not in si or si[:2] != ['self.coef = None', 'self.basis = spline_basis']:
        raise TranslateError('PSpline2D.__init__ changed')
    lines = ['(* Generated by tools/gen_band_effects2d.py from the current /repo source; do not edit. *)',
             'From Coq Require Import List.',
             'From PB Require Import C11.Sys2D.',
             'Import ListNotations.',
             '',
             '(* PenalizedSystem2D.reset_diagonals, statement by statement (also reached through',
             '   WhittakerSystem2D.reset_diagonals without eigendecomposition and PSpline2D.reset_penalty) *)',
             'Definition reset2d_effects : list eff2 := [' + '; '.join(effects) + '].']
    return '\n'.join(lines) + '\n'


GENERATORS = {'GenBandEffects2D': gen_band_effects2d}
