#!/usr/bin/env python3
"""Fail-closed translator: /repo source (Python ast) -> Coq *data* under coq/gen/.

Only declarative facts are translated (constants, slice assignments with constant bounds,
dispatch conditions, decorator arguments, signatures, write sites).  Anything in a tracked
function that is not in the recognised shape raises TranslateError; the generated file is then
removed (fail closed) and the caller records a broken obligation.

Generators live in tools/gen_*.py, each exporting GENERATORS = {name: function(repo) -> text}.

usage: translate.py [--repo /repo] [--out /verif/coq/gen] [names...]   (default: all generators)
"""
import glob
import importlib
import os
import sys

sys.path.insert(0, os.path.dirname(os.path.abspath(__file__)))
from trlib import REPO, TranslateError  # noqa: E402

GENERATORS = {}
for _p in sorted(glob.glob(os.path.join(os.path.dirname(os.path.abspath(__file__)), 'gen_*.py'))):
    try:
        _m = importlib.import_module(os.path.basename(_p)[:-3])
        GENERATORS.update(_m.GENERATORS)
    except Exception as _exc:  # noqa: a broken plug-in must not take the other generators down
        print(f'TRANSLATE-PLUGIN-FAILED {os.path.basename(_p)}: {type(_exc).__name__}: {_exc}')


def write_if_changed(path, text):
    old = None
    if os.path.exists(path):
        with open(path) as f:
            old = f.read()
    if old != text:
        with open(path, 'w') as f:
            f.write(text)
        return True
    return False


def main(argv):
    import argparse
    ap = argparse.ArgumentParser()
    ap.add_argument('--repo', default=REPO)
    ap.add_argument('--out', default=os.path.join(os.path.dirname(os.path.abspath(__file__)),
                                                  '..', 'coq', 'gen'))
    ap.add_argument('names', nargs='*')
    ns = ap.parse_args(argv)
    names = ns.names or list(GENERATORS)
    status = 0
    os.makedirs(ns.out, exist_ok=True)
    for name in names:
        path = os.path.join(ns.out, name + '.v')
        try:
            text = GENERATORS[name](ns.repo)
        except Exception as exc:  # noqa: fail closed on anything
            print(f'TRANSLATE-REFUSED {name}: {exc}')
            # fail closed: remove the stale file so nothing is proved about old source
            for ext in ('.v', '.vo', '.vok', '.vos', '.glob'):
                if os.path.exists(path[:-2] + ext):
                    os.remove(path[:-2] + ext)
            status = 2
            continue
        changed = write_if_changed(path, text)
        print(f'translated {name}: {"updated" if changed else "unchanged"}')
    return status


if __name__ == '__main__':
    sys.exit(main(sys.argv[1:]))
