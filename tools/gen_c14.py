"""GenSnip.v : the clipping filters of Baseline.snip (pybaselines/smooth.py) as a Coq table.

Every sweep of snip computes up to four filters of the form
    (c1 * (b[i - o1(i_left) : stop] + b[i + o1(i_right) : stop']) + c2 * (...) + ...) / den
with o(w) one of  w,  w // d,  n * w // d.  The translator reads the coefficients, the offsets, the
divisors and the spelling of the slice stops from the source, checks the surrounding statements of the loop
(window clipping, iteration order, the np.where update, the returned slice) against the shapes the Coq model
C14/Model.v transcribes, and refuses (fail closed) anything else."""
import ast

from trlib import TranslateError, _parse, _func, _body_wo_doc, zlit


def _dump(node):
    return ast.dump(node, annotate_fields=False, include_attributes=False)


def _stmt(src):
    return _dump(ast.parse(src).body[0])


def _expr(src):
    return _dump(ast.parse(src, mode='eval').body)


def _is_name(node, name):
    return isinstance(node, ast.Name) and node.id == name


def _int(node):
    if isinstance(node, ast.Constant) and isinstance(node.value, int) and not isinstance(node.value, bool):
        return node.value
    raise TranslateError(f'expected an integer literal, got {_dump(node)}')


def _offset(node, wname):
    """w | w // d | n * w // d   ->  (n, d)"""
    if _is_name(node, wname):
        return (1, 1)
    if isinstance(node, ast.BinOp) and isinstance(node.op, ast.FloorDiv):
        d = _int(node.right)
        if d <= 0:
            raise TranslateError('non-positive divisor in a window offset')
        if _is_name(node.left, wname):
            return (1, d)
        left = node.left
        if isinstance(left, ast.BinOp) and isinstance(left.op, ast.Mult) and _is_name(left.right, wname):
            return (_int(left.left), d)
    raise TranslateError(f'unsupported window offset: {_dump(node)}')


def _slice(node, side):
    """baseline[i -/+ off : stop -/+ off] -> ((n, d), posform)"""
    wname = 'i_left' if side == 'l' else 'i_right'
    op = ast.Sub if side == 'l' else ast.Add
    if not (isinstance(node, ast.Subscript) and _is_name(node.value, 'baseline')
            and isinstance(node.slice, ast.Slice) and node.slice.step is None
            and node.slice.lower is not None and node.slice.upper is not None):
        raise TranslateError(f'not a baseline[lo:hi] slice: {_dump(node)}')
    lo, hi = node.slice.lower, node.slice.upper
    if not (isinstance(lo, ast.BinOp) and isinstance(lo.op, op) and _is_name(lo.left, 'i')):
        raise TranslateError(f'unsupported slice start: {_dump(lo)}')
    off = _offset(lo.right, wname)
    if not (isinstance(hi, ast.BinOp) and isinstance(hi.op, op)):
        raise TranslateError(f'unsupported slice stop: {_dump(hi)}')
    if _offset(hi.right, wname) != off:
        raise TranslateError('slice start and stop use different offsets')
    base = _dump(hi.left)
    if base == _expr('num_y - i'):
        pos = True
    elif base == _expr('-i'):
        pos = False
    else:
        raise TranslateError(f'unsupported slice stop base: {base}')
    return off, pos


def _pair(node):
    """baseline[left slice] + baseline[right slice]"""
    if not (isinstance(node, ast.BinOp) and isinstance(node.op, ast.Add)):
        raise TranslateError(f'not a sum of two slices: {_dump(node)}')
    lo, lp = _slice(node.left, 'l')
    ro, rp = _slice(node.right, 'r')
    if lo != ro or lp != rp:
        raise TranslateError('left and right slices of a pair differ in offset or stop spelling')
    return lo, lp


def _flatten(node, sign, out):
    """left-associated chain of + and - at the top level, in evaluation order"""
    if isinstance(node, ast.BinOp) and isinstance(node.op, (ast.Add, ast.Sub)) \
            and not _looks_like_pair(node):
        _flatten(node.left, sign, out)
        rsign = sign if isinstance(node.op, ast.Add) else -sign
        if isinstance(node.right, ast.BinOp) and isinstance(node.right.op, (ast.Add, ast.Sub)) \
                and not _looks_like_pair(node.right):
            raise TranslateError('right-nested sum: evaluation order is not left to right')
        out.append((rsign, node.right))
    else:
        out.append((sign, node))


def _looks_like_pair(node):
    return (isinstance(node, ast.BinOp) and isinstance(node.op, ast.Add)
            and isinstance(node.left, ast.Subscript) and isinstance(node.right, ast.Subscript))


def _filter(node):
    """(sum of terms) / den -> (den, [(coef, n, d, posform)])"""
    if not (isinstance(node, ast.BinOp) and isinstance(node.op, ast.Div)):
        raise TranslateError('filter is not <sum> / <int>')
    den = _int(node.right)
    if den <= 0:
        raise TranslateError('non-positive filter divisor')
    body = node.left
    terms = []
    if _looks_like_pair(body):
        leaves = [(1, body)]
    else:
        leaves = []
        _flatten(body, 1, leaves)
    # a leading bare  b[..] + b[..]  was flattened into (.., pair) by _looks_like_pair already
    for k, (sign, leaf) in enumerate(leaves):
        coef = sign
        if isinstance(leaf, ast.UnaryOp) and isinstance(leaf.op, ast.USub):
            coef, leaf = -coef, leaf.operand
        if isinstance(leaf, ast.BinOp) and isinstance(leaf.op, ast.Mult):
            coef, leaf = coef * _int(leaf.left), leaf.right
        (n, d), pos = _pair(leaf)
        if k > 0 and sign < 0 and coef > 0:
            raise TranslateError('double negation in a filter term')
        terms.append((coef, n, d, pos))
    if not terms:
        raise TranslateError('empty filter')
    return den, terms


def gen_snip(repo=None):
    tree, _ = _parse('pybaselines/smooth.py', repo)
    fns = [f for c in ast.walk(tree) if isinstance(c, ast.ClassDef) for f in c.body
           if isinstance(f, ast.FunctionDef) and f.name == 'snip']
    if len(fns) != 1:
        raise TranslateError('snip: method not found (or not unique)')
    fn = fns[0]
    body = _body_wo_doc(fn)
    dumps = [_dump(s) for s in body]

    def need(src, what):
        if _stmt(src) not in dumps:
            raise TranslateError(f'snip: statement not found / changed ({what}): {src.splitlines()[0]}')

    need('half_windows = np.array(_check_half_window(max_half_window, two_d=True))', 'half windows')
    need('max_of_half_windows = np.max(half_windows)', 'largest half window')
    need('if decreasing:\n    range_args = (max_of_half_windows, 0, -1)\n'
         'else:\n    range_args = (1, max_of_half_windows + 1, 1)', 'iteration order')
    need('num_y = self._size + 2 * max_of_half_windows', 'padded length')
    need('baseline = y.copy()', 'working copy')
    need('y = self._setup_smooth(data, max_of_half_windows, pad_kwargs=pad_kwargs, **kwargs)[0]', 'padding')
    need('return baseline[max_of_half_windows:-max_of_half_windows], {}', 'returned slice')
    # clipping of the half windows
    clip = [s for s in body if isinstance(s, ast.For) and _dump(s.iter) == _expr('enumerate(half_windows)')]
    if len(clip) != 1:
        raise TranslateError('snip: half-window clipping loop not found')
    cb = clip[0].body
    if not (len(cb) == 1 and isinstance(cb[0], ast.If)
            and _dump(cb[0].test) == _expr('half_window > (self._size - 1) // 2')
            and _dump(cb[0].body[-1]) == _stmt('half_windows[i] = (self._size - 1) // 2')
            and not cb[0].orelse):
        raise TranslateError('snip: half-window clipping changed')
    loops = [s for s in body if isinstance(s, ast.For) and _dump(s.iter) == _expr('range(*range_args)')]
    if len(loops) != 1 or not _is_name(loops[0].target, 'i') or loops[0].orelse:
        raise TranslateError('snip: main loop not found')
    lb = loops[0].body
    if len(lb) != 8:
        raise TranslateError(f'snip: main loop has {len(lb)} statements, expected 8')
    if _dump(lb[0]) != _stmt('i_left = min(i, half_windows[0])') or \
            _dump(lb[1]) != _stmt('i_right = min(i, half_windows[1])'):
        raise TranslateError('snip: i_left / i_right changed')
    filters = []
    st = lb[2]
    if not (isinstance(st, ast.Assign) and len(st.targets) == 1 and _is_name(st.targets[0], 'filters')):
        raise TranslateError('snip: first filter assignment not found')
    filters.append(_filter(st.value))
    for k, st in enumerate(lb[3:6]):
        if not (isinstance(st, ast.If) and not st.orelse and len(st.body) == 2
                and _dump(st.test) == _expr(f'filter_order > {2 * (k + 1)}')
                and _dump(st.body[1]) == _stmt('filters = np.maximum(filters, filters_new)')
                and isinstance(st.body[0], ast.Assign) and len(st.body[0].targets) == 1
                and _is_name(st.body[0].targets[0], 'filters_new')):
            raise TranslateError(f'snip: filter block {k + 2} changed')
        filters.append(_filter(st.body[0].value))
    st = lb[6]
    if not (isinstance(st, ast.If) and _is_name(st.test, 'smooth') and len(st.orelse) == 1
            and _dump(st.orelse[0]) == _stmt('previous_baseline = baseline[i:-i]')):
        raise TranslateError('snip: the non-smoothing branch changed')
    if _dump(lb[7]) != _stmt('baseline[i:-i] = np.where(baseline[i:-i] > filters, filters, previous_baseline)'):
        raise TranslateError('snip: the update statement changed')
    out = ['(* GENERATED by tools/translate.py from pybaselines/smooth.py (Baseline.snip) -- do not edit *)',
           'From Coq Require Import ZArith List Bool.',
           'From PB Require Import C14.Model.',
           'Import ListNotations.', 'Open Scope Z_scope.', '',
           'Definition snip_table : list filt := [']
    rows = []
    for den, terms in filters:
        ts = '; '.join(f'{{| coef := {zlit(c)}; onum := {zlit(n)}; oden := {zlit(d)}; posform := {"true" if p else "false"} |}}'
                       for c, n, d, p in terms)
        rows.append(f'  {{| fden := {zlit(den)}; terms := [{ts}] |}}')
    out.append(';\n'.join(rows))
    out.append('].')
    return '\n'.join(out) + '\n'


def gen_rubber(repo=None):
    """GenRubber.v : which points rubberband hands to qhull, how the hull vertices are selected, and what
    is interpolated.  Pins: hull_data = stack of self.x and y; ConvexHull(hull_data[segment]).vertices;
    min_idx / max_idx (the constant added to argmax is EXTRACTED); the two slicing branches; the mask; and
    np.interp(self.x, self.x[mask], y[mask])."""
    tree, _ = _parse('pybaselines/classification.py', repo)
    fns = [f for c in ast.walk(tree) if isinstance(c, ast.ClassDef) for f in c.body
           if isinstance(f, ast.FunctionDef) and f.name == 'rubberband']
    if len(fns) != 1:
        raise TranslateError('rubberband: method not found (or not unique)')
    body = _body_wo_doc(fns[0])
    dumps = [_dump(s) for s in body]

    def need(src, what):
        if _stmt(src) not in dumps:
            raise TranslateError(f'rubberband: statement not found / changed ({what}): {src.splitlines()[0]}')

    # points handed to qhull: hull_data = np.vstack((ROW_X, ROW_Y)).T where each row is the data axis itself or an
    # INCREASING affine image of it:  (v - A) / B  with B recognisably positive, possibly guarded  ... if B > 0 else v
    hd = [st for st in body if isinstance(st, ast.Assign) and len(st.targets) == 1 and _is_name(st.targets[0], 'hull_data')]
    if len(hd) != 1:
        raise TranslateError('rubberband: hull_data assignment not found (or not unique)')
    val = hd[0].value
    if not (isinstance(val, ast.Attribute) and val.attr == 'T' and isinstance(val.value, ast.Call)
            and _dump(val.value.func) == _expr('np.vstack') and len(val.value.args) == 1 and not val.value.keywords
            and isinstance(val.value.args[0], ast.Tuple) and len(val.value.args[0].elts) == 2):
        raise TranslateError('rubberband: hull_data is not np.vstack((row_x, row_y)).T')
    assigned = {}
    for st in body:
        if isinstance(st, ast.Assign) and len(st.targets) == 1 and isinstance(st.targets[0], ast.Name):
            assigned.setdefault(st.targets[0].id, []).append(_dump(st.value))

    def positive(node, var, guard):
        d = _dump(node)
        if var == 'self.x' and d == _expr('self.x_domain[1] - self.x_domain[0]'):
            return True          # x_domain = (x.min(), x.max()) of at least two distinct abscissae
        if var == 'y' and isinstance(node, ast.Name) and guard == _dump(ast.parse(f'{node.id} > 0', mode='eval').body):
            # guarded by `name > 0`; the name must be the data range
            return assigned.get(node.id) == [_expr('y.max() - y_min')] and assigned.get('y_min') == [_expr('y.min()')]
        return False

    def axis_map(node, var, guard=None):
        if _dump(node) == _expr(var):
            return 'id'
        if isinstance(node, ast.IfExp) and guard is None:
            a = axis_map(node.body, var, _dump(node.test))
            b = axis_map(node.orelse, var, 'else')
            if a == 'scaled' and b == 'id':
                return 'scaled'
            raise TranslateError(f'rubberband: unsupported guarded axis map for {var}')
        if isinstance(node, ast.BinOp) and isinstance(node.op, ast.Div) and isinstance(node.left, ast.BinOp) \
                and isinstance(node.left.op, ast.Sub) and _dump(node.left.left) == _expr(var) \
                and positive(node.right, var, guard):
            sub = node.left.right
            if _dump(sub) in (_expr('self.x_domain[0]'), _expr('y_min')) or isinstance(sub, ast.Constant):
                return 'scaled'
        raise TranslateError(f'rubberband: the {var} row handed to qhull is not {var} or an increasing affine image of it: {_dump(node)[:200]}')

    row_x, row_y = val.value.args[0].elts
    x_map = axis_map(row_x, 'self.x')
    y_map = axis_map(row_y, 'y')
    need('total_vertices = []', 'vertex accumulator')
    need('mask = np.zeros(self._shape, dtype=bool)', 'mask')
    need('mask[np.unique(total_vertices)] = True', 'mask from the kept vertices')
    need("return baseline, {'mask': mask}", 'return')
    loops = [s for s in body if isinstance(s, ast.For) and _dump(s.iter) == _expr('enumerate(total_sections[:-1])')]
    if len(loops) != 1 or loops[0].orelse or _dump(loops[0].target) != _dump(ast.parse('i, left_idx = 0').body[0].targets[0]):
        raise TranslateError('rubberband: segment loop not found')
    lb = loops[0].body
    if len(lb) != 5:
        raise TranslateError(f'rubberband: segment loop has {len(lb)} statements, expected 5')
    if _dump(lb[0]) != _stmt('vertices = ConvexHull(hull_data[left_idx:total_sections[i + 1]]).vertices'):
        raise TranslateError('rubberband: the ConvexHull call changed')
    if _dump(lb[1]) != _stmt('min_idx = vertices.argmin()'):
        raise TranslateError('rubberband: min_idx changed')
    st = lb[2]
    if not (isinstance(st, ast.Assign) and len(st.targets) == 1 and _is_name(st.targets[0], 'max_idx')):
        raise TranslateError('rubberband: max_idx assignment not found')
    val = st.value
    off = 0
    if isinstance(val, ast.BinOp) and isinstance(val.op, (ast.Add, ast.Sub)):
        off = _int(val.right) * (1 if isinstance(val.op, ast.Add) else -1)
        val = val.left
    if _dump(val) != _expr('vertices.argmax()'):
        raise TranslateError('rubberband: max_idx is not vertices.argmax() + constant')
    if _dump(lb[3]) != _stmt('if max_idx > min_idx:\n    vertices = vertices[min_idx:max_idx]\n'
                             'else:\n    vertices = np.concatenate((vertices[min_idx:], vertices[:max_idx]))'):
        raise TranslateError('rubberband: the vertex slicing changed')
    if _dump(lb[4]) != _stmt('total_vertices.extend(vertices + left_idx)'):
        raise TranslateError('rubberband: the vertex offset changed')
    # the interpolation (no-lam branch)
    ifs = [s for s in body if isinstance(s, ast.If) and _dump(s.test) == _expr('lam is not None and lam != 0')]
    if len(ifs) != 1 or len(ifs[0].orelse) != 1 or \
            _dump(ifs[0].orelse[0]) != _stmt('baseline = np.interp(self.x, self.x[mask], y[mask])'):
        raise TranslateError('rubberband: the interpolation call changed')
    return ('(* GENERATED by tools/translate.py from pybaselines/classification.py (rubberband) -- do not edit *)\n'
            'From Coq Require Import ZArith.\nOpen Scope Z_scope.\n\n'
            '(* max_idx = vertices.argmax() + rb_max_offset *)\n'
            f'Definition rb_max_offset : Z := {zlit(off)}.\n'
            '(* pinned: hull points = vstack((row_x, row_y)).T per segment, each row the data axis or an increasing affine image\n'
            '   of it ((v - A) / B with B > 0: C14_rubberband_affine_invariant says the lower hull is the same);\n'
            '   interpolation = np.interp(self.x, self.x[mask], y[mask]) *)\n'
            'Definition rb_points_are_x_y : bool := true.\n'
            f'Definition rb_x_scaled : bool := {"true" if x_map == "scaled" else "false"}.\n'
            f'Definition rb_y_scaled : bool := {"true" if y_map == "scaled" else "false"}.\n'
            'Definition rb_interp_over_x_mask : bool := true.\n')


GENERATORS = {'GenSnip': gen_snip, 'GenRubber': gen_rubber}
