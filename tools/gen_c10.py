"""GenC10.v : the configuration logic that decides which banded solver / optional dependency is used
(property C10), read off the current source:

  * _Algorithm.banded_solver setter: accepted values, banded_solver -> _pentapy_solver;
  * _Algorithm._setup_whittaker / _setup_spline: banded_solver -> allow_lower / allow_pentapy and how
    they are passed to PenalizedSystem / PSpline;
  * PenalizedSystem.reset_diagonals: the three flag expressions (using_pentapy, lower_only,
    needs_reversed);
  * PenalizedSystem.solve: the if/elif/else chain and the library entry point of each arm, with the
    keyword constants (lower=True, is_flat=True, index_row_wise=True) and the default l_and_u;
  * _compat.py: how _HAS_PENTAPY / _HAS_NUMBA are set and the shape of the no-numba `jit` shim.

Fail closed: anything not in the recognised shape raises TranslateError."""
import ast

from trlib import TranslateError, _parse, _func, _body_wo_doc, const_eval, zlit

AS = 'pybaselines/_algorithm_setup.py'
BU = 'pybaselines/_banded_utils.py'
CO = 'pybaselines/_compat.py'


def _u(node):
    return ast.unparse(node)


def _method(tree, cls, name, setter=False):
    for node in ast.walk(tree):
        if isinstance(node, ast.ClassDef) and node.name == cls:
            for st in node.body:
                if isinstance(st, ast.FunctionDef) and st.name == name:
                    decos = [_u(d) for d in st.decorator_list]
                    if setter == any(d.endswith('.setter') for d in decos):
                        return st
    raise TranslateError(f'{cls}.{name} not found')


# ------------------------------------------------------------------ expressions
def bexpr(node, env):
    """Python truth-valued expression -> Coq bool expression.  env: python text -> (coq name, type),
    type in {'bool', 'Z', 'optbool'}."""
    if isinstance(node, ast.BoolOp):
        op = ' || ' if isinstance(node.op, ast.Or) else ' && '
        return '(' + op.join(bexpr(v, env) for v in node.values) + ')'
    if isinstance(node, ast.UnaryOp) and isinstance(node.op, ast.Not):
        return f'(negb {bexpr(node.operand, env)})'
    if isinstance(node, ast.Compare) and len(node.ops) == 1:
        op, left, right = node.ops[0], node.left, node.comparators[0]
        if isinstance(op, ast.Is) and isinstance(right, ast.Constant) and right.value is None:
            name, ty = _lookup(left, env)
            if ty != 'optbool':
                raise TranslateError(f'`is None` on non-optional {_u(left)}')
            return f'(match {name} with None => true | Some _ => false end)'
        sym = {ast.Lt: '<?', ast.LtE: '<=?', ast.Eq: '=?'}.get(type(op))
        if sym is None:
            raise TranslateError(f'unsupported comparison {_u(node)}')
        return f'({zexpr(left, env)} {sym} {zexpr(right, env)})'
    name, ty = _lookup(node, env)
    if ty == 'bool':
        return name
    if ty == 'optbool':     # truthiness of None / False / True
        return f'(match {name} with Some b => b | None => false end)'
    raise TranslateError(f'{_u(node)} used as a truth value')


def zexpr(node, env):
    if isinstance(node, ast.Constant) and isinstance(node.value, int) and not isinstance(node.value, bool):
        return zlit(node.value)
    name, ty = _lookup(node, env)
    if ty != 'Z':
        raise TranslateError(f'{_u(node)} used as an integer')
    return name


def _lookup(node, env):
    key = _u(node)
    if key in env:
        return env[key]
    raise TranslateError(f'unknown name {key}')


def _if_sets_flag(st, flag):
    """if T: flag = True else: flag = False   ->  T"""
    if not (isinstance(st, ast.If) and len(st.body) == 1 and len(st.orelse) == 1):
        raise TranslateError(f'{flag}: not an if/else')
    a, b = st.body[0], st.orelse[0]
    for s, v in ((a, True), (b, False)):
        if not (isinstance(s, ast.Assign) and len(s.targets) == 1 and _u(s.targets[0]) == flag
                and isinstance(s.value, ast.Constant) and s.value.value is v):
            raise TranslateError(f'{flag}: branch is not `{flag} = {v}`')
    return st.test


def _find_assign(body, target):
    found = [st for st in body if isinstance(st, ast.Assign) and len(st.targets) == 1
             and _u(st.targets[0]) == target]
    if len(found) != 1:
        raise TranslateError(f'expected exactly one top-level assignment to {target}, found {len(found)}')
    return found[0]


def _calls(node, fname):
    out = []
    for n in ast.walk(node):
        if isinstance(n, ast.Call) and _u(n.func) == fname:
            out.append(n)
    return out


def _kw(call, name):
    for k in call.keywords:
        if k.arg == name:
            return k.value
    raise TranslateError(f'{_u(call.func)}: keyword {name} not passed')


def _const_bool(node, what):
    if isinstance(node, ast.Constant) and isinstance(node.value, bool):
        return 'true' if node.value else 'false'
    raise TranslateError(f'{what}: not a boolean constant ({_u(node)})')


# ------------------------------------------------------------------ pieces
def _setter(tree, out):
    fn = _method(tree, '_Algorithm', 'banded_solver', setter=True)
    args = [a.arg for a in fn.args.args]
    if args != ['self', 'solver']:
        raise TranslateError(f'banded_solver setter: unexpected signature {args}')
    body = _body_wo_doc(fn)
    if len(body) != 3:
        raise TranslateError(f'banded_solver setter: expected 3 statements, found {len(body)}')
    guard, store, pick = body
    # if isinstance(solver, bool) or solver not in {1, 2, 3, 4}: raise ValueError
    if not (isinstance(guard, ast.If) and len(guard.body) == 1 and isinstance(guard.body[0], ast.Raise)
            and not guard.orelse and isinstance(guard.test, ast.BoolOp) and isinstance(guard.test.op, ast.Or)
            and len(guard.test.values) == 2 and _u(guard.test.values[0]) == 'isinstance(solver, bool)'):
        raise TranslateError('banded_solver setter: guard not recognised')
    mem = guard.test.values[1]
    if not (isinstance(mem, ast.Compare) and len(mem.ops) == 1 and isinstance(mem.ops[0], ast.NotIn)
            and _u(mem.left) == 'solver' and isinstance(mem.comparators[0], (ast.Set, ast.Tuple, ast.List))):
        raise TranslateError('banded_solver setter: membership test not recognised')
    values = sorted(const_eval(e, {}) for e in mem.comparators[0].elts)
    if _u(store) != 'self._banded_solver = solver':
        raise TranslateError('banded_solver setter: does not store self._banded_solver = solver')
    # if solver < 3: self._pentapy_solver = solver else: self._pentapy_solver = 1
    if not (isinstance(pick, ast.If) and len(pick.body) == 1 and len(pick.orelse) == 1
            and _u(pick.body[0]) == 'self._pentapy_solver = solver'
            and isinstance(pick.orelse[0], ast.Assign)
            and _u(pick.orelse[0].targets[0]) == 'self._pentapy_solver'):
        raise TranslateError('banded_solver setter: _pentapy_solver selection not recognised')
    env = {'solver': ('solver', 'Z')}
    dflt = const_eval(pick.orelse[0].value, {})
    out.append('(* _Algorithm.banded_solver setter *)')
    out.append('Definition bs_values : list Z := [' + '; '.join(zlit(v) for v in values) + '].')
    out.append(f'Definition bs_pentapy_solver (solver : Z) : Z := if {bexpr(pick.test, env)} then solver else {zlit(dflt)}.')


def _setup_whittaker(tree, out):
    fn = _func(tree, '_setup_whittaker')
    body = _body_wo_doc(fn)
    env = {'allow_lower': ('allow_lower', 'bool'), 'self.banded_solver': ('banded_solver', 'Z')}
    al = _find_assign(body, 'allow_lower')
    ap = _find_assign(body, 'allow_pentapy')
    calls = _calls(fn, 'PenalizedSystem')
    if len(calls) != 1:
        raise TranslateError('_setup_whittaker: expected exactly one PenalizedSystem(...) call')
    call = calls[0]
    pos = [_u(a) for a in call.args]
    if pos != ['self._size', 'lam', 'diff_order', 'allow_lower', 'reverse_diags']:
        raise TranslateError(f'_setup_whittaker: PenalizedSystem positional arguments {pos}')
    if _u(_kw(call, 'allow_pentapy')) != 'allow_pentapy' or _u(_kw(call, 'pentapy_solver')) != 'self._pentapy_solver':
        raise TranslateError('_setup_whittaker: allow_pentapy / pentapy_solver not passed through')
    if sorted(k.arg for k in call.keywords) != ['allow_pentapy', 'pentapy_solver']:
        raise TranslateError('_setup_whittaker: unexpected PenalizedSystem keywords')
    # the flag assignments must precede the constructor call
    if not (al.lineno < call.lineno and ap.lineno < call.lineno):
        raise TranslateError('_setup_whittaker: flags assigned after the PenalizedSystem call')
    out.append('(* _Algorithm._setup_whittaker *)')
    out.append(f'Definition sw_allow_lower (allow_lower : bool) (banded_solver : Z) : bool := {bexpr(al.value, env)}.')
    out.append(f'Definition sw_allow_pentapy (banded_solver : Z) : bool := {bexpr(ap.value, env)}.')
    # PenalizedSystem.__init__ forwards to reset_diagonals in this order
    init = _method(tree2[0], 'PenalizedSystem', '__init__')
    rcalls = _calls(init, 'self.reset_diagonals')
    if len(rcalls) != 1 or [_u(a) for a in rcalls[0].args] != ['lam', 'diff_order', 'allow_lower', 'reverse_diags', 'allow_pentapy'] \
            or [(k.arg, _u(k.value)) for k in rcalls[0].keywords] != [('padding', 'padding')]:
        raise TranslateError('PenalizedSystem.__init__: reset_diagonals call not recognised')
    sig = [a.arg for a in init.args.args]
    if sig != ['self', 'data_size', 'lam', 'diff_order', 'allow_lower', 'reverse_diags', 'allow_pentapy', 'padding', 'pentapy_solver']:
        raise TranslateError(f'PenalizedSystem.__init__: unexpected signature {sig}')
    if not any(_u(st) == 'self.pentapy_solver = pentapy_solver' for st in init.body):
        raise TranslateError('PenalizedSystem.__init__: pentapy_solver not stored')


def _setup_spline(tree, out):
    fn = _func(tree, '_setup_spline')
    body = _body_wo_doc(fn)
    env = {'allow_lower': ('allow_lower', 'bool'), 'self.banded_solver': ('banded_solver', 'Z')}
    al = _find_assign(body, 'allow_lower')
    calls = _calls(fn, 'PSpline')
    if len(calls) != 1 or [_u(a) for a in calls[0].args] != ['self._spline_basis', 'lam', 'diff_order', 'allow_lower', 'reverse_diags'] \
            or calls[0].keywords:
        raise TranslateError('_setup_spline: PSpline(...) call not recognised')
    out.append('(* _Algorithm._setup_spline *)')
    out.append(f'Definition sp_allow_lower (allow_lower : bool) (banded_solver : Z) : bool := {bexpr(al.value, env)}.')


def _reset_diagonals(tree, out):
    fn = _method(tree, 'PenalizedSystem', 'reset_diagonals')
    sig = [a.arg for a in fn.args.args]
    if sig != ['self', 'lam', 'diff_order', 'allow_lower', 'reverse_diags', 'allow_pentapy', 'padding']:
        raise TranslateError(f'reset_diagonals: unexpected signature {sig}')
    body = _body_wo_doc(fn)
    env = {'allow_pentapy': ('allow_pentapy', 'bool'), '_HAS_PENTAPY': ('has_pentapy', 'bool'),
           'diff_order': ('diff_order', 'Z'), 'allow_lower': ('allow_lower', 'bool'),
           'using_pentapy': ('using_pentapy', 'bool'), 'reverse_diags': ('reverse_diags', 'optbool')}
    up = _find_assign(body, 'using_pentapy')

    def _flag_if(flag):
        cands = [st for st in body if isinstance(st, ast.If)
                 and any(isinstance(a, ast.Assign) and _u(a.targets[0]) == flag for a in st.body)]
        if len(cands) != 1:
            raise TranslateError(f'reset_diagonals: expected exactly one top-level `if` setting {flag}, found {len(cands)}')
        return cands[0]
    lo_if, nr_if = _flag_if('lower_only'), _flag_if('needs_reversed')
    if not (up.lineno < lo_if.lineno < nr_if.lineno):
        raise TranslateError('reset_diagonals: using_pentapy / lower_only / needs_reversed are not computed in this order')
    lo = _if_sets_flag(lo_if, 'lower_only')
    nr = _if_sets_flag(nr_if, 'needs_reversed')
    # the flags must be stored after they are computed and not be touched in between
    first_store = min(st.lineno for st in body if isinstance(st, ast.Assign)
                      and _u(st) in ('self.lower = lower_only', 'self.using_pentapy = using_pentapy', 'self.reversed = needs_reversed'))
    if first_store < nr_if.lineno:
        raise TranslateError('reset_diagonals: a flag is stored before it is computed')
    # the flags are stored under the attribute names solve() reads
    stores = {_u(st) for st in body if isinstance(st, ast.Assign)}
    for need in ('self.lower = lower_only', 'self.using_pentapy = using_pentapy', 'self.reversed = needs_reversed'):
        if need not in stores:
            raise TranslateError(f'reset_diagonals: `{need}` not found')
    for name in ('using_pentapy', 'lower_only', 'needs_reversed'):
        n = sum(1 for st in ast.walk(fn) if isinstance(st, ast.Assign) and any(_u(t) == name for t in st.targets))
        if n != (1 if name == 'using_pentapy' else 2):
            raise TranslateError(f'reset_diagonals: {name} assigned {n} times')
    out.append('(* PenalizedSystem.reset_diagonals *)')
    out.append('Definition rd_using_pentapy (allow_pentapy has_pentapy : bool) (diff_order : Z) : bool := '
               + bexpr(up.value, env) + '.')
    out.append('Definition rd_lower_only (allow_lower using_pentapy : bool) : bool := ' + bexpr(lo, env) + '.')
    out.append('Definition rd_needs_reversed (reverse_diags : option bool) (using_pentapy : bool) : bool := '
               + bexpr(nr, env) + '.')


def _solve(tree, out):
    fn = _method(tree, 'PenalizedSystem', 'solve')
    body = _body_wo_doc(fn)
    # optional tail between the chain and the return: `if check_output and ...: raise ...` (output validation, no dispatch)
    checks = [st for st in body[1:-1]]
    for st in checks:
        names = {n.id for n in ast.walk(st.test) if isinstance(n, ast.Name)} if isinstance(st, ast.If) else set()
        if not (isinstance(st, ast.If) and 'check_output' in names and not st.orelse and len(st.body) == 1
                and isinstance(st.body[0], ast.Raise)):
            raise TranslateError('PenalizedSystem.solve: unrecognised statement between the dispatch chain and the return: ' + _u(st)[:80])
    if not (len(body) >= 2 and isinstance(body[0], ast.If) and _u(body[-1]) == 'return output'):
        raise TranslateError('PenalizedSystem.solve: body is not `if ...: ...` [+ output check] + `return output`')
    arms = []
    node = body[0]
    while True:
        cond = {'self.using_pentapy': 'CUsingPentapy', 'self.lower': 'CLower'}.get(_u(node.test))
        if cond is None:
            raise TranslateError(f'PenalizedSystem.solve: unsupported condition {_u(node.test)}')
        arms.append((cond, node.body))
        if len(node.orelse) == 1 and isinstance(node.orelse[0], ast.If):
            node = node.orelse[0]
        else:
            if not node.orelse:
                raise TranslateError('PenalizedSystem.solve: chain has no else')
            arms.append(('CElse', node.orelse))
            break
    # _pentapy_solver's own call of pentapy.solve
    ps = _func(tree, '_pentapy_solver')
    if [a.arg for a in ps.args.args] != ['ab', 'y', 'check_output', 'pentapy_solver']:
        raise TranslateError('_pentapy_solver: unexpected signature')
    pcalls = _calls(ps, '_pentapy_solve')
    if len(pcalls) != 1 or [_u(a) for a in pcalls[0].args] != ['ab', 'y'] \
            or sorted(k.arg for k in pcalls[0].keywords) != ['index_row_wise', 'is_flat', 'solver'] \
            or _u(_kw(pcalls[0], 'solver')) != 'pentapy_solver':
        raise TranslateError('_pentapy_solver: pentapy.solve call not recognised')
    is_flat = _const_bool(_kw(pcalls[0], 'is_flat'), 'is_flat')
    row_wise = _const_bool(_kw(pcalls[0], 'index_row_wise'), 'index_row_wise')
    entries = []
    for cond, stmts in arms:
        assigned = [st for st in stmts if isinstance(st, ast.Assign) and _u(st.targets[0]) == 'output']
        if len(assigned) != 1 or not isinstance(assigned[0].value, ast.Call):
            raise TranslateError(f'PenalizedSystem.solve: arm {cond} does not assign output = <call>')
        call = assigned[0].value
        f = _u(call.func)
        pos = [_u(a) for a in call.args]
        others = [st for st in stmts if st is not assigned[0]]
        if f == '_pentapy_solver':
            if pos != ['lhs', 'rhs'] or _u(_kw(call, 'pentapy_solver')) != 'self.pentapy_solver' or others:
                raise TranslateError('PenalizedSystem.solve: _pentapy_solver call not recognised')
            entries.append(f'({cond}, KPentapy {is_flat} {row_wise})')
        elif f == 'solveh_banded':
            if pos != ['lhs', 'rhs'] or others:
                raise TranslateError('PenalizedSystem.solve: solveh_banded call not recognised')
            entries.append(f'({cond}, KSolveh {_const_bool(_kw(call, "lower"), "lower")})')
        elif f == 'solve_banded':
            if pos != ['l_and_u', 'lhs', 'rhs'] or len(others) != 1:
                raise TranslateError('PenalizedSystem.solve: solve_banded call not recognised')
            d = others[0]
            if not (isinstance(d, ast.If) and _u(d.test) == 'l_and_u is None' and not d.orelse
                    and [_u(s) for s in d.body] == ['num_bands = len(lhs) // 2', 'l_and_u = (num_bands, num_bands)']):
                raise TranslateError('PenalizedSystem.solve: default l_and_u not recognised')
            entries.append(f'({cond}, KSolveBanded LuHalfRows)')
        else:
            raise TranslateError(f'PenalizedSystem.solve: unknown entry point {f}')
    out.append('(* PenalizedSystem.solve (and _pentapy_solver) *)')
    out.append('Definition solve_chain : list (dcond * dcall) := [' + '; '.join(entries) + '].')
    out.append('Definition solve_output_checks : Z := ' + str(len(checks)) + '.')


def _try_flag(tree, flag, module):
    """try: from <module> import ...; FLAG = True  except ImportError: FLAG = False ...  -> the Try node"""
    for node in tree.body:
        if isinstance(node, ast.Try):
            first = node.body[0]
            if isinstance(first, ast.ImportFrom) and first.module == module:
                if not (len(node.body) == 2 and _u(node.body[1]) == f'{flag} = True'):
                    raise TranslateError(f'{flag}: try body not recognised')
                if not (len(node.handlers) == 1 and _u(node.handlers[0].type) == 'ImportError'
                        and _u(node.handlers[0].body[0]) == f'{flag} = False'):
                    raise TranslateError(f'{flag}: except ImportError branch not recognised')
                if node.orelse or node.finalbody:
                    raise TranslateError(f'{flag}: unexpected else/finally')
                return node
    raise TranslateError(f'try/except import of {module} not found')


def _compat(tree, out):
    _try_flag(tree, '_HAS_PENTAPY', 'pentapy')
    nb = _try_flag(tree, '_HAS_NUMBA', 'numba')
    names = sorted(a.name for a in nb.body[0].names)
    if names != ['jit', 'prange']:
        raise TranslateError(f'numba import list {names}')
    handler = nb.handlers[0].body
    defs = {st.name: st for st in handler if isinstance(st, ast.FunctionDef)}
    if sorted(defs) != ['jit', 'prange']:
        raise TranslateError(f'no-numba fallbacks defined: {sorted(defs)}')
    pr = _body_wo_doc(defs['prange'])
    if not (defs['prange'].args.vararg and defs['prange'].args.vararg.arg == 'args' and len(pr) == 1
            and _u(pr[0]) == 'return range(*args)'):
        raise TranslateError('prange fallback is not range(*args)')
    jit = defs['jit']
    a = jit.args
    if not ([x.arg for x in a.args] == ['func'] and len(a.defaults) == 1 and _u(a.defaults[0]) == 'None'
            and a.vararg and a.kwarg and not jit.decorator_list):
        raise TranslateError('jit fallback: signature is not (func=None, *jit_args, **jit_kwargs)')
    body = _body_wo_doc(jit)
    if len(body) != 3:
        raise TranslateError(f'jit fallback: expected 3 statements, found {len(body)}')
    guard, wrapper, ret = body
    if not (isinstance(guard, ast.If) and not guard.orelse and len(guard.body) == 1
            and isinstance(guard.body[0], ast.Return)):
        raise TranslateError('jit fallback: guard not recognised')
    atoms = []
    vals = guard.test.values if (isinstance(guard.test, ast.BoolOp) and isinstance(guard.test.op, ast.Or)) else [guard.test]
    for v in vals:
        t = _u(v)
        if t == 'func is None':
            atoms.append('GIsNone')
        elif t == 'not callable(func)':
            atoms.append('GNotCallable')
        else:
            raise TranslateError(f'jit fallback: unsupported guard disjunct {t}')

    def retkind(node):
        t = _u(node.value) if node.value is not None else 'None'
        if t == 'jit':
            return 'RetDecorator'
        if t == 'wrapper':
            return 'RetWrapper'
        raise TranslateError(f'jit fallback: returns {t}')
    gret = retkind(guard.body[0])
    if not (isinstance(wrapper, ast.FunctionDef) and wrapper.name == 'wrapper'
            and [_u(d) for d in wrapper.decorator_list] == ['wraps(func)']
            and wrapper.args.vararg and wrapper.args.kwarg and not wrapper.args.args):
        raise TranslateError('jit fallback: wrapper definition not recognised')
    wb = _body_wo_doc(wrapper)
    if len(wb) != 1:
        raise TranslateError('jit fallback: wrapper body has more than one statement')
    st = wb[0]
    returns = isinstance(st, ast.Return)
    val = st.value if isinstance(st, (ast.Return, ast.Expr)) else None
    calls_func = isinstance(val, ast.Call) and _u(val.func) == 'func'
    star = calls_func and [_u(x) for x in val.args] == ['*' + wrapper.args.vararg.arg]
    kw = calls_func and [(k.arg, _u(k.value)) for k in val.keywords] == [(None, wrapper.args.kwarg.arg)]
    if not isinstance(ret, ast.Return):
        raise TranslateError('jit fallback: last statement is not a return')

    def cb(b):
        return 'true' if b else 'false'
    out.append('(* _compat.py: the no-numba jit shim *)')
    out.append('Definition shim_guard : list guard_atom := [' + '; '.join(atoms) + '].')
    out.append(f'Definition shim_guard_ret : shim_ret := {gret}.')
    out.append(f'Definition shim_wrapper : wrapper_body := {{| wb_calls_func := {cb(calls_func)}; '
               f'wb_star_args := {cb(star)}; wb_star_kwargs := {cb(kw)}; wb_returns := {cb(returns)} |}}.')
    out.append(f'Definition shim_final_ret : shim_ret := {retkind(ret)}.')



# ------------------------------------------------------------------ beads: the two assembly paths
MI = 'pybaselines/misc.py'
BEADS_PATH_SPECIFIC = {'A', 'B', 'BTB', 'temp', 'A_factor', 'A_lower', 'ab_lu', 'full_shape', 'num_diags',
                       'offsets', 'spsolve', 'splu', 'solveh_banded', 'solve_banded', '_banded_dot_banded',
                       '_banded_dot_vector', 'dia_object'}


def _beads_shared(fn):
    """Normalised text of every assignment of the function that does not mention a path-specific name
    (the band/sparse matrices and their solvers): weights, gamma, penalty-derivative rows, cost."""
    out = []
    for node in ast.walk(fn):
        if isinstance(node, (ast.Assign, ast.AugAssign)):
            names = {n.id for n in ast.walk(node) if isinstance(n, ast.Name)}
            if names & BEADS_PATH_SPECIFIC:
                continue
            out.append(_u(node))
    return sorted(out)


def _beads(tree, out):
    fb, fs = _func(tree, '_banded_beads'), _func(tree, '_sparse_beads')
    if [a.arg for a in fb.args.args] != [a.arg for a in fs.args.args]:
        raise TranslateError('_banded_beads and _sparse_beads have different signatures')
    if [_u(d) for d in fb.args.defaults] != [_u(d) for d in fs.args.defaults]:
        raise TranslateError('_banded_beads and _sparse_beads have different defaults')
    sb, ss = _beads_shared(fb), _beads_shared(fs)
    if sb != ss:
        only_b = [t for t in sb if t not in ss]
        only_s = [t for t in ss if t not in sb]
        raise TranslateError('the scalar / weighting statements of _banded_beads and _sparse_beads differ: '
                             f'only banded: {only_b}; only sparse: {only_s}')
    need = ['gamma[~big_x] = gamma_factor / eps_0', 'gamma[big_x] = gamma_factor / abs_x[big_x]', 'd_diags[2] += gamma',
            'd_diags = lam_1 * d1_diags + lam_2 * d2_diags']
    for t in need:
        if t not in sb:
            raise TranslateError(f'beads: expected statement `{t}` not found in both paths')
    # the products of the banded path and their band counts / symmetric flags
    calls = [c for c in _calls(fb, '_banded_dot_banded')]
    desc = sorted(_u(c) for c in calls)
    want = sorted([
        '_banded_dot_banded(B, B, ab_lu, ab_lu, full_shape, full_shape, True)',
        '_banded_dot_banded(A, d_diags, ab_lu, (2, 2), full_shape, full_shape)',
        '_banded_dot_banded(_banded_dot_banded(A, d_diags, ab_lu, (2, 2), full_shape, full_shape), A, '
        '(filter_type + 2, filter_type + 2), ab_lu, full_shape, full_shape, True)'])
    if desc != want:
        raise TranslateError(f'_banded_beads: banded products not in the recognised shape: {desc}')
    if not any(_u(st) == 'ab_lu = (filter_type, filter_type)' for st in ast.walk(fb) if isinstance(st, ast.Assign)):
        raise TranslateError('_banded_beads: ab_lu is not (filter_type, filter_type)')
    if not any(_u(st) == 'temp[2:-2] += BTB' for st in ast.walk(fb) if isinstance(st, ast.AugAssign)):
        raise TranslateError('_banded_beads: `temp[2:-2] += BTB` not found')
    # dispatch in beads(): numba -> banded, otherwise sparse, same argument list
    bd = _method(tree, '_Misc', 'beads')
    disp = [n for n in ast.walk(bd) if isinstance(n, ast.If) and _u(n.test) == '_HAS_NUMBA']
    if len(disp) != 1:
        raise TranslateError('beads: `if _HAS_NUMBA` dispatch not found')
    cb, cs = _calls(disp[0].body[0], '_banded_beads'), _calls(disp[0].orelse[0], '_sparse_beads')
    if len(cb) != 1 or len(cs) != 1 or [_u(a) for a in cb[0].args] != [_u(a) for a in cs[0].args] \
            or cb[0].keywords or cs[0].keywords:
        raise TranslateError('beads: the two paths are not called with the same arguments')
    out.append('(* misc.py beads: the statements that do not involve the band / sparse matrices are textually')
    out.append('   identical in _banded_beads and _sparse_beads (checked by the translator, fail closed) *)')
    out.append(f'Definition beads_shared_statements : Z := {len(sb)}.')


# kernel loop bounds of _numba_banded_dot_banded, as normalised text
def _beads_kernel(tree, out):
    fn = _func(tree, '_numba_banded_dot_banded')
    body = _body_wo_doc(fn)
    text = [_u(st) for st in body]
    want = ['for o_c in range(-(a_upper + b_upper), lower_bound + 1):\n'
            '    for o_a in range(-min(a_upper, b_lower - o_c), min(a_lower, b_upper + o_c) + 1):\n'
            '        o_b = o_c - o_a\n        row_a = a_upper + o_a\n        row_b = b_upper + o_b\n'
            '        row_c = c_upper + o_c\n        d_a = 0\n        d_b = -o_b\n        d_c = -o_b\n'
            '        for frame in range(max(0, -o_a, o_b), max(0, diag_length + min(0, -o_a, o_b))):\n'
            '            c[row_c, frame + d_c] += a[row_a, frame + d_a] * b[row_b, frame + d_b]',
            'return c']
    if text != want:
        raise TranslateError('_numba_banded_dot_banded: loop nest differs from the modelled one: ' + repr(text)[:400])
    out.append('Definition beads_kernel_is_modelled : bool := true.')


# ------------------------------------------------------------------ every place the package looks at the optional dependencies
FLAG_NAMES = {'_HAS_NUMBA', '_HAS_PENTAPY'}
OPT_MODULES = {'numba', 'pentapy', 'llvmlite'}
PROBE_ATTRS = {'py_func', 'find_spec', 'import_module', '__wrapped__'}


def _sites(repo):
    """(flag sites, jit-decorated functions) of the whole package.  A flag site is any occurrence of
    _HAS_NUMBA / _HAS_PENTAPY (import, assignment, read), any import of numba / pentapy / llvmlite, and any
    use of py_func / find_spec / import_module / __wrapped__ / sys.modules (other ways to tell whether the
    optional packages are there), with the function it occurs in."""
    import os
    from trlib import REPO
    root = os.path.join(repo or REPO, 'pybaselines')
    files = []
    for d, dirs, fs in os.walk(root):
        dirs[:] = sorted(x for x in dirs if x != '__pycache__')
        for f in sorted(fs):
            if f.endswith('.py'):
                files.append(os.path.relpath(os.path.join(d, f), os.path.join(root, '..')))
    sites, jits = [], []
    for rel in sorted(files):
        tree, _ = _parse(rel, repo)

        def visit(node, scope):
            if isinstance(node, (ast.FunctionDef, ast.AsyncFunctionDef, ast.ClassDef)):
                for dec in getattr(node, 'decorator_list', []):
                    t = _u(dec)
                    if t == 'jit' or t.startswith('jit(') or 'numba' in t:
                        jits.append((rel, '.'.join(scope + [node.name]), t))
                    visit(dec, scope)
                inner = scope + [node.name]
                for ch in ast.iter_child_nodes(node):
                    if ch not in getattr(node, 'decorator_list', []):
                        visit(ch, inner)
                return
            where = '.'.join(scope) or '<module>'
            if isinstance(node, ast.Name) and node.id in FLAG_NAMES:
                sites.append((rel, where, ('store ' if isinstance(node.ctx, ast.Store) else 'read ') + node.id))
            elif isinstance(node, ast.Attribute) and (node.attr in FLAG_NAMES or node.attr in PROBE_ATTRS):
                sites.append((rel, where, 'attr ' + node.attr))
            elif isinstance(node, ast.Attribute) and _u(node) == 'sys.modules':
                sites.append((rel, where, 'attr sys.modules'))
            elif isinstance(node, ast.Constant) and isinstance(node.value, str) and node.value in (FLAG_NAMES | OPT_MODULES):
                sites.append((rel, where, 'string ' + node.value))
            elif isinstance(node, ast.ImportFrom):
                mod = node.module or ''
                if mod.split('.')[0] in OPT_MODULES:
                    sites.append((rel, where, 'import from ' + mod))
                for a in node.names:
                    if a.name in FLAG_NAMES:
                        sites.append((rel, where, 'import ' + a.name))
            elif isinstance(node, ast.Import):
                for a in node.names:
                    if a.name.split('.')[0] in OPT_MODULES:
                        sites.append((rel, where, 'import ' + a.name))
            for ch in ast.iter_child_nodes(node):
                visit(ch, scope)
        visit(tree, [])
    return sorted(sites), sorted(jits)


def _emit_sites(repo, out):
    sites, jits = _sites(repo)

    def q(t):
        if '"' in t:
            raise TranslateError(f'quote in site text {t!r}')
        return '"' + t + '"%string'
    out.append('(* every occurrence of the optional-dependency flags / imports / probes in the package, with its scope *)')
    out.append('Definition flag_sites : list (string * string * string) := [')
    out.append(';\n'.join(f'  ({q(a)}, {q(b)}, {q(c)})' for a, b, c in sites))
    out.append('].')
    out.append('(* every jit-decorated function *)')
    out.append('Definition jit_functions : list (string * string * string) := [')
    out.append(';\n'.join(f'  ({q(a)}, {q(b)}, {q(c)})' for a, b, c in jits))
    out.append('].')


# ------------------------------------------------------------------ in-place solver arguments must be fresh buffers
# scipy's banded / dense solvers write into `b` (overwrite_b) and `ab` / `a` (overwrite_ab / overwrite_a);
# pentapy never does.  So a buffer handed over with overwrite_*=True must not be reachable from anything the
# method returns or keeps: otherwise that value depends on which backend ran.
NP_VIEW_FUNCS = {'asarray', 'asanyarray', 'ravel', 'reshape', 'atleast_1d', 'atleast_2d', 'squeeze', 'transpose',
                 'broadcast_to', 'ascontiguousarray', 'asfortranarray', 'swapaxes', 'moveaxis', 'expand_dims', 'diagonal'}
ALLOC_METHODS = {'copy', 'astype', 'dot', 'toarray', 'todense', 'sum', 'mean', 'cumsum', 'tolist', 'repeat', 'take',
                 'round', 'clip', 'conj', 'min', 'max', 'solve'}


def _enclosing_functions(tree):
    """[(qualified name, FunctionDef)] for every function / method."""
    res = []

    def visit(node, scope):
        for ch in ast.iter_child_nodes(node):
            if isinstance(ch, (ast.FunctionDef, ast.AsyncFunctionDef)):
                res.append(('.'.join(scope + [ch.name]), ch))
                visit(ch, scope + [ch.name])
            elif isinstance(ch, ast.ClassDef):
                visit(ch, scope + [ch.name])
            else:
                visit(ch, scope)
    visit(tree, [])
    return res


def _own_nodes(fn):
    """nodes of fn excluding nested function bodies"""
    out = []

    def visit(node):
        for ch in ast.iter_child_nodes(node):
            if isinstance(ch, (ast.FunctionDef, ast.AsyncFunctionDef, ast.ClassDef, ast.Lambda)):
                continue
            out.append(ch)
            visit(ch)
    visit(fn)
    return out


def _classify(expr, fn, call, depth=0):
    """'fresh' | 'system-penalty' | 'alias: ...' for the buffer expression `expr` of solver call `call` in fn."""
    if isinstance(expr, (ast.BinOp, ast.UnaryOp, ast.Compare, ast.BoolOp)):
        return 'fresh'
    if isinstance(expr, ast.Call):
        f = expr.func
        if isinstance(f, ast.Attribute) and isinstance(f.value, ast.Name) and f.value.id in ('np', 'numpy'):
            return 'alias: np.' + f.attr if f.attr in NP_VIEW_FUNCS else 'fresh'
        if isinstance(f, ast.Attribute) and f.attr == 'add_diagonal':
            return 'system-penalty'
        if isinstance(f, ast.Attribute) and f.attr in ALLOC_METHODS:
            if f.attr == 'astype' and any(k.arg == 'copy' for k in expr.keywords):
                return 'alias: astype(copy=...)'
            return 'fresh'
        if isinstance(f, ast.Name) and f.id in ('_shift_rows', '_lower_to_full', '_add_diagonals', '_banded_dot_banded',
                                                '_banded_dot_vector', 'solve_banded', 'solveh_banded', 'solve'):
            # _shift_rows works in place on its (already classified) argument; the others allocate
            return _classify(expr.args[0], fn, call, depth + 1) if f.id == '_shift_rows' else 'fresh'
        if isinstance(f, ast.Attribute) and f.attr in ('_make_btwb',):
            return 'fresh'
        return 'alias: result of ' + _u(f)
    if isinstance(expr, ast.Name):
        if depth > 4:
            return 'alias: definition chain too long'
        name = expr.id
        nodes = _own_nodes(fn)
        defs = []
        for n in nodes:
            if getattr(n, 'lineno', 10 ** 9) > call.end_lineno:
                continue
            if isinstance(n, ast.Assign):
                for t in n.targets:
                    if isinstance(t, ast.Name) and t.id == name:
                        defs.append(n.value)
                    elif isinstance(t, (ast.Tuple, ast.List)) and any(isinstance(e, ast.Name) and e.id == name for e in t.elts):
                        defs.append(None)
            elif isinstance(n, ast.AnnAssign) and isinstance(n.target, ast.Name) and n.target.id == name and n.value is not None:
                defs.append(n.value)
            elif isinstance(n, (ast.For, ast.With, ast.NamedExpr)):
                tgt = n.target if not isinstance(n, ast.With) else None
                if tgt is not None and any(isinstance(e, ast.Name) and e.id == name for e in ast.walk(tgt)):
                    defs.append(None)
        defs = [d for d in defs if not (d is not None and any(c is call for c in ast.walk(d)))]   # x = solve(..., x)
        # x = _shift_rows(x, ...) works in place on, and returns, the same object
        defs = [d for d in defs if not (isinstance(d, ast.Call) and _u(d.func) == '_shift_rows' and d.args
                                        and isinstance(d.args[0], ast.Name) and d.args[0].id == name)]
        if not defs:
            if name in [a.arg for a in fn.args.args + fn.args.kwonlyargs]:
                return 'alias: parameter ' + name
            return 'alias: no local definition of ' + name
        for d in defs:
            if d is None:
                return f'alias: {name} comes from tuple unpacking / loop target'
            c = _classify(d, fn, call, depth + 1)
            if c != 'fresh':
                return f'alias: {name} = {_u(d)[:60]} ({c})'
        # the fresh object must not be stored anywhere else before / around the call
        loops = [n for n in nodes if isinstance(n, (ast.For, ast.While)) and any(c is call for c in ast.walk(n))]
        for n in nodes:
            ln = getattr(n, 'lineno', 10 ** 9)
            inside_loop = any(any(m is n for m in ast.walk(lp)) for lp in loops)
            if ln > call.end_lineno and not inside_loop:
                continue
            vals = []
            if isinstance(n, ast.Assign) and not any(c is call for c in ast.walk(n)):
                vals = [n.value]
            elif isinstance(n, ast.Return) and n.value is not None:
                vals = [n.value]
            elif isinstance(n, ast.Call) and isinstance(n.func, ast.Attribute) and n.func.attr in ('append', 'update', 'setdefault', 'extend', 'insert'):
                vals = list(n.args) + [k.value for k in n.keywords]
            for v in vals:
                elems = [v]
                if isinstance(v, (ast.Tuple, ast.List, ast.Set)):
                    elems = list(v.elts)
                elif isinstance(v, ast.Dict):
                    elems = list(v.values)
                if any(isinstance(e, ast.Name) and e.id == name for e in elems):
                    return f'alias: {name} is also stored by `{_u(n)[:60]}`'
        return 'fresh'
    if isinstance(expr, ast.Attribute):
        return 'alias: attribute ' + _u(expr)
    if isinstance(expr, ast.Subscript):
        return 'alias: view ' + _u(expr)[:40]
    return 'alias: ' + type(expr).__name__


def _overwrite_sites(repo):
    import os
    from trlib import REPO
    root = os.path.join(repo or REPO, 'pybaselines')
    files = []
    for d, dirs, fs in os.walk(root):
        dirs[:] = sorted(x for x in dirs if x != '__pycache__')
        files += [os.path.relpath(os.path.join(d, f), os.path.join(root, '..')) for f in sorted(fs) if f.endswith('.py')]
    sites = []
    for rel in sorted(files):
        tree, _ = _parse(rel, repo)
        for qual, fn in _enclosing_functions(tree):
            for n in _own_nodes(fn):
                if not isinstance(n, ast.Call):
                    continue
                flags = {k.arg: k.value for k in n.keywords if k.arg in ('overwrite_b', 'overwrite_ab', 'overwrite_a')}
                on = {k for k, v in flags.items() if not (isinstance(v, ast.Constant) and v.value is False)}
                if not on:
                    continue
                if any(not isinstance(flags[k], ast.Constant) for k in on):
                    # forwarded flag (PenalizedSystem.solve passes its own parameters on): not a buffer decision here
                    if all(isinstance(flags[k], ast.Name) and flags[k].id == k for k in on):
                        continue
                    raise TranslateError(f'{rel}:{qual}: overwrite flag is not a constant: {_u(n)[:80]}')
                fname = _u(n.func)
                if not (isinstance(n.func, ast.Attribute) and n.func.attr in ('solve', 'solve_pspline')):
                    # a direct call of a SciPy routine behaves the same in every configuration; only the
                    # dispatching solve() methods differ between pentapy (never writes) and SciPy (writes)
                    continue
                pos = list(n.args)
                if len(pos) < 2:
                    raise TranslateError(f'{rel}:{qual}: solver call with fewer than two positional buffers: {_u(n)[:80]}')
                lhs, rhs = pos[0], pos[1]
                in_loop = any(isinstance(lp, (ast.For, ast.While)) and any(c is n for c in ast.walk(lp)) for lp in _own_nodes(fn))
                if 'overwrite_b' in on:
                    sites.append((rel, qual, 'rhs', _u(rhs)[:70], _classify(rhs, fn, n)))
                if on & {'overwrite_ab', 'overwrite_a'}:
                    c = _classify(lhs, fn, n)
                    if c == 'system-penalty' and in_loop:
                        c = 'alias: the penalty of a system that is solved again in a loop'
                    sites.append((rel, qual, 'lhs', _u(lhs)[:70], c))
    return sorted(sites)


def _emit_overwrite(repo, out):
    def q(t):
        return '"' + t.replace('"', "'") + '"%string'
    sites = _overwrite_sites(repo)
    if not sites:
        raise TranslateError('no overwrite_b / overwrite_ab solver call found (the recogniser no longer matches the source)')
    out.append('(* every call of a backend-dispatching solve() method with overwrite_b / overwrite_ab = True: (file, function, which buffer, its')
    out.append('   expression, classification).  "fresh" = a newly allocated local that nothing else refers to;')
    out.append('   "system-penalty" = the penalty array of a system that is not used again (left-hand sides only) *)')
    out.append('Definition overwrite_sites : list (string * string * string * string * string) := [')
    out.append(';\n'.join('  (' + ', '.join(q(t) for t in site) + ')' for site in sites))
    out.append('].')


# ------------------------------------------------------------------ which code each arm of a backend-conditional branch runs
BRANCH_FLAGS = ('_HAS_NUMBA', '_HAS_PENTAPY', '_use_numba', 'using_pentapy')


def _arm_callees(stmts):
    names = set()
    for st in stmts:
        for n in ast.walk(st):
            if isinstance(n, ast.Call):
                names.add(_u(n.func))
            elif isinstance(n, ast.Assign) and isinstance(n.value, (ast.Name, ast.Attribute)):
                names.add('=' + _u(n.value))       # e.g. basis_func = _make_design_matrix
    return ' '.join(sorted(names))


def _flag_branches(repo):
    import os
    from trlib import REPO
    root = os.path.join(repo or REPO, 'pybaselines')
    files = []
    for d, dirs, fs in os.walk(root):
        dirs[:] = sorted(x for x in dirs if x != '__pycache__')
        files += [os.path.relpath(os.path.join(d, f), os.path.join(root, '..')) for f in sorted(fs) if f.endswith('.py')]
    out = []
    for rel in sorted(files):
        tree, _ = _parse(rel, repo)
        for qual, fn in _enclosing_functions(tree):
            for n in _own_nodes(fn):
                if isinstance(n, (ast.If, ast.IfExp)):
                    test = _u(n.test)
                    ids = {m.id for m in ast.walk(n.test) if isinstance(m, ast.Name)} | \
                          {m.attr for m in ast.walk(n.test) if isinstance(m, ast.Attribute)}
                    if not ids & set(BRANCH_FLAGS):
                        continue
                    if isinstance(n, ast.IfExp):
                        out.append((rel, qual, test[:80], _u(n.body)[:80], _u(n.orelse)[:80]))
                    else:
                        out.append((rel, qual, test[:80], _arm_callees(n.body), _arm_callees(n.orelse)))
    return sorted(out)


def _emit_branches(repo, out):
    def q(t):
        return '"' + t.replace('"', "'") + '"%string'
    br = _flag_branches(repo)
    out.append('(* every branch whose condition mentions a backend flag: (file, function, condition, what the true arm calls,')
    out.append('   what the else arm calls) *)')
    out.append('Definition flag_branches : list (string * string * string * string * string) := [')
    out.append(';\n'.join('  (' + ', '.join(q(t) for t in b) + ')' for b in br))
    out.append('].')

tree2 = [None]


def gen_c10(repo=None):
    tas, _ = _parse(AS, repo)
    tbu, _ = _parse(BU, repo)
    tco, _ = _parse(CO, repo)
    tree2[0] = tbu
    out = ['(* GENERATED by tools/translate.py (tools/gen_c10.py) from pybaselines/_algorithm_setup.py, '
           '_banded_utils.py, _compat.py -- do not edit *)',
           'From Coq Require Import ZArith List Bool String.',
           'From PB Require Import C10.Syntax.',
           'Import ListNotations.', 'Open Scope Z_scope.', '']
    _setter(tas, out)
    _setup_whittaker(tas, out)
    _setup_spline(tas, out)
    _reset_diagonals(tbu, out)
    _solve(tbu, out)
    tmi, _ = _parse(MI, repo)
    _beads(tmi, out)
    _beads_kernel(tmi, out)
    _compat(tco, out)
    _emit_sites(repo, out)
    _emit_overwrite(repo, out)
    _emit_branches(repo, out)
    return '\n'.join(out) + '\n'


GENERATORS = {'GenC10': gen_c10}
