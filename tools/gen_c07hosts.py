"""GenC07Hosts.v : the branch structure of every host function the C07 model covers, read off the current source.

For each modelled host (1-D and 2-D penalized-spline methods, PSpline / PSpline2D / SplineBasis(2D) /
PenalizedSystem2D members, the banded helpers, _setup_spline, mpspline, pspline_smooth) this emits
  * host_branches : the ordered list of the tests of every `if` / conditional expression / `while` /
    comprehension filter in the body (ast.unparse text) -- a NEW code path (e.g. one gated on the data size)
    changes this list and the pinned comparison in coq/C07/Hosts.v fails with the host as witness;
  * module_constants : the module-level numeric constants of the modules those hosts live in;
  * size_gated : every branch whose test compares something with a numeric literal of magnitude >= 16 or with
    a module-level numeric constant (a threshold on a size); the C07 model has no such path, so this must be empty.
A host that disappears is refused (fail closed)."""
import ast
import os

from trlib import TranslateError, _parse

HOSTS = {
    'pybaselines/two_d/spline.py': ['_Spline.*'],
    'pybaselines/two_d/_spline_utils.py': ['SplineBasis2D.__init__', 'SplineBasis2D.same_basis', 'SplineBasis2D.basis',
                                           'SplineBasis2D._make_btwb', 'PSpline2D.__init__', 'PSpline2D.reset_penalty',
                                           'PSpline2D.solve'],
    'pybaselines/two_d/_whittaker_utils.py': ['_face_splitting', 'PenalizedSystem2D.__init__', 'PenalizedSystem2D.add_penalty',
                                              'PenalizedSystem2D._update_bands', 'PenalizedSystem2D.reset_diagonals'],
    'pybaselines/two_d/_algorithm_setup.py': ['_Algorithm2D._setup_spline'],
    'pybaselines/spline.py': ['_Spline.*'],
    'pybaselines/_spline_utils.py': ['_spline_knots', '_spline_basis', '_numba_btb_bty', '_basis_midpoints',
                                     'SplineBasis.__init__', 'SplineBasis.same_basis', 'PSpline.__init__',
                                     'PSpline.reset_penalty_diagonals', 'PSpline.solve_pspline'],
    'pybaselines/_banded_utils.py': ['_shift_rows', '_lower_to_full', '_pad_diagonals', '_add_diagonals', '_sparse_to_banded',
                                     'PenalizedSystem.add_penalty', 'PenalizedSystem._update_bands', 'PenalizedSystem.solve'],
    'pybaselines/_algorithm_setup.py': ['_Algorithm._setup_spline'],
    'pybaselines/morphological.py': ['_Morphological.mpspline'],
    'pybaselines/utils.py': ['pspline_smooth'],
}


def _numeric_literal(node):
    if isinstance(node, ast.Constant) and isinstance(node.value, (int, float)) and not isinstance(node.value, bool):
        return float(node.value)
    if isinstance(node, ast.UnaryOp) and isinstance(node.op, (ast.USub, ast.UAdd)):
        v = _numeric_literal(node.operand)
        return None if v is None else (-v if isinstance(node.op, ast.USub) else v)
    if isinstance(node, ast.BinOp) and isinstance(node.op, (ast.Add, ast.Sub, ast.Mult, ast.Pow, ast.Div, ast.FloorDiv)):
        a, b = _numeric_literal(node.left), _numeric_literal(node.right)
        if a is None or b is None:
            return None
        try:
            return {ast.Add: a + b, ast.Sub: a - b, ast.Mult: a * b, ast.Pow: a ** b, ast.Div: a / b,
                    ast.FloorDiv: a // b}[type(node.op)]
        except (ZeroDivisionError, OverflowError):
            return None
    return None


def module_constants(tree):
    out = {}
    body = list(tree.body)
    for node in tree.body:          # class-level numeric constants count too
        if isinstance(node, ast.ClassDef):
            body += node.body
    for st in body:
        targets, value = [], None
        if isinstance(st, ast.Assign):
            targets, value = st.targets, st.value
        elif isinstance(st, ast.AnnAssign) and st.value is not None:
            targets, value = [st.target], st.value
        v = _numeric_literal(value) if value is not None else None
        if v is not None:
            for t in targets:
                if isinstance(t, ast.Name):
                    out[t.id] = ast.unparse(value)
    return out


def find_hosts(tree, spec):
    res = []
    if '.' in spec:
        cls, name = spec.split('.', 1)
        for node in tree.body:
            if isinstance(node, ast.ClassDef) and node.name == cls:
                for st in node.body:
                    if isinstance(st, ast.FunctionDef) and (name == '*' and not st.name.startswith('__') or st.name == name):
                        res.append((f'{cls}.{st.name}', st))
    else:
        for node in tree.body:
            if isinstance(node, ast.FunctionDef) and node.name == spec:
                res.append((spec, node))
    if not res:
        raise TranslateError(f'host {spec} not found')
    return res


class _Tests(ast.NodeVisitor):
    def __init__(self):
        self.tests = []

    def visit_If(self, node):
        self.tests.append(node.test)
        self.generic_visit(node)

    visit_IfExp = visit_If
    visit_While = visit_If

    def visit_comprehension(self, node):
        self.tests.extend(node.ifs)
        self.generic_visit(node)

    def visit_Assert(self, node):
        self.tests.append(node.test)
        self.generic_visit(node)


def is_threshold(test, consts):
    for node in ast.walk(test):
        if isinstance(node, ast.Compare):
            for side in [node.left] + list(node.comparators):
                v = _numeric_literal(side)
                if v is not None and abs(v) >= 16:
                    return True
                for sub in ast.walk(side):
                    if isinstance(sub, ast.Name) and sub.id in consts:
                        return True
                    if isinstance(sub, ast.Attribute) and sub.attr in consts:
                        return True
    return False


def cstr(s):
    return '"' + s.replace('"', '""') + '"'


def gen(repo):
    hosts, consts_out, gated = [], [], []
    for rel in HOSTS:
        tree, _ = _parse(rel, repo)
        consts = module_constants(tree)
        consts_out.append((rel, sorted(f'{k} = {v}' for k, v in consts.items())))
        for spec in HOSTS[rel]:
            for name, fn in find_hosts(tree, spec):
                v = _Tests()
                for st in fn.body:
                    v.visit(st)
                # names bound to a numeric literal inside the host count as constants as well
                consts = dict(consts)
                for node in ast.walk(fn):
                    if isinstance(node, ast.Assign) and _numeric_literal(node.value) is not None \
                            and abs(_numeric_literal(node.value)) >= 16:
                        for t in node.targets:
                            if isinstance(t, ast.Name):
                                consts[t.id] = ast.unparse(node.value)
                texts = [' '.join(ast.unparse(t).split()) for t in v.tests]
                hosts.append((f'{rel}:{name}', texts))
                for t, txt in zip(v.tests, texts):
                    if is_threshold(t, consts):
                        gated.append((f'{rel}:{name}', txt))
    lines = ['(* GENERATED by tools/gen_c07hosts.py -- do not edit. *)',
             'From Coq Require Import String List.', 'Import ListNotations.', 'Open Scope string_scope.', '',
             'Definition host_branches : list (string * list string) := [']
    lines.append(';\n'.join('  (' + cstr(h) + ', [' + '; '.join(cstr(t) for t in ts) + '])' for h, ts in hosts))
    lines += ['].', '', 'Definition module_constants : list (string * list string) := [']
    lines.append(';\n'.join('  (' + cstr(m) + ', [' + '; '.join(cstr(t) for t in ts) + '])' for m, ts in consts_out))
    lines += ['].', '', 'Definition size_gated : list (string * string) := [']
    lines.append(';\n'.join('  (' + cstr(h) + ', ' + cstr(t) + ')' for h, t in gated))
    lines += ['].', '']
    return '\n'.join(lines)


GENERATORS = {'GenC07Hosts': gen}
