"""GenOrderFlow.v : order discipline of every registered fitter method (property C02).

Two kinds of facts are extracted from the current source, fail-closed:

(A) rows -- for every method registered WITHOUT skip_sorting (the wrapper sorts `data`, so everything built
    inside the body is in sorted order) a small abstract interpretation follows the per-point user inputs
    (`weights`, `alpha` with default None) and every value that passes through an explicit
    `_sort_array(., self._sort_order / self._inverted_order)`, `_sort_array2d(...)`, `.[self._sort_order]`,
    `.[self._inverted_order]` site until it is consumed by a `_setup_*` call, a generic use, a position-dependent
    write or the returned params.  A row = (method, variable, source, list of sort/unsort ops, sink).
    `if X is None`, `if X is not None`, `if self._sort_order is not None [and X is not None]` are followed
    path-sensitively (the analysis is for the non-trivial case self._sort_order is not None); other branches
    are joined; loops are iterated twice.
(B) sites -- for the wrappers themselves (`_register.inner`, `_return_results`, `_setup_*`, `_get_function`,
    `_override_x`, `__init__`) and for the skip_sorting methods (optimizers), the ordered list of explicit sort sites
    (function, assigned variable, sorted variable, which order).  Coq compares them with the expected lists.
"""
import ast

from trlib import TranslateError, _parse

MODS = [
    ('1d', 'pybaselines/whittaker.py'), ('1d', 'pybaselines/spline.py'), ('1d', 'pybaselines/morphological.py'),
    ('1d', 'pybaselines/classification.py'), ('1d', 'pybaselines/polynomial.py'), ('1d', 'pybaselines/smooth.py'),
    ('1d', 'pybaselines/misc.py'), ('1d', 'pybaselines/optimizers.py'),
    ('2d', 'pybaselines/two_d/whittaker.py'), ('2d', 'pybaselines/two_d/spline.py'),
    ('2d', 'pybaselines/two_d/morphological.py'), ('2d', 'pybaselines/two_d/polynomial.py'),
    ('2d', 'pybaselines/two_d/smooth.py'), ('2d', 'pybaselines/two_d/optimizers.py'),
]
SETUP_FILES = {'1d': 'pybaselines/_algorithm_setup.py', '2d': 'pybaselines/two_d/_algorithm_setup.py'}
PER_POINT_KEYS = ('weights', 'mask', 'alpha', 'signal')
SORT_FUNCS = ('_sort_array', '_sort_array2d')
PASSTHROUGH_FUNCS = ('_check_optional_array',)

# __init__, _register, _return_results are modelled by wrapper / wrapper2 (C02/Model.v), _override_x and the
# skip_sorting methods below by C02/OptModel.v; each model is tied to the code by an exact-integer correspondence
# (harness/c02.py).  Only what has no model is pinned as text.
PINNED_WRAPPER_FUNCS = ()   # _get_function: get_function_x / axis_values models (C02/OptModel.v)
PINNED_METHODS = ('custom_bc',)
# collab_pls has no explicit site: it only passes per-point arrays between sub-fitters in the supplied order
MODELLED_SKIP_METHODS = ('collab_pls', 'optimize_extended_range', 'adaptive_minmax', 'individual_axes')

I0 = ('I', '')
C0 = ('C', '')
U0 = ('U', '')


def _is_self_attr(node, attr):
    return (isinstance(node, ast.Attribute) and isinstance(node.value, ast.Name) and node.value.id == 'self'
            and node.attr == attr)


def _order_kind(node):
    """'S' for self._sort_order, 'U' for self._inverted_order, else None."""
    if _is_self_attr(node, '_sort_order'):
        return 'S'
    if _is_self_attr(node, '_inverted_order'):
        return 'U'
    return None


def _mentions_order(node):
    return any(_order_kind(n) for n in ast.walk(node))


def sort_site(expr):
    """(variable name, 'S'|'U') when expr is an explicit sort site applied to a plain name, None when expr does
    not mention the sort orders at all; anything else that mentions them is refused."""
    if isinstance(expr, ast.Call) and isinstance(expr.func, ast.Name) and expr.func.id in SORT_FUNCS:
        args = list(expr.args)
        order = None
        if len(args) == 2:
            order = args[1]
        elif len(args) == 1 and len(expr.keywords) == 1 and expr.keywords[0].arg == 'sort_order':
            order = expr.keywords[0].value
        if order is None or not isinstance(args[0], ast.Name):
            raise TranslateError('unrecognised %s call: %s' % (expr.func.id, ast.unparse(expr)))
        kind = _order_kind(order)
        if kind is None:
            raise TranslateError('sort call with an order that is not self._sort_order/_inverted_order: '
                                 + ast.unparse(expr))
        return args[0].id, kind
    if isinstance(expr, ast.Subscript) and _order_kind(expr.slice):
        if not isinstance(expr.value, ast.Name):
            raise TranslateError('indexing a non-name with a sort order: ' + ast.unparse(expr))
        return expr.value.id, _order_kind(expr.slice)
    return None


def decorator_info(fn):
    """None when fn is not a registered method, else (sort_keys tuple, skip_sorting bool)."""
    for dec in fn.decorator_list:
        target = dec.func if isinstance(dec, ast.Call) else dec
        if isinstance(target, ast.Attribute) and target.attr == '_register':
            sort_keys, skip = (), False
            if isinstance(dec, ast.Call):
                if dec.args:
                    raise TranslateError('%s: positional arguments in _register' % fn.name)
                for kw in dec.keywords:
                    if kw.arg == 'sort_keys':
                        if not (isinstance(kw.value, ast.Tuple)
                                and all(isinstance(e, ast.Constant) and isinstance(e.value, str) for e in kw.value.elts)):
                            raise TranslateError('%s: sort_keys is not a tuple of strings' % fn.name)
                        sort_keys = tuple(e.value for e in kw.value.elts)
                    elif kw.arg == 'skip_sorting':
                        if not (isinstance(kw.value, ast.Constant) and isinstance(kw.value.value, bool)):
                            raise TranslateError('%s: skip_sorting is not a literal' % fn.name)
                        skip = kw.value.value
            return sort_keys, skip
    return None


def setup_signatures(tree):
    """{'_setup_whittaker': index of `weights` among the positional parameters (without self) or None}"""
    out = {}
    for node in ast.walk(tree):
        if isinstance(node, ast.FunctionDef) and node.name.startswith('_setup_'):
            names = [a.arg for a in node.args.args][1:]
            out[node.name] = names.index('weights') if 'weights' in names else None
    return out


# --------------------------------------------------------------------------------------------- (A) interpreter
class Flow:
    def __init__(self, dim, fn, sort_keys, setups, setup_adj):
        self.dim, self.fn, self.sort_keys, self.setups, self.setup_adj = dim, fn, sort_keys, setups, setup_adj
        self.last_setup_result = frozenset([I0])
        self.rows = []
        self.alias = {}
        self.conds = {}
        self.params_keys = {}

    def err(self, msg, node=None):
        where = '%s/%s' % (self.dim, self.fn.name)
        if node is not None:
            where += ' line %d' % getattr(node, 'lineno', 0)
        raise TranslateError('%s: %s' % (where, msg))

    def emit(self, var, paths, sink):
        for src, ops in sorted(paths):
            row = (var, src, ops, sink)
            if row not in self.rows:
                self.rows.append(row)

    @staticmethod
    def val(env, name):
        return env.get(name, frozenset([I0]))

    def interesting(self, paths):
        return paths != frozenset([I0])

    # -- generic use of tracked values inside an arbitrary expression
    def use(self, env, expr, skip=()):
        if expr is None:
            return
        if _mentions_order(expr):
            self.err('sort order used in an unrecognised expression: ' + ast.unparse(expr), expr)
        for n in ast.walk(expr):
            if isinstance(n, (ast.Lambda, ast.ListComp, ast.GeneratorExp, ast.DictComp, ast.SetComp)):
                for m in ast.walk(n):
                    if isinstance(m, ast.Name) and m.id in env and self.interesting(env[m.id]):
                        self.err('tracked value inside a comprehension/lambda', n)
        for n in ast.walk(expr):
            if isinstance(n, ast.Name) and isinstance(n.ctx, ast.Load) and n.id in env and n.id not in skip:
                if self.interesting(env[n.id]):
                    self.emit(n.id, env[n.id], 'Use')

    # -- conditions
    def classify(self, test, env):
        """('none', X) | ('notnone', X) | ('true',) | ('false',) | ('other',)"""
        if isinstance(test, ast.Name) and test.id in self.conds:
            return self.conds[test.id]
        if isinstance(test, ast.UnaryOp) and isinstance(test.op, ast.Not):
            c = self.classify(test.operand, env)
            return {'none': ('notnone',) + c[1:], 'notnone': ('none',) + c[1:], 'true': ('false',),
                    'false': ('true',)}.get(c[0], ('other',))
        if isinstance(test, ast.Compare) and len(test.ops) == 1 and isinstance(test.comparators[0], ast.Constant) \
                and test.comparators[0].value is None and isinstance(test.ops[0], (ast.Is, ast.IsNot)):
            isnot = isinstance(test.ops[0], ast.IsNot)
            if _order_kind(test.left) == 'S':
                return ('true',) if isnot else ('false',)
            if isinstance(test.left, ast.Name):
                return ('notnone' if isnot else 'none', test.left.id)
            return ('other',)
        if isinstance(test, ast.BoolOp) and isinstance(test.op, ast.And):
            parts = [self.classify(v, env) for v in test.values]
            parts = [p for p in parts if p != ('true',)]
            if not parts:
                return ('true',)
            if len(parts) == 1:
                return parts[0]
            return ('other',)
        return ('other',)

    def refine(self, env, name, want_none):
        env = dict(env)
        group = [name] + [t for t, x in self.alias.items() if x == name]
        for v in group:
            if v in env:
                keep = frozenset(p for p in env[v] if (p[0] == 'C') == want_none)
                if v == name and want_none:
                    keep = frozenset([C0])
                env[v] = keep if keep else (frozenset([C0]) if want_none else env[v])
        return env

    @staticmethod
    def join(a, b):
        out = {}
        for k in set(a) | set(b):
            out[k] = a.get(k, frozenset([I0])) | b.get(k, frozenset([I0]))
        return out

    # -- calls with sinks
    def setup_call(self, env, call):
        name = call.func.attr
        if name not in self.setups:
            self.err('unknown setup function ' + name, call)
        idx = self.setups[name]
        arg = None
        for kw in call.keywords:
            if kw.arg == 'weights':
                arg = kw.value
            elif kw.arg is None and not (isinstance(kw.value, ast.Name) and kw.value.id not in env):
                self.err('**kwargs of a tracked value in a setup call', call)
        if arg is None and idx is not None and idx < len(call.args):
            arg = call.args[idx]
        skip = ()
        self.last_setup_result = frozenset([I0])
        if arg is not None and not (isinstance(arg, ast.Constant) and arg.value is None):
            if not isinstance(arg, ast.Name):
                self.err('weights argument of %s is not a name: %s' % (name, ast.unparse(arg)), call)
            adj = self.setup_adj[name]
            # _setup_*: `if self._sort_order is not None and weights is not None: weight_array = weight_array[order]`
            self.last_setup_result = frozenset(
                (s, ops if s == 'C' else ops + adj) for s, ops in self.val(env, arg.id))
            skip = (arg.id,)
        for a in list(call.args) + [k.value for k in call.keywords]:
            if a is not arg:
                self.use(env, a)
        return skip

    def find_setup(self, expr):
        """The list of self._setup_*(...) calls inside expr."""
        return [n for n in ast.walk(expr) if isinstance(n, ast.Call) and isinstance(n.func, ast.Attribute)
                and n.func.attr.startswith('_setup_') and isinstance(n.func.value, ast.Name)
                and n.func.value.id == 'self']

    def handle_expr(self, env, expr):
        calls = self.find_setup(expr)
        skip = ()
        for c in calls:
            skip += tuple(self.setup_call(env, c))
        if not calls:
            self.use(env, expr)
        else:
            # everything outside the setup calls
            inside = set()
            for c in calls:
                inside |= set(id(n) for n in ast.walk(c))
            for n in ast.walk(expr):
                if id(n) not in inside and isinstance(n, ast.Name) and isinstance(n.ctx, ast.Load) \
                        and n.id in env and self.interesting(env[n.id]):
                    self.emit(n.id, env[n.id], 'Use')

    def dict_literal(self, env, d):
        for k, v in zip(d.keys, d.values):
            if k is None:
                self.err('dict unpacking in params', d)
            if isinstance(k, ast.Constant) and (k.value in PER_POINT_KEYS or k.value in self.sort_keys):
                if isinstance(v, ast.Name):
                    self.params_keys[k.value] = self.val(env, v.id)
                    continue
                self.params_keys[k.value] = frozenset([I0])
            self.use(env, v)

    # -- statements
    def assign(self, env, targets, value, node):
        env = dict(env)
        if len(targets) == 1 and isinstance(targets[0], ast.Name):
            t = targets[0].id
            site = sort_site(value)
            if site is not None:
                var, op = site
                env[t] = frozenset((s, ops + op) for s, ops in self.val(env, var))
                if t != var and var in self.alias:
                    self.alias[t] = self.alias[var]
                return env
            cond = self.classify(value, env) if isinstance(value, (ast.Compare, ast.BoolOp, ast.UnaryOp)) else ('other',)
            if cond != ('other',):
                self.conds[t] = cond
                return env
            if isinstance(value, ast.Call) and isinstance(value.func, ast.Name) and value.func.id in PASSTHROUGH_FUNCS \
                    and len(value.args) >= 2 and isinstance(value.args[1], ast.Name) and value.args[1].id in env:
                src = value.args[1].id
                env[t] = env[src]
                self.alias[t] = self.alias.get(src, src)
                return env
            if isinstance(value, ast.Call) and isinstance(value.func, ast.Attribute) and value.func.attr == 'copy' \
                    and isinstance(value.func.value, ast.Name) and value.func.value.id in env and not value.args:
                src = value.func.value.id
                env[t] = env[src]
                self.alias[t] = self.alias.get(src, src)
                return env
            if isinstance(value, ast.Name) and value.id in env:
                env[t] = env[value.id]
                self.alias[t] = self.alias.get(value.id, value.id)
                return env
            if isinstance(value, ast.Dict) and t == 'params':
                self.dict_literal(env, value)
                return env
        self.handle_expr(env, value)
        setup_result = None
        if isinstance(value, ast.Call) and value in self.find_setup(value)[:1] and len(targets) == 1 \
                and isinstance(targets[0], ast.Tuple) and len(targets[0].elts) >= 2 \
                and isinstance(targets[0].elts[1], ast.Name) and self.setups.get(value.func.attr) is not None:
            setup_result = (targets[0].elts[1].id, self.last_setup_result)
        elif any(self.setups.get(c.func.attr) is not None for c in self.find_setup(value)):
            self.err('result of a weights-taking setup call is not unpacked into (y, weight_array, ...)', node)
        for tg in targets:
            for n in ast.walk(tg):
                if isinstance(n, ast.Name) and isinstance(n.ctx, ast.Store):
                    if n.id in env:
                        env[n.id] = frozenset([I0])
                    self.alias.pop(n.id, None)
                    self.conds.pop(n.id, None)
            if isinstance(tg, ast.Subscript):
                base = tg.value
                if isinstance(base, ast.Name) and base.id == 'params' and isinstance(tg.slice, ast.Constant):
                    if tg.slice.value in PER_POINT_KEYS or tg.slice.value in self.sort_keys:
                        self.params_keys[tg.slice.value] = (self.val(env, value.id) if isinstance(value, ast.Name)
                                                            else frozenset([I0]))
                elif isinstance(base, ast.Name) and base.id in env and self.interesting(env[base.id]):
                    self.emit(base.id, env[base.id], 'PosWrite')
                    env[base.id] = frozenset([I0])
                else:
                    self.use(env, tg.slice)
            elif not isinstance(tg, (ast.Name, ast.Tuple, ast.List, ast.Attribute)):
                self.err('unsupported assignment target', node)
        if setup_result is not None and setup_result[1] != frozenset([I0]):
            env[setup_result[0]] = setup_result[1]
        return env

    def run(self, stmts, env):
        for st in stmts:
            if env is None:
                break
            if isinstance(st, ast.Assign):
                env = self.assign(env, st.targets, st.value, st)
            elif isinstance(st, ast.AnnAssign):
                self.err('annotated assignment', st)
            elif isinstance(st, ast.AugAssign):
                self.use(env, st.value)
                self.use(env, st.target)
            elif isinstance(st, ast.Expr):
                self.handle_expr(env, st.value)
            elif isinstance(st, ast.If):
                c = self.classify(st.test, env)
                if c[0] == 'true':
                    env = self.run(st.body, env)
                elif c[0] == 'false':
                    env = self.run(st.orelse, env)
                elif c[0] in ('none', 'notnone') and (c[1] in env):
                    e_none = self.refine(env, c[1], True)
                    e_some = self.refine(env, c[1], False)
                    only_none = all(p[0] == 'C' for p in env[c[1]])
                    never_none = all(p[0] != 'C' for p in env[c[1]])
                    b_none, b_some = (st.body, st.orelse) if c[0] == 'none' else (st.orelse, st.body)
                    outs = []
                    if not never_none:
                        outs.append(self.run(b_none, e_none))
                    if not only_none:
                        outs.append(self.run(b_some, e_some))
                    outs = [o for o in outs if o is not None]
                    env = None if not outs else (outs[0] if len(outs) == 1 else self.join(outs[0], outs[1]))
                else:
                    self.use(env, st.test)
                    a = self.run(st.body, dict(env))
                    b = self.run(st.orelse, dict(env))
                    env = b if a is None else (a if b is None else self.join(a, b))
            elif isinstance(st, (ast.For, ast.While)):
                self.use(env, st.iter if isinstance(st, ast.For) else st.test)
                if isinstance(st, ast.For):
                    for n in ast.walk(st.target):
                        if isinstance(n, ast.Name) and n.id in env:
                            env = dict(env)
                            env[n.id] = frozenset([I0])
                for _ in range(2):
                    out = self.run(st.body, dict(env))
                    if out is not None:
                        env = self.join(env, out)
                out = self.run(st.orelse, dict(env))
                env = env if out is None else out
            elif isinstance(st, ast.With):
                for it in st.items:
                    self.use(env, it.context_expr)
                env = self.run(st.body, env)
            elif isinstance(st, ast.Try):
                a = self.run(st.body, dict(env))
                outs = [a] + [self.run(h.body, dict(env)) for h in st.handlers]
                outs = [o for o in outs if o is not None]
                env = None
                for o in outs:
                    env = o if env is None else self.join(env, o)
                if env is not None:
                    env = self.run(st.finalbody, env)
            elif isinstance(st, ast.Return):
                self.ret(env, st)
                env = None
            elif isinstance(st, ast.Raise):
                env = None
            elif isinstance(st, (ast.Pass, ast.Break, ast.Continue, ast.Import, ast.ImportFrom)):
                pass
            elif isinstance(st, ast.FunctionDef):
                for n in ast.walk(st):
                    if isinstance(n, ast.Name) and n.id in env and self.interesting(env[n.id]):
                        self.err('tracked value inside a nested function', st)
                    if _order_kind(n):
                        self.err('sort order inside a nested function', st)
            elif isinstance(st, ast.Assert):
                self.use(env, st.test)
            else:
                self.err('unsupported statement ' + type(st).__name__, st)
        return env

    def ret(self, env, st):
        v = st.value
        if not (isinstance(v, ast.Tuple) and len(v.elts) == 2):
            self.err('return is not (baseline, params)', st)
        base, prm = v.elts
        if isinstance(base, ast.Name) and base.id in env and self.interesting(env[base.id]):
            self.emit(base.id, env[base.id], 'RetSorted')
        else:
            self.use(env, base)
        if isinstance(prm, ast.Dict):
            self.dict_literal(env, prm)
        elif not (isinstance(prm, ast.Name) and prm.id == 'params'):
            self.err('returned params is neither `params` nor a dict literal', st)
        for key, paths in sorted(self.params_keys.items()):
            self.emit('params[%s]' % key, paths, 'RetSorted' if key in self.sort_keys else 'RetUnsorted')


def analyse_method(dim, fn, sort_keys, setups, setup_adj):
    fl = Flow(dim, fn, sort_keys, setups, setup_adj)
    env = {}
    args = fn.args
    pos = args.args
    defaults = [None] * (len(pos) - len(args.defaults)) + list(args.defaults)
    for a, d in list(zip(pos, defaults)) + list(zip(args.kwonlyargs, args.kw_defaults)):
        if a.arg in ('weights', 'alpha') and isinstance(d, ast.Constant) and d.value is None:
            env[a.arg] = frozenset([U0, C0])
    body = list(fn.body)
    if body and isinstance(body[0], ast.Expr) and isinstance(body[0].value, ast.Constant):
        body = body[1:]
    fl.run(body, env)
    return fl.rows


# --------------------------------------------------------------------------------------------- (B) sites
def sites_of(fn):
    """Every statement (or compound-statement header) of fn that mentions self._sort_order / self._inverted_order
    / a local `*sort_order` / `sort_weights` name, in source order, as (target text, expression text)."""
    out = []

    def mentions(node):
        for n in ast.walk(node):
            if _order_kind(n):
                return True
            if isinstance(n, ast.Name) and (n.id.endswith('sort_order') or n.id.endswith('inverted_order')
                                            or n.id in ('sort_weights', 'skip_sorting', 'sort_keys')):
                return True
            if isinstance(n, ast.Attribute) and n.attr in ('_sort_order', '_inverted_order'):
                return True
            if isinstance(n, ast.Call) and isinstance(n.func, ast.Name) and n.func.id in SORT_FUNCS + ('_inverted_sort', '_determine_sorts'):
                return True
        return False

    def walk(stmts):
        for st in stmts:
            if isinstance(st, ast.Assign):
                if mentions(st):
                    out.append((' = '.join(ast.unparse(t) for t in st.targets), ast.unparse(st.value)))
            elif isinstance(st, (ast.AugAssign, ast.Expr, ast.Return, ast.Raise, ast.Assert)):
                if mentions(st):
                    out.append(('<%s>' % type(st).__name__.lower(), ast.unparse(st)))
            elif isinstance(st, ast.If):
                if mentions(st.test):
                    out.append(('<if>', ast.unparse(st.test)))
                walk(st.body)
                if st.orelse:
                    if mentions(st.test):
                        out.append(('<else>', ''))
                    walk(st.orelse)
            elif isinstance(st, (ast.For, ast.While)):
                hdr = st.iter if isinstance(st, ast.For) else st.test
                if mentions(hdr):
                    out.append(('<loop>', ast.unparse(hdr)))
                walk(st.body)
                walk(st.orelse)
            elif isinstance(st, ast.With):
                walk(st.body)
            elif isinstance(st, ast.Try):
                walk(st.body)
                for h in st.handlers:
                    walk(h.body)
                walk(st.finalbody)
            elif isinstance(st, ast.FunctionDef):
                walk(st.body)
            elif mentions(st):
                raise TranslateError('%s: order mentioned in an unsupported statement %s' % (fn.name, type(st).__name__))
    walk(fn.body)
    return out


def find_function(tree, cls, name):
    for node in ast.walk(tree):
        if isinstance(node, ast.ClassDef) and node.name == cls:
            for sub in ast.walk(node):
                if isinstance(sub, ast.FunctionDef) and sub.name == name:
                    return sub
    raise TranslateError('function %s.%s not found' % (cls, name))


def coq_str(s):
    return '"' + s.replace('"', "'") + '"'


def coq_ops(ops):
    return '[' + '; '.join('OSort' if c == 'S' else 'OUnsort' for c in ops) + ']'


def coq_sink(sink):
    return {'Use': 'KUse', 'PosWrite': 'KPosWrite', 'RetSorted': 'KRetSorted', 'RetUnsorted': 'KRetUnsorted',
            'SubKw': 'KSubKw'}[sink]


def gen_orderflow(repo):
    out = ['(* GENERATED by tools/translate.py (gen_orderflow.py) from pybaselines/*.py -- do not edit *)',
           'From Coq Require Import ZArith List Bool String.',
           'From PB Require Import C02.OrderFlow.',
           'Import ListNotations.',
           'Open Scope string_scope.',
           '']
    setups = {}
    setup_adj = {'1d': {}, '2d': {}}
    site_rows = []
    setup_rows = []
    for dim, rel in SETUP_FILES.items():
        tree, _ = _parse(rel, repo)
        setups[dim] = setup_signatures(tree)
        cls = '_Algorithm' if dim == '1d' else '_Algorithm2D'
        for name in sorted(setups[dim]):
            fn = find_function(tree, cls, name)
            sites = []
            for node in ast.walk(fn):
                if isinstance(node, ast.Assign):
                    ss = sort_site(node.value)
                    if ss:
                        sites.append((ast.unparse(node.targets[0]), ss[0], ss[1]))
                elif _order_kind(node) and False:
                    pass
            n_mentions = sum(1 for n in ast.walk(fn) if _order_kind(n))
            if n_mentions != 2 * len(sites):
                raise TranslateError('%s/%s: sort orders used outside the guarded weight sort' % (dim, name))
            # effect of the setup on its `weights` argument: +1 per sort, -1 per unsort, guarded as expected
            adj = 0
            guard_ok = True
            for node in ast.walk(fn):
                if isinstance(node, ast.If):
                    inner = [s for st in node.body for s in ast.walk(st)]
                    has_site = any(isinstance(s, ast.Assign) and sort_site(s.value) for s in inner)
                    if has_site:
                        names = sorted(ast.unparse(v) for v in (node.test.values if isinstance(node.test, ast.BoolOp)
                                                                 and isinstance(node.test.op, ast.And) else [node.test]))
                        if names != ['self._sort_order is not None', 'weights is not None'] or node.orelse:
                            guard_ok = False
            for tgt, var, op in sites:
                if tgt != 'weight_array' or var != 'weight_array':
                    guard_ok = False
                adj += 1 if op == 'S' else -1
            if setups[dim][name] is None:
                if sites:
                    raise TranslateError('%s sorts something but has no weights parameter' % name)
                continue
            if not guard_ok:
                raise TranslateError('%s/%s: the sort of the weights is not in the recognised guarded form' % (dim, name))
            if adj not in (-1, 0, 1):
                raise TranslateError('%s/%s sorts the weights more than once' % (dim, name))
            for node in ast.walk(fn):
                if isinstance(node, ast.Return) and not (
                        isinstance(node.value, ast.Tuple) and len(node.value.elts) >= 2
                        and isinstance(node.value.elts[1], ast.Name) and node.value.elts[1].id == 'weight_array'):
                    raise TranslateError('%s/%s does not return (y, weight_array, ...)' % (dim, name))
            setup_adj[dim][name] = {1: 'S', 0: '', -1: 'U'}[adj]
            setup_rows.append('  (%s, %s, %d%%Z)' % (coq_str(dim), coq_str(name), adj))
        # the re-ordering block of _return_results is pinned verbatim: the models gather EVERY sort_keys entry that is
        # present along the leading axis (axes), so a condition on ndim / shape / type there must break the tie
        rr = find_function(tree, cls, '_return_results')
        blocks = [st for st in rr.body if isinstance(st, ast.If) and _mentions_order(st.test)]
        if len(blocks) != 1:
            raise TranslateError('%s/_return_results: expected exactly one `if self._sort_order is not None` block' % dim)
        site_rows.append('  (%s, %s, %s, %s)' % (coq_str(dim), coq_str('_return_results'), coq_str('<block>'),
                                                 coq_str(' ; '.join(ast.unparse(blocks[0]).split('\n')))))
        for name in PINNED_WRAPPER_FUNCS:
            fn = find_function(tree, cls, name)
            for tgt, text in sites_of(fn):
                site_rows.append('  (%s, %s, %s, %s)' % (coq_str(dim), coq_str(name), coq_str(tgt), coq_str(text)))
    io_rows = []
    for dim, rel in SETUP_FILES.items():
        tree, _ = _parse(rel, repo)
        entry, exit_skip = wrapper_io(tree, '_Algorithm' if dim == '1d' else '_Algorithm2D', dim)
        io_rows.append('  (%s, %s, %s)' % (coq_str(dim), coq_str(entry), coq_str(exit_skip)))
    data_optional = []
    rows = []
    methods = []
    for dim, rel in MODS:
        tree, _ = _parse(rel, repo)
        for cls in [n for n in tree.body if isinstance(n, ast.ClassDef)]:
            for fn in [n for n in cls.body if isinstance(n, ast.FunctionDef)]:
                info = decorator_info(fn)
                if info is None:
                    if any(_order_kind(n) for n in ast.walk(fn)):
                        raise TranslateError('%s: unregistered method %s uses the sort orders' % (rel, fn.name))
                    continue
                sort_keys, skip = info
                pos = fn.args.args
                dflt = [None] * (len(pos) - len(fn.args.defaults)) + list(fn.args.defaults)
                if len(pos) < 2 or pos[1].arg != 'data':
                    raise TranslateError('%s/%s: second parameter is not `data`' % (dim, fn.name))
                if dflt[1] is not None:
                    if not (isinstance(dflt[1], ast.Constant) and dflt[1].value is None):
                        raise TranslateError('%s/%s: unexpected default for data' % (dim, fn.name))
                    data_optional.append('  (%s, %s, %s)' % (coq_str(dim), coq_str(fn.name), 'true' if skip else 'false'))
                methods.append('  (%s, %s, %s, %s)' % (coq_str(dim), coq_str(fn.name), 'true' if skip else 'false',
                                                       '[' + '; '.join(coq_str(k) for k in sort_keys) + ']'))
                if skip or fn.name in PINNED_METHODS:
                    if fn.name in PINNED_METHODS:
                        for tgt, text in sites_of(fn):
                            site_rows.append('  (%s, %s, %s, %s)' % (coq_str(dim), coq_str(fn.name), coq_str(tgt),
                                                                     coq_str(text)))
                    elif fn.name not in MODELLED_SKIP_METHODS:
                        raise TranslateError('%s/%s skips the sorting of the wrapper but has no Gallina model '
                                             '(C02/OptModel.v)' % (dim, fn.name))
                    continue
                for var, src, ops, sink in analyse_method(dim, fn, sort_keys, setups[dim], setup_adj[dim]):
                    rows.append('  {| r_dim := %s; r_method := %s; r_var := %s; r_src := %s; r_ops := %s; r_sink := %s |}'
                                % (coq_str(dim), coq_str(fn.name), coq_str(var),
                                   {'U': 'SUser', 'I': 'SInternal', 'C': 'SConst'}[src], coq_ops(ops), coq_sink(sink)))
    # module-level functions must not touch the orders
    for dim, rel in MODS:
        tree, _ = _parse(rel, repo)
        for fn in [n for n in tree.body if isinstance(n, ast.FunctionDef)]:
            if any(_order_kind(n) for n in ast.walk(fn)):
                raise TranslateError('%s: module-level function %s uses the sort orders' % (rel, fn.name))
    out.append('Definition gen_setups : list (string * string * Z) := [\n' + ';\n'.join(setup_rows) + '\n].\n')
    out.append('Definition gen_methods : list (string * string * bool * list string) := [\n' + ';\n'.join(methods) + '\n].\n')
    out.append('Definition gen_wrapper_io : list (string * string * string) := [\n' + ';\n'.join(io_rows) + '\n].\n')
    out.append('Definition gen_data_optional : list (string * string * bool) := [\n' + ';\n'.join(data_optional) + '\n].\n')
    out.append('Definition gen_rows : list row := [\n' + ';\n'.join(rows) + '\n].\n')
    out.append('Definition gen_sites : list (string * string * string * string) := [\n' + ';\n'.join(site_rows) + '\n].\n')
    return '\n'.join(out)


def wrapper_io(tree, cls, dim):
    """(entry test, exit skip_sorting expression) of _register.inner: when the data is sorted on entry and which flag
    decides whether the baseline is un-sorted on exit.  wrapperN (C02/Model.v) models: entry iff data present and not
    the decorator's skip_sorting; exit iff not the decorator's skip_sorting (never depending on the data being given)."""
    reg = find_function(tree, cls, '_register')
    inner = [n for n in ast.walk(reg) if isinstance(n, ast.FunctionDef) and n.name == 'inner']
    if len(inner) != 1:
        raise TranslateError('%s/_register: inner not found' % dim)
    inner = inner[0]
    tests = [ast.unparse(n.test) for n in ast.walk(inner) if isinstance(n, ast.If) and not n.orelse
             and any(isinstance(st, ast.Assign) and sort_site(st.value) for st in n.body)]
    rets = [n.value for n in ast.walk(inner) if isinstance(n, ast.Return) and isinstance(n.value, ast.Call)
            and isinstance(n.value.func, ast.Attribute) and n.value.func.attr == '_return_results']
    if len(tests) != 1 or len(rets) != 1:
        raise TranslateError('%s/_register.inner: expected one guarded entry sort and one _return_results exit' % dim)
    call = rets[0]
    skip = [kw.value for kw in call.keywords if kw.arg == 'skip_sorting']
    if not skip and len(call.args) >= 5:
        skip = [call.args[4]]
    if len(skip) != 1:
        raise TranslateError('%s/_register.inner: skip_sorting argument of _return_results not found' % dim)
    # every other mention of the sort order / the flags in inner must be one of these two places
    return tests[0], ast.unparse(skip[0])


def method_table(repo):
    """{(dim, method): (sort_keys, skip_sorting)} read from the decorators of the current source."""
    out = {}
    for dim, rel in MODS:
        tree, _ = _parse(rel, repo)
        for cls in [n for n in tree.body if isinstance(n, ast.ClassDef)]:
            for fn in [n for n in cls.body if isinstance(n, ast.FunctionDef)]:
                info = decorator_info(fn)
                if info is not None:
                    out[(dim, fn.name)] = info
    return out


GENERATORS = {'GenOrderFlow': gen_orderflow}
