#!/usr/bin/env python3
"""C03: extracts, for every registered fitter method (1-D and 2-D), the ordered list of its uses of the
object's caches, in the vocabulary of coq/C03/Table.v:

  decorator _Algorithm._register(require_unique_x=...) / _Algorithm2D._register(require_unique_xz=...)
  self._setup_polynomial(y, weights, poly_order, calc_vander=, calc_pinv=, [max_cross=])   -> UPoly
  self._setup_spline(y, weights, spline_degree, num_knots, penalized, diff_order, lam, make_basis=) -> USpline
  self._setup_whittaker(y, lam, diff_order, weights, ...)                                   -> UWhit
      (under a condition / in a loop that is not interpreted: UWhitOpaque -- it cannot touch a cache)
  self._setup_morphology / _setup_smooth / _setup_classification / _setup_misc             -> UNoCache
  self._setup_optimizer(...) / self._get_function(...)                                      -> UOptimizer
  <obj>._override_x(...)                                                                    -> UOverrideX
  2-D only: <pspline>.basis.basis (the lazily created full basis of SplineBasis2D)          -> UFullBasis

Arguments are bound through the signatures of the _setup_* functions parsed from _algorithm_setup.py (so a changed
default is picked up).  Each argument that can reach a cache key must be a constant or one of the method's own
parameters poly_order / num_knots / spline_degree / diff_order / max_cross; the weights argument must be None,
the parameter `weights` (possibly rebuilt under `if weights is None:`) or a local array name.  A call may sit
under at most one recognised guard (`if weights is None:`, `if <param> > 0:`, `if <param> is not None:`).

Fail-closed: any other shape -- a _setup_* call in a loop / else-branch / nested or unrecognised condition, an
unrecognised argument, an assignment or deletion through `self`, an attribute of self._polynomial /
self._spline_basis other than the known read-only ones, a call of a method on those objects, a direct call of
another registered method on self -- is emitted as `UUnknown "..."`, which the reflective table check in
coq/C03/Instantiate.v rejects.
"""
import ast

from trlib import TranslateError, _parse

FILES_1D = ['polynomial', 'spline', 'smooth', 'whittaker', 'classification', 'misc', 'morphological', 'optimizers']
FILES_2D = ['polynomial', 'spline', 'smooth', 'whittaker', 'morphological', 'optimizers']
PARAMS = {'poly_order': 'PPolyOrder', 'num_knots': 'PNumKnots', 'spline_degree': 'PSplineDegree',
          'diff_order': 'PDiffOrder', 'max_iter': 'PMaxIter', 'lam': 'PLam', 'max_cross': 'PMaxCross'}
NOCACHE = {'_setup_morphology', '_setup_smooth', '_setup_classification', '_setup_misc'}
READ_ATTRS = {'_polynomial': {'vandermonde', 'poly_order'}, '_spline_basis': {'_num_bases'}}
STATE_ATTRS = {'_polynomial', '_spline_basis', 'x', 'z', '_size', '_shape', '_validated_x', '_validated_z',
               'banded_solver', '_banded_solver', '_pentapy_solver', 'x_domain', 'z_domain', '_sort_order',
               '_inverted_order', '_dtype', '_check_finite'}
ARRAY_NAMES = {'weight_array', 'weights_array', 'w'}


def src(node):
    return ast.unparse(node)


def coq_str(s):
    return '"' + s.replace('"', "'").replace('\n', ' ')[:150] + '"'


def is_register(dec, cls):
    """decorator `_Algorithm._register` or `_Algorithm._register(...)`; returns keyword dict or None."""
    call = dec if isinstance(dec, ast.Call) else None
    fn = call.func if call else dec
    if isinstance(fn, ast.Attribute) and fn.attr == '_register' and isinstance(fn.value, ast.Name) \
            and fn.value.id == cls:
        return {k.arg: k.value for k in (call.keywords if call else [])}
    return None


def setup_signatures(tree):
    """{name: [(param, default node or None)]} of the _setup_* methods (self and the data argument dropped)."""
    sigs = {}
    for node in ast.walk(tree):
        if isinstance(node, ast.FunctionDef) and node.name.startswith('_setup_'):
            a = node.args
            if a.vararg or a.kwonlyargs or a.posonlyargs:
                if node.name in ('_setup_polynomial', '_setup_spline', '_setup_whittaker'):
                    raise TranslateError(f'{node.name}: unexpected signature shape')
            names = [x.arg for x in a.args]
            defaults = [None] * (len(names) - len(a.defaults)) + list(a.defaults)
            sigs[node.name] = list(zip(names, defaults))[2:]   # drop self, y
    return sigs


def bind(call, sig, what):
    """{param: ast node} for a call self._setup_X(data, ...); defaults filled from the signature."""
    if any(isinstance(a, ast.Starred) for a in call.args) or any(k.arg is None for k in call.keywords):
        raise TranslateError(f'{what}: star arguments')
    if not call.args and not any(k.arg in ('y', 'data') for k in call.keywords):
        raise TranslateError(f'{what}: no data argument')
    pos = call.args[1:] if call.args else []
    if len(pos) > len(sig):
        raise TranslateError(f'{what}: too many positional arguments')
    out = {}
    for (name, _), node in zip(sig, pos):
        out[name] = node
    names = [n for n, _ in sig]
    for k in call.keywords:
        if k.arg in ('y', 'data'):
            continue
        if k.arg not in names or k.arg in out:
            raise TranslateError(f'{what}: unexpected keyword {k.arg}')
        out[k.arg] = k.value
    for name, default in sig:
        if name not in out:
            if default is None:
                raise TranslateError(f'{what}: missing argument {name}')
            out[name] = default
    return out


class Refuse(Exception):
    pass


def zarg(node, allowed, mparams):
    if isinstance(node, ast.Constant) and isinstance(node.value, int) and not isinstance(node.value, bool):
        return f'(ZConst {node.value})' if node.value >= 0 else f'(ZConst ({node.value}))'
    if isinstance(node, ast.Name) and node.id in allowed and node.id in mparams:
        return f'(ZParam {PARAMS[node.id]})'
    raise Refuse(f'argument {src(node)} is neither a constant nor the parameter {"/".join(allowed)}')


def barg(node):
    if isinstance(node, ast.Constant) and isinstance(node.value, bool):
        return 'true' if node.value else 'false'
    raise Refuse(f'flag {src(node)} is not a boolean constant')


def warg(node, mparams, weights_rebuilt):
    if isinstance(node, ast.Constant) and node.value is None:
        return 'WNone'
    if isinstance(node, ast.Name):
        if node.id == 'weights' and 'weights' in mparams:
            return 'WParamOrArray' if weights_rebuilt else 'WParam'
        if node.id in ARRAY_NAMES:
            return 'WArray'
    raise Refuse(f'weights argument {src(node)} not recognised')


def guard_of(test, mparams):
    """Coq guard for an `if` test, or None when not recognised."""
    s = src(test)
    if s == 'weights is None' and 'weights' in mparams:
        return 'GWeightsNone'
    if isinstance(test, ast.Compare) and len(test.ops) == 1 and isinstance(test.left, ast.Name) \
            and test.left.id in PARAMS and test.left.id in mparams:
        c = test.comparators[0]
        if isinstance(test.ops[0], ast.Gt) and isinstance(c, ast.Constant) and c.value == 0:
            return f'(GParamPos {PARAMS[test.left.id]})'
        if isinstance(test.ops[0], ast.IsNot) and isinstance(c, ast.Constant) and c.value is None:
            return f'(GParamNotNone {PARAMS[test.left.id]})'
    return None


def root_name(node):
    while isinstance(node, (ast.Subscript, ast.Attribute, ast.Starred)):
        node = node.value
    return node.id if isinstance(node, ast.Name) else None


class Method:
    def __init__(self, fn, dim, sigs, registered):
        self.fn, self.dim, self.sigs, self.registered = fn, dim, sigs, registered
        self.mparams = {a.arg for a in fn.args.args + fn.args.kwonlyargs}
        self.uses = []
        # `weights` rebuilt inside `if weights is None:` (iasls, pspline_iasls)?
        self.weights_rebuilt = False
        self.bad_weights_assign = None
        self._scan_weights(fn.body, False)

    def _scan_weights(self, stmts, under_none):
        for st in stmts:
            if isinstance(st, ast.If):
                g = src(st.test) == 'weights is None'
                self._scan_weights(st.body, under_none or g)
                self._scan_weights(st.orelse, under_none)
            elif isinstance(st, (ast.For, ast.While, ast.With, ast.Try)):
                for field in ('body', 'orelse', 'finalbody'):
                    self._scan_weights(getattr(st, field, []) or [], under_none)
                for h in getattr(st, 'handlers', []):
                    self._scan_weights(h.body, under_none)
            else:
                for t in (st.targets if isinstance(st, ast.Assign) else
                          [st.target] if isinstance(st, (ast.AugAssign, ast.AnnAssign)) else []):
                    names = [n.id for n in ast.walk(t) if isinstance(n, ast.Name)]
                    if 'weights' in names and 'weights' in self.mparams and isinstance(t, (ast.Name, ast.Tuple)):
                        if under_none:
                            self.weights_rebuilt = True
                        else:
                            self.bad_weights_assign = src(st)

    # -- one simple statement (or an expression like an `if` test)
    def scan_expr(self, node, guard, ctx_ok):
        calls = [n for n in ast.walk(node) if isinstance(n, ast.Call)]
        calls.sort(key=lambda n: (n.lineno, n.col_offset))
        for c in calls:
            f = c.func
            if not isinstance(f, ast.Attribute):
                continue
            on_self = isinstance(f.value, ast.Name) and f.value.id == 'self'
            if f.attr == '_override_x':
                self.uses.append('UOverrideX')
            elif on_self and f.attr in ('_setup_optimizer', '_get_function'):
                self.uses.append('UOptimizer' if ctx_ok and guard == 'GAlways'
                                 else f'UUnknown {coq_str("conditional " + f.attr)}')
            elif on_self and f.attr.startswith('_setup_'):
                self.setup_call(c, f.attr, guard, ctx_ok)
            elif on_self and f.attr in self.registered:
                self.uses.append(f'UUnknown {coq_str("direct call of registered method self." + f.attr)}')
            elif isinstance(f.value, ast.Attribute) and root_name(f.value) == 'self' \
                    and f.value.attr in READ_ATTRS and isinstance(f.value.value, ast.Name):
                self.uses.append(f'UUnknown {coq_str("method call on cache object: " + src(c)[:80])}')
        # 2-D: the lazily created full Kronecker basis of SplineBasis2D (<pspline>.basis.basis / self._spline_basis.basis)
        if self.dim == 2:
            for n in ast.walk(node):
                if isinstance(n, ast.Attribute) and n.attr == 'basis' and isinstance(n.value, ast.Attribute) and (
                        n.value.attr == 'basis' or (n.value.attr == '_spline_basis' and root_name(n.value) == 'self')):
                    if 'UFullBasis' not in self.uses:
                        self.uses.append('UFullBasis' if ctx_ok and guard == 'GAlways'
                                         else f'UUnknown {coq_str("conditional read of the lazy full basis")}')
                if isinstance(n, ast.Attribute) and n.attr == '_basis':
                    self.uses.append(f'UUnknown {coq_str("direct access to ._basis")}')
        # attribute reads of the cache objects
        for n in ast.walk(node):
            if isinstance(n, ast.Attribute) and isinstance(n.value, ast.Attribute) \
                    and isinstance(n.value.value, ast.Name) and n.value.value.id == 'self' \
                    and n.value.attr in READ_ATTRS and n.attr not in READ_ATTRS[n.value.attr]:
                self.uses.append(f'UUnknown {coq_str("attribute self." + n.value.attr + "." + n.attr)}')

    def setup_call(self, c, name, guard, ctx_ok):
        what = f'{self.fn.name}: {name}'
        if name in NOCACHE:
            self.uses.append(f'UNoCache {coq_str(name)}')
            return
        if name not in ('_setup_polynomial', '_setup_spline', '_setup_whittaker'):
            self.uses.append(f'UUnknown {coq_str("unknown setup " + name)}')
            return
        if (not ctx_ok or guard is None) and name == '_setup_whittaker':
            # builds a per-call PenalizedSystem; touches no cache whatever its arguments (only reads the solver)
            self.uses.append(f'UWhitOpaque {coq_str(src(c)[:100])}')
            return
        if not ctx_ok or guard is None:
            self.uses.append(f'UUnknown {coq_str(name + " in a loop / else branch / unrecognised or nested condition")}')
            return
        try:
            if name not in self.sigs:
                raise Refuse(f'{name} not defined')
            b = bind(c, self.sigs[name], what)
            w = warg(b['weights'], self.mparams, self.weights_rebuilt)
            if name == '_setup_polynomial':
                mc = 'MNone'
                if 'max_cross' in b:
                    m = b['max_cross']
                    if isinstance(m, ast.Constant) and m.value is None:
                        mc = 'MNone'
                    elif isinstance(m, ast.Name) and m.id == 'max_cross' and 'max_cross' in self.mparams:
                        mc = 'MParam'
                    else:
                        raise Refuse(f'max_cross argument {src(m)}')
                self.uses.append(f'UPoly {guard} {w} {zarg(b["poly_order"], ("poly_order",), self.mparams)} '
                                 f'{barg(b["calc_vander"])} {barg(b["calc_pinv"])} {mc}')
            elif name == '_setup_spline':
                self.uses.append(f'USpline {guard} {w} {zarg(b["num_knots"], ("num_knots",), self.mparams)} '
                                 f'{zarg(b["spline_degree"], ("spline_degree",), self.mparams)} '
                                 f'{barg(b["make_basis"])} {zarg(b["diff_order"], ("diff_order",), self.mparams)}')
            else:
                self.uses.append(f'UWhit {guard} {w} {zarg(b["diff_order"], ("diff_order",), self.mparams)}')
        except (Refuse, TranslateError) as exc:
            self.uses.append(f'UUnknown {coq_str(what + ": " + str(exc))}')

    def has_use(self, node):
        for n in ast.walk(node):
            if isinstance(n, ast.Call) and isinstance(n.func, ast.Attribute) and (
                    n.func.attr == '_override_x' or (
                        isinstance(n.func.value, ast.Name) and n.func.value.id == 'self'
                        and (n.func.attr.startswith('_setup_') or n.func.attr == '_get_function'))):
                return True
        return False

    def walk(self, stmts, guard, ctx_ok):
        """guard: Coq guard text of the innermost enclosing recognised `if` ('GAlways' at top level), None when
        the position is under an unrecognised / nested condition; ctx_ok False inside loops, try, with, else."""
        for st in stmts:
            # writes through self
            for t in (st.targets if isinstance(st, ast.Assign) else
                      [st.target] if isinstance(st, (ast.AugAssign, ast.AnnAssign)) else
                      st.targets if isinstance(st, ast.Delete) else []):
                for sub in ([t] if not isinstance(t, (ast.Tuple, ast.List)) else t.elts):
                    if root_name(sub) == 'self':
                        self.uses.append(f'UUnknown {coq_str("write through self: " + src(st)[:90])}')
            if isinstance(st, ast.If):
                self.scan_expr(st.test, guard, ctx_ok)
                g = guard_of(st.test, self.mparams)
                inner = g if (guard == 'GAlways' and g is not None) else None
                self.walk(st.body, inner, ctx_ok)
                self.walk(st.orelse, None, ctx_ok)
            elif isinstance(st, (ast.For, ast.While)):
                self.scan_expr(st.iter if isinstance(st, ast.For) else st.test, guard, ctx_ok)
                self.walk(st.body, guard, False)
                self.walk(st.orelse, guard, False)
            elif isinstance(st, ast.With):
                for item in st.items:
                    self.scan_expr(item.context_expr, guard, ctx_ok)
                self.walk(st.body, guard, False)
            elif isinstance(st, ast.Try):
                for part in (st.body, st.orelse, st.finalbody):
                    self.walk(part, guard, False)
                for h in st.handlers:
                    self.walk(h.body, guard, False)
            elif isinstance(st, (ast.FunctionDef, ast.ClassDef, ast.Lambda)):
                if self.has_use(st):
                    self.uses.append(f'UUnknown {coq_str("cache use inside a nested definition")}')
            else:
                self.scan_expr(st, guard, ctx_ok)


def methods_of(repo, rel, dim, cls, sigs, registered_names):
    tree, _ = _parse(rel, repo)
    out = []
    for c in ast.walk(tree):
        if not isinstance(c, ast.ClassDef):
            continue
        for fn in c.body:
            if not isinstance(fn, ast.FunctionDef):
                continue
            kws = None
            for dec in fn.decorator_list:
                k = is_register(dec, cls)
                if k is not None:
                    kws = k
            if kws is None:
                continue
            ukey = 'require_unique_x' if dim == 1 else 'require_unique_xz'
            uniq = kws.get(ukey)
            if uniq is None:
                unique = False
            elif isinstance(uniq, ast.Constant) and isinstance(uniq.value, bool):
                unique = uniq.value
            else:
                raise TranslateError(f'{rel}:{fn.name}: {ukey} is not a boolean constant')
            for k in kws:
                if k.startswith('require_') and k != ukey:
                    raise TranslateError(f'{rel}:{fn.name}: unknown decorator argument {k}')
            m = Method(fn, dim, sigs, registered_names)
            if m.bad_weights_assign:
                m.uses.append(f'UUnknown {coq_str("weights reassigned outside `if weights is None`: " + m.bad_weights_assign[:70])}')
            m.walk(fn.body, 'GAlways', True)
            out.append((fn.name, dim, unique, m.uses))
    return out


def registered_names(repo, files, prefix, cls):
    names = set()
    for f in files:
        tree, _ = _parse(f'{prefix}{f}.py', repo)
        for c in ast.walk(tree):
            if isinstance(c, ast.ClassDef):
                for fn in c.body:
                    if isinstance(fn, ast.FunctionDef) and any(is_register(d, cls) is not None for d in fn.decorator_list):
                        names.add(fn.name)
    return names


CELL_CLASSES = [('pybaselines/_algorithm_setup.py', '_PolyHelper'), ('pybaselines/two_d/_algorithm_setup.py', '_PolyHelper2D'),
                ('pybaselines/_spline_utils.py', 'SplineBasis'), ('pybaselines/two_d/_spline_utils.py', 'SplineBasis2D'),
                ('pybaselines/_algorithm_setup.py', '_Algorithm'), ('pybaselines/two_d/_algorithm_setup.py', '_Algorithm2D')]
CACHE_DECORATORS = {'lru_cache', 'cache', 'cached_property', 'memoize'}
HOLDER_ATTR = {'_polynomial': {'pybaselines/_algorithm_setup.py': '_PolyHelper', 'pybaselines/two_d/_algorithm_setup.py': '_PolyHelper2D'},
               '_spline_basis': {'pybaselines/_algorithm_setup.py': 'SplineBasis', 'pybaselines/two_d/_algorithm_setup.py': 'SplineBasis2D'}}


def persistent_cells(repo):
    """{class: sorted attribute names assigned through `self` anywhere in the class} for the classes that live
    across calls, plus attributes set on self._polynomial / self._spline_basis from outside, plus memoising
    decorators in the same modules.  Dynamic attribute creation is refused."""
    out = {}
    memo = set()
    for rel, cls in CELL_CLASSES:
        tree, _ = _parse(rel, repo)
        node = None
        for c in ast.walk(tree):
            if isinstance(c, ast.ClassDef) and c.name == cls:
                node = c
        if node is None:
            raise TranslateError(f'class {cls} not found in {rel}')
        names = out.setdefault(cls, set())
        for n in ast.walk(node):
            tg = n.targets if isinstance(n, ast.Assign) else [n.target] if isinstance(n, (ast.AugAssign, ast.AnnAssign)) else []
            for t in tg:
                for sub in (t.elts if isinstance(t, (ast.Tuple, ast.List)) else [t]):
                    if isinstance(sub, ast.Starred):
                        sub = sub.value
                    if isinstance(sub, ast.Attribute) and isinstance(sub.value, ast.Name) and sub.value.id == 'self':
                        names.add(sub.attr)
                    # attributes created on the cache objects from the owning class
                    if isinstance(sub, ast.Attribute) and isinstance(sub.value, ast.Attribute) \
                            and isinstance(sub.value.value, ast.Name) and sub.value.value.id == 'self' \
                            and sub.value.attr in HOLDER_ATTR and rel in HOLDER_ATTR[sub.value.attr]:
                        out.setdefault(HOLDER_ATTR[sub.value.attr][rel], set()).add(sub.attr)
            if isinstance(n, ast.Call):
                f = n.func
                fname = f.id if isinstance(f, ast.Name) else f.attr if isinstance(f, ast.Attribute) else ''
                if fname in ('setattr', '__setattr__', 'vars') or (isinstance(f, ast.Attribute) and f.attr == 'update'
                                                                   and '__dict__' in src(f.value)):
                    raise TranslateError(f'{cls}: dynamic attribute creation ({src(n)[:60]})')
            if isinstance(n, ast.Attribute) and n.attr == '__dict__':
                raise TranslateError(f'{cls}: use of __dict__')
        for n in ast.walk(tree):
            if isinstance(n, (ast.FunctionDef, ast.ClassDef)):
                for d in n.decorator_list:
                    dn = d.func if isinstance(d, ast.Call) else d
                    nm = dn.id if isinstance(dn, ast.Name) else dn.attr if isinstance(dn, ast.Attribute) else ''
                    if nm in CACHE_DECORATORS:
                        memo.add(f'{rel}:{n.name}')
    res = [(cls, sorted(v)) for cls, v in out.items()]
    res.append(('memoised functions', sorted(memo)))
    return res


# ---------------------------------------------------------------- how cache keys are stored
KEY_ATTRS = {'_PolyHelper': ('poly_order',), '_PolyHelper2D': ('poly_order', 'max_cross'),
             'SplineBasis': ('num_knots', 'spline_degree'), 'SplineBasis2D': ('num_knots', 'spline_degree')}
KEY_FILES = ['pybaselines/_algorithm_setup.py', 'pybaselines/two_d/_algorithm_setup.py',
             'pybaselines/_spline_utils.py', 'pybaselines/two_d/_spline_utils.py']
# calls whose result is a new object or an immutable python / numpy scalar: np.array(<anything>) (without copy=False),
# int(...), tuple(...), <array>.copy(), <array>.astype(...), np.asarray(<arg>).item(), ...
COPYING_CALLS = {'array', 'int', 'float', 'tuple', 'bool', 'copy', 'deepcopy', 'astype', 'full', 'list', 'item', 'tolist'}
RANK = ['KConst', 'KCopy', 'KCheckedScalar', 'KChecked2D', 'KRaw', 'KUnknown']


def worst(kinds):
    kinds = list(kinds)
    return max(kinds, key=RANK.index) if kinds else 'KUnknown'


class KeyStores:
    """Classifies the right-hand side of every `self.<key attribute> = ...` in the cache classes: a constant, a
    copy / scalar conversion, the result of _check_scalar_variable (scalar: an immutable numpy scalar; two_d=True:
    possibly the CALLER'S OWN array, because np.asarray does not copy), or a raw argument.  Names are resolved through
    their bindings in the enclosing function and, for parameters of the cache classes' methods, through the argument
    expressions at their call sites in the anchored modules (depth <= 3)."""

    def __init__(self, repo):
        self.trees = {rel: _parse(rel, repo)[0] for rel in KEY_FILES}
        self.funcs = []    # (rel, class name or None, FunctionDef)
        for rel, tree in self.trees.items():
            for node in tree.body:
                if isinstance(node, ast.ClassDef):
                    for fn in node.body:
                        if isinstance(fn, ast.FunctionDef):
                            self.funcs.append((rel, node.name, fn))
                elif isinstance(node, ast.FunctionDef):
                    self.funcs.append((rel, None, node))

    def classify(self, expr, cls, fn, depth=0):
        if depth > 3:
            return 'KUnknown'
        if isinstance(expr, ast.Constant):
            return 'KConst'
        if isinstance(expr, ast.UnaryOp) and isinstance(expr.operand, ast.Constant):
            return 'KConst'
        if isinstance(expr, (ast.List, ast.Tuple)):
            return 'KCopy'
        if isinstance(expr, ast.Call):
            f = expr.func
            name = f.id if isinstance(f, ast.Name) else f.attr if isinstance(f, ast.Attribute) else ''
            if name == '_check_scalar_variable':
                two_d = [k.value for k in expr.keywords if k.arg == 'two_d']
                if not two_d or (isinstance(two_d[0], ast.Constant) and two_d[0].value is False):
                    return 'KCheckedScalar'
                return 'KChecked2D'
            if name in COPYING_CALLS:
                if any(k.arg == 'copy' and not (isinstance(k.value, ast.Constant) and k.value.value is True)
                       for k in expr.keywords):
                    return 'KUnknown'        # np.array(x, copy=False) / astype(..., copy=False) may alias
                return 'KCopy'
            return 'KUnknown'
        if isinstance(expr, ast.Name):
            return self.classify_name(expr.id, cls, fn, depth)
        return 'KUnknown'

    def classify_name(self, name, cls, fn, depth):
        params = [a.arg for a in fn.args.args]
        binds = []      # (value expr, guarded by `if name is not None`)
        def visit(stmts, guarded):
            for st in stmts:
                if isinstance(st, ast.Assign) and any(isinstance(t, ast.Name) and t.id == name for t in st.targets):
                    binds.append((st.value, guarded))
                elif isinstance(st, ast.Assign) and any(name in [n.id for n in ast.walk(t) if isinstance(n, ast.Name)]
                                                        for t in st.targets if not isinstance(t, ast.Name)
                                                        and isinstance(t, (ast.Tuple, ast.List))):
                    binds.append((None, guarded))
                elif isinstance(st, ast.If):
                    g = src(st.test) == f'{name} is not None'
                    visit(st.body, guarded or g)
                    visit(st.orelse, False)
                elif isinstance(st, (ast.For, ast.While, ast.With, ast.Try)):
                    for field in ('body', 'orelse', 'finalbody'):
                        visit(getattr(st, field, []) or [], False)
        visit(fn.body, False)
        kinds = [self.classify(v, cls, fn, depth + 1) if v is not None else 'KUnknown' for v, _ in binds]
        if name in params:
            unconditional = any(not g and v is not None for v, g in binds) and all(
                isinstance(st, ast.Assign) for st in fn.body[:0])
            top_level = [st for st in fn.body if isinstance(st, ast.Assign)
                         and any(isinstance(t, ast.Name) and t.id == name for t in st.targets)]
            if top_level:
                return worst(kinds)           # rebound unconditionally at the top level of the function
            if binds and all(g for _, g in binds):
                return worst(kinds)           # rebound whenever it is not None
            kinds.append(self.classify_param(name, cls, fn, depth))
        return worst(kinds)

    def classify_param(self, name, cls, fn, depth):
        if cls not in KEY_ATTRS:
            return 'KRaw'                    # a _setup_* / public entry point: whatever the caller passed
        idx = [a.arg for a in fn.args.args].index(name)
        kinds = []
        home = [r for r, c, f in self.funcs if f is fn][0]
        for rel, c2, f2 in self.funcs:
            if ('two_d' in rel) != ('two_d' in home):
                continue                      # 1-D and 2-D classes share method names
            for call in [n for n in ast.walk(f2) if isinstance(n, ast.Call)]:
                f = call.func
                hit = (fn.name == '__init__' and isinstance(f, ast.Name) and f.id == cls) or \
                      (fn.name != '__init__' and isinstance(f, ast.Attribute) and f.attr == fn.name)
                if not hit:
                    continue
                pos = idx - 1                 # drop self
                arg = None
                if pos < len(call.args):
                    arg = call.args[pos]
                for k in call.keywords:
                    if k.arg == name:
                        arg = k.value
                if arg is None:
                    default_i = idx - (len(fn.args.args) - len(fn.args.defaults))
                    kinds.append('KConst' if default_i >= 0 else 'KUnknown')
                else:
                    kinds.append(self.classify(arg, c2, f2, depth + 1))
        return worst(kinds) if kinds else 'KRaw'

    def stores(self):
        out = []
        for rel, cls, fn in self.funcs:
            if cls not in KEY_ATTRS:
                continue
            for st in ast.walk(fn):
                if isinstance(st, ast.Assign):
                    for t in st.targets:
                        for sub in (t.elts if isinstance(t, (ast.Tuple, ast.List)) else [t]):
                            if isinstance(sub, ast.Attribute) and isinstance(sub.value, ast.Name) and sub.value.id == 'self' \
                                    and sub.attr in KEY_ATTRS[cls]:
                                kind = 'KUnknown' if isinstance(t, (ast.Tuple, ast.List)) else self.classify(st.value, cls, fn)
                                out.append((cls, sub.attr, fn.name, kind))
                elif isinstance(st, (ast.AugAssign, ast.AnnAssign)) and isinstance(st.target, ast.Attribute) \
                        and isinstance(st.target.value, ast.Name) and st.target.value.id == 'self' \
                        and st.target.attr in KEY_ATTRS[cls]:
                    out.append((cls, st.target.attr, fn.name, 'KUnknown'))
        for cls, attrs in KEY_ATTRS.items():
            for a in attrs:
                if not any(o[0] == cls and o[1] == a for o in out):
                    raise TranslateError(f'{cls}.{a}: no assignment found')
        return sorted(out)


def gen_c03(repo):
    rows = []
    for dim, files, prefix, cls, setup in ((1, FILES_1D, 'pybaselines/', '_Algorithm', 'pybaselines/_algorithm_setup.py'),
                                           (2, FILES_2D, 'pybaselines/two_d/', '_Algorithm2D',
                                            'pybaselines/two_d/_algorithm_setup.py')):
        tree, _ = _parse(setup, repo)
        sigs = setup_signatures(tree)
        for need in ('_setup_polynomial', '_setup_spline', '_setup_whittaker'):
            if need not in sigs:
                raise TranslateError(f'{setup}: {need} not found')
        names = registered_names(repo, files, prefix, cls)
        if len(names) < 20:
            raise TranslateError(f'only {len(names)} registered {dim}-D methods found')
        for f in files:
            rows += methods_of(repo, f'{prefix}{f}.py', dim, cls, sigs, names)
    seen = set()
    for name, dim, _, _ in rows:
        if (name, dim) in seen:
            raise TranslateError(f'method {name} ({dim}-D) registered twice')
        seen.add((name, dim))
    lines = ['(* generated by tools/gen_c03.py from the registered method bodies -- do not edit *)',
             'From Coq Require Import ZArith List Bool String.',
             'From PB Require Import C03.Table.',
             'Import ListNotations.', 'Open Scope Z_scope.', 'Open Scope string_scope.', '',
             'Definition gen_methods : list minfo := [']
    body = []
    for name, dim, unique, uses in sorted(rows, key=lambda r: (r[1], r[0])):
        us = '[' + ';\n        '.join(uses) + ']'
        body.append(f'  {{| m_name := "{name}"; m_dim := {dim}; m_unique := {"true" if unique else "false"};\n'
                    f'     m_uses := {us} |}}')
    lines.append(';\n'.join(body))
    lines.append('].')
    lines.append('')
    lines.append('(* every attribute assigned through `self` in the classes whose instances live across calls *)')
    lines.append('Definition gen_cells : list (string * list string) := [')
    lines.append(';\n'.join('  ("%s", [%s])' % (c, '; '.join('"%s"' % a for a in attrs)) for c, attrs in persistent_cells(repo)))
    lines.append('].')
    lines.append('')
    lines.append('(* how every cache-key attribute is stored: (class, attribute, method, kind of the assigned value) *)')
    lines.append('Definition gen_key_stores : list (string * string * string * kstore) := [')
    lines.append(';\n'.join('  ("%s", "%s", "%s", %s)' % st for st in KeyStores(repo).stores()))
    lines.append('].')
    return '\n'.join(lines) + '\n'


GENERATORS = {'GenC03': gen_c03}
