#!/usr/bin/env python3
"""GenPenaltySites: every place OUTSIDE the penalized-system classes where a method builds, resets, rescales or
re-binds a penalty (fail-closed).  For each site the way the DIFFERENCE ORDER reaches the system is classified:

  calls of  <x>.reset_diagonals / reset_penalty_diagonals / reset_penalty, of the constructors PenalizedSystem / PSpline /
  PenalizedSystem2D / WhittakerSystem2D / PSpline2D, of self._setup_whittaker / self._setup_spline and of
  whittaker_smooth / pspline_smooth (position of `diff_order` read from the callee's own signature):
      PassesOrder   the argument is the enclosing function's `diff_order` (the name, or an index of it)
      FixedOrder k  the argument is the integer literal k (first-derivative penalties of iasls / beads ...)
      NoPenalty     _setup_spline(..., penalized=False): no penalty is built
      DefaultOrder  omitted, and the enclosing function has no `diff_order` at all
      OmitsOrder    omitted although the enclosing function HAS a `diff_order` (the callee's default would be used)
      OtherSite     any other expression
  calls of  <x>.update_lam / update_penalty:  RescaleOnly
  assignments / augmented assignments to  <x>.penalty  (or an item of it):
      RescaleOnly   <x>.penalty = <factor> * <x>.penalty  (same object, the factor does not mention a penalty)
      OtherSite     anything else
The Coq obligation is  forallb site_ok penalty_sites = true  (OmitsOrder and OtherSite are not ok)."""
import ast
import glob
import os

from trlib import REPO, TranslateError

SYSTEM_CLASSES = {'PenalizedSystem', 'PSpline', 'PenalizedSystem2D', 'WhittakerSystem2D', 'PSpline2D'}
RESETS = {'reset_diagonals': 1, 'reset_penalty_diagonals': 1, 'reset_penalty': 1}
CONSTRUCTORS = {'PenalizedSystem': 2, 'PSpline': 2, 'PenalizedSystem2D': 2, 'WhittakerSystem2D': 2, 'PSpline2D': 2}
RESCALES = {'update_lam', 'update_penalty'}
BY_SIGNATURE = {'_setup_whittaker', '_setup_spline', 'whittaker_smooth', 'pspline_smooth'}


def _mentions(node, name):
    return any(isinstance(n, ast.Name) and n.id == name for n in ast.walk(node))


def _has_penalty_attr(node):
    return any(isinstance(n, ast.Attribute) and n.attr == 'penalty' for n in ast.walk(node))


def _order_arg(call, idx):
    for k in call.keywords:
        if k.arg == 'diff_order':
            return k.value
        if k.arg is None:
            return 'star'
    if any(isinstance(a, ast.Starred) for a in call.args):
        return 'star'
    return call.args[idx] if len(call.args) > idx else None


def _classify_order(arg, has_order):
    if arg == 'star':
        return 'OtherSite'
    if arg is None:
        return 'OmitsOrder' if has_order else 'DefaultOrder'
    if isinstance(arg, ast.Name) and arg.id == 'diff_order':
        return 'PassesOrder'
    if isinstance(arg, ast.Subscript) and isinstance(arg.value, ast.Name) and arg.value.id == 'diff_order':
        return 'PassesOrder'
    if isinstance(arg, ast.Constant) and isinstance(arg.value, int) and not isinstance(arg.value, bool):
        return f'FixedOrder {arg.value}'
    return 'OtherSite'


def _functions(tree):
    """(qualified name, FunctionDef) for every function outside the system classes (nested ones included)"""
    out = []

    def visit(node, prefix):
        for c in ast.iter_child_nodes(node):
            if isinstance(c, ast.ClassDef):
                if c.name not in SYSTEM_CLASSES:
                    visit(c, prefix + c.name + '.')
            elif isinstance(c, (ast.FunctionDef, ast.AsyncFunctionDef)):
                out.append((prefix + c.name, c))
                visit(c, prefix + c.name + '.')
            elif not isinstance(c, (ast.expr,)):
                visit(c, prefix)
    visit(tree, '')
    return out


def _own_nodes(fn):
    """nodes of fn's body that are not inside a nested function / class"""
    stack = list(fn.body)
    while stack:
        n = stack.pop()
        yield n
        for c in ast.iter_child_nodes(n):
            if not isinstance(c, (ast.FunctionDef, ast.AsyncFunctionDef, ast.ClassDef, ast.Lambda)):
                stack.append(c)


def gen_penalty_sites(repo=None):
    root = os.path.join(repo or REPO, 'pybaselines')
    files = sorted(glob.glob(os.path.join(root, '*.py')) + glob.glob(os.path.join(root, 'two_d', '*.py')))
    trees = {}
    for f in files:
        with open(f) as fh:
            trees[os.path.relpath(f, root)] = ast.parse(fh.read(), filename=f)
    # position of diff_order in the signatures of the helpers, per module that defines them
    sig_idx = {}
    for rel, tree in trees.items():
        for n in ast.walk(tree):
            if isinstance(n, ast.FunctionDef) and n.name in BY_SIGNATURE:
                args = [a.arg for a in n.args.args if a.arg != 'self']
                if 'diff_order' not in args:
                    raise TranslateError(f'{rel}: {n.name} has no diff_order parameter')
                sig_idx.setdefault(n.name, {})[os.path.dirname(rel)] = args.index('diff_order')
    for need in BY_SIGNATURE:
        if need not in sig_idx:
            raise TranslateError(f'{need} not found')
    rows = []
    for rel, tree in trees.items():
        pkg = os.path.dirname(rel)
        for qual, fn in _functions(tree):
            params = {a.arg for a in fn.args.args + fn.args.kwonlyargs}
            has_order = 'diff_order' in params or any(
                isinstance(n, ast.Name) and n.id == 'diff_order' and isinstance(n.ctx, ast.Store) for n in _own_nodes(fn))
            for n in _own_nodes(fn):
                where = f'{rel}:{qual}'
                if isinstance(n, ast.Call):
                    f = n.func
                    name = f.attr if isinstance(f, ast.Attribute) else (f.id if isinstance(f, ast.Name) else None)
                    if name is None:
                        continue
                    if name in RESCALES and isinstance(f, ast.Attribute):
                        rows.append((where, n.lineno, name, 'RescaleOnly'))
                    elif name in RESETS and isinstance(f, ast.Attribute):
                        rows.append((where, n.lineno, name, _classify_order(_order_arg(n, RESETS[name]), has_order)))
                    elif name in CONSTRUCTORS:
                        rows.append((where, n.lineno, name, _classify_order(_order_arg(n, CONSTRUCTORS[name]), has_order)))
                    elif name in BY_SIGNATURE:
                        idx = sig_idx[name].get(pkg, sig_idx[name].get('', next(iter(sig_idx[name].values()))))
                        cls = _classify_order(_order_arg(n, idx), has_order)
                        if name == '_setup_spline' and cls in ('OmitsOrder', 'DefaultOrder'):
                            pen = [k.value for k in n.keywords if k.arg == 'penalized']
                            pidx = None
                            if pen and isinstance(pen[0], ast.Constant) and pen[0].value is False:
                                cls = 'NoPenalty'
                        rows.append((where, n.lineno, name, cls))
                elif isinstance(n, (ast.Assign, ast.AugAssign)):
                    targets = n.targets if isinstance(n, ast.Assign) else [n.target]
                    for t in targets:
                        base = t
                        while isinstance(base, ast.Subscript):
                            base = base.value
                        if not (isinstance(base, ast.Attribute) and base.attr == 'penalty'):
                            continue
                        obj = ast.unparse(base)
                        cls = 'OtherSite'
                        if isinstance(n, ast.AugAssign):
                            if isinstance(n.op, (ast.Mult, ast.Div)) and t is base and not _has_penalty_attr(n.value):
                                cls = 'RescaleOnly'
                        elif t is base and isinstance(n.value, ast.BinOp) and isinstance(n.value.op, ast.Mult):
                            l, r = n.value.left, n.value.right
                            if ast.unparse(r) == obj and not _has_penalty_attr(l):
                                cls = 'RescaleOnly'
                            elif ast.unparse(l) == obj and not _has_penalty_attr(r):
                                cls = 'RescaleOnly'
                        rows.append((where, n.lineno, 'penalty=', cls))
    rows.sort()
    if not rows:
        raise TranslateError('no penalty site found')
    lines = ['(* Generated by tools/gen_penalty_sites.py from the current /repo source; do not edit. *)',
             'From Coq Require Import ZArith List String.',
             'From PB Require Import C11.Sites.',
             'Import ListNotations.',
             'Open Scope string_scope.',
             '',
             '(* (file:function, what is called / assigned, how the difference order reaches the system) *)',
             'Definition penalty_sites : list (string * string * site_class) := [']
    for i, (where, _ln, what, cls) in enumerate(rows):
        c = cls if ' ' not in cls else '(' + cls.replace('FixedOrder ', 'FixedOrder (') + ')%Z)'
        lines.append(f'  ("{where}", "{what}", {c})' + (';' if i + 1 < len(rows) else ''))
    lines.append('].')
    return '\n'.join(lines) + '\n'


GENERATORS = {'GenPenaltySites': gen_penalty_sites}
