"""GenSigs.v : parameter lists and defaults of every module-level function wrapped by
`_class_wrapper` and of the method it forwards to; the recognised shape of `_class_wrapper` and of
`Baseline._get_method` / `Baseline2D._get_method`; the registered method names (1-D and 2-D).

Only data is emitted (see coq/C16/SigTable.v); fail-closed: a parameter kind other than
POSITIONAL_OR_KEYWORD / one trailing **kwargs, a decorator that cannot be resolved to
`_class_wrapper(<class of the same module>)`, or an unparsable module raises TranslateError."""
import ast
import os

from trlib import TranslateError, _parse, _func, _body_wo_doc

MODULES_1D = ['classification', 'misc', 'morphological', 'optimizers', 'polynomial', 'smooth',
              'spline', 'whittaker']


def cstr(s):
    return '"' + s.replace('"', '""') + '"'


def _num(v, isfloat, neg=False):
    if isfloat:
        if v != v or v in (float('inf'), float('-inf')):
            return f'(DOther {cstr(repr(v))})'
        n, d = float(v).as_integer_ratio()
    else:
        n, d = int(v), 1
    if neg:
        n = -n
    nz = f'({n})' if n < 0 else str(n)
    return f'(DNum {nz} {d} {"true" if isfloat else "false"})'


def dflt(node):
    if node is None:
        return 'DReq'
    if isinstance(node, ast.Constant):
        v = node.value
        if v is None:
            return 'DNone'
        if isinstance(v, bool):
            return f'(DBool {"true" if v else "false"})'
        if isinstance(v, (int, float)):
            return _num(v, isinstance(v, float))
        if isinstance(v, str):
            return f'(DStr {cstr(v)})'
        return f'(DOther {cstr(ast.dump(node))})'
    try:
        # constant arithmetic such as -1, 1 / 12, 1. / 12. is folded to the value Python computes
        v = _fold(node)
        return _num(v, isinstance(v, float))
    except (TranslateError, ZeroDivisionError, OverflowError):
        pass
    return f'(DOther {cstr(ast.dump(node))})'


def _fold(node):
    if isinstance(node, ast.Constant) and isinstance(node.value, (int, float)) \
            and not isinstance(node.value, bool):
        return node.value
    if isinstance(node, ast.UnaryOp) and isinstance(node.op, (ast.USub, ast.UAdd)):
        v = _fold(node.operand)
        return -v if isinstance(node.op, ast.USub) else v
    if isinstance(node, ast.BinOp) and isinstance(node.op, (ast.Add, ast.Sub, ast.Mult, ast.Div)):
        a, b = _fold(node.left), _fold(node.right)
        if isinstance(node.op, ast.Add):
            return a + b
        if isinstance(node.op, ast.Sub):
            return a - b
        if isinstance(node.op, ast.Mult):
            return a * b
        return a / b
    raise TranslateError('not a numeric constant expression')


def sig_of(fn, drop_self=False):
    a = fn.args
    if a.posonlyargs or a.kwonlyargs or a.vararg is not None:
        raise TranslateError(f'{fn.name}: parameter kind outside POSITIONAL_OR_KEYWORD/**kwargs')
    names = [x.arg for x in a.args]
    defaults = [None] * (len(names) - len(a.defaults)) + list(a.defaults)
    if drop_self:
        if not names or names[0] != 'self':
            raise TranslateError(f'{fn.name}: method without self')
        names, defaults = names[1:], defaults[1:]
    ps = '; '.join(f'{{| p_name := {cstr(n)}; p_dflt := {dflt(d)} |}}' for n, d in zip(names, defaults))
    return f'{{| s_params := [{ps}]; s_varkw := {"true" if a.kwarg is not None else "false"} |}}'


def _is_register(dec):
    """@_Algorithm._register / @_Algorithm._register(...) / 2-D equivalents."""
    node = dec.func if isinstance(dec, ast.Call) else dec
    return (isinstance(node, ast.Attribute) and node.attr == '_register'
            and isinstance(node.value, ast.Name) and node.value.id in ('_Algorithm', '_Algorithm2D'))


def _classes(tree):
    return {n.name: n for n in tree.body if isinstance(n, ast.ClassDef)}


def _methods(cls):
    return {n.name: n for n in cls.body if isinstance(n, ast.FunctionDef)}


def module_entries(repo, mod):
    tree, _ = _parse(f'pybaselines/{mod}.py', repo)
    classes = _classes(tree)
    wrappers = {}
    for st in tree.body:
        if (isinstance(st, ast.Assign) and len(st.targets) == 1 and isinstance(st.targets[0], ast.Name)
                and isinstance(st.value, ast.Call) and isinstance(st.value.func, ast.Name)
                and st.value.func.id == '_class_wrapper'):
            call = st.value
            if len(call.args) != 1 or call.keywords or not isinstance(call.args[0], ast.Name):
                raise TranslateError(f'{mod}: unsupported _class_wrapper call')
            wrappers[st.targets[0].id] = call.args[0].id
    out = []
    for st in tree.body:
        if not isinstance(st, ast.FunctionDef):
            continue
        uses = [d for d in st.decorator_list
                if (isinstance(d, ast.Name) and d.id in wrappers)
                or (isinstance(d, ast.Call) and isinstance(d.func, ast.Name) and d.func.id == '_class_wrapper')]
        if not uses:
            if st.decorator_list and not st.name.startswith('_'):
                raise TranslateError(f'{mod}.{st.name}: unrecognised decorator on a public function')
            continue
        if len(st.decorator_list) != 1 or not isinstance(uses[0], ast.Name):
            raise TranslateError(f'{mod}.{st.name}: unsupported decorator stack')
        klass = wrappers[uses[0].id]
        if klass not in classes:
            raise TranslateError(f'{mod}.{st.name}: class {klass} is not defined in the module')
        meth = _methods(classes[klass]).get(st.name)
        msig = 'None'
        registered = False
        if meth is not None:
            msig = f'(Some {sig_of(meth, drop_self=True)})'
            registered = any(_is_register(d) for d in meth.decorator_list)
        out.append(f'{{| e_module := {cstr(mod)}; e_name := {cstr(st.name)}; e_class := {cstr(klass)};\n'
                   f'     e_func := {sig_of(st)};\n     e_meth := {msig};\n'
                   f'     e_registered := {"true" if registered else "false"} |}}')
    return out


EXPECTED_CLASS_WRAPPER = (
    "def outer(func):\n"
    "    func_signature = signature(func)\n"
    "    method = func.__name__\n"
    "\n"
    "    @wraps(func)\n"
    "    def inner(*args, **kwargs):\n"
    "        total_inputs = func_signature.bind(*args, **kwargs)\n"
    "        x = total_inputs.arguments.pop('x_data', None)\n"
    "        return getattr(klass(x_data=x), method)(*total_inputs.args, **total_inputs.kwargs)\n"
    "    return inner\n"
    "return outer\n")

EXPECTED_GET_METHOD = (
    "method_string = baseline_method.lower()\n"
    "if hasattr(self, method_string):\n"
    "    output = getattr(self, method_string)\n"
    "else:\n"
    "    raise AttributeError(f'unknown method \"{baseline_method}\"')\n"
    "return output\n")


def _norm_body(fn):
    return ast.dump(ast.Module(body=_body_wo_doc(fn), type_ignores=[]))


def _same_shape(fn, expected_src, args):
    if [a.arg for a in fn.args.args] != args or fn.args.vararg or fn.args.kwarg or fn.args.kwonlyargs:
        return False
    return _norm_body(fn) == ast.dump(ast.parse(expected_src))


def _imports_signature_from_inspect(tree):
    for st in tree.body:
        if isinstance(st, ast.ImportFrom) and st.module == 'inspect':
            if any(a.name == 'signature' and a.asname in (None, 'signature') for a in st.names):
                return True
    return False


def _api_methods(repo, api_rel, pkg_rel, class_name):
    """Registered public method names of the bases of Baseline / Baseline2D, and the shape of _get_method."""
    tree, _ = _parse(api_rel, repo)
    cls = _classes(tree).get(class_name)
    if cls is None:
        raise TranslateError(f'{api_rel}: class {class_name} not found')
    imported = {}
    for st in tree.body:
        if isinstance(st, ast.ImportFrom) and st.level == 1 and st.module:
            for a in st.names:
                imported[a.asname or a.name] = st.module
    names = []
    for b in cls.bases:
        if not (isinstance(b, ast.Name) and b.id in imported):
            raise TranslateError(f'{api_rel}: base class {ast.dump(b)} is not a relative import')
        mtree, _ = _parse(os.path.join(pkg_rel, imported[b.id] + '.py'), repo)
        bcls = _classes(mtree).get(b.id)
        if bcls is None:
            raise TranslateError(f'{api_rel}: base {b.id} not found in {imported[b.id]}')
        for n, m in _methods(bcls).items():
            if any(_is_register(d) for d in m.decorator_list):
                if n.startswith('_'):
                    continue
                names.append(n)
    gm = _methods(cls).get('_get_method')
    shape = 'GmUnknown'
    if gm is not None and _same_shape(gm, EXPECTED_GET_METHOD, ['self', 'baseline_method']):
        shape = 'GmLowerHasattrGetattr'
    extra = [n for n in _methods(cls) if n != '_get_method']
    if extra:
        raise TranslateError(f'{api_rel}: {class_name} defines methods of its own: {extra}')
    return sorted(names), shape


def gen_sigs(repo=None):
    out = ['(* GENERATED by tools/translate.py (gen_sigs.py) from pybaselines/*.py -- do not edit *)',
           'From Coq Require Import String List Bool ZArith.',
           'From PB Require Import C16.SigTable.',
           'Import ListNotations.', 'Open Scope string_scope.', 'Open Scope Z_scope.', '']
    entries = []
    for mod in MODULES_1D:
        entries += module_entries(repo, mod)
    if not entries:
        raise TranslateError('no wrapped module-level functions found')
    out.append('Definition sigs : list entry := [\n  ' + ';\n  '.join(entries) + '\n].\n')
    # modules of the 1-D package that are not scanned must not use _class_wrapper
    base = os.path.join(repo or os.environ.get('VERIF_REPO', '/repo'), 'pybaselines')
    for sub, scanned in (('', set(MODULES_1D)), ('two_d', set())):
        for f in sorted(os.listdir(os.path.join(base, sub))):
            if not f.endswith('.py') or f[:-3] in scanned or (sub == '' and f == '_algorithm_setup.py'):
                continue
            with open(os.path.join(base, sub, f)) as fh:
                if '_class_wrapper' in fh.read():
                    raise TranslateError(f'{os.path.join(sub, f)} uses _class_wrapper but is not in the scanned set')
    tree, _ = _parse('pybaselines/_algorithm_setup.py', repo)
    cw = _func(tree, '_class_wrapper')
    ok = _same_shape(cw, EXPECTED_CLASS_WRAPPER, ['klass']) and _imports_signature_from_inspect(tree)
    out.append(f'Definition class_wrapper_shape : cw_shape := {"CwBindPopCall" if ok else "CwUnknown"}.\n')
    m1, g1 = _api_methods(repo, 'pybaselines/api.py', 'pybaselines', 'Baseline')
    m2, g2 = _api_methods(repo, 'pybaselines/two_d/api.py', 'pybaselines/two_d', 'Baseline2D')
    out.append('Definition methods_1d : list string := [' + '; '.join(cstr(n) for n in m1) + '].\n')
    out.append('Definition methods_2d : list string := [' + '; '.join(cstr(n) for n in m2) + '].\n')
    out.append(f'Definition get_method_1d : gm_shape := {g1}.')
    out.append(f'Definition get_method_2d : gm_shape := {g2}.')
    out += gen_setups(repo)
    out += gen_method_uses(repo)
    out += gen_array_params(repo)
    out += gen_kwargs_loads(repo)
    return '\n'.join(out) + '\n'


# ---------------------------------------------------------------- per-point arguments in _setup_*
SETUPS = ['_setup_whittaker', '_setup_polynomial', '_setup_spline', '_setup_classification']


def _is_name(n, ident):
    return isinstance(n, ast.Name) and n.id == ident


def _is_self_attr(n, attr):
    return isinstance(n, ast.Attribute) and n.attr == attr and _is_name(n.value, 'self')


def _sort_stmt(st):
    """if self._sort_order is not None and weights is not None: weight_array = weight_array[self._sort_order]"""
    expect = ast.dump(ast.parse(
        'if self._sort_order is not None and weights is not None:\n'
        '    weight_array = weight_array[self._sort_order]\n').body[0])
    return ast.dump(st) == expect


def _ravel_kind(call):
    """weight_array.ravel(...) -> 'C' | 'other'"""
    if call.args:
        a = call.args[0]
        return 'C' if (len(call.args) == 1 and isinstance(a, ast.Constant) and a.value == 'C' and not call.keywords) else 'other'
    if not call.keywords:
        return 'C'
    if len(call.keywords) == 1 and call.keywords[0].arg == 'order' and isinstance(call.keywords[0].value, ast.Constant) \
            and call.keywords[0].value.value == 'C':
        return 'C'
    return 'other'


def setup_entry(cls, name, two_d):
    fn = _methods(cls).get(name)
    if fn is None:
        raise TranslateError(f'{name} not found')
    body = _body_wo_doc(fn)
    first = None
    dtype = order = axis = None
    ens = 'true'
    size_shape = None
    sort = False
    flat = 'FlNone'
    for i, st in enumerate(body):
        # every statement that mentions weight_array as a store target or calls a method on it must be recognised
        targets = [t for n in ast.walk(st) if isinstance(n, (ast.Assign, ast.AugAssign, ast.AnnAssign))
                   for t in (n.targets if isinstance(n, ast.Assign) else [n.target])
                   if any(_is_name(m, 'weight_array') for m in ast.walk(t))]
        if not targets:
            continue
        if first is None:
            if not (isinstance(st, ast.Assign) and len(st.targets) == 1 and _is_name(st.targets[0], 'weight_array')
                    and isinstance(st.value, ast.Call) and _is_name(st.value.func, '_check_optional_array')):
                raise TranslateError(f'{name}: weight_array is not first assigned from _check_optional_array')
            call = st.value
            if len(call.args) != 2 or not _is_name(call.args[1], 'weights'):
                raise TranslateError(f'{name}: unexpected positional arguments of _check_optional_array')
            if _is_self_attr(call.args[0], '_shape'):
                size_shape = 'true'
            elif _is_self_attr(call.args[0], '_size'):
                size_shape = 'false'
            else:
                raise TranslateError(f'{name}: unexpected size argument')
            dtype, order, axis = 'WNone', 'ONone', 'AxLast'
            for kw in call.keywords:
                v = kw.value
                if kw.arg == 'dtype':
                    dtype = {'float': 'WFloat', 'bool': 'WBool'}.get(v.id, 'WOtherDt') if isinstance(v, ast.Name) else 'WOtherDt'
                elif kw.arg == 'order':
                    order = 'OC' if isinstance(v, ast.Constant) and v.value == 'C' else \
                        ('ONone' if isinstance(v, ast.Constant) and v.value is None else 'OOther')
                elif kw.arg == 'ensure_1d':
                    if not (isinstance(v, ast.Constant) and isinstance(v.value, bool)):
                        raise TranslateError(f'{name}: ensure_1d is not a literal')
                    ens = 'true' if v.value else 'false'
                elif kw.arg == 'axis':
                    if isinstance(v, ast.Call) and _is_name(v.func, 'slice') and len(v.args) == 1 and not v.keywords \
                            and isinstance(v.args[0], ast.Constant) and v.args[0].value is None:
                        axis = 'AxAll'
                    elif isinstance(v, ast.UnaryOp) and isinstance(v.op, ast.USub) and isinstance(v.operand, ast.Constant) \
                            and v.operand.value == 1:
                        axis = 'AxLast'
                    else:
                        axis = 'AxOther'
                elif kw.arg in ('copy_input', 'check_finite', 'name'):
                    pass
                else:
                    raise TranslateError(f'{name}: unexpected keyword {kw.arg} of _check_optional_array')
            first = i
            continue
        if _sort_stmt(st) and not sort and flat == 'FlNone':
            sort = True
            continue
        if isinstance(st, ast.Assign) and len(st.targets) == 1 and _is_name(st.targets[0], 'weight_array'):
            v = st.value
            if _is_name(v, 'weight_array'):
                continue            # weight_array = weight_array
            if isinstance(v, ast.Call) and isinstance(v.func, ast.Attribute) and v.func.attr == 'ravel' \
                    and _is_name(v.func.value, 'weight_array') and flat == 'FlNone':
                flat = 'FlRavelC' if _ravel_kind(v) == 'C' else 'FlOther'
                continue
            flat = 'FlOther'
            continue
        if isinstance(st, ast.If) and not st.orelse and ast.dump(st.test) == ast.dump(
                ast.parse('not whittaker_system._using_svd').body[0].value) and flat == 'FlNone':
            inner = [b for b in st.body if isinstance(b, ast.Assign) and len(b.targets) == 1
                     and _is_name(b.targets[0], 'weight_array')]
            if len(inner) == 1 and isinstance(inner[0].value, ast.Call) and isinstance(inner[0].value.func, ast.Attribute) \
                    and inner[0].value.func.attr == 'ravel' and _is_name(inner[0].value.func.value, 'weight_array'):
                flat = 'FlRavelCUnlessSvd' if _ravel_kind(inner[0].value) == 'C' else 'FlOther'
                continue
        flat = 'FlOther'
    if first is None:
        raise TranslateError(f'{name}: no weight_array assignment')
    return (f'{{| su_two_d := {"true" if two_d else "false"}; su_name := {cstr(name)}; su_size_is_shape := {size_shape}; '
            f'su_dtype := {dtype}; su_order := {order}; su_ensure_1d := {ens}; su_axis := {axis}; '
            f'su_sort := {"true" if sort else "false"}; su_flat := {flat} |}}')


EXPECTED_INNER_SIG = ['self', 'data']


def inner_shape(cls):
    """_register: def inner(self, data=None, *args, **kwargs) with exactly one call func(self, y, *args, **kwargs)."""
    reg = _methods(cls).get('_register')
    if reg is None:
        return 'InUnknown'
    inners = [n for n in ast.walk(reg) if isinstance(n, ast.FunctionDef) and n.name == 'inner']
    if len(inners) != 1:
        return 'InUnknown'
    fn = inners[0]
    a = fn.args
    ok = ([x.arg for x in a.args] == EXPECTED_INNER_SIG and not a.posonlyargs and not a.kwonlyargs
          and a.vararg is not None and a.vararg.arg == 'args' and a.kwarg is not None and a.kwarg.arg == 'kwargs'
          and len(a.defaults) == 1 and isinstance(a.defaults[0], ast.Constant) and a.defaults[0].value is None)
    calls = [n for n in ast.walk(fn) if isinstance(n, ast.Call) and _is_name(n.func, 'func')]
    expect = ast.dump(ast.parse('func(self, y, *args, **kwargs)').body[0].value)
    ok = ok and len(calls) == 1 and ast.dump(calls[0]) == expect
    # args / kwargs are not touched anywhere else, data is not rebound
    for n in ast.walk(fn):
        if isinstance(n, ast.Name) and n.id in ('args', 'kwargs') and not any(n is m for c in calls for m in ast.walk(c)):
            ok = False
        if isinstance(n, ast.Name) and n.id == 'data' and isinstance(n.ctx, ast.Store):
            ok = False
    return 'InDataArgsKwargs' if ok else 'InUnknown'


def gen_setups(repo):
    out = []
    t1, _ = _parse('pybaselines/_algorithm_setup.py', repo)
    t2, _ = _parse('pybaselines/two_d/_algorithm_setup.py', repo)
    c1, c2 = _classes(t1).get('_Algorithm'), _classes(t2).get('_Algorithm2D')
    if c1 is None or c2 is None:
        raise TranslateError('_Algorithm / _Algorithm2D not found')
    ents = [setup_entry(c1, n, False) for n in SETUPS] + [setup_entry(c2, n, True) for n in SETUPS]
    out.append('Definition setups : list setup_entry := [\n  ' + ';\n  '.join(ents) + '\n].\n')
    out.append(f'Definition inner_shape_1d : in_shape := {inner_shape(c1)}.')
    out.append(f'Definition inner_shape_2d : in_shape := {inner_shape(c2)}.')
    return out


# ---------------------------------------------------------------- method NAME arguments (case handling)
RAW_CALL_WHITELIST = {'_setup_optimizer', '_get_function', '_get_method'}


def _str_lits(node):
    """string literals of a comparator: 'a' or a tuple/list/set of them; None if it is something else"""
    if isinstance(node, ast.Constant) and isinstance(node.value, str):
        return [node.value]
    if isinstance(node, (ast.Tuple, ast.List, ast.Set)) and node.elts and all(
            isinstance(e, ast.Constant) and isinstance(e.value, str) for e in node.elts):
        return [e.value for e in node.elts]
    return None


def method_uses(fn, two_d, pname='method'):
    """Ordered uses of the parameter `pname` in fn.  State: raw names (hold the caller's string), lowered names."""
    raw, low = {pname}, set()
    out = []

    def kind_of(e):
        if isinstance(e, ast.Name):
            if e.id in low:
                return 'low'
            if e.id in raw:
                return 'raw'
            return None
        if (isinstance(e, ast.Call) and isinstance(e.func, ast.Attribute) and e.func.attr == 'lower'
                and not e.args and not e.keywords and isinstance(e.func.value, ast.Name)
                and e.func.value.id in raw | low):
            return 'lowercall'
        return None

    def emit(use, lits=()):
        out.append(f'{{| mc_two_d := {"true" if two_d else "false"}; mc_func := {cstr(fn.name)}; mc_use := {use}; '
                   f'mc_lits := [{"; ".join(cstr(l) for l in lits)}] |}}')

    def scan_expr(node, in_raise=False):
        """records the uses inside one expression / statement header; returns nothing"""
        handled = set()
        for n in ast.walk(node):
            if isinstance(n, ast.Compare):
                ops = [n.left] + list(n.comparators)
                ks = [kind_of(o) for o in ops]
                if any(ks):
                    lits = []
                    okform = True
                    for o, k in zip(ops, ks):
                        if k:
                            handled.update(id(m) for m in ast.walk(o))
                            continue
                        ll = _str_lits(o)
                        if ll is None:
                            okform = False
                        else:
                            lits += ll
                    if not okform or not all(isinstance(op, (ast.Eq, ast.NotEq, ast.In, ast.NotIn)) for op in n.ops):
                        emit('UseOther', lits)
                    else:
                        k = [k for k in ks if k]
                        emit('CmpRaw' if 'raw' in k else ('CmpLowerCall' if 'lowercall' in k else 'CmpLowered'), lits)
            elif isinstance(n, ast.Call) and isinstance(n.func, ast.Name) and n.func.id in ('getattr', 'hasattr') \
                    and len(n.args) >= 2 and kind_of(n.args[1]):
                handled.update(id(m) for m in ast.walk(n.args[1]))
                emit('GetattrRaw' if kind_of(n.args[1]) == 'raw' else 'GetattrLowered')
            elif isinstance(n, ast.Call):
                fname = n.func.attr if isinstance(n.func, ast.Attribute) else (n.func.id if isinstance(n.func, ast.Name) else None)
                if fname in RAW_CALL_WHITELIST:
                    for a in list(n.args) + [k.value for k in n.keywords]:
                        if kind_of(a):
                            handled.update(id(m) for m in ast.walk(a))
                elif kind_of(n) == 'lowercall':
                    pass          # <name>.lower() on its own: handled by whoever consumes it (assignment / comparison)
        # any other load of a RAW name is an unknown use (a lowered name may be used freely)
        for n in ast.walk(node):
            if isinstance(n, ast.Name) and n.id in raw and isinstance(n.ctx, ast.Load) and id(n) not in handled:
                # receiver of .lower() is fine
                continue_ok = False
                for c in ast.walk(node):
                    if (isinstance(c, ast.Call) and isinstance(c.func, ast.Attribute) and c.func.attr == 'lower'
                            and c.func.value is n and not c.args and not c.keywords):
                        continue_ok = True
                if continue_ok or in_raise:
                    continue
                emit('UseOther')

    def assigns_tracked(st):
        for n in ast.walk(st):
            if isinstance(n, (ast.Assign, ast.AugAssign, ast.AnnAssign, ast.For, ast.With, ast.NamedExpr)):
                tg = n.targets if isinstance(n, ast.Assign) else [getattr(n, 'target', None)]
                if isinstance(n, ast.With):
                    tg = [i.optional_vars for i in n.items]
                for t in tg:
                    if t is None:
                        continue
                    for m in ast.walk(t):
                        if isinstance(m, ast.Name) and m.id in raw | low:
                            return True
        return False

    def walk_body(stmts, top):
        for st in stmts:
            if isinstance(st, (ast.FunctionDef, ast.ClassDef, ast.Lambda)):
                if any(isinstance(n, ast.Name) and n.id in raw for n in ast.walk(st)):
                    emit('UseOther')
                continue
            if isinstance(st, ast.Assign) and len(st.targets) == 1 and isinstance(st.targets[0], ast.Name):
                k = kind_of(st.value)
                tname = st.targets[0].id
                if k is not None and (top or tname not in raw | low):
                    if not top and tname in raw | low:
                        emit('UseOther')
                    if k in ('low', 'lowercall'):
                        raw.discard(tname)
                        low.add(tname)
                    else:
                        low.discard(tname)
                        raw.add(tname)
                    continue
                if tname in raw | low:
                    if k is None and top:
                        # rebound to something unrelated: no longer the method name
                        scan_expr(st.value)
                        raw.discard(tname)
                        low.discard(tname)
                        continue
                    emit('UseOther')
                    continue
            if isinstance(st, (ast.If, ast.While)):
                scan_expr(st.test)
                if assigns_tracked(ast.Module(body=st.body + st.orelse, type_ignores=[])):
                    emit('UseOther')       # conditional re-binding of a tracked name: not followed
                walk_body(st.body, False)
                walk_body(st.orelse, False)
            elif isinstance(st, (ast.For,)):
                scan_expr(st.iter)
                if assigns_tracked(st):
                    emit('UseOther')
                walk_body(st.body, False)
                walk_body(st.orelse, False)
            elif isinstance(st, (ast.With, ast.Try)):
                if assigns_tracked(st):
                    emit('UseOther')
                for sub in ('body', 'orelse', 'finalbody'):
                    walk_body(getattr(st, sub, []) or [], False)
                for h in getattr(st, 'handlers', []) or []:
                    walk_body(h.body, False)
                for it in getattr(st, 'items', []) or []:
                    scan_expr(it.context_expr)
            elif isinstance(st, ast.Raise):
                scan_expr(st, in_raise=True)
            else:
                if assigns_tracked(st) and not isinstance(st, ast.Assign):
                    emit('UseOther')
                scan_expr(st)

    walk_body(_body_wo_doc(fn), True)
    return out


def gen_method_uses(repo):
    ents, funcs = [], []
    for two_d, rel in ((False, 'pybaselines/optimizers.py'), (True, 'pybaselines/two_d/optimizers.py'),
                       (False, 'pybaselines/_algorithm_setup.py'), (True, 'pybaselines/two_d/_algorithm_setup.py')):
        tree, _ = _parse(rel, repo)
        for cls in _classes(tree).values():
            for name, fn in _methods(cls).items():
                if 'method' in [a.arg for a in fn.args.args + fn.args.kwonlyargs]:
                    funcs.append(f'({"true" if two_d else "false"}, {cstr(name)})')
                    ents += method_uses(fn, two_d)
    if not funcs:
        raise TranslateError('no function with a `method` parameter found')
    return ['Definition method_funcs : list (bool * string) := [' + '; '.join(funcs) + '].\n',
            'Definition method_uses : list mcmp := [\n  ' + ';\n  '.join(ents) + '\n].\n']


# ---------------------------------------------------------------- routing of per-point array parameters
PER_POINT = ('weights', 'alpha')
PASS_THROUGH = {'_sort_array', '_sort_array2d'}      # value-preserving re-ordering (C02)
METHOD_MODULES = ['classification', 'misc', 'morphological', 'optimizers', 'polynomial', 'smooth', 'spline', 'whittaker']


def _wdtype_kw(call):
    dt = 'WNone'
    for kw in call.keywords:
        if kw.arg == 'dtype':
            v = kw.value
            if isinstance(v, ast.Name):
                dt = {'float': 'WFloat', 'bool': 'WBool'}.get(v.id, 'WOtherDt')
            elif isinstance(v, ast.Constant) and v.value is None:
                dt = 'WNone'
            else:
                dt = 'WOtherDt'
        if kw.arg is None:
            dt = 'WOtherDt'       # **kwargs could carry a dtype: unknown
    return dt


def param_routes(fn, pname):
    """How the parameter `pname` (and plain aliases of it) is consumed in fn."""
    names = {pname}
    parents = {}
    for n in ast.walk(fn):
        for c in ast.iter_child_nodes(n):
            parents[c] = n
    # aliases: <name> = pname   (plain copies only)
    changed = True
    while changed:
        changed = False
        for n in ast.walk(fn):
            if isinstance(n, ast.Assign) and isinstance(n.value, ast.Name) and n.value.id in names:
                for t in n.targets:
                    if isinstance(t, ast.Name) and t.id not in names:
                        names.add(t.id)
                        changed = True
    # statements that only run when the caller passed None (body of `if p is None`, orelse of `if p is not None`):
    # every value met there is computed internally, not supplied by the caller
    none_branch = set()
    for n in ast.walk(fn):
        if isinstance(n, ast.If) and isinstance(n.test, ast.Compare) and len(n.test.ops) == 1 \
                and _is_name(n.test.left, pname) and isinstance(n.test.comparators[0], ast.Constant) \
                and n.test.comparators[0].value is None:
            branch = n.body if isinstance(n.test.ops[0], ast.Is) else (n.orelse if isinstance(n.test.ops[0], ast.IsNot) else [])
            for st in branch:
                none_branch.update(id(m) for m in ast.walk(st))
    routes = []
    for n in ast.walk(fn):
        if not (isinstance(n, ast.Name) and n.id in names and isinstance(n.ctx, ast.Load)):
            continue
        if id(n) in none_branch:
            continue
        par = parents.get(n)
        if isinstance(par, ast.Compare) and all(isinstance(o, (ast.Is, ast.IsNot)) for o in par.ops) \
                and all(isinstance(c, ast.Constant) and c.value is None for c in par.comparators if c is not n) \
                and (par.left is n or (isinstance(par.left, ast.Constant) and par.left.value is None)):
            continue                                   # weights is None / is not None
        if isinstance(par, ast.Assign) and par.value is n and all(isinstance(t, ast.Name) for t in par.targets):
            continue                                   # alias definition, followed above
        call = par if isinstance(par, ast.Call) else (parents.get(par) if isinstance(par, ast.keyword) else None)
        if isinstance(call, ast.Call):
            f = call.func
            if isinstance(f, ast.Attribute) and _is_name(f.value, 'self') and f.attr.startswith('_setup_'):
                routes.append(f'(RSetup {cstr(f.attr)})')
                continue
            if _is_name(f, '_check_optional_array') and len(call.args) >= 2 and call.args[1] is n:
                routes.append(f'(RDirect {_wdtype_kw(call)})')
                continue
            if isinstance(f, ast.Name) and f.id in PASS_THROUGH and call.args and call.args[0] is n:
                # result must be re-bound to a tracked name, whose uses are classified in turn
                gp = parents.get(call)
                if isinstance(gp, ast.Assign) and all(isinstance(t, ast.Name) and t.id in names for t in gp.targets):
                    continue
        routes.append('RUnknown')
    return routes


def gen_array_params(repo):
    ents = []
    for two_d, pkg in ((False, 'pybaselines'), (True, 'pybaselines/two_d')):
        for mod in METHOD_MODULES:
            rel = f'{pkg}/{mod}.py'
            if not os.path.exists(os.path.join(repo or os.environ.get('VERIF_REPO', '/repo'), rel)):
                continue
            tree, _ = _parse(rel, repo)
            for cls in _classes(tree).values():
                for name, fn in _methods(cls).items():
                    if name.startswith('_') or not any(_is_register(d) for d in fn.decorator_list):
                        continue
                    a = fn.args
                    pnames = [x.arg for x in a.args]
                    defaults = [None] * (len(pnames) - len(a.defaults)) + list(a.defaults)
                    for pn, d in zip(pnames, defaults):
                        if pn not in PER_POINT:
                            continue
                        if not (isinstance(d, ast.Constant) and d.value is None):
                            continue          # a scalar parameter that happens to be called alpha
                        routes = param_routes(fn, pn)
                        ents.append(f'{{| ap_two_d := {"true" if two_d else "false"}; ap_method := {cstr(name)}; '
                                    f'ap_param := {cstr(pn)}; ap_routes := [{"; ".join(routes)}] |}}')
    if not ents:
        raise TranslateError('no per-point array parameter found')
    return ['Definition array_params : list aparam := [\n  ' + ';\n  '.join(ents) + '\n].\n']


# ---------------------------------------------------------------- arrays inside method_kwargs of the optimizers
def gen_kwargs_loads(repo):
    ents = []
    for two_d, rel in ((False, 'pybaselines/optimizers.py'), (True, 'pybaselines/two_d/optimizers.py')):
        tree, _ = _parse(rel, repo)
        for cls in _classes(tree).values():
            for fname, fn in _methods(cls).items():
                if fname.startswith('_') or not any(_is_register(d) for d in fn.decorator_list):
                    continue
                parents = {}
                for n in ast.walk(fn):
                    for c in ast.iter_child_nodes(n):
                        parents[c] = n
                # loop variables ranging over string tuples that contain a per-point name
                loopkeys = set()
                for n in ast.walk(fn):
                    if isinstance(n, ast.For) and isinstance(n.target, ast.Name):
                        ll = _str_lits(n.iter)
                        if ll and any(k in PER_POINT for k in ll):
                            loopkeys.add(n.target.id)

                def key_of(sub):
                    if not (isinstance(sub.value, ast.Name) and sub.value.id in ('method_kws', 'method_kwargs')):
                        return None
                    k = sub.slice
                    if isinstance(k, ast.Constant) and k.value in PER_POINT:
                        return k.value
                    if isinstance(k, ast.Name) and k.id in loopkeys:
                        return '<' + k.id + '>'
                    if isinstance(k, ast.Constant):
                        return None                     # another key (tol, ...) or a list position: not an array
                    if sub.value.id == 'method_kwargs':
                        return None                     # the raw argument may be a list of dicts indexed by position
                    return '?'
                stores = {}
                for n in ast.walk(fn):
                    if isinstance(n, ast.Subscript) and isinstance(n.ctx, ast.Store):
                        k = key_of(n)
                        if k:
                            stores.setdefault(k, []).append(n)
                for n in ast.walk(fn):
                    if not (isinstance(n, ast.Subscript) and isinstance(n.ctx, ast.Load)):
                        continue
                    k = key_of(n)
                    if k is None:
                        continue
                    par = parents.get(n)
                    use = 'KwUnknown'
                    if isinstance(par, ast.Call) and _is_name(par.func, '_check_optional_array') and len(par.args) >= 2 \
                            and par.args[1] is n:
                        use = f'(KwValidated {_wdtype_kw(par)})'
                    else:
                        # an earlier statement of the function stored a computed value under the same key
                        def stmt_of(x):
                            while x in parents and not isinstance(x, ast.stmt):
                                x = parents[x]
                            return x
                        mine = stmt_of(n)
                        if any(stmt_of(st) is not mine and st.lineno < n.lineno for st in stores.get(k, [])):
                            use = 'KwInternal'
                    ents.append(f'{{| kl_two_d := {"true" if two_d else "false"}; kl_func := {cstr(fname)}; '
                                f'kl_key := {cstr(k)}; kl_use := {use} |}}')
    return ['Definition kwargs_loads : list kwload := [\n  ' + ';\n  '.join(ents) + '\n].\n']


GENERATORS = {'GenSigs': gen_sigs}
