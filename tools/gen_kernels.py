"""GenKernels.v : for every @jit kernel of pybaselines (1-D modules) the normalised list of
  * subscript expressions (sub:/set:), `for` iterators, `while`/`if` tests, augmented/plain integer
    updates are NOT listed -- only what decides which element is touched and how often;
and the Python-level guards that sit between the public API and the kernels, as Coq functions over Z:
  loess total_points range, _spline_knots / SplineBasis argument checks, peak_filling sections range
  and half-window clamp.  Fail closed: an unrecognised shape raises TranslateError."""
import ast

from trlib import TranslateError, _parse, _func, _body_wo_doc

KERNEL_FILES = ['pybaselines/_spline_utils.py', 'pybaselines/polynomial.py', 'pybaselines/smooth.py',
                'pybaselines/classification.py', 'pybaselines/misc.py', 'pybaselines/spline.py',
                'pybaselines/utils.py']


def _is_jit(fn):
    for d in fn.decorator_list:
        f = d.func if isinstance(d, ast.Call) else d
        if isinstance(f, ast.Name) and f.id == 'jit':
            return True
    return False


class _Skel(ast.NodeVisitor):
    def __init__(self):
        self.out = []

    def visit_Subscript(self, node):
        kind = 'set' if isinstance(node.ctx, ast.Store) else 'sub'
        self.out.append(f'{kind}:{ast.unparse(node)}')
        self.generic_visit(node)

    def visit_AugAssign(self, node):
        if isinstance(node.target, ast.Subscript):
            self.out.append(f'aug:{ast.unparse(node.target)}')
            self.visit(node.target.value)
            self.visit(node.target.slice)
        elif isinstance(node.target, ast.Name):
            self.out.append(f'upd:{ast.unparse(node)}')
        self.visit(node.value)

    def visit_For(self, node):
        self.out.append(f'for:{ast.unparse(node.target)} in {ast.unparse(node.iter)}')
        self.generic_visit(node)

    def visit_While(self, node):
        self.out.append(f'while:{ast.unparse(node.test)}')
        self.generic_visit(node)

    def visit_If(self, node):
        self.out.append(f'if:{ast.unparse(node.test)}')
        self.generic_visit(node)
        if node.orelse:
            self.out.append('else')

    def visit_IfExp(self, node):
        self.out.append(f'ifexp:{ast.unparse(node)}')
        self.generic_visit(node)

    def visit_Continue(self, node):
        self.out.append('continue')

    def visit_Break(self, node):
        self.out.append('break')

    def visit_Return(self, node):
        self.out.append('return:' + (ast.unparse(node.value) if node.value is not None else ''))
        self.generic_visit(node)

    def visit_Raise(self, node):
        self.out.append('raise')

    def visit_Call(self, node):
        # calls of other kernels and allocators decide lengths
        f = node.func
        name = ast.unparse(f)
        if name.startswith('_') or name in ('np.zeros', 'np.empty', 'np.arange', 'np.array', 'np.argmin',
                                            'min', 'max', 'range', 'len'):
            self.out.append(f'call:{ast.unparse(node)}')
        self.generic_visit(node)

    def visit_Assign(self, node):
        # integer bookkeeping: plain-name targets are listed with their right-hand side
        if all(isinstance(t, ast.Name) for t in node.targets):
            self.out.append(f'let:{ast.unparse(node)}')
        self.generic_visit(node)


def _coq_str(s):
    return '"' + s.replace('"', '""') + '"'


def kernel_table(repo):
    rows = []
    for rel in KERNEL_FILES:
        tree, _ = _parse(rel, repo)
        for node in tree.body:
            if isinstance(node, ast.FunctionDef) and _is_jit(node):
                sk = _Skel()
                for st in _body_wo_doc(node):
                    sk.visit(st)
                args = ','.join(a.arg for a in node.args.args)
                rows.append((node.name, [f'args:{args}'] + sk.out))
    if not rows:
        raise TranslateError('no @jit kernels found')
    return rows


# ---------------------------------------------------------------- guards as Z expressions
def zexpr(node, names):
    if isinstance(node, ast.Constant) and isinstance(node.value, int) and not isinstance(node.value, bool):
        v = node.value
        return f'({v})' if v < 0 else str(v)
    if isinstance(node, ast.Name) and node.id in names:
        return names[node.id]
    if isinstance(node, (ast.Attribute, ast.Call)) and ast.unparse(node) in names:
        return names[ast.unparse(node)]
    if isinstance(node, ast.UnaryOp) and isinstance(node.op, ast.USub):
        return f'(- {zexpr(node.operand, names)})'
    if isinstance(node, ast.BinOp):
        sym = {ast.Add: '+', ast.Sub: '-', ast.Mult: '*', ast.FloorDiv: '/'}.get(type(node.op))
        if sym is None:
            raise TranslateError(f'unsupported operator in {ast.unparse(node)}')
        return f'({zexpr(node.left, names)} {sym} {zexpr(node.right, names)})'
    if isinstance(node, ast.Call) and isinstance(node.func, ast.Name) and node.func.id in ('max', 'min') \
            and len(node.args) == 2 and not node.keywords:
        f = 'Z.max' if node.func.id == 'max' else 'Z.min'
        return f'({f} {zexpr(node.args[0], names)} {zexpr(node.args[1], names)})'
    raise TranslateError(f'unsupported integer expression {ast.unparse(node)}')


def bexpr(node, names):
    if isinstance(node, ast.BoolOp):
        op = ' || ' if isinstance(node.op, ast.Or) else ' && '
        return '(' + op.join(bexpr(v, names) for v in node.values) + ')'
    if isinstance(node, ast.UnaryOp) and isinstance(node.op, ast.Not):
        return f'(negb {bexpr(node.operand, names)})'
    if isinstance(node, ast.Compare) and len(node.ops) == 1:
        sym = {ast.Lt: '<?', ast.LtE: '<=?', ast.Gt: '>?', ast.GtE: '>=?', ast.Eq: '=?'}.get(type(node.ops[0]))
        if sym is None:
            raise TranslateError(f'unsupported comparison {ast.unparse(node)}')
        return f'({zexpr(node.left, names)} {sym} {zexpr(node.comparators[0], names)})'
    raise TranslateError(f'unsupported boolean expression {ast.unparse(node)}')


def _opt(node, names):
    return 'None' if node is None else f'(Some {zexpr(node, names)})'


def len_expr(node, env, names):
    """Coq Z expression for len(<array expression>); env: array name -> Coq length expression,
    names: integer names usable in sizes.  Only shapes whose length NumPy fixes are recognised."""
    if isinstance(node, ast.Name) and node.id in env:
        return env[node.id]
    if isinstance(node, ast.Subscript) and isinstance(node.slice, ast.Slice):
        sl = node.slice
        step = 1
        if sl.step is not None:
            step = ast.literal_eval(ast.unparse(sl.step))
            if not isinstance(step, int) or step == 0:
                raise TranslateError(f'unsupported slice step in {ast.unparse(node)}')
        st = f'({step})' if step < 0 else str(step)
        return (f'(pyslice_len {len_expr(node.value, env, names)} {_opt(sl.lower, names)} '
                f'{_opt(sl.upper, names)} {st})')
    if isinstance(node, (ast.List, ast.Tuple)) and all(not isinstance(e, ast.Starred) for e in node.elts) \
            and all(isinstance(e, (ast.Constant, ast.Attribute, ast.Name)) and ast.unparse(e) not in env for e in node.elts):
        return str(len(node.elts))
    if isinstance(node, ast.Call):
        fn = ast.unparse(node.func)
        a = node.args
        if fn == 'np.unique' and len(a) == 1 and not node.keywords and '__uniq__' in env:
            len_expr(a[0], env, names)      # the argument must itself be a recognised array
            return env['__uniq__']
        if fn == 'np.pad' and len(a) >= 2:
            w = a[1]
            if isinstance(w, (ast.List, ast.Tuple)) and len(w.elts) == 2:
                return f'({len_expr(a[0], env, names)} + {zexpr(w.elts[0], names)} + {zexpr(w.elts[1], names)})'
            return f'({len_expr(a[0], env, names)} + 2 * {zexpr(w, names)})'
        if fn == 'np.concatenate' and len(a) == 1 and isinstance(a[0], (ast.Tuple, ast.List)):
            return '(' + ' + '.join(len_expr(e, env, names) for e in a[0].elts) + ')'
        if fn == 'np.linspace' and len(a) == 3 and not node.keywords:
            return zexpr(a[2], names)
        if fn == 'np.repeat' and len(a) == 2 and not node.keywords \
                and isinstance(a[0], ast.Subscript) and not isinstance(a[0].slice, ast.Slice):
            return zexpr(a[1], names)
        if fn == 'np.percentile' and len(a) == 2 and not node.keywords:
            return len_expr(a[1], env, names)
        if fn in ('np.empty', 'np.zeros', 'np.ones') and len(a) == 1:
            return zexpr(a[0], names)
    raise TranslateError(f'length of {ast.unparse(node)} is not in a recognised form')


def _assigned_len(stmts, target, env, names):
    """walks simple statements in order, tracking lengths of assigned arrays; returns len(target)"""
    env = dict(env)
    for st in stmts:
        if isinstance(st, ast.Assign) and len(st.targets) == 1 and isinstance(st.targets[0], ast.Name):
            try:
                env[st.targets[0].id] = len_expr(st.value, env, names)
            except TranslateError:
                if st.targets[0].id == target or st.targets[0].id in env:
                    raise
    if target not in env:
        raise TranslateError(f'{target} is never assigned a recognised array expression')
    return env[target]


def _is_raise(stmts):
    return len(stmts) == 1 and isinstance(stmts[0], ast.Raise)


def _raise_chain(node, names, what):
    """if A: raise  elif B: raise  [elif C: <not a raise> ...]  ->  [A, B]"""
    conds = []
    while isinstance(node, ast.If) and _is_raise(node.body):
        conds.append(bexpr(node.test, names))
        node = node.orelse[0] if len(node.orelse) == 1 else None
    if not conds:
        raise TranslateError(f'{what}: no raising guard found')
    return conds


def _method(tree, cls, name):
    for node in tree.body:
        if isinstance(node, ast.ClassDef) and node.name == cls:
            for sub in node.body:
                if isinstance(sub, ast.FunctionDef) and sub.name == name:
                    return sub
    raise TranslateError(f'{cls}.{name} not found')


def guards(repo):
    out = []
    # ---- loess
    tree, _ = _parse('pybaselines/polynomial.py', repo)
    fn = _method(tree, '_Polynomial', 'loess')
    body = _body_wo_doc(fn)
    names = {'total_points': 'total_points', 'poly_order': 'poly_order', 'self._size': 'size'}
    # first statement: if total_points is None: total_points = ceil(fraction * self._size)
    first = body[0]
    if not (isinstance(first, ast.If) and ast.unparse(first.test) == 'total_points is None'
            and ast.unparse(first.body[0]) == 'total_points = ceil(fraction * self._size)'):
        raise TranslateError('loess: total_points default not in the recognised form')
    conds = _raise_chain(body[1], names, 'loess')
    if len(conds) != 2:
        raise TranslateError('loess: expected two raising guards on total_points')
    out.append('Definition loess_rejects (total_points poly_order size : Z) : bool := '
               + ' || '.join(conds) + '.')
    # nothing may rebind total_points / self._size between the guard and the kernel call
    seen_call = False
    for st in body[2:]:
        for n in ast.walk(st):
            if isinstance(n, ast.Call) and ast.unparse(n.func) == '_determine_fits':
                if ast.unparse(n) != '_determine_fits(self.x, self._size, total_points, float(delta))':
                    raise TranslateError('loess: _determine_fits call changed: ' + ast.unparse(n))
                seen_call = True
            if isinstance(n, (ast.Assign, ast.AugAssign)):
                tg = n.targets if isinstance(n, ast.Assign) else [n.target]
                for t in tg:
                    if ast.unparse(t) in ('total_points', 'self._size', 'self.x') and not seen_call:
                        raise TranslateError('loess: total_points/self._size rebound before the kernel call')
        if seen_call:
            break
    if not seen_call:
        raise TranslateError('loess: _determine_fits call not found')

    # ---- spline knots / basis
    tree, _ = _parse('pybaselines/_spline_utils.py', repo)
    fn = _func(tree, '_spline_knots')
    conds = _raise_chain(_body_wo_doc(fn)[0], {'num_knots': 'num_knots'}, '_spline_knots')
    out.append('Definition spline_knots_rejects (num_knots : Z) : bool := ' + ' || '.join(conds) + '.')
    body = _body_wo_doc(fn)
    branch = [st for st in body if isinstance(st, ast.If) and ast.unparse(st.test) == 'penalized']
    if len(branch) != 1 or not branch[0].orelse or ast.unparse(body[-1]) != 'return knots':
        raise TranslateError('_spline_knots: if penalized / else / return knots not found')
    kn = {'num_knots': 'num_knots', 'spline_degree': 'spline_degree'}
    l_pen = _assigned_len(branch[0].body, 'knots', {}, kn)
    l_non = _assigned_len(branch[0].orelse, 'knots', {}, kn)
    out.append('Definition spline_knots_len (penalized : bool) (num_knots spline_degree : Z) : Z := '
               f'if penalized then {l_pen} else {l_non}.')
    fn = _method(tree, 'SplineBasis', '__init__')
    if 'self.knots = _spline_knots(self.x, num_knots, spline_degree, True)' not in ast.unparse(fn):
        raise TranslateError('SplineBasis.__init__: knots are not built by _spline_knots(self.x, num_knots, spline_degree, True)')
    conds = _raise_chain(_body_wo_doc(fn)[0], {'spline_degree': 'spline_degree'}, 'SplineBasis.__init__')
    out.append('Definition spline_basis_rejects (spline_degree : Z) : bool := ' + ' || '.join(conds) + '.')
    # _spline_basis: x within knots check when numba is used
    fn = _func(tree, '_spline_basis')
    src = ast.unparse(fn)
    need = 'if np.any(x < knots[spline_degree]) or np.any(x > knots[len_knots - spline_degree - 1]):'
    if need not in src or 'validate_inputs = True\n        basis_func = _make_design_matrix' not in src:
        raise TranslateError('_spline_basis: range validation not in the recognised form')

    # ---- peak_filling
    tree, _ = _parse('pybaselines/smooth.py', repo)
    fn = _method(tree, '_Smooth', 'peak_filling')
    body = _body_wo_doc(fn)
    first = body[0]
    names = {'sections': 'sections', 'self._size': 'size'}
    if not (isinstance(first, ast.If) and ast.unparse(first.test) == 'sections is None'
            and isinstance(first.body[0], ast.Assign) and ast.unparse(first.body[0].targets[0]) == 'sections'):
        raise TranslateError('peak_filling: sections default not in the recognised form')
    out.append('Definition pf_default_sections (size : Z) : Z := ' + zexpr(first.body[0].value, names) + '.')
    inner = [s for s in first.orelse if isinstance(s, ast.If)]
    if len(inner) != 1 or not _is_raise(inner[0].body):
        raise TranslateError('peak_filling: sections guard not found')
    t = inner[0].test
    if not (isinstance(t, ast.BoolOp) and isinstance(t.op, ast.And) and ast.unparse(t.values[0]) == 'scalar_sections'):
        raise TranslateError('peak_filling: sections guard not in the recognised form')
    out.append('Definition pf_sections_rejects (sections size : Z) : bool := ' + bexpr(t.values[1], names) + '.')
    # half window clamp:  if half_win > E: ... half_win = F
    clamp = None
    for st in body:
        if isinstance(st, ast.If) and isinstance(st.test, ast.Compare) and ast.unparse(st.test.left) == 'half_win':
            assigns = [s for s in st.body if isinstance(s, ast.Assign)]
            if len(assigns) == 1 and ast.unparse(assigns[0].targets[0]) == 'half_win' and not st.orelse:
                names2 = {'half_win': 'half_win', 'sections': 'sections'}
                clamp = (bexpr(st.test, names2), zexpr(assigns[0].value, names2))
    if clamp is None:
        raise TranslateError('peak_filling: half-window clamp not found')
    out.append(f'Definition pf_half_win (half_win sections : Z) : Z := if {clamp[0]} then {clamp[1]} else half_win.')
    sc = [st for st in body if isinstance(st, ast.If) and ast.unparse(st.test) == 'scalar_sections']
    if len(sc) != 1:
        raise TranslateError('peak_filling: if scalar_sections: not found')
    pn = {'sections': 'sections', 'left_pad': 'left_pad', 'right_pad': 'right_pad'}
    l0 = _assigned_len(sc[0].body, 'y_truncated', {}, pn)
    later = body[body.index(sc[0]) + 1:]
    l1 = _assigned_len([st for st in later if isinstance(st, ast.Assign)], 'y_truncated', {'y_truncated': l0}, pn)
    out.append(f'Definition pf_y_len (sections left_pad right_pad : Z) : Z := {l1}.')
    srcf = ast.unparse(fn)
    for need in ('left_pad = 1 if x_truncated[0] != self.x[0] else 0',
                 'right_pad = 1 if x_truncated[-1] != self.x[-1] else 0'):
        if need not in srcf:
            raise TranslateError('peak_filling: statement changed or missing: ' + need)
    src = ast.unparse(fn)
    for need in ('half_windows = np.ceil(np.logspace(np.log10(half_win), 0, max_iter)).astype(int)',
                 'half_windows[0] = half_win'):
        if need not in src:
            raise TranslateError('peak_filling: statement changed or missing: ' + need)
    # the kernel calls: first argument y_truncated (or its reversed view), third half_win; the SECOND
    # argument (data_len) is translated, per branch
    calls = [n for n in ast.walk(fn) if isinstance(n, ast.Call) and ast.unparse(n.func) == '_directional_min_moving_avg']
    if len(calls) != 2 or any(len(c.args) != 3 or c.keywords for c in calls):
        raise TranslateError('peak_filling: expected two calls _directional_min_moving_avg(y, data_len, half_win)')
    if sorted(ast.unparse(c.args[0]) for c in calls) != ['y_truncated', 'y_truncated[::-1]'] \
            or any(ast.unparse(c.args[2]) != 'half_win' for c in calls) \
            or ast.unparse(calls[0].args[1]) != ast.unparse(calls[1].args[1]):
        raise TranslateError('peak_filling: kernel call arguments changed')
    dl = calls[0].args[1]
    out.append('Definition pf_data_len (sections : Z) : Z := ' + zexpr(dl, {'sections': 'sections'}) + '.')
    # nothing at top level may rebind sections after the branches
    for st in later:
        for n in ast.walk(st):
            if isinstance(n, (ast.Assign, ast.AugAssign)):
                for t in (n.targets if isinstance(n, ast.Assign) else [n.target]):
                    for nm in ast.walk(t):
                        if isinstance(nm, ast.Name) and nm.id == 'sections' and isinstance(nm.ctx, ast.Store):
                            raise TranslateError('peak_filling: sections is rebound after the branch on scalar_sections')
    # ---- the branch for a SEQUENCE of split indices (k = len(sections), uniq = len(np.unique(...)))
    arr = {'sections': 'k', '__uniq__': 'uniq'}
    ints = {'len(sections)': 'k', 'self._size': 'size', 'left_pad': 'left_pad', 'right_pad': 'right_pad'}
    seq_stmts = []
    for st in first.orelse:           # statements after _check_scalar in the `sections is not None` branch
        if isinstance(st, ast.Assign) and not (isinstance(st.targets[0], ast.Tuple)
                                              and ast.unparse(st.value).startswith('_check_scalar(sections,')):
            seq_stmts.append(st)
    seq_stmts += list(sc[0].orelse)
    for st in seq_stmts:
        if not isinstance(st, ast.Assign):
            raise TranslateError('peak_filling (sequence branch): unsupported statement ' + ast.unparse(st)[:80])
        if len(st.targets) != 1 or not isinstance(st.targets[0], ast.Name):
            raise TranslateError('peak_filling (sequence branch): unsupported target ' + ast.unparse(st)[:80])
        tgt = st.targets[0].id
        try:
            ln = len_expr(st.value, arr, ints)
            arr[tgt] = ln
            ints['len(' + tgt + ')'] = ln
            ints.pop(tgt, None)
        except TranslateError:
            iv = zexpr(st.value, ints)          # fail closed if neither an array nor an integer expression
            ints[tgt] = iv
            arr.pop(tgt, None)
            ints.pop('len(' + tgt + ')', None)
    if 'y_truncated' not in arr:
        raise TranslateError('peak_filling (sequence branch): y_truncated is not allocated')
    l1s = _assigned_len([st for st in later if isinstance(st, ast.Assign)], 'y_truncated',
                        {'y_truncated': arr['y_truncated']}, pn)
    out.append(f'Definition pf_seq_y_len (k uniq left_pad right_pad : Z) : Z := {l1s}.')
    try:
        dls = zexpr(dl, ints)
        is_int = True
    except TranslateError:
        if not any(isinstance(n, ast.Name) and n.id in arr for n in ast.walk(dl)):
            raise
        dls, is_int = '0', False                # data_len is (built from) an ndarray: not an integer
    out.append(f'Definition pf_seq_data_len_is_int : bool := {"true" if is_int else "false"}.')
    out.append(f'Definition pf_seq_data_len (k uniq size : Z) : Z := {dls}.')

    # ---- _padded_rolling_std
    tree, _ = _parse('pybaselines/classification.py', repo)
    fn = _func(tree, '_padded_rolling_std')
    src = ast.unparse(fn)
    names = {'half_window': 'half_window'}
    plen = _assigned_len(_body_wo_doc(fn), 'padded_data', {'data': 'n'}, names)
    out.append(f'Definition prs_padded_len (n half_window : Z) : Z := {plen}.')
    if '_rolling_std(padded_data, half_window, ddof)' not in src:
        raise TranslateError('_padded_rolling_std: the kernel call changed: expected '
                             '_rolling_std(padded_data, half_window, ddof)')

    # ---- _banded_dot_banded
    tree, _ = _parse('pybaselines/misc.py', repo)
    fn = _func(tree, '_banded_dot_banded')
    src = ast.unparse(fn)
    for need in ('diag_length = a_rows', 'a_rows = a.shape[1]',
                 'c_upper = min(a_upper + b_upper, b_full_shape[1] - 1)',
                 'c_lower = min(a_lower + b_lower, a_full_shape[0] - 1)',
                 'lower_bound = 0', 'lower_bound = a_lower + b_lower',
                 'output = np.zeros((c_lower + c_upper + 1, diag_length))',
                 '_numba_banded_dot_banded(a, b, output, a_lower, a_upper, b_lower, b_upper, c_upper, '
                 'diag_length, lower_bound)'):
        if need not in src:
            raise TranslateError('_banded_dot_banded: statement changed or missing: ' + need)
    # ---- corner_cutting
    tree, _ = _parse('pybaselines/spline.py', repo)
    fn = _method(tree, '_Spline', 'corner_cutting')
    if 'baseline = _quadratic_bezier_spline(self.x, y, np.flatnonzero(mask))' not in ast.unparse(fn):
        raise TranslateError('corner_cutting: the kernel call changed')
    # ---- _averaged_interp
    tree, _ = _parse('pybaselines/classification.py', repo)
    src = ast.unparse(_func(tree, '_averaged_interp'))
    for need in ('output = y.copy()', 'peak_starts, peak_ends = _find_peak_segments(mask)',
                 'for start, end in zip(peak_starts, peak_ends):',
                 '_interp_inplace(x[start:end + 1], output[start:end + 1], left_mean, right_mean)'):
        if need not in src:
            raise TranslateError('_averaged_interp: statement changed or missing: ' + need)
    src = ast.unparse(_func(tree, '_find_peak_segments'))
    for need in ('extended_mask = np.concatenate(([True], mask, [True]))',
                 'peak_starts = extended_mask[1:-1] < extended_mask[:-2]',
                 'peak_starts = np.flatnonzero(peak_starts)',
                 'peak_starts[1 if peak_starts[0] == 0 else 0:] -= 1',
                 'peak_ends = extended_mask[1:-1] < extended_mask[2:]',
                 'peak_ends = np.flatnonzero(peak_ends)',
                 'peak_ends[:-1 if peak_ends[-1] == mask.shape[0] - 1 else None] += 1',
                 'return (peak_starts, peak_ends)'):
        if need not in src:
            raise TranslateError('_find_peak_segments: statement changed or missing: ' + need)
    # ---- loess allocations / PSpline numba switch
    tree, _ = _parse('pybaselines/polynomial.py', repo)
    src = ast.unparse(_method(tree, '_Polynomial', 'loess'))
    for need in ('coefs = np.zeros((self._size, poly_order + 1))',
                 'y, weight_array = self._setup_polynomial(data, weights, poly_order, calc_vander=True)',
                 '_fill_skips(x, baseline, skips)'):
        if need not in src:
            raise TranslateError('loess: statement changed or missing: ' + need)
    tree, _ = _parse('pybaselines/_spline_utils.py', repo)
    src = ast.unparse(_func(tree, 'PSpline') if False else [n for n in tree.body if isinstance(n, ast.ClassDef) and n.name == 'PSpline'][0])
    if 'self.basis._x_len * (self.basis.spline_degree + 1) == len(self.basis.basis.tocsr().data)' not in src:
        raise TranslateError('PSpline: the _use_numba data-length condition changed')
    # ---- solve_pspline allocation of ab / rhs
    tree, _ = _parse('pybaselines/_spline_utils.py', repo)
    fn = _method(tree, 'PSpline', 'solve_pspline')
    src = ast.unparse(fn)
    for need in ("ab = np.zeros((self.basis.spline_degree + 1, self.basis._num_bases), order='F')",
                 'rhs = np.zeros(self.basis._num_bases)',
                 '_numba_btb_bty(self.basis.x, self.basis.knots, self.basis.spline_degree, y, weights, ab, '
                 'rhs, basis_data)'):
        if need not in src:
            raise TranslateError('solve_pspline: statement changed or missing: ' + need)
    return out


def _self_attr_stores(nodes):
    """[(attr, value node or None)] for every store to self.<attr> inside the given statements"""
    res = []
    for st in nodes:
        for n in ast.walk(st):
            tgts = []
            if isinstance(n, ast.Assign):
                tgts = [(t, n.value) for t in n.targets]
            elif isinstance(n, (ast.AugAssign, ast.AnnAssign)):
                tgts = [(n.target, None)]
            elif isinstance(n, ast.Delete):
                tgts = [(t, None) for t in n.targets]
            for t, v in tgts:
                for el in (t.elts if isinstance(t, (ast.Tuple, ast.List)) else [t]):
                    if isinstance(el, ast.Attribute) and isinstance(el.value, ast.Name) and el.value.id == 'self':
                        res.append((el.attr, v if not isinstance(t, (ast.Tuple, ast.List)) else None))
            if isinstance(n, ast.Call) and ast.unparse(n.func) in ('setattr', 'delattr') and n.args \
                    and ast.unparse(n.args[0]) == 'self':
                res.append(('<setattr>', None))
    return res


STATE_ATTRS = ('x', '_size', '_spline_basis', '_polynomial')


def fitter_state(repo):
    """Facts about the object state the guards read (1-D _Algorithm): what the method wrapper's exception
    handlers reset, which attributes are caches built from self.x, and that nothing else writes them."""
    tree, _ = _parse('pybaselines/_algorithm_setup.py', repo)
    cls = [n for n in tree.body if isinstance(n, ast.ClassDef) and n.name == '_Algorithm']
    if len(cls) != 1:
        raise TranslateError('_Algorithm not found')
    cls = cls[0]
    methods = {n.name: n for n in cls.body if isinstance(n, ast.FunctionDef)}
    reg = methods.get('_register')
    if reg is None:
        raise TranslateError('_Algorithm._register not found')
    inner = [n for n in ast.walk(reg) if isinstance(n, ast.FunctionDef) and n.name == 'inner']
    if len(inner) != 1:
        raise TranslateError('_register: wrapper function inner not found')
    inner = inner[0]
    # the call of the wrapped method
    fcalls = [n for n in ast.walk(inner) if isinstance(n, ast.Call) and ast.unparse(n.func) == 'func']
    if len(fcalls) != 1 or not ast.unparse(fcalls[0]).startswith('func(self, y,'):
        raise TranslateError('_register.inner: expected exactly one call func(self, y, ...)')
    # entry: x generated from the data when self.x is None, else the data length is checked against _size
    first, aliases = None, set()
    for st in inner.body:
        if isinstance(st, ast.Assign) and len(st.targets) == 1 and isinstance(st.targets[0], ast.Name) \
                and ast.unparse(st.value) == 'self.x is None':
            aliases.add(st.targets[0].id)        # a flag remembering the test
            continue
        if isinstance(st, ast.If) and (ast.unparse(st.test) == 'self.x is None' or ast.unparse(st.test) in aliases):
            first = st
        break
    if first is None:
        raise TranslateError('_register.inner: does not start with the test `self.x is None`')
    st_none = [(a, ast.unparse(v) if v is not None else '?') for a, v in _self_attr_stores(first.body)]
    if sorted(st_none) != [('_size', 'y.shape[-1]'), ('x', 'x')]:
        raise TranslateError(f'_register.inner: stores in the `self.x is None` branch changed: {st_none}')
    if 'y, x = _yx_arrays(data,' not in ast.unparse(first):
        raise TranslateError('_register.inner: x is not generated by _yx_arrays(data, ...)')
    else_src = '\n'.join(ast.unparse(s_) for s_ in first.orelse)
    if '_check_sized_array(data, self._size,' not in else_src:
        raise TranslateError('_register.inner: data length is not checked against self._size when x exists')
    if [a for a, _ in _self_attr_stores(first.orelse) if a in STATE_ATTRS]:
        raise TranslateError('_register.inner: state written in the branch where x exists')
    # exception handlers / finally blocks of every try in the wrapper
    handlers = []
    accounted = set()
    for n in ast.walk(inner):
        if isinstance(n, ast.Try) or n.__class__.__name__ == 'TryStar':
            blocks = [h.body for h in n.handlers] + ([n.finalbody] if n.finalbody else [])
            for blk in blocks:
                attrs = []
                for a, v in _self_attr_stores(blk):
                    if a == '<setattr>':
                        raise TranslateError('_register.inner: setattr/delattr on self in an exception path')
                    if v is None or not (isinstance(v, ast.Constant) and v.value is None):
                        if a in STATE_ATTRS:
                            raise TranslateError(f'_register.inner: exception path assigns self.{a} something other than None')
                    attrs.append(a)
                    accounted.add(id(blk))
                handlers.append(attrs)
        if isinstance(n, ast.With):
            raise TranslateError('_register.inner: with-statement (context manager exit paths are not modelled)')
    # every other store to the state attributes in the wrapper must be the entry branch
    all_inner = [a for a, _ in _self_attr_stores(inner.body) if a in STATE_ATTRS]
    in_handlers = [a for h in handlers for a in h if a in STATE_ATTRS]
    if sorted(all_inner) != sorted(['x', '_size'] + in_handlers):
        raise TranslateError(f'_register.inner: unexpected stores to fitter state: {all_inner}')
    # caches: attributes assigned by the _setup_* methods
    caches = set()
    for name, m in methods.items():
        if name.startswith('_setup_'):
            for a, _ in _self_attr_stores(m.body):
                caches.add(a)
    # other writers of the state anywhere in the class (outside __init__, the wrapper, the _setup_* methods)
    others = []
    for n in cls.body:
        if isinstance(n, ast.FunctionDef) and n.name not in ('__init__', '_register') and not n.name.startswith('_setup_'):
            for a, _ in _self_attr_stores(n.body):
                if a in STATE_ATTRS or a == '<setattr>':
                    others.append(f'{n.name}:{a}')
    # the cache statement of _setup_spline and the weight-length check
    src = ast.unparse(methods['_setup_spline'])
    for need in ('_check_optional_array(self._size, weights,',
                 'if self._spline_basis is None or not self._spline_basis.same_basis(num_knots, spline_degree):',
                 'self._spline_basis = SplineBasis(self.x, num_knots, spline_degree)',
                 'pspline = PSpline(self._spline_basis, lam, diff_order, allow_lower, reverse_diags)'):
        if need not in src:
            raise TranslateError('_setup_spline: statement changed or missing: ' + need)
    src = ast.unparse(methods['_setup_polynomial'])
    for need in ('self._polynomial = _PolyHelper(self.x, self.x_domain, poly_order)',
                 'self._polynomial.recalc_vandermonde(self.x, self.x_domain, poly_order)'):
        if need not in src:
            raise TranslateError('_setup_polynomial: statement changed or missing: ' + need)
    # SplineBasis.same_basis is keyed on (num_knots, spline_degree) only
    tree2, _ = _parse('pybaselines/_spline_utils.py', repo)
    sb = ast.unparse(_method(tree2, 'SplineBasis', 'same_basis'))
    if 'return num_knots == self.num_knots and spline_degree == self.spline_degree' not in sb:
        raise TranslateError('SplineBasis.same_basis changed')

    def sl(items):
        return '[' + '; '.join(_coq_str(i) + '%string' for i in items) + ']'
    return ['Definition wrapper_handlers : list (list string) := ['
            + '; '.join(sl(h) for h in handlers) + '].',
            f'Definition fitter_cache_attrs : list string := {sl(sorted(caches))}.',
            f'Definition fitter_other_writers : list string := {sl(others)}.']


def gen_kernels(repo=None):
    rows = kernel_table(repo)
    out = ['(* GENERATED by tools/translate.py (gen_kernels.py) from pybaselines/*.py -- do not edit *)',
           'From Coq Require Import ZArith List Bool String.',
           'From PB Require Import C05.PyLen.',
           'Import ListNotations.', 'Open Scope Z_scope.', '']
    out.append('Definition kernels : list (string * list string) := [')
    for k, (name, items) in enumerate(rows):
        body = ';\n     '.join(_coq_str(s) + '%string' for s in items)
        out.append(f'  ({_coq_str(name)}%string,\n    [{body}])' + (';' if k + 1 < len(rows) else ''))
    out.append('].')
    out.append('')
    out += guards(repo)
    out += fitter_state(repo)
    return '\n'.join(out) + '\n'


GENERATORS = {'GenKernels': gen_kernels}
