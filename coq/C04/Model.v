(* C04 -- thread programs of the 1-D fitter (pybaselines/_algorithm_setup.py), models only.

   SHARED MEMORY (the mutable attributes reachable from one fitter object):
     x, __size, _shape, _validated_x, _polynomial (a pointer into a heap of _PolyHelper objects, each with
     vandermonde / poly_order / pinv_stale / _pseudo_inverse), _spline_basis (SplineBasis objects are
     immutable after construction, so the cell holds the key (num_knots, spline_degree)).
   VALUES are abstract keys: a Vandermonde matrix is `Some q` = polyvander(mapped x, q) (`None` = None);
     `self.vandermonde[:, :p+1]` of `Some r` is `Some (min r p)`; a pseudo-inverse is the key of the
     matrix it was computed from; x is `Some (n, dup)` (length, has repeated values).
   ONE STEP = ONE load or store of one of these cells, in source order (recorded from the real calls by
   harness/c04trace.py and compared exactly on every run).  Construction of a new _PolyHelper /
   SplineBasis touches only thread-private memory before the object is published, so it is part of the
   step that ends with the publishing store.

   A thread program is a list of segments; a real call is parsed into segments by the harness using
   method-entry markers, and the model regenerates the access sequence from the segments. *)
From Coq Require Import ZArith List Bool.
From PB Require Import C04.Sched.
Import ListNotations.
Open Scope Z_scope.

Inductive cell := Cx | Csize | Cshape | Cvalid | Cpoly | Cspl | Hv | Ho | Hs | Hp.
Inductive ev := Rd (c : cell) | Wr (c : cell).

Record helper := mkH { hv : option Z; ho : Z; hs : bool; hp : option Z }.

Record shared := mkS {
  sx : option (Z * bool); ssize : option Z; sshape : option Z; svalid : bool;
  spoly : option nat; sheap : list helper; sspl : option (Z * Z) }.

Inductive mode := MNone | MVander | MUnw | MWt.

Inductive seg :=
| SPro (uniq hasdata : bool) (n : Z)     (* prologue of _register.inner, data of length n *)
| SUse (c : cell)                        (* a later read of _size / _shape / x *)
| SUseSpl (k d : Z)                      (* a later read of self._spline_basis (key requested: k, d) *)
| SPoly (p : Z) (m : mode)               (* _setup_polynomial(poly_order=p, calc_vander, calc_pinv, weights) *)
| SBody (p : Z)                          (* self._polynomial.vandermonde @ coef, inside a call at order p *)
| SBodyPinv (p : Z)                      (* pinv(sqrt_w[:, None] * self._polynomial.vandermonde) *)
| SSpl (k d : Z).                        (* _setup_spline(num_knots=k, spline_degree=d), make_basis *)

Inductive err := ENoData | ELen | EDup | ESizeNone | ENoHelper | ESliceNone | EMatmul | EBad | EShapeNone.

Inductive pc :=
| P0 | PWx | PWsz | PWsh | PV0 | PV1 | PV2 | PV3 | PS
| U0
| Q0 | Q1 | QA1 | QA2 | QB1 | QB2 | QB3 | QB4 | QB5 | QG1 | QG2 | QS1 | QS2 | QS3 | QB9
| QW1 | QW2 | QU1 | QU2 | QU3 | QU4 | QU5 | QU6 | QU7
| B1 | B2
| Z1 | Z2 | Z3 | Z4 | Z5
| PErr (e : err).

(* a value read FOR USE by the numerical code, with what the thread's own arguments determine *)
Inductive use :=
| UVan (want : Z) (got : option Z)           (* Vandermonde used; serial value: Some want *)
| UPin (want : Z) (got : option Z)           (* pseudo-inverse used *)
| USize (got : option Z)                     (* serial value: Some (length of x) *)
| UShape (got : option Z)
| UX (got : option (Z * bool))
| USpl (want : Z * Z) (got : option (Z * Z)).

Record local := mkL {
  lpc : pc; ltodo : list seg;
  lrp : nat;                    (* helper pointer loaded from self._polynomial *)
  lro : Z;                      (* poly_order loaded in recalc_vandermonde *)
  lrv : option Z;               (* vandermonde loaded *)
  lcur : option (option Z);     (* key of the pseudo-inverse in hand (what coef was computed with) *)
  ln : Z;                       (* length of this thread's data (set by the prologue) *)
  ldp : bool;                   (* this thread has completed a _setup_polynomial with calc_vander *)
  lds : bool;                   (* this thread has completed a _setup_spline *)
  ldx : bool;                   (* this thread has completed a prologue (so x is known to be set) *)
  luses : list use }.

Definition enter (sg : seg) : pc :=
  match sg with
  | SPro _ _ _ => P0 | SUse _ => U0 | SUseSpl _ _ => U0 | SPoly _ _ => Q0 | SBody _ => B1 | SBodyPinv _ => B1
  | SSpl _ _ => Z1
  end.

Definition init_local (prog : list seg) : local :=
  mkL (match prog with [] => P0 | sg :: _ => enter sg end) prog 0%nat 0 None None 0 false false false [].

Definition setpc (l : local) (p : pc) : local :=
  mkL p (ltodo l) (lrp l) (lro l) (lrv l) (lcur l) (ln l) (ldp l) (lds l) (ldx l) (luses l).
Definition fail (l : local) (e : err) : local := setpc l (PErr e).
(* the current segment is finished: pop it and enter the next one *)
Definition fin (l : local) : local :=
  match ltodo l with
  | [] => l
  | _ :: rest =>
      mkL (match rest with [] => P0 | sg :: _ => enter sg end) rest
          (lrp l) (lro l) (lrv l) (lcur l) (ln l) (ldp l) (lds l) (ldx l) (luses l)
  end.
Definition adduse (l : local) (u : use) : local :=
  mkL (lpc l) (ltodo l) (lrp l) (lro l) (lrv l) (lcur l) (ln l) (ldp l) (lds l) (ldx l) (u :: luses l).
Definition set_rp (l : local) (k : nat) : local :=
  mkL (lpc l) (ltodo l) k (lro l) (lrv l) (lcur l) (ln l) (ldp l) (lds l) (ldx l) (luses l).
Definition set_ro (l : local) (o : Z) : local :=
  mkL (lpc l) (ltodo l) (lrp l) o (lrv l) (lcur l) (ln l) (ldp l) (lds l) (ldx l) (luses l).
Definition set_rv (l : local) (v : option Z) : local :=
  mkL (lpc l) (ltodo l) (lrp l) (lro l) v (lcur l) (ln l) (ldp l) (lds l) (ldx l) (luses l).
Definition set_cur (l : local) (c : option (option Z)) : local :=
  mkL (lpc l) (ltodo l) (lrp l) (lro l) (lrv l) c (ln l) (ldp l) (lds l) (ldx l) (luses l).
Definition set_n (l : local) (n : Z) : local :=
  mkL (lpc l) (ltodo l) (lrp l) (lro l) (lrv l) (lcur l) n (ldp l) (lds l) (ldx l) (luses l).
Definition set_dp (l : local) : local :=
  mkL (lpc l) (ltodo l) (lrp l) (lro l) (lrv l) (lcur l) (ln l) true (lds l) (ldx l) (luses l).
Definition set_dx (l : local) : local :=
  mkL (lpc l) (ltodo l) (lrp l) (lro l) (lrv l) (lcur l) (ln l) (ldp l) (lds l) true (luses l).
Definition set_ds (l : local) : local :=
  mkL (lpc l) (ltodo l) (lrp l) (lro l) (lrv l) (lcur l) (ln l) (ldp l) true (ldx l) (luses l).

Definition finished (l : local) : bool :=
  match ltodo l, lpc l with
  | [], _ => true
  | _, PErr _ => true
  | _, _ => false
  end.

(* shared-state updates *)
Definition set_x (s : shared) v := mkS v (ssize s) (sshape s) (svalid s) (spoly s) (sheap s) (sspl s).
Definition set_size (s : shared) v := mkS (sx s) v (sshape s) (svalid s) (spoly s) (sheap s) (sspl s).
Definition set_shape (s : shared) v := mkS (sx s) (ssize s) v (svalid s) (spoly s) (sheap s) (sspl s).
Definition set_valid (s : shared) v := mkS (sx s) (ssize s) (sshape s) v (spoly s) (sheap s) (sspl s).
Definition set_spl (s : shared) v := mkS (sx s) (ssize s) (sshape s) (svalid s) (spoly s) (sheap s) v.
Definition set_heap (s : shared) h := mkS (sx s) (ssize s) (sshape s) (svalid s) (spoly s) h (sspl s).
(* allocate a freshly constructed helper and publish it: self._polynomial = _PolyHelper(...) *)
Definition publish (s : shared) (h : helper) :=
  mkS (sx s) (ssize s) (sshape s) (svalid s) (Some (length (sheap s))) (sheap s ++ [h]) (sspl s).

Fixpoint upd_list {A} (k : nat) (f : A -> A) (ls : list A) : list A :=
  match ls, k with
  | [], _ => []
  | h :: t, O => f h :: t
  | h :: t, S j => h :: upd_list j f t
  end.
Definition upd_h (s : shared) (k : nat) (f : helper -> helper) := set_heap s (upd_list k f (sheap s)).
Definition geth (s : shared) (k : nat) : option helper := nth_error (sheap s) k.

Definition h_set_v (v : option Z) (h : helper) := mkH v (ho h) (hs h) (hp h).
Definition h_set_o (o : Z) (h : helper) := mkH (hv h) o (hs h) (hp h).
Definition h_set_s (b : bool) (h : helper) := mkH (hv h) (ho h) b (hp h).
Definition h_set_p (p : option Z) (h : helper) := mkH (hv h) (ho h) (hs h) p.

Definition oz_eqb (a b : option Z) : bool :=
  match a, b with Some x, Some y => x =? y | None, None => true | _, _ => false end.

(* what follows recalc / construction inside _setup_polynomial *)
Definition after_vander (m : mode) (l : local) : local :=
  match m with
  | MUnw => setpc (set_dp l) QU1
  | MWt => setpc (set_dp l) QW1
  | _ => fin (set_cur (set_dp l) None)
  end.

(* ONE STEP of a thread: (new shared, new local, the access performed) *)
Definition step3 (s : shared) (l : local) : shared * local * option ev :=
  match ltodo l with
  | [] => (s, l, None)
  | sg :: _ =>
    match lpc l, sg with
    | PErr _, _ => (s, l, None)
    (* ---- prologue of _register.inner (_algorithm_setup.py:299-322) ---- *)
    | P0, SPro uniq hasdata n =>
        let l := set_cur (set_n l n) None in
        match sx s with
        | None => if hasdata then (s, setpc l PWsz, Some (Rd Cx)) else (s, fail l ENoData, Some (Rd Cx))
        | Some _ => (s, (if uniq then setpc l PV0 else if hasdata then setpc l PS else fin (set_dx l)),
                     Some (Rd Cx))
        end
    (* y, x = _yx_arrays(...); self._size = y.shape[-1] (stores __size, then _shape); self.x = x LAST *)
    | PWsz, SPro _ _ n => (set_size s (Some n), setpc l PWsh, Some (Wr Csize))
    | PWsh, SPro _ _ n => (set_shape s (Some n), setpc l PWx, Some (Wr Cshape))
    | PWx, SPro _ _ n => (set_x s (Some (n, false)), fin (set_dx l), Some (Wr Cx))
    | PV0, SPro _ hasdata _ =>
        (s, (if svalid s then (if hasdata then setpc l PS else fin (set_dx l)) else setpc l PV1),
         Some (Rd Cvalid))
    | PV1, SPro _ _ _ => (s, setpc l PV2, Some (Rd Cx))
    | PV2, SPro _ _ _ =>
        (s, match sx s with
            | Some (_, true) => fail l EDup
            | Some (_, false) => setpc l PV3
            | None => fail l EBad
            end, Some (Rd Cx))
    | PV3, SPro _ hasdata _ =>
        (set_valid s true, (if hasdata then setpc l PS else fin (set_dx l)), Some (Wr Cvalid))
    | PS, SPro _ _ n =>
        (s, (if oz_eqb (ssize s) (Some n) then fin (set_dx (adduse l (USize (ssize s)))) else fail l ELen),
         Some (Rd Csize))
    (* ---- later reads ---- *)
    | U0, SUse Csize => (s, fin (adduse l (USize (ssize s))), Some (Rd Csize))
    | U0, SUse Cshape =>       (* e.g. np.zeros(self._shape): (None,) raises TypeError *)
        (s, match sshape s with
            | None => fail l EShapeNone
            | Some _ => fin (adduse l (UShape (sshape s)))
            end, Some (Rd Cshape))
    | U0, SUse Cx => (s, fin (adduse l (UX (sx s))), Some (Rd Cx))
    | U0, SUseSpl k d => (s, fin (adduse l (USpl (k, d) (sspl s))), Some (Rd Cspl))
    (* ---- _setup_polynomial (447-521), _PolyHelper.recalc_vandermonde (963-989) ---- *)
    | Q0, SPoly p m =>
        (s, match ssize s with
            | None => fail l ESizeNone
            | Some _ => let l := adduse l (USize (ssize s)) in
                        match m with MNone => fin l | _ => setpc l Q1 end
            end, Some (Rd Csize))
    | Q1, SPoly _ _ =>
        (s, match spoly s with None => setpc l QA1 | Some _ => setpc l QB1 end, Some (Rd Cpoly))
    | QA1, SPoly _ _ => (s, setpc (adduse l (UX (sx s))) QA2, Some (Rd Cx))
    | QA2, SPoly p m => (publish s (mkH (Some p) p true None), after_vander m l, Some (Wr Cpoly))
    | QB1, SPoly _ _ =>
        (s, match spoly s with None => fail l ENoHelper | Some k => setpc (set_rp l k) QB2 end,
         Some (Rd Cpoly))
    | QB2, SPoly _ _ => (s, setpc (adduse l (UX (sx s))) QB3, Some (Rd Cx))
    | QB3, SPoly _ _ =>
        (s, match geth s (lrp l) with
            | None => fail l EBad
            | Some h => match hv h with None => setpc l QG1 | Some _ => setpc l QB4 end
            end, Some (Rd Hv))
    | QB4, SPoly p _ =>
        (s, match geth s (lrp l) with
            | None => fail l EBad
            | Some h => if ho h <? p then setpc l QG1 else setpc l QB5
            end, Some (Rd Ho))
    | QB5, SPoly p _ =>
        (s, match geth s (lrp l) with
            | None => fail l EBad
            | Some h => if p <? ho h then setpc l QS1 else setpc l QB9
            end, Some (Rd Ho))
    | QG1, SPoly p _ => (upd_h s (lrp l) (h_set_v (Some p)), setpc l QG2, Some (Wr Hv))
    | QG2, SPoly _ _ => (upd_h s (lrp l) (h_set_s true), setpc l QB9, Some (Wr Hs))
    | QS1, SPoly _ _ =>
        (s, match geth s (lrp l) with
            | None => fail l EBad
            | Some h => match hv h with
                        | None => fail l ESliceNone
                        | Some r => setpc (set_rv l (Some r)) QS2
                        end
            end, Some (Rd Hv))
    | QS2, SPoly p _ =>
        (upd_h s (lrp l) (h_set_v (match lrv l with Some r => Some (Z.min r p) | None => None end)),
         setpc l QS3, Some (Wr Hv))
    | QS3, SPoly _ _ => (upd_h s (lrp l) (h_set_s true), setpc l QB9, Some (Wr Hs))
    | QB9, SPoly p m => (upd_h s (lrp l) (h_set_o p), after_vander m l, Some (Wr Ho))
    (* weights given: pinv(sqrt(w)[:, None] * self._polynomial.vandermonde) *)
    | QW1, SPoly _ _ =>
        (s, match spoly s with None => fail l ENoHelper | Some k => setpc (set_rp l k) QW2 end,
         Some (Rd Cpoly))
    | QW2, SPoly p _ =>
        (s, match geth s (lrp l) with
            | None => fail l EBad
            | Some h => fin (set_cur (adduse l (UVan p (hv h))) (Some (hv h)))
            end, Some (Rd Hv))
    (* weights None: the lazy pseudo_inverse property (991-1002) *)
    | QU1, SPoly _ _ =>
        (s, match spoly s with None => fail l ENoHelper | Some k => setpc (set_rp l k) QU2 end,
         Some (Rd Cpoly))
    | QU2, SPoly _ _ =>
        (s, match geth s (lrp l) with
            | None => fail l EBad
            | Some h => if hs h then setpc l QU4 else setpc l QU3
            end, Some (Rd Hs))
    | QU3, SPoly _ _ =>
        (s, match geth s (lrp l) with
            | None => fail l EBad
            | Some h => match hp h with None => setpc l QU4 | Some _ => setpc l QU7 end
            end, Some (Rd Hp))
    | QU4, SPoly _ _ =>
        (s, match geth s (lrp l) with
            | None => fail l EBad
            | Some h => setpc (set_rv l (hv h)) QU5
            end, Some (Rd Hv))
    | QU5, SPoly _ _ => (upd_h s (lrp l) (h_set_p (lrv l)), setpc l QU6, Some (Wr Hp))
    | QU6, SPoly _ _ => (upd_h s (lrp l) (h_set_s false), setpc l QU7, Some (Wr Hs))
    | QU7, SPoly p _ =>
        (s, match geth s (lrp l) with
            | None => fail l EBad
            | Some h => fin (set_cur (adduse l (UPin p (hp h))) (Some (hp h)))
            end, Some (Rd Hp))
    (* ---- later reads of self._polynomial.vandermonde in method bodies ---- *)
    | B1, (SBody _ | SBodyPinv _) =>
        (s, match spoly s with None => fail l ENoHelper | Some k => setpc (set_rp l k) B2 end,
         Some (Rd Cpoly))
    | B2, SBody p =>
        (s, match geth s (lrp l) with
            | None => fail l EBad
            | Some h =>
                match lcur l with
                | Some c => if oz_eqb c (hv h) then fin (adduse l (UVan p (hv h))) else fail l EMatmul
                | None => fin (adduse l (UVan p (hv h)))
                end
            end, Some (Rd Hv))
    | B2, SBodyPinv p =>
        (s, match geth s (lrp l) with
            | None => fail l EBad
            | Some h => fin (set_cur (adduse l (UVan p (hv h))) (Some (hv h)))
            end, Some (Rd Hv))
    (* ---- _setup_spline (601-610) ---- *)
    | Z1, SSpl k d =>
        (s, match sspl s with None => setpc l Z3 | Some _ => setpc l Z2 end, Some (Rd Cspl))
    | Z2, SSpl k d =>
        (s, match sspl s with
            | None => fail l ENoHelper
            | Some (k', d') => if (k =? k') && (d =? d') then setpc l Z5 else setpc l Z3
            end, Some (Rd Cspl))
    | Z3, SSpl _ _ => (s, setpc (adduse l (UX (sx s))) Z4, Some (Rd Cx))
    | Z4, SSpl k d => (set_spl s (Some (k, d)), setpc l Z5, Some (Wr Cspl))
    | Z5, SSpl k d => (s, fin (set_ds (adduse l (USpl (k, d) (sspl s)))), Some (Rd Cspl))
    | _, _ => (s, fail l EBad, None)
    end
  end.

Definition step (s : shared) (l : local) : shared * local := fst (step3 s l).

Definition state := (shared * list local)%type.
Definition run_sched (sched : list nat) (st : state) : state := run step sched st.

(* run one thread alone, logging the accesses (fuel = upper bound on the number of steps) *)
Fixpoint solo (fuel : nat) (s : shared) (l : local) (acc : list ev) : shared * local * list ev :=
  match fuel with
  | O => (s, l, rev acc)
  | S f =>
      if finished l then (s, l, rev acc)
      else let '(s', l', e) := step3 s l in
           solo f s' l' (match e with Some x => x :: acc | None => acc end)
  end.

(* round-robin completion: after the schedule, every thread is run to completion in index order *)
Fixpoint complete_thread (fuel : nat) (i : nat) (st : state) : state :=
  match fuel with
  | O => st
  | S f => match nth_error (snd st) i with
           | Some l => if finished l then st else complete_thread f i (step_thread step st i)
           | None => st
           end
  end.
Fixpoint complete_all (fuel : nat) (n : nat) (i : nat) (st : state) : state :=
  match n with
  | O => st
  | S m => complete_all fuel m (S i) (complete_thread fuel i st)
  end.
Definition run_full (fuel : nat) (sched : list nat) (st : state) : state :=
  let st' := run_sched sched st in complete_all fuel (length (snd st')) 0%nat st'.

(* outcome of a thread: 0 = every value used is the serial one, 1 = finished with a different value
   somewhere (silently different result), 2 + k = raised (k = error class), 9 = not finished *)
Definition use_okb (xv : option (Z * bool)) (u : use) : bool :=
  match u with
  | UVan w g => oz_eqb g (Some w)
  | UPin w g => oz_eqb g (Some w)
  | USize g => match xv with Some (a, _) => oz_eqb g (Some a) | None => false end
  | UShape g => match xv with Some (a, _) => oz_eqb g (Some a) | None => false end
  | UX g => match g, xv with
            | Some (a, b), Some (a', b') => (a =? a') && Bool.eqb b b'
            | _, _ => false
            end
  | USpl (k, d) g => match g with Some (k', d') => (k =? k') && (d =? d') | None => false end
  end.

Definition err_code (e : err) : Z :=
  match e with
  | ENoData => 2 | ELen => 3 | EDup => 4 | ESizeNone => 5 | ENoHelper => 6 | ESliceNone => 7
  | EMatmul => 8 | EBad => 10 | EShapeNone => 11
  end.

Definition outcome (xv : option (Z * bool)) (l : local) : Z :=
  match lpc l, ltodo l with
  | PErr e, _ :: _ => err_code e
  | _, [] => if forallb (use_okb xv) (luses l) then 0 else 1
  | _, _ => 9
  end.

(* schedules in which some thread does not get the serial outcome *)
Definition outcomes (fuel : nat) (xv : option (Z * bool)) (sched : list nat) (st : state) : list Z :=
  map (outcome xv) (snd (run_full fuel sched st)).

(* abstraction of the final shared state, for comparison with the real object *)
Definition cold (xv : option (Z * bool)) (valid : bool) : shared :=
  mkS xv (match xv with Some (n, _) => Some n | None => None end)
      (match xv with Some (n, _) => Some n | None => None end) valid None [] None.
Definition warm (xv : option (Z * bool)) (valid : bool) (h : option helper) (sp : option (Z * Z)) : shared :=
  mkS xv (match xv with Some (n, _) => Some n | None => None end)
      (match xv with Some (n, _) => Some n | None => None end) valid
      (match h with Some _ => Some 0%nat | None => None end)
      (match h with Some x => [x] | None => [] end) sp.

(* composite programs *)
Definition prog_poly_call (uniq : bool) (n p : Z) (m : mode) (nbody : nat) : list seg :=
  SPro uniq true n :: SPoly p m :: repeat (SBody p) nbody.
(* adaptive_minmax(poly_order = p): four modpoly sub-calls with explicit weights at orders p, p, p+1, p+1
   through ONE _PolyHelper (optimizers.py:508-516); nb body reads in each *)
Definition prog_adaptive_minmax (n p : Z) (nb : nat) : list seg :=
  SPro false true n :: repeat (SUse Csize) 6
  ++ prog_poly_call false n p MWt nb ++ prog_poly_call false n p MWt nb
  ++ prog_poly_call false n (p + 1) MWt nb ++ prog_poly_call false n (p + 1) MWt nb.

(* ---- event codes and the global access log of a schedule (for replay against the real threads) ---- *)
Definition cell_code (c : cell) : Z :=
  match c with
  | Cx => 0 | Csize => 1 | Cshape => 2 | Cvalid => 3 | Cpoly => 4 | Cspl => 5
  | Hv => 6 | Ho => 7 | Hs => 8 | Hp => 9
  end.
Definition ev_code (e : ev) : Z := match e with Rd c => cell_code c | Wr c => 10 + cell_code c end.

(* entry = 100 * thread id + event code; the state evolves by exactly the `step_thread step` of run_sched *)
Fixpoint sched_log (sched : list nat) (st : state) : list Z :=
  match sched with
  | [] => []
  | i :: r =>
      (match nth_error (snd st) i with
       | Some l => match snd (step3 (fst st) l) with
                   | Some e => [Z.of_nat i * 100 + ev_code e]
                   | None => []
                   end
       | None => []
       end) ++ sched_log r (step_thread step st i)
  end.

(* abstraction of the shared state compared with the real object after a call:
   [x length or -1; size; shape; validated; helper: vander order (-1 none, -2 no helper); poly_order;
    stale; pinv key (-1 none); spline knots; spline degree (-1 none)] *)
Definition oz (o : option Z) : Z := match o with Some v => v | None => -1 end.
Definition abstraction (s : shared) : list Z :=
  [ match sx s with Some (n, _) => n | None => -1 end; oz (ssize s); oz (sshape s);
    (if svalid s then 1 else 0) ] ++
  match spoly s with
  | None => [-2; -2; -2; -2]
  | Some k => match geth s k with
              | Some h => [oz (hv h); ho h; (if hs h then 1 else 0); oz (hp h)]
              | None => [-3; -3; -3; -3]
              end
  end ++
  match sspl s with Some (k, d) => [k; d] | None => [-1; -1] end.
