(* C04 -- the CONFIGURATION cell of a fitter (output dtype; the same argument covers _check_finite,
   banded_solver, _sort_order, _inverted_order) as a READ-ONLY shared cell of the interleaving semantics.
   A thread program is a list of operations: CRead = the load of self._dtype at the entry of _register.inner
   (its value decides the dtype of that call's result), CSkip = any other step (no access to the cell),
   CWrite v = a store to the cell.  One step = one operation (Sched.v).

   config_readonly_safe: if NO program contains a store to the cell, then for any number of threads and any
   schedule every call's output dtype is the configured one (= the serial result's dtype).
   config_transient_write_refuted: a wrapper that clears the cell, runs an inner call and restores it (a
   transient store) gives another thread's call the wrong dtype under some schedule.
   Tie to the source: the harness obligation "no store to a configuration attribute during any call" (every
   replayed call, recorded by harness/c04trace.py) is exactly the hypothesis of config_readonly_safe. *)
From Coq Require Import ZArith List Bool.
From PB Require Import C04.Sched.
Import ListNotations.
Open Scope Z_scope.

Inductive cop := CRead | CSkip | CWrite (v : option Z).

Record clocal := mkCL { ctodo : list cop; couts : list (option Z) }.

Definition cstep (cfg : option Z) (l : clocal) : option Z * clocal :=
  match ctodo l with
  | [] => (cfg, l)
  | CRead :: r => (cfg, mkCL r (cfg :: couts l))
  | CSkip :: r => (cfg, mkCL r (couts l))
  | CWrite v :: r => (v, mkCL r (couts l))
  end.

Definition cinit (prog : list cop) : clocal := mkCL prog [].
Definition crun (sched : list nat) (c0 : option Z) (progs : list (list cop)) : option Z * list clocal :=
  run cstep sched (c0, map cinit progs).

Definition no_write (prog : list cop) : Prop := Forall (fun o => match o with CWrite _ => False | _ => True end) prog.

Section ReadOnly.
  Variable c0 : option Z.

  Definition CG (cfg : option Z) : Prop := cfg = c0.
  Definition CL (cfg : option Z) (l : clocal) : Prop := no_write (ctodo l) /\ Forall (fun o => o = c0) (couts l).
  Definition CR (a b : option Z) : Prop := True.

  Lemma cstep_ok : forall s l, CG s -> CL s l ->
    CG (fst (cstep s l)) /\ CL (fst (cstep s l)) (snd (cstep s l)) /\ CR s (fst (cstep s l)).
  Proof.
    intros s l HG (HW & HO). unfold cstep.
    destruct (ctodo l) as [|o r] eqn:E; simpl.
    - repeat split; auto. rewrite E. constructor.
    - inversion HW as [|? ? Ho Hr]; subst.
      destruct o; simpl; try contradiction; repeat split; auto.
      constructor; auto.
  Qed.

  Lemma cstable : forall s s' l, CG s -> CG s' -> CR s s' -> CL s l -> CL s' l.
  Proof. intros; assumption. Qed.
End ReadOnly.

(* ANY number of threads, ANY schedule: with no store to the configuration cell in any program, the cell keeps
   its value and every call (every CRead) observed the configured value. *)
Theorem config_readonly_safe : forall (c0 : option Z) (progs : list (list cop)) (sched : list nat),
  Forall no_write progs ->
  fst (crun sched c0 progs) = c0 /\
  length (snd (crun sched c0 progs)) = length progs /\
  Forall (fun l => Forall (fun o => o = c0) (couts l)) (snd (crun sched c0 progs)).
Proof.
  intros c0 progs sched Hp. unfold crun.
  assert (H : CG c0 (fst (run cstep sched (c0, map cinit progs))) /\
              Forall (CL c0 (fst (run cstep sched (c0, map cinit progs)))) (snd (run cstep sched (c0, map cinit progs)))).
  { apply run_inv with (R := CR).
    - intros; apply cstep_ok; auto.
    - intros; eapply cstable; eauto.
    - reflexivity.
    - rewrite Forall_forall in *. intros l Hl. apply in_map_iff in Hl.
      destruct Hl as (prog & <- & Hin). split; [apply Hp; auto|constructor]. }
  destruct H as (HG & HL). split; [exact HG|split].
  - rewrite run_length. simpl. apply map_length.
  - rewrite Forall_forall in *. intros l Hl. apply (HL l Hl).
Qed.

(* The transient store (clear, inner call, restore) is NOT safe: thread 0 = wrapper around an inner call,
   thread 1 = a plain call entering while the cell is cleared; configured dtype key 32 (float32). *)
Definition wrapper_prog : list cop := [CRead; CWrite None; CRead; CSkip; CWrite (Some 32)].
Lemma config_transient_write_refuted :
  map couts (snd (crun [0; 0; 1; 1; 1; 1; 1; 0; 0; 0]%nat (Some 32) [wrapper_prog; wrapper_prog]))
    = [[Some 32; Some 32]; [None; None]] /\   (* newest first: thread 1's OUTER call saw the cleared cell *)
  map couts (snd (crun (repeat 0%nat 5 ++ repeat 1%nat 5) (Some 32) [wrapper_prog; wrapper_prog]))
    = [[None; Some 32]; [None; Some 32]] /\
  ~ no_write wrapper_prog.
Proof.
  split; [vm_compute; reflexivity|split; [vm_compute; reflexivity|]].
  intros H. inversion H as [|? ? _ H1]; subst. inversion H1 as [|? ? Hw _]; subst. exact Hw.
Qed.
