(* C04 -- proofs for the 2-D spline cache and the lazy SplineBasis2D.basis: for n threads that all request
   the same (num_knots, spline_degree), every schedule, cold or warm cache (any key, lazy basis computed or
   not): no thread gets a None basis or a basis for another key.  The proof rests on: NO step stores None
   into `_basis` (the cell only ever goes None -> value). *)
From Coq Require Import ZArith List Bool Lia.
From PB Require Import C04.Sched C04.Model C04.Proofs C04.Model2DS.
Import ListNotations.
Open Scope Z_scope.

Section SafeS.
  Variable kd : Z * Z.

  Definition keyb (o : basisobj) : Z * Z := fst o.
  Definition lazyb (o : basisobj) : bool := snd o.

  Definition GS (s : sharedS) : Prop := forall j, bptr s = Some j -> exists o, getb s j = Some o.
  Definition Pset (s : sharedS) : Prop := exists j o, bptr s = Some j /\ getb s j = Some o /\ keyb o = kd.
  Definition heldok (s : sharedS) (l : localS) : Prop := exists o, getb s (sheld l) = Some o /\ keyb o = kd.
  Definition lazyok (s : sharedS) (l : localS) : Prop :=
    exists o, getb s (sheld l) = Some o /\ keyb o = kd /\ lazyb o = true.

  Definition RS (s s' : sharedS) : Prop :=
    (Pset s -> Pset s') /\ (bptr s <> None -> bptr s' <> None) /\
    (forall j o, getb s j = Some o -> exists o', getb s' j = Some o' /\ keyb o' = keyb o /\
                                                 (lazyb o = true -> lazyb o' = true)).

  Definition use_okS (u : useS) : Prop :=
    match u with USKey w g => w = kd /\ g = kd | USLazy g => g = true end.
  Definition seg_okS (sg : segS) : Prop := match sg with Spl2 k d => (k, d) = kd | _ => True end.
  Fixpoint wfS (ds : bool) (todo : list segS) : Prop :=
    match todo with
    | [] => True
    | Lazy2 :: r => ds = true /\ wfS ds r
    | Spl2 _ _ :: r => wfS true r
    | UseShapeS :: r => wfS ds r
    end.

  Definition kindS (c : pcS) : nat :=
    match c with TU => 0 | T1 | T2 | T3 | T3b | T4 | T5 => 1 | Y1 | Y2 | Y3 => 2 | SErr _ => 3 end%nat.
  Definition skindS (sg : segS) : nat := match sg with UseShapeS => 0 | Spl2 _ _ => 1 | Lazy2 => 2 end%nat.

  Definition pcfactS (s : sharedS) (l : localS) : Prop :=
    match spc l with
    | T2 => bptr s <> None
    | T5 => Pset s
    | Y1 | Y2 => heldok s l
    | Y3 => lazyok s l
    | SErr _ => False
    | _ => True
    end.

  Definition LS (s : sharedS) (l : localS) : Prop :=
    Forall use_okS (suses l) /\ (forall e, spc l <> SErr e) /\ Forall seg_okS (stodo l) /\
    wfS (sds l) (stodo l) /\ (sds l = true -> heldok s l) /\
    match stodo l with
    | [] => True
    | sg :: _ => kindS (spc l) = skindS sg /\ pcfactS s l
    end.

  Lemma RS_refl : forall s, RS s s.
  Proof. unfold RS; intros; repeat split; auto. intros j o H; exists o; auto. Qed.

  Lemma heldok_R : forall s s' l, RS s s' -> heldok s l -> heldok s' l.
  Proof.
    intros s s' l (_ & _ & H) (o & Ho & Hk). destruct (H _ _ Ho) as (o' & Ho' & Hk' & _).
    exists o'; split; auto. congruence.
  Qed.
  Lemma lazyok_R : forall s s' l, RS s s' -> lazyok s l -> lazyok s' l.
  Proof.
    intros s s' l (_ & _ & H) (o & Ho & Hk & Hl). destruct (H _ _ Ho) as (o' & Ho' & Hk' & Hl').
    exists o'; repeat split; auto. congruence.
  Qed.

  Lemma stableS : forall s s' l, GS s -> GS s' -> RS s s' -> LS s l -> LS s' l.
  Proof.
    intros s s' l _ _ HR (HU & HE & HS & HW & HD & HP).
    assert (HR' := HR). destruct HR' as (RP & RN & RH).
    repeat (split; auto).
    - intros Hd. eapply heldok_R; eauto.
    - destruct (stodo l); auto. destruct HP as (HK & HF). split; auto.
      unfold pcfactS in *. destruct (spc l); auto; eauto using heldok_R, lazyok_R.
  Qed.

  Lemma getb_upd_same : forall s j f o, getb s j = Some o -> getb (updb s j f) j = Some (f o).
  Proof. unfold getb, updb; simpl; intros. apply nth_upd_same; auto. Qed.
  Lemma getb_upd_other : forall s j f i, j <> i -> getb (updb s j f) i = getb s i.
  Proof. unfold getb, updb; simpl; intros. apply nth_upd_other; auto. Qed.

  Lemma upd_lazy_ok : forall s j o, GS s -> getb s j = Some o ->
    GS (updb s j (set_lazy true)) /\ RS s (updb s j (set_lazy true)).
  Proof.
    intros s j o HG Ho.
    assert (HH : forall i oi, getb s i = Some oi -> exists o', getb (updb s j (set_lazy true)) i = Some o' /\
                 keyb o' = keyb oi /\ (lazyb oi = true -> lazyb o' = true)).
    { intros i oi Hi. destruct (Nat.eq_dec j i) as [->|Hne].
      - exists (set_lazy true oi). split; [apply getb_upd_same; auto|]. destruct oi as ((a, b), c); simpl; auto.
      - exists oi. rewrite getb_upd_other; auto. }
    split.
    - intros i Hi. simpl in Hi. destruct (HG i Hi) as (oi & Hoi). destruct (HH _ _ Hoi) as (o' & Ho' & _). eauto.
    - unfold RS. split; [|split; auto].
      intros (i & oi & Hp & Hoi & Hk). destruct (HH _ _ Hoi) as (o' & Ho' & Hk' & _).
      exists i, o'. simpl. repeat split; auto. congruence.
  Qed.

  Lemma getb_pub_old : forall s o j oj, getb s j = Some oj -> getb (publishS s o) j = Some oj.
  Proof.
    unfold getb, publishS; simpl; intros. rewrite nth_error_app1; auto. apply nth_error_Some. congruence.
  Qed.
  Lemma getb_pub_new : forall s o, getb (publishS s o) (length (bheap s)) = Some o.
  Proof. unfold getb, publishS; simpl; intros. rewrite nth_error_app2 by lia. rewrite Nat.sub_diag. reflexivity. Qed.

  Lemma publish_ok : forall s o, GS s -> keyb o = kd ->
    GS (publishS s o) /\ RS s (publishS s o) /\ Pset (publishS s o).
  Proof.
    intros s o HG Hk.
    assert (HP : Pset (publishS s o)).
    { exists (length (bheap s)), o. repeat split; auto. apply getb_pub_new. }
    split; [|split; auto].
    - intros j Hj. simpl in Hj. inversion Hj; subst. exists o. apply getb_pub_new.
    - unfold RS. split; [auto|split].
      + simpl; discriminate.
      + intros j oj Hj. exists oj. split; [apply getb_pub_old; auto|auto].
  Qed.

  Arguments finS : simpl never.

  Lemma L_finS : forall s l sg rest, stodo l = sg :: rest -> Forall use_okS (suses l) ->
    Forall seg_okS rest -> wfS (sds l) rest -> (sds l = true -> heldok s l) -> LS s (finS l).
  Proof.
    intros s l sg rest Ht HU HS HW HD. unfold LS, finS; rewrite Ht; simpl.
    destruct rest as [|sg' r]; simpl.
    - repeat split; auto; discriminate.
    - split; [auto|]. split; [destruct sg'; discriminate|]. split; [auto|]. split; [exact HW|].
      split; [exact HD|].
      destruct sg'; simpl; split; auto; try exact I.
      simpl in HW. destruct HW as (Hd & _). unfold pcfactS; simpl. auto.
  Qed.

  Ltac mkS := unfold LS, pcfactS; simpl;
    repeat match goal with |- _ /\ _ => split end; auto; try (intros; discriminate); try congruence.

  Lemma step_okS : forall s l, GS s -> LS s l ->
    GS (fst (stepS s l)) /\ LS (fst (stepS s l)) (snd (stepS s l)) /\ RS s (fst (stepS s l)).
  Proof.
    intros s l HG HL0.
    assert (HL := HL0). destruct HL as (HU & HE & HS & HW & HD & HP).
    destruct l as [pc todo held ds uses]; simpl in *.
    destruct todo as [|sg rest].
    { unfold stepS, step3S; simpl. split; [auto|split; [exact HL0|apply RS_refl]]. }
    destruct HP as (HK & HF).
    inversion HS as [|? ? Hsg HSr]; subst.
    destruct pc; destruct sg; simpl in HK; try discriminate HK;
      unfold pcfactS in HF; simpl in HF; try contradiction;
      unfold heldok, lazyok in HF; simpl in HF; simpl in HW;
      unfold stepS, step3S; simpl.
    - (* TU *)
      split; [exact HG|split; [|apply RS_refl]].
      eapply L_finS; [reflexivity|auto|auto|exact HW|exact HD].
    - (* T1 *)
      split; [exact HG|split; [|apply RS_refl]]. destruct (bptr s) eqn:E; mkS.
    - (* T2 *)
      split; [exact HG|split; [|apply RS_refl]].
      destruct (bptr s) as [j|] eqn:E; [|congruence].
      destruct (HG j E) as (o & Ho). rewrite Ho. destruct o as ((k', d'), b).
      destruct ((k =? k') && (d =? d')) eqn:Ek; mkS.
      apply andb_prop in Ek. destruct Ek as (E1 & E2). apply Z.eqb_eq in E1. apply Z.eqb_eq in E2. subst.
      exists j, (k', d', b). repeat split; auto.
    - (* T3 *) split; [exact HG|split; [|apply RS_refl]]. mkS.
    - (* T3b *) split; [exact HG|split; [|apply RS_refl]]. mkS.
    - (* T4 *)
      simpl in Hsg.
      destruct (publish_ok s (k, d, false) HG Hsg) as (HG' & HR & HP').
      split; [exact HG'|split; [|exact HR]].
      mkS. intros Hd. eapply heldok_R; eauto.
    - (* T5 *)
      split; [exact HG|split; [|apply RS_refl]].
      destruct HF as (j & o & Hp & Ho & Hk). rewrite Hp, Ho. destruct o as ((k', d'), b).
      assert (Hh : heldok s (set_held
                 {| spc := T5; stodo := Spl2 k d :: rest; sheld := held; sds := ds; suses := uses |} j)).
      { exists (k', d', b). simpl. auto. }
      eapply L_finS; [reflexivity| |auto|exact HW|intros _; exact Hh].
      simpl. constructor; auto. simpl. simpl in Hsg. unfold keyb in Hk; simpl in Hk. split; congruence.
    - (* Y1 *)
      split; [exact HG|split; [|apply RS_refl]].
      destruct HF as (o & Ho & Hk). rewrite Ho. destruct o as ((k', d'), b).
      destruct b; mkS; try tauto; unfold lazyok, heldok; simpl; try (eexists; repeat split; eauto; fail).
    - (* Y2 *)
      destruct HF as (o & Ho & Hk).
      destruct (upd_lazy_ok s held o HG Ho) as (HG' & HR).
      split; [exact HG'|split; [|exact HR]].
      mkS; try tauto.
      + intros Hd. eapply heldok_R with (s := s); eauto.
      + exists (set_lazy true o). split; [apply getb_upd_same; auto|].
        destruct o as ((a, b), c); simpl in *; auto.
    - (* Y3 *)
      split; [exact HG|split; [|apply RS_refl]].
      destruct HF as (o & Ho & Hk & Hl). rewrite Ho. destruct o as ((k', d'), b). simpl in Hl. subst b.
      destruct HW as (Hd & HW).
      eapply L_finS; [reflexivity| |auto|exact HW|exact HD].
      simpl. constructor; auto. reflexivity.
  Qed.

  Lemma L_initS : forall s prog, Forall seg_okS prog -> wfS false prog -> LS s (init_localS prog).
  Proof.
    intros s prog HS HW. unfold LS, init_localS; simpl.
    repeat match goal with |- _ /\ _ => split end; auto; try discriminate.
    - destruct prog as [|sg r]; [discriminate|destruct sg; discriminate].
    - destruct prog as [|sg r]; auto. destruct sg; simpl; split; auto; try exact I.
      simpl in HW. destruct HW; discriminate.
  Qed.

  Lemma LS_outcome : forall s l, LS s l ->
    (forall e, spc l <> SErr e) /\ Forall use_okS (suses l) /\
    (outcomeS l = 0 \/ (outcomeS l = 9 /\ stodo l <> [])).
  Proof.
    intros s l (HU & HE & _). repeat split; auto.
    unfold outcomeS.
    assert (Hf : forallb (fun u => match u with
                                  | USKey (a, b) (c, d) => (a =? c) && (b =? d)
                                  | USLazy g => g
                                  end) (suses l) = true).
    { apply forallb_forall. intros u Hu. rewrite Forall_forall in HU. specialize (HU _ Hu).
      destruct u as [(a, b) (c, d)|g]; simpl in *.
      - destruct HU as (E1 & E2). rewrite <- E1 in E2. inversion E2; subst. rewrite !Z.eqb_refl. reflexivity.
      - auto. }
    rewrite Hf.
    destruct (spc l) eqn:E; destruct (stodo l); auto; try (right; split; [reflexivity|discriminate]).
    exfalso; eapply HE; eauto.
  Qed.
End SafeS.

Definition prog_okS (kd : Z * Z) (prog : list segS) : Prop := Forall (seg_okS kd) prog /\ wfS false prog.

(* ANY number of threads, ANY schedule; cache cold, or warm with ANY key and the lazy basis computed or not *)
Theorem spline2d_lazy_safe : forall kd (cache : option basisobj) progs sched,
  Forall (prog_okS kd) progs ->
  let st := run_schedS sched (match cache with Some o => warmS o | None => coldS end, map init_localS progs) in
  length (snd st) = length progs /\
  Forall (fun l => (forall e, spc l <> SErr e) /\ Forall (use_okS kd) (suses l) /\
                   (outcomeS l = 0 \/ (outcomeS l = 9 /\ stodo l <> []))) (snd st).
Proof.
  intros kd cache progs sched Hp st.
  assert (H : GS (fst st) /\ Forall (LS kd (fst st)) (snd st)).
  { unfold st, run_schedS. apply run_inv with (R := RS kd).
    - intros; apply step_okS; auto.
    - intros s s' l Hg Hg' Hr Hl. eapply stableS with (s := s); eassumption.
    - destruct cache as [o|]; unfold GS, warmS, coldS; simpl; intros j Hj; [|discriminate].
      inversion Hj; subst. exists o. reflexivity.
    - rewrite Forall_forall in *. intros l Hl. apply in_map_iff in Hl.
      destruct Hl as (prog & <- & Hin). destruct (Hp _ Hin). apply L_initS; auto. }
  destruct H as (HG & HL). split.
  - unfold st, run_schedS. rewrite run_length. simpl. apply map_length.
  - rewrite Forall_forall in *. intros l Hl. eapply LS_outcome. apply HL; auto.
Qed.

(* what the theorem rests on, as a witness: a variant step that also stores None into `_basis` (the
   "release the memory" change) is NOT covered -- with the real step the cell is monotone: *)
Lemma lazy_monotone : forall s l j o, getb s j = Some o -> snd o = true ->
  exists o', getb (fst (stepS s l)) j = Some o' /\ snd o' = true.
Proof.
  intros s l j o Ho Hl. unfold stepS, step3S.
  destruct (stodo l) as [|sg r]; simpl; [eauto|].
  destruct (spc l); destruct sg; simpl; eauto;
    try (exists o; split; auto; apply getb_pub_old; auto; fail).
  destruct (Nat.eq_dec (sheld l) j) as [<-|Hne].
  - exists (set_lazy true o). split; [apply getb_upd_same; auto|reflexivity].
  - exists o. split; auto. rewrite getb_upd_other; auto.
Qed.

Lemma spline2d_examples :
  prog_okS (5, 3) [UseShapeS; Spl2 5 3; Lazy2; Lazy2] /\
  map outcomeS (snd (run_schedS ([0; 0; 0; 0; 0; 0; 0] ++ repeat 1%nat 12 ++ repeat 0%nat 6)%nat
       (coldS, [init_localS [UseShapeS; Spl2 5 3; Lazy2; Lazy2]; init_localS [UseShapeS; Spl2 5 3; Lazy2; Lazy2]])))
    = [0; 0].
Proof. split; [unfold prog_okS; simpl; repeat constructor; auto|vm_compute; reflexivity]. Qed.
