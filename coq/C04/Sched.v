(* C04 -- small-step interleaving semantics for n threads over a shared record, and the
   reachable-state (rely/guarantee) induction principle.

   A thread is a local state `Lo` (program counter + locals); one step of a thread is a total,
   deterministic function `step : Sh -> Lo -> Sh * Lo` of the shared state and its own local state
   (finished / failed threads stutter).  A schedule is a `list nat` of thread ids; ids that name no
   thread stutter.  ATOMICITY GRANULARITY: one `step` is exactly ONE load or ONE store of one shared
   attribute (plus the thread-local computation that follows it up to the next shared access). *)
From Coq Require Import List Arith Lia.
Import ListNotations.

Section Sched.
  Variables Sh Lo : Type.
  Variable step : Sh -> Lo -> Sh * Lo.

  Fixpoint upd_nth (i : nat) (ls : list Lo) (x : Lo) : list Lo :=
    match ls, i with
    | [], _ => []
    | _ :: t, O => x :: t
    | h :: t, S j => h :: upd_nth j t x
    end.

  Definition step_thread (st : Sh * list Lo) (i : nat) : Sh * list Lo :=
    match nth_error (snd st) i with
    | None => st
    | Some l => let r := step (fst st) l in (fst r, upd_nth i (snd st) (snd r))
    end.

  Definition run (sched : list nat) (st : Sh * list Lo) : Sh * list Lo :=
    fold_left step_thread sched st.

  Lemma upd_nth_length : forall i ls x, length (upd_nth i ls x) = length ls.
  Proof. induction i; destruct ls; simpl; intros; auto. Qed.

  Lemma run_length : forall sched st, length (snd (run sched st)) = length (snd st).
  Proof.
    induction sched as [|i sched IH]; intros st; simpl; auto.
    unfold run in IH. rewrite IH. unfold step_thread.
    destruct (nth_error (snd st) i); simpl; auto using upd_nth_length.
  Qed.

  Lemma Forall_upd_nth : forall (P : Lo -> Prop) i ls x,
    Forall P ls -> P x -> Forall P (upd_nth i ls x).
  Proof.
    induction i; destruct ls; simpl; intros x HF Hx; auto;
      inversion HF; subst; constructor; auto.
  Qed.

  (* Rely/guarantee packaging: G = invariant of the shared state, L = per-thread invariant (may
     mention the shared state), R = what one step of ANY thread may do to the shared state. *)
  Variable G : Sh -> Prop.
  Variable L : Sh -> Lo -> Prop.
  Variable R : Sh -> Sh -> Prop.
  Hypothesis step_ok : forall s l, G s -> L s l ->
    G (fst (step s l)) /\ L (fst (step s l)) (snd (step s l)) /\ R s (fst (step s l)).
  Hypothesis stable : forall s s' l, G s -> G s' -> R s s' -> L s l -> L s' l.

  Lemma run_inv_st : forall sched st,
    G (fst st) -> Forall (L (fst st)) (snd st) ->
    G (fst (run sched st)) /\ Forall (L (fst (run sched st))) (snd (run sched st)).
  Proof.
    induction sched as [|i sched IH]; intros [s ls] HG HL.
    - simpl in *. split; assumption.
    - simpl in HG, HL.
      change (run (i :: sched) (s, ls)) with (run sched (step_thread (s, ls) i)).
      apply IH; unfold step_thread; simpl;
        destruct (nth_error ls i) as [l|] eqn:E; simpl; auto.
      + assert (Hl : L s l).
        { rewrite Forall_forall in HL. apply HL. eapply nth_error_In; eauto. }
        destruct (step_ok s l HG Hl) as (HG' & HL' & HR). auto.
      + assert (Hl : L s l).
        { rewrite Forall_forall in HL. apply HL. eapply nth_error_In; eauto. }
        destruct (step_ok s l HG Hl) as (HG' & HL' & HR).
        apply Forall_upd_nth; auto.
        rewrite Forall_forall in *. intros l0 Hin.
        apply (stable s (fst (step s l)) l0); auto.
  Qed.

  Theorem run_inv : forall sched s ls,
    G s -> Forall (L s) ls ->
    G (fst (run sched (s, ls))) /\ Forall (L (fst (run sched (s, ls)))) (snd (run sched (s, ls))).
  Proof. intros. apply run_inv_st; auto. Qed.
End Sched.

Arguments upd_nth {Lo}.
Arguments step_thread {Sh Lo}.
Arguments run {Sh Lo}.
