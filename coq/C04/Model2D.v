(* C04 -- 2-D first calls: thread program of the prologue of _Algorithm2D._register.inner
   (pybaselines/two_d/_algorithm_setup.py, after d3d4e98) and of the `_shape` setter, models only.

   SHARED cells: x, z (None or the key of their length), __shape (a pair of optional lengths), _size,
   _validated_x, _validated_z.  ONE STEP = ONE load or store of one of these cells, in source order:
     R x; R z                                   has_x, has_z
     [has_x or has_z]  R __shape                expected shape, checked against the data (M, N)
     [not both]        [has_x] R __shape  [has_z] R __shape      the tuple handed to the setter
                       W __shape; R __shape; W _size             the setter on a COMPLETE tuple
     [not has_x]  R __shape; W x     [elif unique-required and not validated: R _validated_x; R x; R x; W _validated_x]
     [not has_z]  R __shape; W z     [elif ... z ...]
   followed by later reads of x / z / _shape / _size by the method body.
   The setter's partial-update path (a tuple containing None) and np.prod of a shape containing None are
   modelled as error states; the theorem shows they are unreachable. *)
From Coq Require Import ZArith List Bool.
From PB Require Import C04.Sched.
Import ListNotations.
Open Scope Z_scope.

Inductive cell2 := Dx | Dz | Dshape | Dsize | Dvx | Dvz.
Inductive ev2 := Rd2 (c : cell2) | Wr2 (c : cell2).

Record shared2 := mkS2 {
  x2 : option Z; z2 : option Z; sh2 : option Z * option Z; sz2 : option Z; vx2 : bool; vz2 : bool }.

Inductive seg2 :=
| Pro2 (uniq : bool) (m n : Z)      (* prologue, data of shape (m, n) *)
| Use2 (c : cell2).                 (* a later read of x / z / _shape / _size *)

Inductive err2 := E2Len | E2Partial | E2ProdNone | E2LinNone | E2Dup | E2Bad.

Inductive pc2 :=
| A0 | A1            (* R x; R z *)
| AC                 (* R __shape: expected shape *)
| AR0 | AR1          (* R __shape for self._shape[0] / self._shape[1] *)
| AW | AP | AZ       (* setter: W __shape; R __shape (np.prod); W _size *)
| AX0 | AX1          (* R __shape; W x *)
| AVX0 | AVX1 | AVX2 | AVX3     (* R _validated_x; R x; R x; W _validated_x *)
| AZ0 | AZ1          (* R __shape; W z *)
| AVZ0 | AVZ1 | AVZ2 | AVZ3
| AU                 (* a later read *)
| AErr (e : err2).

Inductive use2 :=
| U2x (got : option Z) | U2z (got : option Z) | U2shape (got : option Z * option Z) | U2size (got : option Z).

Record local2 := mkL2 {
  qpc : pc2; qtodo : list seg2;
  qhx : bool; qhz : bool;                 (* has_x, has_z *)
  qr0 : option Z; qr1 : option Z;         (* the tuple being handed to the _shape setter *)
  qprod : option Z;                       (* np.prod(self._shape) *)
  quses : list use2 }.

Definition enter2 (sg : seg2) : pc2 := match sg with Pro2 _ _ _ => A0 | Use2 _ => AU end.
Definition init_local2 (prog : list seg2) : local2 :=
  mkL2 (match prog with [] => A0 | sg :: _ => enter2 sg end) prog false false None None None [].

Definition setq (l : local2) (p : pc2) : local2 :=
  mkL2 p (qtodo l) (qhx l) (qhz l) (qr0 l) (qr1 l) (qprod l) (quses l).
Definition fail2 (l : local2) (e : err2) : local2 := setq l (AErr e).
Definition fin2 (l : local2) : local2 :=
  match qtodo l with
  | [] => l
  | _ :: rest => mkL2 (match rest with [] => A0 | sg :: _ => enter2 sg end) rest
                      (qhx l) (qhz l) (qr0 l) (qr1 l) (qprod l) (quses l)
  end.
Definition adduse2 (l : local2) (u : use2) : local2 :=
  mkL2 (qpc l) (qtodo l) (qhx l) (qhz l) (qr0 l) (qr1 l) (qprod l) (u :: quses l).
Definition set_hx (l : local2) (b : bool) := mkL2 (qpc l) (qtodo l) b (qhz l) (qr0 l) (qr1 l) (qprod l) (quses l).
Definition set_hz (l : local2) (b : bool) := mkL2 (qpc l) (qtodo l) (qhx l) b (qr0 l) (qr1 l) (qprod l) (quses l).
Definition set_r0 (l : local2) (v : option Z) := mkL2 (qpc l) (qtodo l) (qhx l) (qhz l) v (qr1 l) (qprod l) (quses l).
Definition set_r1 (l : local2) (v : option Z) := mkL2 (qpc l) (qtodo l) (qhx l) (qhz l) (qr0 l) v (qprod l) (quses l).
Definition set_prod (l : local2) (v : option Z) := mkL2 (qpc l) (qtodo l) (qhx l) (qhz l) (qr0 l) (qr1 l) v (quses l).

Definition finished2 (l : local2) : bool :=
  match qtodo l, qpc l with [], _ => true | _, AErr _ => true | _, _ => false end.

Definition s2_x (s : shared2) v := mkS2 v (z2 s) (sh2 s) (sz2 s) (vx2 s) (vz2 s).
Definition s2_z (s : shared2) v := mkS2 (x2 s) v (sh2 s) (sz2 s) (vx2 s) (vz2 s).
Definition s2_sh (s : shared2) v := mkS2 (x2 s) (z2 s) v (sz2 s) (vx2 s) (vz2 s).
Definition s2_sz (s : shared2) v := mkS2 (x2 s) (z2 s) (sh2 s) v (vx2 s) (vz2 s).
Definition s2_vx (s : shared2) v := mkS2 (x2 s) (z2 s) (sh2 s) (sz2 s) v (vz2 s).
Definition s2_vz (s : shared2) v := mkS2 (x2 s) (z2 s) (sh2 s) (sz2 s) (vx2 s) v.

Definition oz_eqb2 (a b : option Z) : bool :=
  match a, b with Some u, Some v => u =? v | None, None => true | _, _ => false end.
Definition isS (o : option Z) : bool := match o with Some _ => true | None => false end.

(* what follows the check / the shape update: the x part, then the z part, then the end of the prologue *)
Definition after_x (uniq : bool) (l : local2) : local2 :=
  if negb (qhz l) then setq l AZ0 else if uniq then setq l AVZ0 else fin2 l.
Definition after_shape (uniq : bool) (l : local2) : local2 :=
  if negb (qhx l) then setq l AX0 else if uniq then setq l AVX0 else after_x uniq l.
Definition after_check (uniq : bool) (l : local2) : local2 :=
  if qhx l && qhz l then after_shape uniq l
  else if qhx l then setq l AR0 else if qhz l then setq l AR1 else setq l AW.

(* the x- and z-values carry no duplicates flag here: dupx / dupz are parameters of the step *)
Definition step3_2 (dupx dupz : bool) (s : shared2) (l : local2) : shared2 * local2 * option ev2 :=
  match qtodo l with
  | [] => (s, l, None)
  | sg :: _ =>
    match qpc l, sg with
    | AErr _, _ => (s, l, None)
    | A0, Pro2 _ _ _ => (s, setq (set_hx l (isS (x2 s))) A1, Some (Rd2 Dx))
    | A1, Pro2 uniq m n =>
        let l := set_r1 (set_r0 (set_hz l (isS (z2 s))) (Some m)) (Some n) in
        (s, (if qhx l || qhz l then setq l AC else setq l AW), Some (Rd2 Dz))
    | AC, Pro2 uniq m n =>
        let okk := if qhx l && qhz l then oz_eqb2 (fst (sh2 s)) (Some m) && oz_eqb2 (snd (sh2 s)) (Some n)
                   else if qhx l then oz_eqb2 (fst (sh2 s)) (Some m) else oz_eqb2 (snd (sh2 s)) (Some n) in
        (s, (if okk then after_check uniq l else fail2 l E2Len), Some (Rd2 Dshape))
    | AR0, Pro2 _ _ _ =>
        (s, (let l := set_r0 l (fst (sh2 s)) in if qhz l then setq l AR1 else setq l AW), Some (Rd2 Dshape))
    | AR1, Pro2 _ _ _ => (s, setq (set_r1 l (snd (sh2 s))) AW, Some (Rd2 Dshape))
    | AW, Pro2 _ _ _ =>
        match qr0 l, qr1 l with
        | Some _, Some _ => (s2_sh s (qr0 l, qr1 l), setq l AP, Some (Wr2 Dshape))
        | _, _ => (s, fail2 l E2Partial, None)
        end
    | AP, Pro2 _ _ _ =>
        (s, match sh2 s with
            | (Some a, Some b) => setq (set_prod l (Some (a * b))) AZ
            | _ => fail2 l E2ProdNone
            end, Some (Rd2 Dshape))
    | AZ, Pro2 uniq _ _ => (s2_sz s (qprod l), after_shape uniq l, Some (Wr2 Dsize))
    | AX0, Pro2 _ _ _ =>
        (s, match fst (sh2 s) with
            | Some a => setq (set_r0 l (Some a)) AX1
            | None => fail2 l E2LinNone
            end, Some (Rd2 Dshape))
    | AX1, Pro2 uniq _ _ => (s2_x s (qr0 l), after_x uniq l, Some (Wr2 Dx))
    | AVX0, Pro2 uniq _ _ => (s, (if vx2 s then after_x uniq l else setq l AVX1), Some (Rd2 Dvx))
    | AVX1, Pro2 _ _ _ => (s, setq l AVX2, Some (Rd2 Dx))
    | AVX2, Pro2 _ _ _ => (s, (if dupx then fail2 l E2Dup else setq l AVX3), Some (Rd2 Dx))
    | AVX3, Pro2 uniq _ _ => (s2_vx s true, after_x uniq l, Some (Wr2 Dvx))
    | AZ0, Pro2 _ _ _ =>
        (s, match snd (sh2 s) with
            | Some b => setq (set_r1 l (Some b)) AZ1
            | None => fail2 l E2LinNone
            end, Some (Rd2 Dshape))
    | AZ1, Pro2 _ _ _ => (s2_z s (qr1 l), fin2 l, Some (Wr2 Dz))
    | AVZ0, Pro2 _ _ _ => (s, (if vz2 s then fin2 l else setq l AVZ1), Some (Rd2 Dvz))
    | AVZ1, Pro2 _ _ _ => (s, setq l AVZ2, Some (Rd2 Dz))
    | AVZ2, Pro2 _ _ _ => (s, (if dupz then fail2 l E2Dup else setq l AVZ3), Some (Rd2 Dz))
    | AVZ3, Pro2 _ _ _ => (s2_vz s true, fin2 l, Some (Wr2 Dvz))
    | AU, Use2 Dx => (s, fin2 (adduse2 l (U2x (x2 s))), Some (Rd2 Dx))
    | AU, Use2 Dz => (s, fin2 (adduse2 l (U2z (z2 s))), Some (Rd2 Dz))
    | AU, Use2 Dshape => (s, fin2 (adduse2 l (U2shape (sh2 s))), Some (Rd2 Dshape))
    | AU, Use2 Dsize => (s, fin2 (adduse2 l (U2size (sz2 s))), Some (Rd2 Dsize))
    | _, _ => (s, fail2 l E2Bad, None)
    end
  end.

Definition step2 (dupx dupz : bool) (s : shared2) (l : local2) : shared2 * local2 := fst (step3_2 dupx dupz s l).

Definition state2 := (shared2 * list local2)%type.
Definition run_sched2 (dupx dupz : bool) (sched : list nat) (st : state2) : state2 :=
  run (step2 dupx dupz) sched st.

Definition cell2_code (c : cell2) : Z :=
  match c with Dx => 0 | Dz => 1 | Dshape => 2 | Dsize => 3 | Dvx => 4 | Dvz => 5 end.
Definition ev2_code (e : ev2) : Z := match e with Rd2 c => cell2_code c | Wr2 c => 10 + cell2_code c end.

Fixpoint sched_log2 (dupx dupz : bool) (sched : list nat) (st : state2) : list Z :=
  match sched with
  | [] => []
  | i :: r =>
      (match nth_error (snd st) i with
       | Some l => match snd (step3_2 dupx dupz (fst st) l) with
                   | Some e => [Z.of_nat i * 100 + ev2_code e]
                   | None => []
                   end
       | None => []
       end) ++ sched_log2 dupx dupz r (step_thread (step2 dupx dupz) st i)
  end.

(* freshly created Baseline2D(x_data given?, z_data given?) for data of shape (M, N) *)
Definition fresh2 (ix iz : bool) (M N : Z) : shared2 :=
  mkS2 (if ix then Some M else None) (if iz then Some N else None)
       (if ix then Some M else None, if iz then Some N else None)
       (if ix && iz then Some (M * N) else None) (negb ix) (negb iz).

Definition oz2 (o : option Z) : Z := match o with Some v => v | None => -1 end.
Definition abstraction2 (s : shared2) : list Z :=
  [oz2 (x2 s); oz2 (z2 s); oz2 (fst (sh2 s)); oz2 (snd (sh2 s)); oz2 (sz2 s);
   (if vx2 s then 1 else 0); (if vz2 s then 1 else 0)].

Definition outcome2 (M N : Z) (l : local2) : Z :=
  match qpc l, qtodo l with
  | AErr _, _ :: _ => 2
  | _, [] =>
      if forallb (fun u => match u with
                           | U2x g => oz_eqb2 g (Some M) | U2z g => oz_eqb2 g (Some N)
                           | U2shape g => oz_eqb2 (fst g) (Some M) && oz_eqb2 (snd g) (Some N)
                           | U2size g => oz_eqb2 g (Some (M * N))
                           end) (quses l) then 0 else 1
  | _, _ => 9
  end.
