(* C04 -- 2-D spline cache: thread program of _Algorithm2D._setup_spline (publication of a SplineBasis2D)
   and of the LAZY `SplineBasis2D.basis` property (two_d/_spline_utils.py: `if self._basis is None:
   self._basis = kron(...)`; `return self._basis`), models only.  x, z, _shape are set (the thread's own
   prologue has completed, C04_first_call_2d_safe) and only read here.

   SHARED: `_spline_basis` = a pointer into a heap of SplineBasis2D objects; an object is
   (num_knots key, spline_degree key, lazy `_basis` computed?) -- everything but `_basis` is immutable after
   construction, construction is thread-private until the publishing store.
   ONE STEP = ONE load or store of `_spline_basis`, of `_basis` of the basis object the thread's PSpline2D
   holds, or a read of x / z / _shape. *)
From Coq Require Import ZArith List Bool.
From PB Require Import C04.Sched C04.Model.
Import ListNotations.
Open Scope Z_scope.

Inductive cellS := Ex | Ez | Eshape | Espl | Elazy.
Inductive evS := RdS (c : cellS) | WrS (c : cellS).

Definition basisobj := (Z * Z * bool)%type.            (* (num_knots, spline_degree, _basis is not None) *)
Record sharedS := mkSS { bptr : option nat; bheap : list basisobj }.

Inductive segS :=
| UseShapeS                 (* _check_optional_array(self._shape, ...) at the start of _setup_spline *)
| Spl2 (k d : Z)            (* the cache protocol of _setup_spline(num_knots=k, spline_degree=d) *)
| Lazy2.                    (* one evaluation of pspline.basis.basis *)

Inductive errS := ESNoBasis | ESNoneBasis | ESBad.

Inductive pcS :=
| TU
| T1 | T2 | T3 | T3b | T4 | T5
| Y1 | Y2 | Y3
| SErr (e : errS).

Inductive useS := USKey (want got : Z * Z) | USLazy (got : bool).

Record localS := mkLS {
  spc : pcS; stodo : list segS;
  sheld : nat;              (* the SplineBasis2D the thread's PSpline2D holds *)
  sds : bool;               (* ghost: this thread has completed a _setup_spline *)
  suses : list useS }.

Definition enterS (sg : segS) : pcS := match sg with UseShapeS => TU | Spl2 _ _ => T1 | Lazy2 => Y1 end.
Definition init_localS (prog : list segS) : localS :=
  mkLS (match prog with [] => TU | sg :: _ => enterS sg end) prog 0%nat false [].
Definition setS (l : localS) (p : pcS) : localS := mkLS p (stodo l) (sheld l) (sds l) (suses l).
Definition failS (l : localS) (e : errS) : localS := setS l (SErr e).
Definition finS (l : localS) : localS :=
  match stodo l with
  | [] => l
  | _ :: rest => mkLS (match rest with [] => TU | sg :: _ => enterS sg end) rest (sheld l) (sds l) (suses l)
  end.
Definition adduseS (l : localS) (u : useS) : localS := mkLS (spc l) (stodo l) (sheld l) (sds l) (u :: suses l).
Definition set_held (l : localS) (j : nat) : localS := mkLS (spc l) (stodo l) j true (suses l).

Definition finishedS (l : localS) : bool :=
  match stodo l, spc l with [], _ => true | _, SErr _ => true | _, _ => false end.

Definition getb (s : sharedS) (j : nat) : option basisobj := nth_error (bheap s) j.
Definition set_lazy (b : bool) (o : basisobj) : basisobj := (fst (fst o), snd (fst o), b).
Definition updb (s : sharedS) (j : nat) (f : basisobj -> basisobj) : sharedS :=
  mkSS (bptr s) (upd_list j f (bheap s)).
Definition publishS (s : sharedS) (o : basisobj) : sharedS :=
  mkSS (Some (length (bheap s))) (bheap s ++ [o]).

Definition step3S (s : sharedS) (l : localS) : sharedS * localS * option evS :=
  match stodo l with
  | [] => (s, l, None)
  | sg :: _ =>
    match spc l, sg with
    | SErr _, _ => (s, l, None)
    | TU, UseShapeS => (s, finS l, Some (RdS Eshape))
    (* if self._spline_basis is None or not self._spline_basis.same_basis(k, d): publish a new one *)
    | T1, Spl2 _ _ => (s, match bptr s with None => setS l T3 | Some _ => setS l T2 end, Some (RdS Espl))
    | T2, Spl2 k d =>
        (s, match bptr s with
            | None => failS l ESNoBasis
            | Some j => match getb s j with
                        | None => failS l ESBad
                        | Some (k', d', _) => if (k =? k') && (d =? d') then setS l T5 else setS l T3
                        end
            end, Some (RdS Espl))
    | T3, Spl2 _ _ => (s, setS l T3b, Some (RdS Ex))
    | T3b, Spl2 _ _ => (s, setS l T4, Some (RdS Ez))
    | T4, Spl2 k d => (publishS s (k, d, false), setS l T5, Some (WrS Espl))
    (* pspline = PSpline2D(self._spline_basis, ...): the thread keeps this object *)
    | T5, Spl2 k d =>
        (s, match bptr s with
            | None => failS l ESNoBasis
            | Some j => match getb s j with
                        | None => failS l ESBad
                        | Some (k', d', _) => finS (adduseS (set_held l j) (USKey (k, d) (k', d')))
                        end
            end, Some (RdS Espl))
    (* SplineBasis2D.basis: if self._basis is None: self._basis = kron(...); return self._basis *)
    | Y1, Lazy2 =>
        (s, match getb s (sheld l) with
            | None => failS l ESBad
            | Some (_, _, b) => if b then setS l Y3 else setS l Y2
            end, Some (RdS Elazy))
    | Y2, Lazy2 => (updb s (sheld l) (set_lazy true), setS l Y3, Some (WrS Elazy))
    | Y3, Lazy2 =>
        (s, match getb s (sheld l) with
            | None => failS l ESBad
            | Some (_, _, b) => if b then finS (adduseS l (USLazy b)) else failS l ESNoneBasis
            end, Some (RdS Elazy))
    | _, _ => (s, failS l ESBad, None)
    end
  end.

Definition stepS (s : sharedS) (l : localS) : sharedS * localS := fst (step3S s l).
Definition stateS := (sharedS * list localS)%type.
Definition run_schedS (sched : list nat) (st : stateS) : stateS := run stepS sched st.

Definition cellS_code (c : cellS) : Z := match c with Ex => 0 | Ez => 1 | Eshape => 2 | Espl => 3 | Elazy => 4 end.
Definition evS_code (e : evS) : Z := match e with RdS c => cellS_code c | WrS c => 10 + cellS_code c end.

Fixpoint sched_logS (sched : list nat) (st : stateS) : list Z :=
  match sched with
  | [] => []
  | i :: r =>
      (match nth_error (snd st) i with
       | Some l => match snd (step3S (fst st) l) with
                   | Some e => [Z.of_nat i * 100 + evS_code e]
                   | None => []
                   end
       | None => []
       end) ++ sched_logS r (step_thread stepS st i)
  end.

Definition outcomeS (l : localS) : Z :=
  match spc l, stodo l with
  | SErr _, _ :: _ => 2
  | _, [] => if forallb (fun u => match u with
                                  | USKey (a, b) (c, d) => (a =? c) && (b =? d)
                                  | USLazy g => g
                                  end) (suses l) then 0 else 1
  | _, _ => 9
  end.

(* [pointer's num_knots; degree; lazy computed (1/0)] or [-1;-1;-1] *)
Definition abstractionS (s : sharedS) : list Z :=
  match bptr s with
  | None => [-1; -1; -1]
  | Some j => match getb s j with
              | Some (k, d, b) => [k; d; if b then 1 else 0]
              | None => [-3; -3; -3]
              end
  end.

Definition coldS : sharedS := mkSS None [].
Definition warmS (o : basisobj) : sharedS := mkSS (Some 0%nat) [o].
