(* C04 -- proofs: the inductive invariant over reachable states of n threads that all request the same
   polynomial order p and the same spline key kd on an object whose x is present.  Unbounded in the
   number of threads and in the schedule; warm (any previous order q0, any consistent pinv state) or
   cold cache. *)
From Coq Require Import ZArith List Bool Lia.
From PB Require Import C04.Sched C04.Model.
Import ListNotations.
Open Scope Z_scope.

Lemma nth_upd_same : forall {A} (f : A -> A) k ls h,
  nth_error ls k = Some h -> nth_error (upd_list k f ls) k = Some (f h).
Proof. induction k; destruct ls; simpl; intros; try discriminate; auto. congruence. Qed.

Lemma nth_upd_other : forall {A} (f : A -> A) k j ls,
  k <> j -> nth_error (upd_list k f ls) j = nth_error ls j.
Proof.
  induction k; destruct ls; destruct j; simpl; intros; auto; try congruence.
Qed.

Lemma nth_upd_inv : forall {A} (f : A -> A) k j ls h',
  nth_error (upd_list k f ls) j = Some h' ->
  exists h, nth_error ls j = Some h /\ (h' = h \/ (j = k /\ h' = f h)).
Proof.
  intros A f k j ls h' H. destruct (Nat.eq_dec k j) as [->|Hne].
  - destruct (nth_error ls j) as [h|] eqn:E.
    + rewrite (nth_upd_same f j ls h E) in H. inversion H; subst. eauto.
    + exfalso. clear -E H. revert ls E H. induction j; destruct ls; simpl; intros; try discriminate; eauto.
  - rewrite nth_upd_other in H by auto. eauto.
Qed.

Lemma upd_length : forall {A} (f : A -> A) k ls, length (upd_list k f ls) = length ls.
Proof. induction k; destruct ls; simpl; auto. Qed.

Section Safe.
  Variables N p q0 : Z.
  Variables dup wm x0 : bool.     (* x0: x present when the threads start *)
  Variable kd : Z * Z.
  Variable spl0 : option (Z * Z).

  Definition use_ok (u : use) : Prop :=
    match u with
    | UVan w g => w = p /\ g = Some p
    | UPin w g => w = p /\ g = Some p
    | USize g => g = Some N
    | UShape g => g = Some N
    | UX g => g = Some (N, dup)
    | USpl w g => w = kd /\ g = Some kd
    end.

  Definition seg_ok (sg : seg) : Prop :=
    match sg with
    | SPro uniq hasdata n => n = N /\ (uniq = true -> dup = false) /\ (x0 = false -> hasdata = true)
    | SUse c => c = Csize \/ c = Cshape \/ c = Cx
    | SUseSpl k d => (k, d) = kd
    | SPoly p' _ => p' = p
    | SBody p' => p' = p
    | SBodyPinv p' => p' = p
    | SSpl k d => (k, d) = kd
    end.

  (* a body read of the Vandermonde / basis comes after a setup call of the same thread *)
  (* ... and every segment other than a prologue comes after a prologue of the same thread (dx), unless
     x was present from the start *)
  Fixpoint wf (dx dp ds : bool) (todo : list seg) : Prop :=
    match todo with
    | [] => True
    | sg :: r =>
        match sg with SPro _ _ _ => True | _ => dx = true end /\
        match sg with
        | SPro _ _ _ => wf true dp ds r
        | SPoly _ MNone => wf dx dp ds r
        | SPoly _ _ => wf dx true ds r
        | SBody _ => dp = true /\ wf dx dp ds r
        | SBodyPinv _ => dp = true /\ wf dx dp ds r
        | SSpl _ _ => wf dx dp true r
        | SUseSpl _ _ => ds = true /\ wf dx dp ds r
        | SUse _ => wf dx dp ds r
        end
    end.

  Definition Hinv (h : helper) : Prop :=
    (hv h = Some q0 \/ hv h = Some p) /\ (ho h = q0 \/ ho h = p) /\
    (ho h = p -> hv h = Some p) /\ (hs h = false -> hp h = Some p \/ ho h <> p).

  Definition GX (s : shared) : Prop :=
    (sx s = None \/ sx s = Some (N, dup)) /\ (x0 = true -> sx s = Some (N, dup)) /\ (x0 = false -> dup = false) /\
    (sx s <> None -> ssize s = Some N /\ sshape s = Some N).

  Definition G (s : shared) : Prop :=
    GX s /\
    (forall k h, geth s k = Some h -> Hinv h) /\
    (forall k, spoly s = Some k -> exists h, geth s k = Some h) /\
    (if wm then spoly s = Some 0%nat /\ length (sheap s) = 1%nat else q0 = p) /\
    (sspl s = spl0 \/ sspl s = Some kd).

  Definition hfact (s : shared) (k : nat) (F : helper -> Prop) : Prop :=
    exists h, geth s k = Some h /\ F h.

  Definition Lset (s : shared) : Prop := exists k, spoly s = Some k /\ hfact s k (fun h => ho h = p).

  (* what a step of any thread preserves about a helper *)
  Definition Rh (h h' : helper) : Prop :=
    (ho h = p -> ho h' = p) /\ (hp h = Some p -> hp h' = Some p) /\ (hv h = Some p -> hv h' = Some p) /\
    ((hs h = false -> hp h = Some p) -> (hs h' = false -> hp h' = Some p)).

  Definition RX (s s' : shared) : Prop :=
    (sx s = Some (N, dup) -> sx s' = Some (N, dup)) /\ (ssize s = Some N -> ssize s' = Some N) /\
    (sshape s = Some N -> sshape s' = Some N).

  Definition R (s s' : shared) : Prop :=
    RX s s' /\
    (Lset s -> Lset s') /\ ((sspl s = Some kd -> sspl s' = Some kd) /\ (sspl s <> None -> sspl s' <> None)) /\
    (spoly s <> None -> spoly s' <> None) /\
    (forall k h, geth s k = Some h -> exists h', geth s' k = Some h' /\ Rh h h').

  Definition pckind (c : pc) : nat :=
    match c with
    | P0 | PWx | PWsz | PWsh | PV0 | PV1 | PV2 | PV3 | PS => 0
    | U0 => 1
    | Q0 | Q1 | QA1 | QA2 | QB1 | QB2 | QB3 | QB4 | QB5 | QG1 | QG2 | QS1 | QS2 | QS3 | QB9
    | QW1 | QW2 | QU1 | QU2 | QU3 | QU4 | QU5 | QU6 | QU7 => 2
    | B1 | B2 => 3
    | Z1 | Z2 | Z3 | Z4 | Z5 => 4
    | PErr _ => 5
    end%nat.
  Definition segkind (sg : seg) : nat :=
    match sg with
    | SPro _ _ _ => 0 | SUse _ => 1 | SUseSpl _ _ => 1 | SPoly _ _ => 2 | SBody _ => 3 | SBodyPinv _ => 3
    | SSpl _ _ => 4
    end%nat.

  Definition anyh (h : helper) : Prop := True.

  Definition pcfact (s : shared) (l : local) : Prop :=
    let k := lrp l in
    match lpc l with
    | PWsz => x0 = false
    | PWsh => x0 = false /\ ssize s = Some N
    | PWx => x0 = false /\ ssize s = Some N /\ sshape s = Some N
    | PV0 | PV1 | PV2 | PV3 => dup = false /\ sx s = Some (N, dup)
    | PS => sx s = Some (N, dup)
    | QA1 | QA2 => wm = false
    | QB1 => spoly s <> None
    | QB2 | QB3 | QB4 | QG1 => spoly s <> None /\ hfact s k anyh
    | QB5 => spoly s <> None /\ hfact s k anyh /\ (p <= q0 \/ hfact s k (fun h => ho h = p))
    | QG2 | QS3 => spoly s <> None /\ hfact s k (fun h => hv h = Some p)
    | QS1 => spoly s <> None /\ hfact s k anyh /\ p < q0
    | QS2 => spoly s <> None /\ hfact s k anyh /\ p < q0 /\ (lrv l = Some q0 \/ lrv l = Some p)
    | QB9 => spoly s <> None /\ hfact s k (fun h => hv h = Some p /\ (hs h = false -> hp h = Some p))
    | QW1 | QU1 => ldp l = true
    | B2 => hfact s k (fun h => ho h = p)
    | QW2 | QU2 | QU4 => ldp l = true /\ hfact s k (fun h => ho h = p)
    | QU3 | QU6 | QU7 => ldp l = true /\ hfact s k (fun h => ho h = p /\ hp h = Some p)
    | QU5 => ldp l = true /\ hfact s k (fun h => ho h = p) /\ lrv l = Some p
    | Z2 => sspl s <> None
    | Z5 => sspl s = Some kd
    | PErr _ => False
    | _ => True
    end.

  Definition Lcore (s : shared) (l : local) : Prop :=
    Forall use_ok (luses l) /\ (ldp l = true -> Lset s) /\ (lds l = true -> sspl s = Some kd) /\
    (lcur l = None \/ lcur l = Some (Some p)) /\ (ldx l = true -> sx s = Some (N, dup)).

  Definition L (s : shared) (l : local) : Prop :=
    Lcore s l /\ (forall e, lpc l <> PErr e) /\ Forall seg_ok (ltodo l) /\ wf (x0 || ldx l) (ldp l) (lds l) (ltodo l) /\
    match ltodo l with
    | [] => True
    | sg :: _ => pckind (lpc l) = segkind sg /\ pcfact s l
    end.

  (* ---------- helper facts ---------- *)
  Lemma Rh_refl : forall h, Rh h h.
  Proof. unfold Rh; intuition. Qed.

  Lemma R_refl : forall s, R s s.
  Proof. unfold R, RX; intros; repeat split; auto. intros; eauto using Rh_refl. Qed.

  Lemma hfact_R : forall s s' k (F : helper -> Prop),
    R s s' -> (forall h h', Rh h h' -> F h -> F h') -> hfact s k F -> hfact s' k F.
  Proof.
    intros s s' k F (_ & _ & _ & _ & HR) HF (h & Hg & Hh).
    destruct (HR _ _ Hg) as (h' & Hg' & Hrh). exists h'; eauto.
  Qed.

  Ltac rh := unfold Rh, anyh; intros; intuition.

  Lemma stable : forall s s' l, G s -> G s' -> R s s' -> L s l -> L s' l.
  Proof.
    intros s s' l HG HG' HR (HC & HE & HS & HW & HP).
    assert (HR' := HR). destruct HR' as ((RX1 & RX2 & RX3) & RL & (RS & RS') & RP & RH).
    split; [|split; [|split; [|split]]]; auto.
    - destruct HC as (A & B & C & D & E). repeat split; auto.
    - destruct (ltodo l) as [|sg rest]; auto.
      destruct HP as (HK & HF). split; auto.
      unfold pcfact in *.
      destruct (lpc l); auto;
        repeat match goal with
               | H : _ /\ _ |- _ => destruct H
               | |- _ /\ _ => split
               end; auto;
        try (eapply hfact_R; [exact HR| |eassumption]; rh).
      destruct H1 as [?|?]; [left; auto|right].
      eapply hfact_R; [exact HR| |eassumption]; rh.
  Qed.

  (* ---------- shared-state update lemmas ---------- *)
  Ltac splitG := unfold G; simpl; split; [auto|split; [|split; [|split; [|auto]]]].
  Lemma geth_upd_same : forall s k f h, geth s k = Some h -> geth (upd_h s k f) k = Some (f h).
  Proof. unfold geth, upd_h; simpl; intros. apply nth_upd_same; auto. Qed.

  Lemma geth_upd_other : forall s k f j, k <> j -> geth (upd_h s k f) j = geth s j.
  Proof. unfold geth, upd_h; simpl; intros. apply nth_upd_other; auto. Qed.

  Lemma G_upd : forall s k f h, G s -> geth s k = Some h -> Hinv (f h) -> G (upd_h s k f).
  Proof.
    intros s k f h (A & D & E & F & H) Hg Hf.
    splitG.
    - intros j h' Hj. unfold geth in Hj; simpl in Hj.
      destruct (nth_upd_inv _ _ _ _ _ Hj) as (h0 & H0 & [->|[-> ->]]).
      + eapply D; eauto.
      + unfold geth in Hg. rewrite Hg in H0. inversion H0; subst; auto.
    - intros j Hj. destruct (E j Hj) as (h1 & H1).
      destruct (Nat.eq_dec k j) as [->|Hne].
      + exists (f h1). apply geth_upd_same; auto.
      + exists h1. rewrite geth_upd_other; auto.
    - destruct wm; auto. destruct F; split; auto. rewrite upd_length; auto.
  Qed.

  Lemma R_upd : forall s k f h, geth s k = Some h -> Rh h (f h) -> R s (upd_h s k f).
  Proof.
    intros s k f h Hg Hr.
    assert (HH : forall j hj, geth s j = Some hj -> exists h', geth (upd_h s k f) j = Some h' /\ Rh hj h').
    { intros j hj Hj. destruct (Nat.eq_dec k j) as [->|Hne].
      - rewrite Hg in Hj; inversion Hj; subst. exists (f hj); split; auto. apply geth_upd_same; auto.
      - exists hj; split; [rewrite geth_upd_other; auto|apply Rh_refl]. }
    unfold R, RX; repeat split; auto.
    intros (j & Hp & hj & Hj & Ho). exists j; split; auto.
    destruct (HH _ _ Hj) as (h' & Hg' & Hrh). exists h'; split; auto. apply Hrh; auto.
  Qed.

  Lemma R_same : forall s s', RX s s' -> sheap s' = sheap s -> spoly s' = spoly s ->
    (sspl s' = sspl s \/ sspl s' = Some kd) -> R s s'.
  Proof.
    intros s s' Hx Hh Hp Hs. unfold R, Lset, hfact, geth. rewrite Hh, Hp. split; [exact Hx|]. repeat split; auto.
    - destruct Hs as [-> | ->]; auto.
    - destruct Hs as [-> | ->]; auto. discriminate.
    - intros; eauto using Rh_refl.
  Qed.

  Definition born : helper := mkH (Some p) p true None.

  Lemma geth_publish_old : forall s h k hk, geth s k = Some hk -> geth (publish s h) k = Some hk.
  Proof.
    unfold geth, publish; simpl; intros. rewrite nth_error_app1; auto.
    apply nth_error_Some. congruence.
  Qed.

  Lemma geth_publish_new : forall s h, geth (publish s h) (length (sheap s)) = Some h.
  Proof.
    unfold geth, publish; simpl; intros. rewrite nth_error_app2 by lia.
    rewrite Nat.sub_diag. reflexivity.
  Qed.

  Lemma geth_publish_inv : forall s h k hk, geth (publish s h) k = Some hk ->
    geth s k = Some hk \/ hk = h.
  Proof.
    unfold geth, publish; simpl; intros s h k hk H.
    destruct (Nat.lt_ge_cases k (length (sheap s))).
    - rewrite nth_error_app1 in H; auto.
    - rewrite nth_error_app2 in H by auto.
      destruct (k - length (sheap s))%nat; simpl in H; [inversion H; auto|].
      destruct n; discriminate.
  Qed.

  Lemma Hinv_born : Hinv born.
  Proof. unfold Hinv, born; simpl. repeat split; auto; discriminate. Qed.

  Lemma G_publish : forall s, G s -> wm = false -> G (publish s born).
  Proof.
    intros s (A & D & E & F & H) Hw. splitG.
    - intros k h Hk. destruct (geth_publish_inv _ _ _ _ Hk) as [? | ->]; eauto using Hinv_born.
    - intros k Hk. inversion Hk; subst. exists born. apply geth_publish_new.
    - rewrite Hw in *. auto.
  Qed.

  Lemma Lset_publish : forall s, Lset (publish s born).
  Proof.
    intros s. exists (length (sheap s)). split; [reflexivity|].
    exists born; split; [apply geth_publish_new|reflexivity].
  Qed.

  Lemma R_publish : forall s, R s (publish s born).
  Proof.
    intros s. unfold R, RX; repeat split; auto.
    - intros _. apply Lset_publish.
    - simpl. discriminate.
    - intros k h Hk. exists h; split; [apply geth_publish_old; auto|apply Rh_refl].
  Qed.

  Lemma G_spl : forall s, G s -> G (set_spl s (Some kd)).
  Proof. intros s (A & D & E & F & H). splitG; auto. Qed.

  Lemma G_valid : forall s b, G s -> G (set_valid s b).
  Proof. intros s b (A & D & E & F & H). splitG; auto. Qed.

  Lemma cold_ho : forall s k h, G s -> wm = false -> geth s k = Some h -> ho h = p.
  Proof.
    intros s k h (A & D & E & F & H) Hw Hg. rewrite Hw in F.
    destruct (D _ _ Hg) as (_ & [Ho|Ho] & _); congruence.
  Qed.

  Lemma warm_ptr : forall s k h, G s -> wm = true -> geth s k = Some h -> k = 0%nat /\ spoly s = Some 0%nat.
  Proof.
    intros s k h (A & D & E & F & H) Hw Hg. rewrite Hw in F. destruct F as (F1 & F2).
    split; auto. unfold geth in Hg.
    assert (k < length (sheap s))%nat by (apply nth_error_Some; congruence). lia.
  Qed.

  (* after `poly_order := p` on the helper a thread holds, the published helper has order p *)
  Lemma Lset_after_order : forall s k h, G s -> spoly s <> None -> geth s k = Some h ->
    Lset (upd_h s k (h_set_o p)).
  Proof.
    intros s k h HG Hp Hg.
    destruct (spoly s) as [j|] eqn:Ej; [|congruence].
    assert (HG' := HG). destruct HG' as (A & D & E & F & H).
    destruct (E j Ej) as (hj & Hj).
    exists j; split; [exact Ej|].
    destruct (Nat.eq_dec k j) as [->|Hne].
    - exists (h_set_o p hj); split; [apply geth_upd_same; auto|reflexivity].
    - exists hj; split; [rewrite geth_upd_other; auto|].
      destruct wm eqn:Ew.
      + destruct (warm_ptr _ _ _ HG Ew Hg) as (-> & _).
        destruct (warm_ptr _ _ _ HG Ew Hj) as (-> & _). congruence.
      + eapply cold_ho; eauto.
  Qed.

  Lemma G_size : forall s, G s -> G (set_size s (Some N)).
  Proof.
    intros s ((X1 & X2 & X3 & X4) & D & E & F & H). splitG; auto.
    unfold GX; simpl. repeat split; auto; apply X4; auto.
  Qed.

  Lemma G_shape : forall s, G s -> G (set_shape s (Some N)).
  Proof.
    intros s ((X1 & X2 & X3 & X4) & D & E & F & H). splitG; auto.
    unfold GX; simpl. repeat split; auto; apply X4; auto.
  Qed.

  Lemma G_x : forall s, G s -> dup = false -> ssize s = Some N -> sshape s = Some N ->
    G (set_x s (Some (N, false))).
  Proof.
    intros s ((X1 & X2 & X3 & X4) & D & E & F & H) Hd Hz Hh. splitG; auto.
    unfold GX; simpl. rewrite Hd in *. repeat split; auto.
  Qed.

  Arguments fin : simpl never.

  Lemma fin_fields : forall l, luses (fin l) = luses l /\ ldp (fin l) = ldp l /\ lds (fin l) = lds l /\
    lcur (fin l) = lcur l /\ ldx (fin l) = ldx l.
  Proof. intros l. unfold fin. destruct (ltodo l); simpl; auto. Qed.

  Lemma L_fin : forall s l sg rest, ltodo l = sg :: rest -> Lcore s l -> Forall seg_ok rest ->
    wf (x0 || ldx l) (ldp l) (lds l) rest -> L s (fin l).
  Proof.
    intros s l sg rest Ht HC HS HW.
    destruct (fin_fields l) as (E1 & E2 & E3 & E4 & E5).
    unfold L, Lcore. rewrite E1, E2, E3, E4, E5.
    split; [exact HC|].
    unfold fin; rewrite Ht; simpl.
    destruct rest as [|sg' rest']; simpl.
    - repeat split; auto; discriminate.
    - split; [destruct sg'; discriminate|]. split; [auto|]. split; [exact HW|].
      split; destruct sg'; simpl; auto; exact I.
  Qed.

  Lemma wf_mono : forall r dx dp ds, wf dx dp ds r -> wf dx true ds r.
  Proof.
    induction r as [|a r IH]; simpl; auto.
    intros dx dp ds H. destruct a; try destruct m; simpl in *; intuition eauto.
  Qed.

  Lemma Hinv_ho_p : forall h, Hinv h -> ho h = p -> hv h = Some p /\ (hs h = false -> hp h = Some p).
  Proof. unfold Hinv; intros h (A & B & C & D) Ho. split; auto. intros Hs. destruct (D Hs); congruence. Qed.

  Ltac mkL := unfold L, Lcore, pcfact; simpl;
    repeat match goal with |- _ /\ _ => split end; auto; try (intros; discriminate);
    try (constructor; simpl; auto; fail); try congruence.
  Ltac lcore := unfold Lcore; simpl;
    repeat match goal with |- _ /\ _ => split end; auto; try (constructor; simpl; auto).
  Ltac hinv := unfold Hinv, h_set_v, h_set_o, h_set_s, h_set_p in *; simpl in *; intuition (try congruence).
  Ltac rhh := unfold Rh, h_set_v, h_set_o, h_set_s, h_set_p; simpl; intuition (try congruence).

  Lemma step_ok : forall s l, G s -> L s l ->
    G (fst (step s l)) /\ L (fst (step s l)) (snd (step s l)) /\ R s (fst (step s l)).
  Proof.
    intros s l HG HL0.
    assert (HG0 := HG). destruct HG0 as (GXs & Ghi & Gp & Gm & Gsp).
    assert (HL := HL0). destruct HL as (HC & HE & HS & HW & HP).
    destruct l as [pc todo rp ro rv cur n dp ds dx uses]; simpl in *.
    destruct todo as [|sg rest].
    { unfold step, step3; simpl. split; [auto|split; [exact HL0|apply R_refl]]. }
    destruct HP as (HK & HF).
    inversion HS as [|? ? Hsg HSr]; subst.
    destruct HC as (C1 & C2 & C3 & C4 & C5); simpl in *.
    destruct HW as (Hdx & HW).
    destruct GXs as (X1 & X2 & X3 & X4).
    assert (Hxk : (x0 || dx) = true -> sx s = Some (N, dup) /\ ssize s = Some N /\ sshape s = Some N).
    { intros Hk. assert (Hx : sx s = Some (N, dup)).
      { apply orb_true_iff in Hk. destruct Hk; auto. }
      split; auto. apply X4. congruence. }
    destruct pc; destruct sg; simpl in HK; try discriminate HK;
      unfold pcfact in HF; simpl in HF; try contradiction;
      unfold step, step3; simpl;
      try (destruct (Hxk Hdx) as (Gx & Gsz & Gsh)).
    - (* P0 *)
      destruct Hsg as (-> & Hu & Hd0).
      destruct X1 as [Ex|Ex]; rewrite Ex.
      + assert (Hx0 : x0 = false) by (destruct x0; auto; specialize (X2 eq_refl); congruence).
        rewrite (Hd0 Hx0). split; [exact HG|split; [|apply R_refl]]. mkL.
      + split; [exact HG|split; [|apply R_refl]].
        destruct uniq; [|destruct hasdata].
        * mkL.
        * mkL.
        * eapply L_fin; [reflexivity|lcore|auto|simpl; rewrite orb_true_r; exact HW].
    - (* PWx *)
      destruct Hsg as (-> & Hu & Hd0). destruct HF as (Hx0 & Hz & Hh).
      assert (Hd := X3 Hx0).
      assert (HG' : G (set_x s (Some (N, false)))) by (apply G_x; auto).
      assert (HR : R s (set_x s (Some (N, false)))).
      { apply R_same; simpl; auto. unfold RX; simpl. rewrite Hd. auto. }
      split; [exact HG'|split; [|exact HR]].
      destruct (stable _ _ _ HG HG' HR HL0) as ((D1 & D2 & D3 & D4 & D5) & _); simpl in *.
      eapply L_fin; [reflexivity|lcore; rewrite Hd; auto|auto|simpl; rewrite orb_true_r; exact HW].
    - (* PWsz *)
      destruct Hsg as (-> & Hu & Hd0).
      assert (HG' : G (set_size s (Some N))) by (apply G_size; auto).
      assert (HR : R s (set_size s (Some N))).
      { apply R_same; simpl; auto. unfold RX; simpl. auto. }
      split; [exact HG'|split; [|exact HR]].
      destruct (stable _ _ _ HG HG' HR HL0) as ((D1 & D2 & D3 & D4 & D5) & _); simpl in *.
      mkL.
    - (* PWsh *)
      destruct Hsg as (-> & Hu & Hd0). destruct HF as (Hx0 & Hz).
      assert (HG' : G (set_shape s (Some N))) by (apply G_shape; auto).
      assert (HR : R s (set_shape s (Some N))).
      { apply R_same; simpl; auto. unfold RX; simpl. auto. }
      split; [exact HG'|split; [|exact HR]].
      destruct (stable _ _ _ HG HG' HR HL0) as ((D1 & D2 & D3 & D4 & D5) & _); simpl in *.
      mkL.
    - (* PV0 *)
      destruct HF as (Hd & Hx).
      split; [exact HG|split; [|apply R_refl]].
      destruct (svalid s); [destruct hasdata|].
      + mkL.
      + eapply L_fin; [reflexivity|lcore|auto|simpl; rewrite orb_true_r; exact HW].
      + mkL.
    - (* PV1 *) split; [exact HG|split; [|apply R_refl]]. mkL; tauto.
    - (* PV2 *) destruct HF as (Hd & Hx). rewrite Hx, Hd. split; [exact HG|split; [|apply R_refl]].
      mkL.
    - (* PV3 *)
      destruct HF as (Hd & Hx).
      assert (HG' : G (set_valid s true)) by (apply G_valid; auto).
      assert (HR : R s (set_valid s true)) by (apply R_same; simpl; auto; unfold RX; simpl; auto).
      split; [exact HG'|split; [|exact HR]].
      destruct (stable _ _ _ HG HG' HR HL0) as ((D1 & D2 & D3 & D4 & D5) & _); simpl in *.
      destruct hasdata.
      + mkL.
      + eapply L_fin; [reflexivity|lcore|auto|simpl; rewrite orb_true_r; exact HW].
    - (* PS *)
      destruct Hsg as (-> & Hu & Hd0).
      assert (Hnn : sx s <> None) by congruence. destruct (X4 Hnn) as (Gsz & Gsh).
      rewrite Gsz. simpl. rewrite Z.eqb_refl.
      split; [exact HG|split; [|apply R_refl]].
      eapply L_fin; [reflexivity|lcore|auto|simpl; rewrite orb_true_r; exact HW].
    - (* U0 SUse *)
      destruct Hsg as [Hc | [Hc | Hc]]; subst c; simpl; try rewrite Gsh;
        (split; [exact HG|split; [|apply R_refl]]);
        (eapply L_fin; [reflexivity|lcore|auto|exact HW]).
    - (* U0 SUseSpl *)
      split; [exact HG|split; [|apply R_refl]]. destruct HW as (-> & HW).
      eapply L_fin; [reflexivity|lcore|auto|exact HW].
    - (* Q0 *)
      rewrite Gsz. split; [exact HG|split; [|apply R_refl]].
      destruct m.
      + eapply L_fin; [reflexivity|lcore|auto|exact HW].
      + mkL.
      + mkL.
      + mkL.
    - (* Q1 *)
      split; [exact HG|split; [|apply R_refl]].
      destruct (spoly s) eqn:Ep.
      + mkL.
      + mkL. destruct wm; auto. destruct Gm; congruence.
    - (* QA1 *) split; [exact HG|split; [|apply R_refl]]. mkL.
    - (* QA2 *)
      simpl in Hsg; subst p0. change (mkH (Some p) p true None) with born.
      assert (HG' : G (publish s born)) by (apply G_publish; auto).
      assert (HR : R s (publish s born)) by apply R_publish.
      split; [exact HG'|split; [|exact HR]].
      destruct (stable _ _ _ HG HG' HR HL0) as ((D1 & D2 & D3 & D4 & D5) & _); simpl in *.
      assert (HLs := Lset_publish s).
      destruct m; simpl.
      + eapply L_fin; [reflexivity|lcore|auto|simpl; eapply wf_mono; exact HW].
      + eapply L_fin; [reflexivity|lcore|auto|exact HW].
      + mkL.
      + mkL.
    - (* QB1 *)
      split; [exact HG|split; [|apply R_refl]].
      destruct (spoly s) as [k|] eqn:Ep; [|congruence].
      mkL. destruct (Gp _ eq_refl) as (h & Hh). exists h; unfold anyh; auto.
    - (* QB2 *) split; [exact HG|split; [|apply R_refl]]. mkL; tauto.
    - (* QB3 *)
      split; [exact HG|split; [|apply R_refl]].
      destruct HF as (Hp & h & Hh & _). rewrite Hh.
      destruct (hv h); mkL; exists h; unfold anyh; auto.
    - (* QB4 *)
      split; [exact HG|split; [|apply R_refl]].
      destruct HF as (Hp & h & Hh & _). rewrite Hh. simpl in Hsg; subst p0.
      destruct (ho h <? p) eqn:El; mkL; try (exists h; unfold anyh; auto).
      apply Z.ltb_ge in El. destruct (Ghi _ _ Hh) as (_ & [Ho|Ho] & _).
      * left; lia.
      * right; exists h; auto.
    - (* QB5 *)
      split; [exact HG|split; [|apply R_refl]].
      destruct HF as (Hp & (h & Hh & _) & Hor). rewrite Hh. simpl in Hsg; subst p0.
      assert (Hi := Ghi _ _ Hh).
      destruct (p <? ho h) eqn:El.
      + apply Z.ltb_lt in El. mkL; try (exists h; unfold anyh; auto).
        destruct Hi as (_ & [Ho|Ho] & _); lia.
      + apply Z.ltb_ge in El.
        assert (Hop : ho h = p).
        { destruct Hor as [Hle|(h2 & Hh2 & Ho2)]; [|congruence].
          destruct Hi as (_ & [Ho|Ho] & _); lia. }
        mkL. exists h; split; auto. apply Hinv_ho_p; auto.
    - (* QG1 *)
      simpl in Hsg; subst p0. destruct HF as (Hp & h & Hh & _).
      assert (Hi := Ghi _ _ Hh).
      assert (HG' : G (upd_h s rp (h_set_v (Some p)))) by (eapply G_upd; eauto; hinv).
      assert (HR : R s (upd_h s rp (h_set_v (Some p)))) by (eapply R_upd; eauto; rhh).
      split; [exact HG'|split; [|exact HR]].
      destruct (stable _ _ _ HG HG' HR HL0) as ((D1 & D2 & D3 & D4 & D5) & _); simpl in *.
      mkL. exists (h_set_v (Some p) h); split; [apply geth_upd_same; auto|reflexivity].
    - (* QG2 *)
      destruct HF as (Hp & h & Hh & Hv).
      assert (Hi := Ghi _ _ Hh).
      assert (HG' : G (upd_h s rp (h_set_s true))) by (eapply G_upd; eauto; hinv).
      assert (HR : R s (upd_h s rp (h_set_s true))) by (eapply R_upd; eauto; rhh).
      split; [exact HG'|split; [|exact HR]].
      destruct (stable _ _ _ HG HG' HR HL0) as ((D1 & D2 & D3 & D4 & D5) & _); simpl in *.
      mkL. exists (h_set_s true h); split; [apply geth_upd_same; auto|].
      simpl; split; auto; discriminate.
    - (* QS1 *)
      split; [exact HG|split; [|apply R_refl]].
      destruct HF as (Hp & (h & Hh & _) & Hlt). rewrite Hh.
      destruct (Ghi _ _ Hh) as ([Hv|Hv] & _); rewrite Hv; mkL; exists h; unfold anyh; auto.
    - (* QS2 *)
      simpl in Hsg; subst p0. destruct HF as (Hp & (h & Hh & _) & Hlt & Hrv).
      assert (Hi := Ghi _ _ Hh).
      assert (Ev : match rv with Some r => Some (Z.min r p) | None => None end = Some p).
      { destruct Hrv as [-> | ->]; f_equal; lia. }
      rewrite Ev.
      assert (HG' : G (upd_h s rp (h_set_v (Some p)))) by (eapply G_upd; eauto; hinv).
      assert (HR : R s (upd_h s rp (h_set_v (Some p)))) by (eapply R_upd; eauto; rhh).
      split; [exact HG'|split; [|exact HR]].
      destruct (stable _ _ _ HG HG' HR HL0) as ((D1 & D2 & D3 & D4 & D5) & _); simpl in *.
      mkL. exists (h_set_v (Some p) h); split; [apply geth_upd_same; auto|reflexivity].
    - (* QS3 *)
      destruct HF as (Hp & h & Hh & Hv).
      assert (Hi := Ghi _ _ Hh).
      assert (HG' : G (upd_h s rp (h_set_s true))) by (eapply G_upd; eauto; hinv).
      assert (HR : R s (upd_h s rp (h_set_s true))) by (eapply R_upd; eauto; rhh).
      split; [exact HG'|split; [|exact HR]].
      destruct (stable _ _ _ HG HG' HR HL0) as ((D1 & D2 & D3 & D4 & D5) & _); simpl in *.
      mkL. exists (h_set_s true h); split; [apply geth_upd_same; auto|].
      simpl; split; auto; discriminate.
    - (* QB9 *)
      simpl in Hsg; subst p0. destruct HF as (Hp & h & Hh & Hv & Hsp).
      assert (Hi := Ghi _ _ Hh).
      assert (HG' : G (upd_h s rp (h_set_o p))) by (eapply G_upd; eauto; hinv).
      assert (HR : R s (upd_h s rp (h_set_o p))) by (eapply R_upd; eauto; rhh).
      split; [exact HG'|split; [|exact HR]].
      destruct (stable _ _ _ HG HG' HR HL0) as ((D1 & D2 & D3 & D4 & D5) & _); simpl in *.
      assert (HLs : Lset (upd_h s rp (h_set_o p))) by (eapply Lset_after_order; eauto).
      destruct m; simpl.
      + eapply L_fin; [reflexivity|lcore|auto|simpl; eapply wf_mono; exact HW].
      + eapply L_fin; [reflexivity|lcore|auto|exact HW].
      + mkL.
      + mkL.
    - (* QW1 *)
      split; [exact HG|split; [|apply R_refl]].
      destruct (C2 HF) as (k & Hk & Hf). rewrite Hk. mkL.
    - (* QW2 *)
      split; [exact HG|split; [|apply R_refl]].
      simpl in Hsg; subst p0. destruct HF as (-> & h & Hh & Ho). rewrite Hh.
      destruct (Hinv_ho_p _ (Ghi _ _ Hh) Ho) as (Hv & _). rewrite Hv.
      eapply L_fin; [reflexivity|lcore|auto|destruct m; exact HW].
    - (* QU1 *)
      split; [exact HG|split; [|apply R_refl]].
      destruct (C2 HF) as (k & Hk & Hf). rewrite Hk. mkL.
    - (* QU2 *)
      split; [exact HG|split; [|apply R_refl]].
      destruct HF as (Hdp & h & Hh & Ho). rewrite Hh.
      destruct (Hinv_ho_p _ (Ghi _ _ Hh) Ho) as (Hv & Hsp).
      destruct (hs h) eqn:Es; mkL; exists h; auto.
    - (* QU3 *)
      split; [exact HG|split; [|apply R_refl]].
      destruct HF as (Hdp & h & Hh & Ho & Hpp). rewrite Hh, Hpp. mkL. exists h; auto.
    - (* QU4 *)
      split; [exact HG|split; [|apply R_refl]].
      destruct HF as (Hdp & h & Hh & Ho). rewrite Hh.
      destruct (Hinv_ho_p _ (Ghi _ _ Hh) Ho) as (Hv & Hsp).
      mkL. exists h; auto.
    - (* QU5 *)
      destruct HF as (Hdp & (h & Hh & Ho) & ->).
      assert (Hi := Ghi _ _ Hh).
      assert (HG' : G (upd_h s rp (h_set_p (Some p)))) by (eapply G_upd; eauto; hinv).
      assert (HR : R s (upd_h s rp (h_set_p (Some p)))) by (eapply R_upd; eauto; rhh).
      split; [exact HG'|split; [|exact HR]].
      destruct (stable _ _ _ HG HG' HR HL0) as ((D1 & D2 & D3 & D4 & D5) & _); simpl in *.
      mkL. exists (h_set_p (Some p) h); split; [apply geth_upd_same; auto|simpl; auto].
    - (* QU6 *)
      destruct HF as (Hdp & h & Hh & Ho & Hpp).
      assert (Hi := Ghi _ _ Hh).
      assert (HG' : G (upd_h s rp (h_set_s false))) by (eapply G_upd; eauto; hinv).
      assert (HR : R s (upd_h s rp (h_set_s false))) by (eapply R_upd; eauto; rhh).
      split; [exact HG'|split; [|exact HR]].
      destruct (stable _ _ _ HG HG' HR HL0) as ((D1 & D2 & D3 & D4 & D5) & _); simpl in *.
      mkL. exists (h_set_s false h); split; [apply geth_upd_same; auto|simpl; auto].
    - (* QU7 *)
      split; [exact HG|split; [|apply R_refl]].
      simpl in Hsg; subst p0. destruct HF as (-> & h & Hh & Ho & Hpp). rewrite Hh, Hpp.
      eapply L_fin; [reflexivity|lcore|auto|destruct m; exact HW].
    - (* B1 SBody *)
      split; [exact HG|split; [|apply R_refl]]. destruct HW as (-> & HW).
      destruct (C2 eq_refl) as (k & Hk & Hf). rewrite Hk. mkL.
    - (* B1 SBodyPinv *)
      split; [exact HG|split; [|apply R_refl]]. destruct HW as (-> & HW).
      destruct (C2 eq_refl) as (k & Hk & Hf). rewrite Hk. mkL.
    - (* B2 SBody *)
      split; [exact HG|split; [|apply R_refl]]. destruct HW as (-> & HW).
      simpl in Hsg; subst p0. destruct HF as (h & Hh & Ho). rewrite Hh.
      destruct (Hinv_ho_p _ (Ghi _ _ Hh) Ho) as (Hv & _). rewrite Hv.
      destruct C4 as [-> | ->]; simpl; try rewrite Z.eqb_refl;
        (eapply L_fin; [reflexivity|lcore|auto|exact HW]).
    - (* B2 SBodyPinv *)
      split; [exact HG|split; [|apply R_refl]]. destruct HW as (-> & HW).
      simpl in Hsg; subst p0. destruct HF as (h & Hh & Ho). rewrite Hh.
      destruct (Hinv_ho_p _ (Ghi _ _ Hh) Ho) as (Hv & _). rewrite Hv.
      eapply L_fin; [reflexivity|lcore|auto|exact HW].
    - (* Z1 *)
      split; [exact HG|split; [|apply R_refl]].
      destruct (sspl s) eqn:Es; mkL; intros Hd; rewrite Es; auto.
    - (* Z2 *)
      split; [exact HG|split; [|apply R_refl]].
      destruct (sspl s) as [[k' d']|] eqn:Es; [|congruence].
      destruct ((k =? k') && (d =? d')) eqn:Ek; mkL; try (intros Hd; rewrite Es; auto; fail).
      rewrite Es. apply andb_prop in Ek. destruct Ek as (E1 & E2).
      apply Z.eqb_eq in E1. apply Z.eqb_eq in E2. subst. simpl in Hsg. congruence.
    - (* Z3 *) split; [exact HG|split; [|apply R_refl]]. mkL.
    - (* Z4 *)
      simpl in Hsg. rewrite Hsg.
      assert (HG' : G (set_spl s (Some kd))) by (apply G_spl; auto).
      assert (HR : R s (set_spl s (Some kd))) by (apply R_same; simpl; auto; unfold RX; simpl; auto).
      split; [exact HG'|split; [|exact HR]].
      destruct (stable _ _ _ HG HG' HR HL0) as ((D1 & D2 & D3 & D4 & D5) & _); simpl in *.
      mkL.
    - (* Z5 *)
      split; [exact HG|split; [|apply R_refl]]. rewrite HF.
      eapply L_fin; [reflexivity|lcore|auto|exact HW].
  Qed.

  Lemma L_init : forall s prog, Forall seg_ok prog -> wf x0 false false prog -> L s (init_local prog).
  Proof.
    intros s prog HS HW. unfold L, Lcore, init_local; simpl. rewrite orb_false_r.
    repeat match goal with |- _ /\ _ => split end; auto; try discriminate.
    - destruct prog as [|sg r]; [discriminate|destruct sg; discriminate].
    - destruct prog as [|sg r]; auto. split; destruct sg; simpl; auto; exact I.
  Qed.

  Lemma use_ok_b : forall u, use_ok u -> use_okb (Some (N, dup)) u = true.
  Proof.
    destruct u; simpl.
    - intros (-> & ->). simpl. apply Z.eqb_refl.
    - intros (-> & ->). simpl. apply Z.eqb_refl.
    - intros ->. simpl. apply Z.eqb_refl.
    - intros ->. simpl. apply Z.eqb_refl.
    - intros ->. rewrite Z.eqb_refl. destruct dup; reflexivity.
    - destruct want as (k, d). intros (<- & ->). rewrite !Z.eqb_refl. reflexivity.
  Qed.

  Lemma L_outcome : forall s l, L s l ->
    (forall e, lpc l <> PErr e) /\ Forall use_ok (luses l) /\
    (outcome (Some (N, dup)) l = 0 \/ (outcome (Some (N, dup)) l = 9 /\ ltodo l <> [])).
  Proof.
    intros s l ((C1 & _) & HE & _). repeat split; auto.
    unfold outcome.
    assert (Hf : forallb (use_okb (Some (N, dup))) (luses l) = true).
    { apply forallb_forall. intros u Hu. apply use_ok_b. rewrite Forall_forall in C1; auto. }
    rewrite Hf.
    destruct (lpc l) eqn:E; destruct (ltodo l); auto; try (right; split; [reflexivity|discriminate]).
    exfalso; eapply HE; eauto.
  Qed.
End Safe.

(* ---------- the unbounded theorems ---------- *)
Definition cache_consistent (h : helper) : Prop :=
  hv h = Some (ho h) /\ (hs h = false -> hp h = Some (ho h)).

(* x present when the threads start: any validated flag, polynomial cache cold or warm, any spline key *)
Definition init_shared (N : Z) (dup v0 : bool) (cache : option helper) (spl0 : option (Z * Z)) : shared :=
  warm (Some (N, dup)) v0 cache spl0.

(* a freshly created object without x_data: x, _size, _shape unset, _validated_x = True, caches empty *)
Definition fresh_shared : shared := cold None true.

Definition prog_ok (x0 : bool) (N p : Z) (dup : bool) (kd : Z * Z) (prog : list seg) : Prop :=
  Forall (seg_ok N p dup x0 kd) prog /\ wf x0 false false prog.

Lemma G_init_warm : forall N p kd dup x0 v0 h spl0 xv,
  cache_consistent h ->
  (xv = None \/ xv = Some (N, dup)) -> (x0 = true -> xv = Some (N, dup)) -> (x0 = false -> dup = false) ->
  G N p (ho h) dup true x0 kd spl0 (warm xv v0 (Some h) spl0) \/ xv = None.
Proof.
  intros N p kd dup x0 v0 h spl0 xv (Hv & Hs) Hx1 Hx2 Hx3.
  destruct xv as [[n d]|]; [left|right; reflexivity].
  assert (E : Some (n, d) = Some (N, dup)) by (destruct Hx1; congruence). inversion E; subst.
  unfold G, GX, warm; simpl.
  split; [repeat split; auto|split; [|split; [|split; [|auto]]]].
  - intros k h' Hk. unfold geth in Hk; simpl in Hk.
    destruct k; simpl in Hk; [inversion Hk; subst|destruct k; discriminate].
    unfold Hinv. split; [auto|split; [auto|split; [intros E'; rewrite Hv; congruence|]]].
    intros Hsf. destruct (Z.eq_dec (ho h') p); [left; rewrite Hs; congruence|right; auto].
  - intros k Hk. inversion Hk; subst. exists h. reflexivity.
  - auto.
Qed.

Theorem single_order_inv : forall N p kd dup v0 cache spl0 progs sched,
  match cache with Some h => cache_consistent h | None => True end ->
  Forall (prog_ok true N p dup kd) progs ->
  exists q0 wm,
    let st := run_sched sched (init_shared N dup v0 cache spl0, map init_local progs) in
    G N p q0 dup wm true kd spl0 (fst st) /\ Forall (L N p q0 dup wm true kd (fst st)) (snd st).
Proof.
  intros N p kd dup v0 cache spl0 progs sched Hc Hp.
  destruct cache as [h|].
  - exists (ho h), true. cbv zeta. unfold run_sched.
    apply run_inv with (R := R N p dup kd).
    + intros; apply step_ok; auto.
    + intros s s' l Hg Hg' Hr Hl. eapply stable with (s := s); eassumption.
    + destruct (G_init_warm N p kd dup true v0 h spl0 (Some (N, dup)) Hc) as [HG|HG]; auto; discriminate.
    + rewrite Forall_forall in *. intros l Hl. apply in_map_iff in Hl.
      destruct Hl as (prog & <- & Hin). destruct (Hp _ Hin). apply L_init; auto.
  - exists p, false. cbv zeta. unfold run_sched.
    apply run_inv with (R := R N p dup kd).
    + intros; apply step_ok; auto.
    + intros s s' l Hg Hg' Hr Hl. eapply stable with (s := s); eassumption.
    + unfold G, GX, init_shared, warm; simpl.
      split; [repeat split; auto; discriminate|split; [|split; [|split; [reflexivity|auto]]]].
      * intros k h' Hk. unfold geth in Hk; simpl in Hk. destruct k; discriminate.
      * intros k Hk. discriminate.
    + rewrite Forall_forall in *. intros l Hl. apply in_map_iff in Hl.
      destruct Hl as (prog & <- & Hin). destruct (Hp _ Hin). apply L_init; auto.
Qed.

(* For ANY number of threads, ANY schedule, warm or cold cache: no thread reaches an error state, every
   value read for use is the serial one, and every thread that has finished has outcome 0. *)
Theorem single_order_safe : forall N p kd dup v0 cache spl0 progs sched,
  match cache with Some h => cache_consistent h | None => True end ->
  Forall (prog_ok true N p dup kd) progs ->
  let st := run_sched sched (init_shared N dup v0 cache spl0, map init_local progs) in
  length (snd st) = length progs /\
  Forall (fun l => (forall e, lpc l <> PErr e) /\ Forall (use_ok N p dup kd) (luses l) /\
                   (outcome (Some (N, dup)) l = 0 \/ (outcome (Some (N, dup)) l = 9 /\ ltodo l <> [])))
         (snd st).
Proof.
  intros N p kd dup v0 cache spl0 progs sched Hc Hp st.
  destruct (single_order_inv N p kd dup v0 cache spl0 progs sched Hc Hp) as (q0 & wm & HG & HL).
  split.
  - unfold st, run_sched. rewrite run_length. simpl. apply map_length.
  - fold st in HL. rewrite Forall_forall in *. intros l Hl.
    eapply L_outcome. apply HL; auto.
Qed.

(* FIRST CALLS on an object created without x_data (x = linspace(-1, 1, N) is created by whichever
   thread comes first; all threads pass data of length N): safe for any number of threads and any schedule. *)
Theorem first_call_inv : forall N p kd progs sched,
  Forall (prog_ok false N p false kd) progs ->
  let st := run_sched sched (fresh_shared, map init_local progs) in
  G N p p false false false kd None (fst st) /\ Forall (L N p p false false false kd (fst st)) (snd st).
Proof.
  intros N p kd progs sched Hp. cbv zeta. unfold run_sched.
  apply run_inv with (R := R N p false kd).
  - intros; apply step_ok; auto.
  - intros s s' l Hg Hg' Hr Hl. eapply stable with (s := s); eassumption.
  - unfold G, GX, fresh_shared, cold; simpl.
    split; [split; [auto|split; [discriminate|split; [auto|intros Hn; exfalso; apply Hn; reflexivity]]]
           |split; [|split; [|split; [reflexivity|auto]]]].
    + intros k h' Hk. unfold geth in Hk; simpl in Hk. destruct k; discriminate.
    + intros k Hk. discriminate.
  - rewrite Forall_forall in *. intros l Hl. apply in_map_iff in Hl.
    destruct Hl as (prog & <- & Hin). destruct (Hp _ Hin). apply L_init; auto.
Qed.

Theorem first_call_safe : forall N p kd progs sched,
  Forall (prog_ok false N p false kd) progs ->
  let st := run_sched sched (fresh_shared, map init_local progs) in
  length (snd st) = length progs /\
  Forall (fun l => (forall e, lpc l <> PErr e) /\ Forall (use_ok N p false kd) (luses l) /\
                   (outcome (Some (N, false)) l = 0 \/ (outcome (Some (N, false)) l = 9 /\ ltodo l <> [])))
         (snd st).
Proof.
  intros N p kd progs sched Hp st.
  destruct (first_call_inv N p kd progs sched Hp) as (HG & HL).
  split.
  - unfold st, run_sched. rewrite run_length. simpl. apply map_length.
  - fold st in HL. rewrite Forall_forall in *. intros l Hl.
    eapply L_outcome. apply HL; auto.
Qed.

(* ---------- witnesses on the faithful model of the CURRENT tree ---------- *)
Definition poly3 : list seg := prog_poly_call false 40 3 MUnw 1.    (* Baseline.poly(y, poly_order=3) *)

(* (1) regression witness for the repaired first call (f1bf5e1: _size is stored before x): the schedule
   that made thread 1 raise before the repair ([0;0;1;1]: thread 0 pre-empted after its second access) now
   gives the serial outcome for both threads; the general statement is first_call_safe. *)
Lemma first_call_regression :
  outcomes 200 (Some (40, false)) [0; 0; 1; 1]%nat (fresh_shared, [init_local poly3; init_local poly3])
    = [0; 0] /\
  prog_ok false 40 3 false (8, 3) poly3.
Proof.
  split; [vm_compute; reflexivity|].
  unfold prog_ok, poly3; simpl. split; [|auto 10].
  repeat constructor; simpl; auto; discriminate.
Qed.

(* (2) adaptive_minmax(poly_order=2) on a shared object (x present): thread 0 is pre-empted inside its
   first sub-call (order 2), thread 1 runs to completion (leaves the helper at order 3). *)
Definition amm : list seg := prog_adaptive_minmax 40 2 2.
Definition amm_sched (k : nat) : list nat := repeat 0%nat k ++ repeat 1%nat 200.
Lemma adaptive_minmax_witness :
  outcomes 1000 (Some (40, false)) (amm_sched 16) (cold (Some (40, false)) false, [init_local amm; init_local amm])
    = [8; 0] /\     (* thread 0: matmul of an order-3 Vandermonde with order-2 coefficients raises *)
  outcomes 1000 (Some (40, false)) (amm_sched 14) (cold (Some (40, false)) false, [init_local amm; init_local amm])
    = [1; 0] /\     (* thread 0: silently fits order 3 in its order-2 sub-call *)
  outcomes 1000 (Some (40, false)) [] (cold (Some (40, false)) false, [init_local amm; init_local amm])
    = [0; 0].
Proof. repeat split; vm_compute; reflexivity. Qed.

(* the hypotheses of single_order_safe are satisfiable by the real call shapes *)
Lemma prog_ok_examples :
  prog_ok true 40 3 false (8, 3) poly3 /\
  prog_ok true 40 3 false (8, 3) (prog_poly_call true 40 3 MWt 4 ++ [SPro false true 40; SSpl 8 3; SUseSpl 8 3]) /\
  cache_consistent (mkH (Some 5) 5 false (Some 5)) /\ cache_consistent (mkH (Some 2) 2 true (Some 7)).
Proof.
  unfold prog_ok, cache_consistent; simpl.
  repeat split; try (repeat constructor; simpl; auto; fail); auto; try discriminate.
Qed.

(* adaptive_minmax is outside the hypothesis: its program requests two different orders *)
Lemma amm_not_single_order : forall p, ~ prog_ok true 40 p false (8, 3) amm.
Proof.
  intros p (H & _). unfold amm, prog_adaptive_minmax in H. simpl in H.
  rewrite Forall_forall in H.
  assert (H2 : seg_ok 40 p false true (8, 3) (SPoly 2 MWt)) by (apply H; simpl; tauto).
  assert (H3 : seg_ok 40 p false true (8, 3) (SPoly (2 + 1) MWt)) by (apply H; simpl; tauto).
  simpl in H2, H3. lia.
Qed.
