(* C04 -- proofs for the 2-D first calls: inductive invariant over all reachable states of n threads
   running the prologue of _Algorithm2D._register.inner (and later reads of x / z / _shape / _size) on a
   Baseline2D created without x and/or z, data of one shape (M, N). *)
From Coq Require Import ZArith List Bool Lia.
From PB Require Import C04.Sched C04.Model2D.
Import ListNotations.
Open Scope Z_scope.

Section Safe2D.
  Variables M N : Z.
  Variables ix iz dupx dupz : bool.

  Definition complete (s : shared2) : Prop := sh2 s = (Some M, Some N) /\ sz2 s = Some (M * N).
  Definition xset (s : shared2) : Prop := x2 s = Some M.
  Definition zset (s : shared2) : Prop := z2 s = Some N.
  Definition xk (s : shared2) : Prop := xset s /\ zset s /\ complete s.

  Definition G2 (s : shared2) : Prop :=
    (x2 s = None \/ x2 s = Some M) /\ (z2 s = None \/ z2 s = Some N) /\
    (ix = true -> x2 s = Some M) /\ (iz = true -> z2 s = Some N) /\
    (x2 s <> None -> fst (sh2 s) = Some M) /\ (z2 s <> None -> snd (sh2 s) = Some N) /\
    (x2 s <> None -> z2 s <> None -> complete s) /\
    (ix = false -> x2 s <> None -> complete s) /\ (iz = false -> z2 s <> None -> complete s).

  Definition R2 (s s' : shared2) : Prop :=
    (xset s -> xset s') /\ (zset s -> zset s') /\
    (sh2 s = (Some M, Some N) -> sh2 s' = (Some M, Some N)) /\ (complete s -> complete s').

  Definition use_ok2 (u : use2) : Prop :=
    match u with
    | U2x g => g = Some M | U2z g => g = Some N
    | U2shape g => g = (Some M, Some N) | U2size g => g = Some (M * N)
    end.

  Definition seg_ok2 (sg : seg2) : Prop :=
    match sg with
    | Pro2 uniq m n => m = M /\ n = N /\ (uniq = true -> dupx = false /\ dupz = false)
    | Use2 c => c = Dx \/ c = Dz \/ c = Dshape \/ c = Dsize
    end.

  Definition FH (s : shared2) (l : local2) : Prop :=
    (qhx l = true -> xset s) /\ (qhz l = true -> zset s).

  Definition pcfact2 (s : shared2) (l : local2) : Prop :=
    match qpc l with
    | A0 => True
    | A1 => qhx l = true -> xset s
    | AC => FH s l /\ qr0 l = Some M /\ qr1 l = Some N /\ (qhx l || qhz l) = true
    | AR0 => FH s l /\ qhx l = true /\ qr1 l = Some N
    | AR1 => FH s l /\ qhz l = true /\ qr0 l = Some M
    | AW => FH s l /\ qr0 l = Some M /\ qr1 l = Some N
    | AP => FH s l /\ sh2 s = (Some M, Some N)
    | AZ => FH s l /\ sh2 s = (Some M, Some N) /\ qprod l = Some (M * N)
    | AX0 => FH s l /\ complete s
    | AX1 => FH s l /\ complete s /\ qr0 l = Some M
    | AVX0 | AVX1 | AVX2 | AVX3 => FH s l /\ complete s /\ xset s /\ dupx = false /\ dupz = false
    | AZ0 => FH s l /\ complete s /\ xset s
    | AZ1 => FH s l /\ complete s /\ xset s /\ qr1 l = Some N
    | AVZ0 | AVZ1 | AVZ2 | AVZ3 => FH s l /\ complete s /\ xset s /\ zset s /\ dupz = false
    | AU => xk s
    | AErr _ => False
    end.

  Definition kind2 (c : pc2) : nat := match c with AU => 1 | AErr _ => 2 | _ => 0 end%nat.
  Definition skind2 (sg : seg2) : nat := match sg with Pro2 _ _ _ => 0 | Use2 _ => 1 end%nat.

  Definition L2 (s : shared2) (l : local2) : Prop :=
    Forall use_ok2 (quses l) /\ (forall e, qpc l <> AErr e) /\ Forall seg_ok2 (qtodo l) /\
    match qtodo l with
    | [] => True
    | sg :: _ => kind2 (qpc l) = skind2 sg /\ pcfact2 s l
    end.

  Lemma R2_refl : forall s, R2 s s.
  Proof. unfold R2; intuition. Qed.

  Lemma stable2 : forall s s' l, G2 s -> G2 s' -> R2 s s' -> L2 s l -> L2 s' l.
  Proof.
    intros s s' l _ _ (RX & RZ & RS & RC) (HU & HE & HS & HP).
    split; [|split; [|split]]; auto.
    destruct (qtodo l); auto. destruct HP as (HK & HF). split; auto.
    unfold pcfact2, FH, xk in *. destruct (qpc l); intuition.
  Qed.

  Ltac g2 := unfold G2, complete, xset, zset in *; simpl in *; intuition (try congruence).

  Lemma G2_sh : forall s, G2 s -> G2 (s2_sh s (Some M, Some N)).
  Proof. intros s H. g2. Qed.
  Lemma G2_sz : forall s, G2 s -> sh2 s = (Some M, Some N) -> G2 (s2_sz s (Some (M * N))).
  Proof. intros s H E. g2. Qed.
  Lemma G2_x : forall s, G2 s -> complete s -> G2 (s2_x s (Some M)).
  Proof. intros s H (E1 & E2). unfold G2, complete in *; simpl in *. rewrite E1 in *; simpl in *. intuition (try congruence). Qed.
  Lemma G2_z : forall s, G2 s -> complete s -> G2 (s2_z s (Some N)).
  Proof. intros s H (E1 & E2). unfold G2, complete in *; simpl in *. rewrite E1 in *; simpl in *. intuition (try congruence). Qed.
  Lemma G2_vx : forall s b, G2 s -> G2 (s2_vx s b).
  Proof. intros s b H. g2. Qed.
  Lemma G2_vz : forall s b, G2 s -> G2 (s2_vz s b).
  Proof. intros s b H. g2. Qed.

  Arguments fin2 : simpl never.

  Lemma L_fin2 : forall s l sg rest, qtodo l = sg :: rest -> Forall use_ok2 (quses l) ->
    Forall seg_ok2 rest -> xk s -> L2 s (fin2 l).
  Proof.
    intros s l sg rest Ht HU HS HX. unfold L2, fin2; rewrite Ht; simpl.
    destruct rest as [|sg' r]; simpl.
    - repeat split; auto; discriminate.
    - split; [auto|]. split; [destruct sg'; discriminate|]. split; [auto|].
      destruct sg'; simpl; split; auto. exact I.
  Qed.

  Ltac mk2 := unfold L2, pcfact2, FH; simpl;
    repeat match goal with |- _ /\ _ => split end; auto; try (intros; discriminate); try congruence;
    try tauto.

  Lemma step_ok2 : forall s l, G2 s -> L2 s l ->
    G2 (fst (step2 dupx dupz s l)) /\ L2 (fst (step2 dupx dupz s l)) (snd (step2 dupx dupz s l)) /\
    R2 s (fst (step2 dupx dupz s l)).
  Proof.
    intros s l HG HL0.
    assert (HL := HL0). destruct HL as (HU & HE & HS & HP).
    destruct l as [pc todo hx hz r0 r1 prod uses]; simpl in *.
    destruct todo as [|sg rest].
    { unfold step2, step3_2; simpl. split; [auto|split; [exact HL0|apply R2_refl]]. }
    destruct HP as (HK & HF).
    inversion HS as [|? ? Hsg HSr]; subst.
    assert (HG0 := HG).
    destruct HG0 as (X1 & Z1 & XI & ZI & XS & ZS & XZ & XC & ZC).
    destruct pc; destruct sg; simpl in HK; try discriminate HK;
      unfold pcfact2, FH in HF; simpl in HF; try contradiction;
      unfold step2, step3_2; simpl.
    - (* A0 *)
      split; [exact HG|split; [|apply R2_refl]]. mk2.
      unfold xset. destruct X1 as [E|E]; rewrite E; simpl; auto; discriminate.
    - (* A1 *)
      destruct Hsg as (-> & -> & Hu).
      assert (Hz : isS (z2 s) = true -> zset s).
      { unfold zset. destruct Z1 as [E|E]; rewrite E; simpl; auto; discriminate. }
      split; [exact HG|split; [|apply R2_refl]].
      destruct (hx || isS (z2 s)) eqn:Eo; mk2.
    - (* AC *)
      destruct Hsg as (-> & -> & Hu). destruct HF as ((Hx & Hz) & -> & -> & Ho).
      unfold after_check, after_shape, after_x.
      destruct hx, hz; simpl in *; try discriminate Ho.
      + assert (HC : complete s).
        { apply XZ; unfold xset, zset in *; rewrite ?Hx, ?Hz; auto; discriminate. }
        destruct HC as (E1 & E2). rewrite E1. simpl. rewrite !Z.eqb_refl. simpl.
        split; [exact HG|split; [|apply R2_refl]].
        destruct uniq; simpl.
        * destruct (Hu eq_refl). mk2; unfold complete; auto.
        * eapply L_fin2; [reflexivity|auto|auto|]. unfold xk, complete; auto.
      + assert (E : fst (sh2 s) = Some M).
        { apply XS. unfold xset in Hx. rewrite Hx; auto; discriminate. }
        rewrite E. simpl. rewrite Z.eqb_refl.
        split; [exact HG|split; [|apply R2_refl]]. mk2.
      + assert (E : snd (sh2 s) = Some N).
        { apply ZS. unfold zset in Hz. rewrite Hz; auto; discriminate. }
        rewrite E. simpl. rewrite Z.eqb_refl.
        split; [exact HG|split; [|apply R2_refl]]. mk2.
    - (* AR0 *)
      destruct HF as ((Hx & Hz) & -> & ->).
      split; [exact HG|split; [|apply R2_refl]].
      assert (E : fst (sh2 s) = Some M).
      { apply XS. unfold xset in Hx. rewrite Hx; auto; discriminate. }
      rewrite E. destruct hz; mk2.
    - (* AR1 *)
      destruct HF as ((Hx & Hz) & -> & ->).
      split; [exact HG|split; [|apply R2_refl]].
      assert (E : snd (sh2 s) = Some N).
      { apply ZS. unfold zset in Hz. rewrite Hz; auto; discriminate. }
      rewrite E. mk2.
    - (* AW *)
      destruct HF as ((Hx & Hz) & -> & ->). simpl.
      assert (HG' : G2 (s2_sh s (Some M, Some N))) by (apply G2_sh; auto).
      assert (HR : R2 s (s2_sh s (Some M, Some N))).
      { unfold R2, xset, zset, complete; simpl; intuition. }
      split; [exact HG'|split; [|exact HR]]. mk2.
    - (* AP *)
      destruct HF as ((Hx & Hz) & E). rewrite E.
      split; [exact HG|split; [|apply R2_refl]]. mk2.
    - (* AZ *)
      destruct Hsg as (-> & -> & Hu). destruct HF as ((Hx & Hz) & E & ->).
      assert (HG' : G2 (s2_sz s (Some (M * N)))) by (apply G2_sz; auto).
      assert (HR : R2 s (s2_sz s (Some (M * N)))).
      { unfold R2, xset, zset, complete; simpl; intuition. }
      split; [exact HG'|split; [|exact HR]].
      assert (HC : complete (s2_sz s (Some (M * N)))) by (unfold complete; simpl; auto).
      unfold after_shape, after_x; simpl.
      destruct hx; simpl; [|mk2].
      destruct uniq; simpl.
      + destruct (Hu eq_refl). mk2.
      + destruct hz; simpl; [|mk2].
        eapply L_fin2; [reflexivity|auto|auto|]. unfold xk; auto.
    - (* AX0 *)
      destruct HF as ((Hx & Hz) & HC).
      split; [exact HG|split; [|apply R2_refl]].
      destruct HC as (E1 & E2). rewrite E1. simpl. mk2; unfold complete; auto.
    - (* AX1 *)
      destruct Hsg as (-> & -> & Hu). destruct HF as ((Hx & Hz) & HC & ->).
      assert (HG' : G2 (s2_x s (Some M))) by (apply G2_x; auto).
      assert (HR : R2 s (s2_x s (Some M))).
      { unfold R2, xset, zset, complete; simpl; intuition. }
      split; [exact HG'|split; [|exact HR]].
      unfold after_x; simpl.
      destruct hz; simpl.
      + destruct uniq; simpl.
        * destruct (Hu eq_refl). mk2; unfold xset; auto.
        * eapply L_fin2; [reflexivity|auto|auto|]. unfold xk, xset; simpl; auto.
      + mk2; unfold xset; auto.
    - (* AVX0 *)
      destruct Hsg as (-> & -> & Hu). destruct HF as ((Hx & Hz) & HC & HX & Hdx & Hdz).
      split; [exact HG|split; [|apply R2_refl]].
      unfold after_x; simpl.
      destruct (vx2 s); [|mk2].
      destruct hz; simpl; [|mk2].
      destruct uniq; simpl; [mk2|].
      eapply L_fin2; [reflexivity|auto|auto|]. unfold xk; auto.
    - (* AVX1 *) split; [exact HG|split; [|apply R2_refl]]. mk2.
    - (* AVX2 *)
      destruct HF as ((Hx & Hz) & HC & HX & Hdx & Hdz). rewrite Hdx.
      split; [exact HG|split; [|apply R2_refl]]. mk2.
    - (* AVX3 *)
      destruct Hsg as (-> & -> & Hu). destruct HF as ((Hx & Hz) & HC & HX & Hdx & Hdz).
      assert (HG' : G2 (s2_vx s true)) by (apply G2_vx; auto).
      assert (HR : R2 s (s2_vx s true)) by (unfold R2, xset, zset, complete; simpl; intuition).
      split; [exact HG'|split; [|exact HR]].
      unfold after_x; simpl. destruct hz; simpl; [|mk2].
      destruct uniq; simpl; [mk2|].
      eapply L_fin2; [reflexivity|auto|auto|]. unfold xk, xset, zset, complete in *; simpl; auto.
    - (* AZ0 *)
      destruct HF as ((Hx & Hz) & HC & HX).
      split; [exact HG|split; [|apply R2_refl]].
      destruct HC as (E1 & E2). rewrite E1. simpl. mk2; unfold complete; auto.
    - (* AZ1 *)
      destruct HF as ((Hx & Hz) & HC & HX & ->).
      assert (HG' : G2 (s2_z s (Some N))) by (apply G2_z; auto).
      assert (HR : R2 s (s2_z s (Some N))).
      { unfold R2, xset, zset, complete; simpl; intuition. }
      split; [exact HG'|split; [|exact HR]].
      eapply L_fin2; [reflexivity|auto|auto|]. unfold xk, xset, zset; simpl; auto.
    - (* AVZ0 *)
      destruct HF as ((Hx & Hz) & HC & HX & HZ & Hdz).
      split; [exact HG|split; [|apply R2_refl]].
      destruct (vz2 s); [|mk2].
      eapply L_fin2; [reflexivity|auto|auto|]. unfold xk; auto.
    - (* AVZ1 *) split; [exact HG|split; [|apply R2_refl]]. mk2.
    - (* AVZ2 *)
      destruct HF as ((Hx & Hz) & HC & HX & HZ & Hdz). rewrite Hdz.
      split; [exact HG|split; [|apply R2_refl]]. mk2.
    - (* AVZ3 *)
      destruct HF as ((Hx & Hz) & HC & HX & HZ & Hdz).
      assert (HG' : G2 (s2_vz s true)) by (apply G2_vz; auto).
      assert (HR : R2 s (s2_vz s true)) by (unfold R2, xset, zset, complete; simpl; intuition).
      split; [exact HG'|split; [|exact HR]].
      eapply L_fin2; [reflexivity|auto|auto|]. unfold xk, xset, zset, complete; simpl; auto.
    - (* AU *)
      destruct HF as (HX & HZ & (E1 & E2)).
      destruct Hsg as [-> | [-> | [-> | ->]]]; simpl;
        (split; [exact HG|split; [|apply R2_refl]]);
        (eapply L_fin2; [reflexivity|constructor; simpl; auto|auto|unfold xk, complete; auto]).
  Qed.

  Lemma L_init2 : forall s prog, Forall seg_ok2 prog ->
    match prog with Use2 _ :: _ => False | _ => True end -> L2 s (init_local2 prog).
  Proof.
    intros s prog HS HW. unfold L2, init_local2; simpl.
    repeat match goal with |- _ /\ _ => split end; auto.
    - destruct prog as [|sg r]; [discriminate|destruct sg; discriminate].
    - destruct prog as [|sg r]; auto. destruct sg; [|contradiction]. simpl. split; auto.
  Qed.

  Lemma L2_outcome : forall s l, L2 s l ->
    (forall e, qpc l <> AErr e) /\ Forall use_ok2 (quses l) /\
    (outcome2 M N l = 0 \/ (outcome2 M N l = 9 /\ qtodo l <> [])).
  Proof.
    intros s l (HU & HE & _). repeat split; auto.
    unfold outcome2.
    assert (Hf : forallb (fun u => match u with
                           | U2x g => oz_eqb2 g (Some M) | U2z g => oz_eqb2 g (Some N)
                           | U2shape g => oz_eqb2 (fst g) (Some M) && oz_eqb2 (snd g) (Some N)
                           | U2size g => oz_eqb2 g (Some (M * N))
                           end) (quses l) = true).
    { apply forallb_forall. intros u Hu. rewrite Forall_forall in HU. specialize (HU _ Hu).
      destruct u; simpl in *; subst; simpl; rewrite ?Z.eqb_refl; reflexivity. }
    rewrite Hf.
    destruct (qpc l) eqn:E; destruct (qtodo l); auto; try (right; split; [reflexivity|discriminate]).
    exfalso; eapply HE; eauto.
  Qed.
End Safe2D.

Definition prog_ok2 (M N : Z) (dupx dupz : bool) (prog : list seg2) : Prop :=
  Forall (seg_ok2 M N dupx dupz) prog /\ match prog with Use2 _ :: _ => False | _ => True end.

Lemma G2_fresh : forall M N ix iz, G2 M N ix iz (fresh2 ix iz M N).
Proof.
  intros M N ix iz. unfold G2, fresh2, complete; destruct ix, iz; simpl;
    repeat split; auto; try discriminate; try (intros; congruence);
    try (intros H; exfalso; apply H; reflexivity); try (intros _ H; exfalso; apply H; reflexivity).
Qed.

(* ANY number of threads, ANY schedule, the object created with x only, z only, neither or both (ix, iz),
   x/z possibly with repeated values unless a program requires unique values: *)
Theorem first_call_2d_safe : forall M N ix iz dupx dupz progs sched,
  Forall (prog_ok2 M N dupx dupz) progs ->
  let st := run_sched2 dupx dupz sched (fresh2 ix iz M N, map init_local2 progs) in
  length (snd st) = length progs /\
  G2 M N ix iz (fst st) /\
  Forall (fun l => (forall e, qpc l <> AErr e) /\ Forall (use_ok2 M N) (quses l) /\
                   (outcome2 M N l = 0 \/ (outcome2 M N l = 9 /\ qtodo l <> []))) (snd st).
Proof.
  intros M N ix iz dupx dupz progs sched Hp st.
  assert (H : G2 M N ix iz (fst st) /\ Forall (L2 M N dupx dupz (fst st)) (snd st)).
  { unfold st, run_sched2. apply run_inv with (R := R2 M N).
    - intros; apply step_ok2; auto.
    - intros s s' l Hg Hg' Hr Hl. eapply stable2 with (s := s); eassumption.
    - apply G2_fresh.
    - rewrite Forall_forall in *. intros l Hl. apply in_map_iff in Hl.
      destruct Hl as (prog & <- & Hin). destruct (Hp _ Hin). apply L_init2; auto. }
  destruct H as (HG & HL). split; [|split; auto].
  - unfold st, run_sched2. rewrite run_length. simpl. apply map_length.
  - rewrite Forall_forall in *. intros l Hl. eapply L2_outcome. apply HL; auto.
Qed.

Lemma first_call_2d_regression :
  map (outcome2 12 10)
      (snd (run_sched2 false false (repeat 0%nat 5 ++ repeat 1%nat 14 ++ repeat 0%nat 14)
              (fresh2 false false 12 10,
               [init_local2 [Pro2 false 12 10; Use2 Dshape]; init_local2 [Pro2 false 12 10; Use2 Dshape]])))
    = [0; 0] /\
  prog_ok2 12 10 false false [Pro2 false 12 10; Use2 Dshape].
Proof.
  split; [vm_compute; reflexivity|].
  unfold prog_ok2; simpl. split; auto. repeat constructor; simpl; auto; discriminate.
Qed.
