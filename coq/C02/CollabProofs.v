(* C02 -- collab_pls is equivariant for every permutation of the supplied order. *)
From Coq Require Import ZArith List Bool Arith Lia Permutation.
From PB Require Import lib.Perm lib.PermProofs C02.Model C02.Proofs C02.Proofs2D C02.Wrapper2D C02.WrapperG C02.CollabModel.
Import ListNotations.

Section CollabProofs.
  Variable D : Type.
  Variable d0 : D.
  Variable mean : list D -> D.

  Definition blen (b : list Z -> list D -> option (list D) -> list D * list D) : Prop :=
    forall xs ys ws, length ys = length xs -> wlen D ws (length xs) ->
      length (fst (b xs ys ws)) = length xs /\ length (snd (b xs ys ws)) = length xs.

  Lemma lift_len b : blen b -> forall xs ys ws, length ys = length xs -> wlen D ws (length xs) ->
    length (fst (lift D b xs ys ws)) = length xs /\
    Forall (fun p => length p = length xs) (snd (lift D b xs ys ws)).
  Proof.
    intros Hb xs ys ws L1 L2. destruct (Hb xs ys ws L1 L2) as [A B]. unfold lift. cbn [fst snd].
    split; auto.
  Qed.

  Lemma sub_len b x y w : blen b -> length y = length x -> wlen D w (length x) ->
    length (fst (sub D d0 b x y w)) = length x /\ length (snd (sub D d0 b x y w)) = length x.
  Proof.
    intros Hb Ly Lw. unfold sub. cbv zeta.
    rewrite (wrapperG_is_eff D D d0 d0 (lift D b) (lift_len b Hb) x y w Ly Lw).
    unfold wrapperG_eff, permute_outG, lift. cbn [fst snd map hd].
    rewrite !gather_length, inverted_sort_length, (is_perm_length _ _ (argsort_perm x)). auto.
  Qed.

  Lemma sub_equivariant b x y w pi : blen b ->
    NoDup x -> length y = length x -> wlen D w (length x) -> is_perm pi (length x) ->
    sub D d0 b (gather 0%Z x pi) (gather d0 y pi) (option_map (fun w' => gather d0 w' pi) w)
    = (gather d0 (fst (sub D d0 b x y w)) pi, gather d0 (snd (sub D d0 b x y w)) pi).
  Proof.
    intros Hb ND Ly Lw Hpi. unfold sub. cbv zeta.
    rewrite (wrapperG_equivariant D D d0 d0 (lift D b) (lift_len b Hb) x y w pi ND Ly Lw Hpi).
    reflexivity.
  Qed.

  Lemma avg_cols_length n rows : length (avg_cols D d0 mean n rows) = n.
  Proof. unfold avg_cols. rewrite map_length, seq_length. reflexivity. Qed.

  Lemma avg_cols_equivariant n rows pi : is_perm pi n ->
    avg_cols D d0 mean n (map (fun r => gather d0 r pi) rows) = gather d0 (avg_cols D d0 mean n rows) pi.
  Proof.
    intro Hpi. pose proof (is_perm_length _ _ Hpi) as Lpi.
    apply nth_ext with d0 d0.
    - rewrite avg_cols_length, gather_length. auto.
    - intros k Hk. rewrite avg_cols_length in Hk.
      rewrite nth_gather by lia.
      unfold avg_cols.
      rewrite (nth_map_in _ (seq 0 n) 0 d0 k) by (rewrite seq_length; auto).
      rewrite (nth_map_in _ (seq 0 n) 0 d0 (nth k pi 0))
        by (rewrite seq_length; apply (is_perm_nth_lt pi n k Hpi Hk)).
      rewrite !seq_nth by (auto; apply (is_perm_nth_lt pi n k Hpi Hk)).
      cbn [plus]. f_equal. rewrite map_map. apply map_ext. intro r. apply nth_gather. lia.
  Qed.

  Variable b1 b2 : list Z -> list D -> option (list D) -> list D * list D.
  Hypothesis Hb1 : blen b1.
  Hypothesis Hb2 : blen b2.

  (* collab_pls: the average weights, every baseline and every per-data-set weights array of the
     permuted call are the correspondingly permuted ones, for both settings of average_dataset *)
  Theorem collab_pls_equivariant (average : bool) x (ys : list (list D)) pi :
    NoDup x -> Forall (fun y => length y = length x) ys -> is_perm pi (length x) ->
    collab_pls D d0 mean b1 b2 average (gather 0%Z x pi) (map (fun y => gather d0 y pi) ys)
    = (gather d0 (fst (collab_pls D d0 mean b1 b2 average x ys)) pi,
       map (fun r => (gather d0 (fst r) pi, gather d0 (snd r) pi))
           (snd (collab_pls D d0 mean b1 b2 average x ys))).
  Proof.
    intros ND Fy Hpi. pose proof (is_perm_length _ _ Hpi) as Lpi.
    unfold collab_pls. cbv zeta. cbn [fst snd]. rewrite gather_length, Lpi.
    set (n := length x) in *.
    (* the weights of step 1 *)
    set (w := if average then snd (sub D d0 b1 x (avg_cols D d0 mean n ys) None)
              else avg_cols D d0 mean n (map (fun y => snd (sub D d0 b1 x y None)) ys)).
    assert (Lw : length w = n).
    { unfold w. destruct average.
      - apply (sub_len b1 x _ None Hb1); [apply avg_cols_length | exact I].
      - apply avg_cols_length. }
    assert (Ew : (if average
                  then snd (sub D d0 b1 (gather 0%Z x pi)
                              (avg_cols D d0 mean n (map (fun y => gather d0 y pi) ys)) None)
                  else avg_cols D d0 mean n
                         (map (fun y => snd (sub D d0 b1 (gather 0%Z x pi) y None))
                              (map (fun y => gather d0 y pi) ys)))
                 = gather d0 w pi).
    { unfold w. destruct average.
      - rewrite (avg_cols_equivariant n ys pi Hpi).
        pose proof (sub_equivariant b1 x (avg_cols D d0 mean n ys) None pi Hb1 ND (avg_cols_length n ys) I Hpi) as E.
        simpl option_map in E. rewrite E. reflexivity.
      - rewrite map_map.
        rewrite <- (avg_cols_equivariant n (map (fun y => snd (sub D d0 b1 x y None)) ys) pi Hpi).
        f_equal. rewrite map_map. apply map_ext_in. intros y Hy.
        rewrite Forall_forall in Fy.
        pose proof (sub_equivariant b1 x y None pi Hb1 ND (Fy y Hy) I Hpi) as E.
        simpl option_map in E. rewrite E. reflexivity. }
    rewrite Ew. f_equal.
    rewrite !map_map. apply map_ext_in. intros y Hy. rewrite Forall_forall in Fy.
    pose proof (sub_equivariant b2 x y (Some w) pi Hb2 ND (Fy y Hy) Lw Hpi) as E.
    simpl option_map in E. exact E.
  Qed.
End CollabProofs.
