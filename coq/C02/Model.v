(* C02 -- executable model of the sort / un-sort wrapper of pybaselines (models only).

   1-D: _Algorithm.__init__ (pybaselines/_algorithm_setup.py:94-100), _register.inner (:324-325),
        _setup_whittaker/_setup_polynomial/_setup_spline/_setup_classification (:434-435, 497-498,
        588-589, 763-764: user weights are sorted iff both the sort order and the weights are not
        None), _return_results (:245-251).
   2-D: _Algorithm2D.__init__ (two_d/_algorithm_setup.py:130-141: the four layouts of
        _sort_order), utils._sort_array2d on 2-D arrays, _return_results (:309-316).
   optimize_extended_range: the extended sort order (optimizers.py:322-339).

   The method body is a Section variable: ANY function of the sorted x, the sorted data and the
   sorted optional per-point input, returning the baseline and the list of [sort_keys] entries. *)
From Coq Require Import ZArith List Bool Arith.
From PB Require Import lib.Perm.
Import ListNotations.

Section Wrapper1D.
  Variable D : Type.
  Variable d0 : D.
  Variable body : list Z -> list D -> option (list D) -> list D * list (list D).

  Definition wrapper (x : list Z) (y : list D) (w : option (list D)) : list D * list (list D) :=
    let o := determine_sorts x in                                   (* __init__ *)
    let so := option_map fst o in                                   (* self._sort_order *)
    let io := option_map snd o in                                   (* self._inverted_order *)
    let xs := sort_array 0%Z x so in                                (* self.x = self.x[self._sort_order] *)
    let ys := sort_array d0 y so in                                 (* inner: y = _sort_array(y, self._sort_order) *)
    let ws := option_map (fun w' => sort_array d0 w' so) w in       (* _setup_*: weight_array[self._sort_order] *)
    let r := body xs ys ws in
    (sort_array d0 (fst r) io,                                      (* _return_results: baseline *)
     map (fun p => sort_array d0 p io) (snd r)).                    (* _return_results: sort_keys *)

  (* what the statement of C02 compares with: run on sorted inputs, un-sort every output *)
  Definition permute_out (pi : list nat) (r : list D * list (list D)) : list D * list (list D) :=
    (gather d0 (fst r) pi, map (fun p => gather d0 p pi) (snd r)).
End Wrapper1D.

(* ------------------------------------------------------------------ 2-D *)
(* self._sort_order / self._inverted_order of _Algorithm2D:
     None | x_order | (..., z_order) | (x_order[:, None], z_order[None, :]) *)
Inductive order2 :=
| O2None
| O2X (px : list nat)
| O2Z (pz : list nat)
| O2XZ (px pz : list nat).

Definition mk_order2 (ox oz : option (list nat)) : order2 :=
  match ox, oz with
  | None, None => O2None
  | Some px, None => O2X px
  | None, Some pz => O2Z pz
  | Some px, Some pz => O2XZ px pz
  end.

Section Wrapper2D.
  Variable D : Type.
  Variable d0 : D.

  (* utils._sort_array2d on a 2-D array (rows follow x, columns follow z):
       array[px]              rows gathered
       array[..., pz]         columns gathered
       array[px[:,None], pz[None,:]]  element (i,j) = array[px[i], pz[j]] *)
  Definition sort_array2d (a : list (list D)) (o : order2) : list (list D) :=
    match o with
    | O2None => a
    | O2X px => gather [] a px
    | O2Z pz => map (fun row => gather d0 row pz) a
    | O2XZ px pz => map (fun i => map (fun j => nth j (nth i a []) d0) pz) px
    end.

  Variable body2 : list Z -> list Z -> list (list D) -> option (list (list D))
                   -> list (list D) * list (list (list D)).

  Definition wrapper2 (x z : list Z) (y : list (list D)) (w : option (list (list D)))
    : list (list D) * list (list (list D)) :=
    let ox := determine_sorts x in
    let oz := determine_sorts z in
    let so := mk_order2 (option_map fst ox) (option_map fst oz) in
    let io := mk_order2 (option_map snd ox) (option_map snd oz) in
    let xs := sort_array 0%Z x (option_map fst ox) in
    let zs := sort_array 0%Z z (option_map fst oz) in
    let ys := sort_array2d y so in
    let ws := option_map (fun w' => sort_array2d w' so) w in
    let r := body2 xs zs ys ws in
    (sort_array2d (fst r) io, map (fun p => sort_array2d p io) (snd r)).

  Definition gather2 (a : list (list D)) (px pz : list nat) : list (list D) :=
    map (fun row => gather d0 row pz) (gather [] a px).

  Definition permute_out2 (px pz : list nat) (r : list (list D) * list (list (list D))) :=
    (gather2 (fst r) px pz, map (fun p => gather2 p px pz) (snd r)).
End Wrapper2D.

(* ------------------------------------------------------------------ optimize_extended_range *)
Inductive side := SLeft | SRight | SBoth.

(* optimizers.py:322-339 with added_len = 2*added_window for 'both' and added_window otherwise *)
Definition extended_order (sd : side) (s : list nat) (n aw : nat) : list nat :=
  match sd with
  | SRight => s ++ seq n aw
  | SLeft => seq 0 aw ++ map (fun i => i + aw) s
  | SBoth => seq 0 aw ++ map (fun i => i + aw) s ++ seq (n + aw) (2 * aw - aw)
  end.

(* the data handed to the sub-fitter: fit_data = concat(left part, y (input order), right part) *)
Definition extended_data {A} (sd : side) (l y r : list A) : list A :=
  match sd with
  | SRight => y ++ r
  | SLeft => l ++ y
  | SBoth => l ++ y ++ r
  end.

(* ------------------------------------------------------------------ sort_keys entries of any trailing shape *)
(* _return_results does params[key] = params[key][self._inverted_order] for every key of sort_keys
   that is PRESENT in params, whatever the number of dimensions of the value: the index array acts
   on the leading axis (1-D) / the two leading axes (2-D).  An entry of shape (N,), (N, k), ... is a
   list of N "rows" of an arbitrary type E (a number, a list of k numbers, ...); the baseline keeps
   its own element type D.  [wrapper] / [wrapper2] above are the instances E = D. *)
Section WrapperG.
  Variable D E : Type.
  Variable d0 : D.
  Variable e0 : E.
  Variable body : list Z -> list D -> option (list D) -> list D * list (list E).

  Definition wrapperG (x : list Z) (y : list D) (w : option (list D)) : list D * list (list E) :=
    let o := determine_sorts x in
    let so := option_map fst o in
    let io := option_map snd o in
    let xs := sort_array 0%Z x so in
    let ys := sort_array d0 y so in
    let ws := option_map (fun w' => sort_array d0 w' so) w in
    let r := body xs ys ws in
    (sort_array d0 (fst r) io,                          (* baseline *)
     map (fun p => sort_array e0 p io) (snd r)).        (* for key in sort_keys: if key in params: ...[inverted] *)

  Definition permute_outG (pi : list nat) (r : list D * list (list E)) : list D * list (list E) :=
    (gather d0 (fst r) pi, map (fun p => gather e0 p pi) (snd r)).

  Variable body2 : list Z -> list Z -> list (list D) -> option (list (list D))
                   -> list (list D) * list (list (list E)).

  Definition wrapper2G (x z : list Z) (y : list (list D)) (w : option (list (list D)))
    : list (list D) * list (list (list E)) :=
    let ox := determine_sorts x in
    let oz := determine_sorts z in
    let so := mk_order2 (option_map fst ox) (option_map fst oz) in
    let io := mk_order2 (option_map snd ox) (option_map snd oz) in
    let xs := sort_array 0%Z x (option_map fst ox) in
    let zs := sort_array 0%Z z (option_map fst oz) in
    let ys := sort_array2d D d0 y so in
    let ws := option_map (fun w' => sort_array2d D d0 w' so) w in
    let r := body2 xs zs ys ws in
    (sort_array2d D d0 (fst r) io, map (fun p => sort_array2d E e0 p io) (snd r)).

  Definition permute_out2G (px pz : list nat) (r : list (list D) * list (list (list E))) :=
    (gather2 D d0 (fst r) px pz, map (fun p => gather2 E e0 p px pz) (snd r)).
End WrapperG.

(* ------------------------------------------------------------------ the data-less entry of _register.inner *)
(* _Algorithm._register.inner(self, data=None, ...):  input_y := data is not None;
     entry:  if input_y and not skip_sorting: y = _sort_array(y, self._sort_order)
     exit:   _return_results(baseline, params, dtype, sort_keys, skip_sorting)
   -- the exit depends on the DECORATOR's skip_sorting only, never on input_y: a method that may be
   called without data (interp_pts) builds its baseline from the sorted self.x and that baseline is
   un-sorted like any other.  The body receives the data as an option. *)
Section WrapperN.
  Variable D E : Type.
  Variable d0 : D.
  Variable e0 : E.
  Variable body : list Z -> option (list D) -> option (list D) -> list D * list (list E).

  Definition wrapperN (skip : bool) (x : list Z) (y : option (list D)) (w : option (list D))
    : list D * list (list E) :=
    let o := determine_sorts x in
    let so := option_map fst o in
    let io := option_map snd o in
    let xs := sort_array 0%Z x so in
    let input_y := match y with Some _ => true | None => false end in
    let ys := option_map (fun y' => if input_y && negb skip then sort_array d0 y' so else y') y in
    let ws := option_map (fun w' => sort_array d0 w' so) w in
    let r := body xs ys ws in
    ((if negb skip then sort_array d0 (fst r) io else fst r),
     map (fun p => sort_array e0 p io) (snd r)).
End WrapperN.
