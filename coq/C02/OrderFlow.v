(* C02 -- order discipline of the method bodies: data types of the table that tools/gen_orderflow.py
   extracts from the source, the reflective checker [flow_ok], and the concrete semantics the checker
   is sound for (models only; the soundness proof is in C02/OrderFlowProofs.v).

   A per-point array inside a registered method is, relative to the array [c] the computation on
   SORTED inputs would hold at that place, [c] gathered some number of times by the sort order sigma
   or by its inverse:
     - built inside the body from the (already sorted) data:           c itself          (tag  0)
     - supplied by the user in the order of the supplied data:         c[inverse]        (tag -1)
     - order-invariant (None, np.ones, a scalar):                      c, with c[p] = c  (any tag)
   [OSort] is an explicit `_sort_array(., self._sort_order)` / `.[self._sort_order]` site (also the
   one inside the _setup functions), [OUnsort] the same with self._inverted_order.
   Sinks: [KUse] any other use (arithmetic with sorted arrays, a solve, ...): the value must be c;
          [KPosWrite] position-dependent write (`a[:k] = ...`): must be c;
          [KRetSorted] returned under a key listed in sort_keys (the wrapper un-sorts it): must be c;
          [KRetUnsorted] returned under a per-point key NOT in sort_keys: must already be c[inverse]. *)
From Coq Require Import ZArith List Bool String.
From PB Require Import lib.Perm.
Import ListNotations.
Open Scope Z_scope.

Inductive src := SUser | SInternal | SConst.
Inductive op := OSort | OUnsort.
Inductive sink := KUse | KPosWrite | KRetSorted | KRetUnsorted.

Record row := { r_dim : string; r_method : string; r_var : string;
                r_src : src; r_ops : list op; r_sink : sink }.

Definition op_tag (o : op) : Z := match o with OSort => 1 | OUnsort => -1 end.
Definition ops_tag (l : list op) : Z := fold_right (fun o t => op_tag o + t) 0 l.
Definition src_tag (s : src) : Z := match s with SUser => -1 | _ => 0 end.
Definition sink_tag (k : sink) : Z := match k with KRetUnsorted => 1 | _ => 0 end.

Definition is_const (s : src) : bool := match s with SConst => true | _ => false end.

Definition flow_ok (r : row) : bool :=
  is_const (r_src r) || (src_tag (r_src r) + ops_tag (r_ops r) + sink_tag (r_sink r) =? 0).

(* ---- concrete semantics *)
Section Sem.
  Variable D : Type.
  Variable d0 : D.
  Variable sigma : list nat.

  Definition do_op (o : op) (a : list D) : list D :=
    match o with
    | OSort => gather d0 a sigma
    | OUnsort => gather d0 a (inverted_sort sigma)
    end.

  (* the array held at the source, given the array c of the sorted computation *)
  Definition start (s : src) (c : list D) : list D :=
    match s with
    | SUser => gather d0 c (inverted_sort sigma)
    | SInternal => c
    | SConst => c
    end.

  Definition run_ops (l : list op) (a : list D) : list D := fold_left (fun a o => do_op o a) l a.

  (* what has to equal c at the sink *)
  Definition deliver (k : sink) (a : list D) : list D :=
    match k with
    | KRetUnsorted => gather d0 a sigma      (* a must be c[inverse], i.e. a[sigma] = c *)
    | _ => a
    end.

  Definition arrives (r : row) (c : list D) : list D :=
    deliver (r_sink r) (run_ops (r_ops r) (start (r_src r) c)).
End Sem.

Fixpoint str_list_eqb (a b : list (string * string * string * string)) : bool :=
  match a, b with
  | [], [] => true
  | (a1, a2, a3, a4) :: a', (b1, b2, b3, b4) :: b' =>
      String.eqb a1 b1 && String.eqb a2 b2 && String.eqb a3 b3 && String.eqb a4 b4 && str_list_eqb a' b'
  | _, _ => false
  end.

Definition setups_ok (l : list (string * string * Z)) : bool :=
  forallb (fun t => (snd t =? 1)%Z) l && (8 <=? List.length l)%nat.

(* every per-point output of a method that lets the wrapper sort is listed in sort_keys *)
Definition rows_of (dim m : string) (rows : list row) : list row :=
  filter (fun r => String.eqb (r_dim r) dim && String.eqb (r_method r) m) rows.

(* _register.inner as read from the source (tools/gen_orderflow.py: wrapper_io): the test guarding the sort of the
   data on entry and the expression handed to _return_results as skip_sorting on exit.  [wrapperN] (C02/Model.v)
   is the model of exactly these: entry iff the data is present and the DECORATOR's flag is off, exit depending on
   the decorator's flag only -- so a method called without data on unsorted x still gets its baseline un-sorted. *)
Definition expected_wrapper_io : list (string * string * string) :=
  [("1d", "input_y and (not skip_sorting)", "skip_sorting");
   ("2d", "not skip_sorting", "skip_sorting")]%string.

Fixpoint str3_list_eqb (a b : list (string * string * string)) : bool :=
  match a, b with
  | [], [] => true
  | (a1, a2, a3) :: a', (b1, b2, b3) :: b' =>
      String.eqb a1 b1 && String.eqb a2 b2 && String.eqb a3 b3 && str3_list_eqb a' b'
  | _, _ => false
  end.

(* methods whose data argument may be None must be ones the wrapper un-sorts (not skip_sorting) *)
Definition wrapper_io_ok (io : list (string * string * string)) (data_optional : list (string * string * bool)) : bool :=
  str3_list_eqb io expected_wrapper_io && forallb (fun t => negb (snd t)) data_optional.
