(* C02 -- executable models of the order handling of the methods that SKIP the wrapper's sorting
   (registered with skip_sorting=True) and therefore do their own (models only; proofs in
   C02/OptProofs.v):

   adaptive_minmax         pybaselines/optimizers.py:466-500 and two_d/optimizers.py:212-249
   optimize_extended_range pybaselines/optimizers.py:284-341, 380-390 with _Algorithm._override_x
                           (pybaselines/_algorithm_setup.py:341-369)
   individual_axes         pybaselines/two_d/optimizers.py:343-378 (after 712a97d)

   The wrapped 1-D / 2-D method is an arbitrary body, as in C02/Model.v. *)
From Coq Require Import ZArith List Bool Arith.
From PB Require Import lib.Perm C02.Model.
Import ListNotations.

Section Opt.
  Variable D : Type.
  Variable d0 : D.

  Definition nth2 (a : list (list D)) (i j : nat) : D := nth j (nth i a []) d0.
  Definition tab2 (n m : nat) (f : nat -> nat -> D) : list (list D) :=
    map (fun i => map (fun j => f i j) (seq 0 m)) (seq 0 n).

  (* ------------------------------------------------------------------ adaptive_minmax, 1-D *)
  (* constrained_weights[:kl] = wl ; constrained_weights[size - kr:] = wr   (the later write wins) *)
  Definition edge_write (c : list D) (kl kr : nat) (wl wr : D) : list D :=
    let n := length c in
    map (fun i => if (n - kr <=? i) then wr else if (i <? kl) then wl else nth i c d0) (seq 0 n).

  (* returns (params['weights'], params['constrained_weights']) = the two arrays handed, in the
     supplied order, to the wrapped polynomial method (which sorts them itself) *)
  Definition amm_weights (x : list Z) (w : list D) (kl kr : nat) (wl wr : D) : list D * list D :=
    let o := determine_sorts x in                                  (* _Algorithm.__init__ *)
    let ws := sort_array d0 w (option_map fst o) in                (* _sort_array(weight_array, self._sort_order) *)
    let cs := edge_write ws kl kr wl wr in                         (* copy + the two slice writes *)
    (sort_array d0 ws (option_map snd o),                          (* _sort_array(weight_array, self._inverted_order) *)
     sort_array d0 cs (option_map snd o)).                         (* _sort_array(constrained_weights, self._inverted_order) *)

  (* ------------------------------------------------------------------ adaptive_minmax, 2-D *)
  (* cw[:k0] = w0 ; cw[:, :k2] = w2 ; cw[n - k1:] = w1 ; cw[:, m - k3:] = w3   (later writes win) *)
  Definition edge_write2 (c : list (list D)) (n m k0 k1 k2 k3 : nat) (w0 w1 w2 w3 : D) : list (list D) :=
    tab2 n m (fun i j => if (m - k3 <=? j) then w3 else if (n - k1 <=? i) then w1
                         else if (j <? k2) then w2 else if (i <? k0) then w0 else nth2 c i j).

  Definition amm_weights2 (x z : list Z) (w : list (list D)) (k0 k1 k2 k3 : nat) (w0 w1 w2 w3 : D)
    : list (list D) * list (list D) :=
    let ox := determine_sorts x in
    let oz := determine_sorts z in
    let so := mk_order2 (option_map fst ox) (option_map fst oz) in
    let io := mk_order2 (option_map snd ox) (option_map snd oz) in
    let ws := sort_array2d D d0 w so in
    let cs := edge_write2 ws (length x) (length z) k0 k1 k2 k3 w0 w1 w2 w3 in
    (sort_array2d D d0 ws io, sort_array2d D d0 cs io).

  (* ------------------------------------------------------------------ optimize_extended_range *)
  (* the sub-method run on the extended fitter: (extended x, sorted extended data, sorted padded
     weights) -> baseline and the sort_keys entries, all of the extended length *)
  Variable body : list Z -> list D -> option (list D) -> list D * list (list D).
  (* added data on the left / right: functions of the SORTED data (utils._get_edges on
     _sort_array(y, self._sort_order), plus the added gaussian) *)
  Variable edge_l edge_r : list D -> list D.
  (* added x values: functions of the sorted x (x_domain is order independent) *)
  Variable addx_l addx_r : list Z -> list Z.
  Variable one : D.                                  (* np.pad(..., constant_values=1) *)

  (* _override_x(fit_x, new_sort_order): assume_sorted=True, _sort_order := new_sort_order,
     _inverted_order := _inverted_sort(new_sort_order); then the registered method runs *)
  Definition override_wrapper (fit_x : list Z) (order : option (list nat)) (data : list D)
             (w : option (list D)) : list D * list (list D) :=
    let inv := option_map inverted_sort order in
    let ys := sort_array d0 data order in
    let ws := option_map (fun w' => sort_array d0 w' order) w in
    let r := body fit_x ys ws in
    (sort_array d0 (fst r) inv, map (fun p => sort_array d0 p inv) (snd r)).

  (* fit_baseline[lower_bound:upper_idx] and method_params[key][lo:hi] for added_window >= 1 *)
  Definition middle (sd : side) (aw n : nat) (a : list D) : list D :=
    match sd with
    | SRight => firstn n a
    | SLeft => skipn aw a
    | SBoth => firstn n (skipn aw a)
    end.

  Definition oer (sd : side) (aw : nat) (x : list Z) (y : list D) (w : option (list D))
    : list D * list (list D) :=
    let n := length x in
    let o := determine_sorts x in
    let xs := sort_array 0%Z x (option_map fst o) in
    let ysorted := sort_array d0 y (option_map fst o) in           (* only for the edges *)
    let fit_x := extended_data sd (addx_l xs) xs (addx_r xs) in
    let fit_data := extended_data sd (edge_l ysorted) y (edge_r ysorted) in   (* y in the supplied order *)
    let wpad := option_map (fun w' => extended_data sd (repeat one aw) w' (repeat one aw)) w in
    let new_order := option_map (fun s => extended_order sd s n aw) (option_map fst o) in
    let res := override_wrapper fit_x new_order fit_data wpad in
    (middle sd aw n (fst res), map (middle sd aw n) (snd res)).

  (* ------------------------------------------------------------------ individual_axes *)
  Variable zero : D.
  Variable add sub : D -> D -> D.
  (* the 1-D method used along the rows (x) resp. the columns (z): baseline of a 1-D body *)
  Variable bodyx bodyz : list Z -> list D -> option (list D) -> list D * list (list D).

  (* (axis_values, assume_sorted): x and z put back into the supplied order from the sorted
     attributes and _inverted_order, in the four layouts *)
  Definition axis_values (x z : list Z) : list Z * list Z * bool :=
    let ox := determine_sorts x in
    let oz := determine_sorts z in
    let xs := sort_array 0%Z x (option_map fst ox) in             (* self.x *)
    let zs := sort_array 0%Z z (option_map fst oz) in             (* self.z *)
    match option_map snd ox, option_map snd oz with
    | None, None => (xs, zs, true)
    | Some ix, None => (gather 0%Z xs ix, zs, false)               (* (self.x[self._inverted_order], self.z) *)
    | None, Some iz => (xs, gather 0%Z zs iz, false)               (* (self.x, self.z[self._inverted_order[1]]) *)
    | Some ix, Some iz => (gather 0%Z xs ix, gather 0%Z zs iz, false)
    end.

  (* Baseline(axis, assume_sorted=...).method(v) : the 1-D wrapper; with assume_sorted=True (and
     ascending values) no order is computed at all *)
  Definition fit1 (b : list Z -> list D -> option (list D) -> list D * list (list D))
             (assume_sorted : bool) (ax : list Z) (v : list D) : list D :=
    if assume_sorted then fst (b ax v None) else fst (wrapper D d0 b ax v None).

  Definition col (a : list (list D)) (j : nat) : list D := map (fun row => nth j row d0) a.
  (* np.apply_along_axis(func, 0, a): func on every column;  axis 1: on every row *)
  Definition along0 (f : list D -> list D) (a : list (list D)) (n m : nat) : list (list D) :=
    tab2 n m (fun i j => nth i (f (col a j)) d0).
  Definition along1 (f : list D -> list D) (a : list (list D)) (n m : nat) : list (list D) :=
    tab2 n m (fun i j => nth j (f (nth i a [])) d0).
  Definition zip2 (op : D -> D -> D) (a b : list (list D)) (n m : nat) : list (list D) :=
    tab2 n m (fun i j => op (nth2 a i j) (nth2 b i j)).

  (* axes: false = axis 0 (rows, fits along x), true = axis 1;  returns the baseline and the list
     of partial baselines in the order of [axes] *)
  Fixpoint ia_loop (fx fz : list D -> list D) (n m : nat) (y : list (list D)) (axes : list bool)
           (b : list (list D)) : list (list D) * list (list (list D)) :=
    match axes with
    | [] => (b, [])
    | ax :: rest =>
        let r := zip2 sub y b n m in                                (* data - baseline *)
        let p := if ax then along1 fz r n m else along0 fx r n m in (* partial_baseline *)
        let res := ia_loop fx fz n m y rest (zip2 add b p n m) in   (* baseline += partial_baseline *)
        (fst res, p :: snd res)
    end.

  Definition individual_axes (x z : list Z) (y : list (list D)) (axes : list bool) :=
    let '(xin, zin, srt) := axis_values x z in
    ia_loop (fit1 bodyx srt xin) (fit1 bodyz srt zin) (length x) (length z) y axes
            (tab2 (length x) (length z) (fun _ _ => zero)).
End Opt.

(* _Algorithm._get_function (1-D): the x handed to a sub-fitter class that the object itself does
   not provide, and its assume_sorted flag.  (The 2-D _get_function uses exactly the formulas of
   individual_axes: [axis_values].) *)
Definition get_function_x (x : list Z) : list Z * bool :=
  let o := determine_sorts x in
  let xs := sort_array 0%Z x (option_map fst o) in                 (* self.x *)
  match option_map snd o with
  | None => (xs, true)
  | Some i => (gather 0%Z xs i, false)                              (* self.x[self._inverted_order] *)
  end.
