(* C02 -- proofs about the skip_sorting methods modelled in C02/OptModel.v. *)
From Coq Require Import ZArith List Bool Arith Lia Permutation.
From PB Require Import lib.Perm lib.PermProofs C02.Model C02.Proofs C02.Proofs2D C02.Wrapper2D C02.OptModel.
Import ListNotations.

Section Tab.
  Variable D : Type.
  Variable d0 : D.
  Notation rect := (rect D).
  Notation gather2 := (gather2 D d0).
  Notation nth2 := (nth2 D d0).
  Notation tab2 := (tab2 D).

  Lemma tab2_rect n m f : rect (tab2 n m f) n m.
  Proof.
    unfold OptModel.tab2. split.
    - rewrite map_length, seq_length. reflexivity.
    - apply Forall_forall. intros row Hr. apply in_map_iff in Hr. destruct Hr as [i [<- _]].
      rewrite map_length, seq_length. reflexivity.
  Qed.

  Lemma nth2_tab2 n m f i j : i < n -> j < m -> nth2 (tab2 n m f) i j = f i j.
  Proof.
    intros Hi Hj. unfold OptModel.nth2, OptModel.tab2.
    rewrite (nth_map_in _ _ 0 [] i) by (rewrite seq_length; auto).
    rewrite seq_nth by auto.
    rewrite (nth_map_in _ _ 0 d0 j) by (rewrite seq_length; auto).
    rewrite seq_nth by auto. reflexivity.
  Qed.

  Lemma ext2 (a b : list (list D)) n m : rect a n m -> rect b n m ->
    (forall i j, i < n -> j < m -> nth2 a i j = nth2 b i j) -> a = b.
  Proof.
    intros Ra Rb H. destruct Ra as [La Fa] eqn:Ea. destruct Rb as [Lb Fb] eqn:Eb.
    apply nth_ext with [] []; [lia|]. intros i Hi. rewrite La in Hi.
    apply nth_ext with d0 d0.
    - rewrite (rect_nth D a n m i), (rect_nth D b n m i); auto; split; auto.
    - intros j Hj. rewrite (rect_nth D a n m i) in Hj; [|split; auto|auto]. apply (H i j); auto.
  Qed.

  Lemma tab2_ext n m f g : (forall i j, i < n -> j < m -> f i j = g i j) -> tab2 n m f = tab2 n m g.
  Proof.
    intro H. apply (ext2 _ _ n m); try apply tab2_rect. intros i j Hi Hj.
    rewrite !nth2_tab2; auto.
  Qed.

  Lemma tab2_nth2 a n m : rect a n m -> tab2 n m (nth2 a) = a.
  Proof.
    intro R. apply (ext2 _ _ n m); auto; try apply tab2_rect. intros i j Hi Hj. apply nth2_tab2; auto.
  Qed.

  Lemma nth2_gather2 a px pz k l : k < length px -> l < length pz ->
    nth2 (gather2 a px pz) k l = nth2 a (nth k px 0) (nth l pz 0).
  Proof.
    intros Hk Hl. unfold OptModel.nth2. rewrite gather2_alt.
    rewrite (nth_map_in _ _ 0 [] k) by auto. apply nth_gather. auto.
  Qed.

  Lemma gather2_tab2 n m f px pz :
    (forall i, In i px -> i < n) -> (forall j, In j pz -> j < m) ->
    gather2 (tab2 n m f) px pz = tab2 (length px) (length pz) (fun k l => f (nth k px 0) (nth l pz 0)).
  Proof.
    intros Bx Bz. apply (ext2 _ _ (length px) (length pz)); try apply tab2_rect; try apply gather2_rect.
    intros k l Hk Hl. rewrite nth2_gather2, !nth2_tab2; auto.
    - apply Bx. apply nth_In; auto.
    - apply Bz. apply nth_In; auto.
  Qed.
End Tab.

(* ------------------------------------------------------------------ adaptive_minmax *)
Section AMM.
  Variable D : Type.
  Variable d0 : D.
  Notation rect := (rect D).
  Notation gather2 := (gather2 D d0).

  Lemma edge_write_length c kl kr wl wr : length (edge_write D d0 c kl kr wl wr) = length c.
  Proof. unfold edge_write. rewrite map_length, seq_length. reflexivity. Qed.

  Definition amm_body (kl kr : nat) (wl wr : D) :=
    fun (_ : list Z) (ys : list D) (_ : option (list D)) => (ys, [edge_write D d0 ys kl kr wl wr]).

  Lemma amm_as_wrapper x w kl kr wl wr :
    amm_weights D d0 x w kl kr wl wr
    = (fst (wrapper D d0 (amm_body kl kr wl wr) x w None),
       hd [] (snd (wrapper D d0 (amm_body kl kr wl wr) x w None))).
  Proof. reflexivity. Qed.

  Lemma amm_body_len kl kr wl wr : forall xs ys ws, length ys = length xs -> wlen D ws (length xs) ->
    length (fst (amm_body kl kr wl wr xs ys ws)) = length xs /\
    Forall (fun p => length p = length xs) (snd (amm_body kl kr wl wr xs ys ws)).
  Proof.
    intros xs ys ws L _. cbn [amm_body fst snd]. split; auto. constructor; auto. rewrite edge_write_length; auto.
  Qed.

  (* for every permutation of the supplied order, both weight arrays handed to the polynomial
     method are the correspondingly permuted ones *)
  Theorem amm_equivariant x w pi kl kr wl wr :
    NoDup x -> length w = length x -> is_perm pi (length x) ->
    amm_weights D d0 (gather 0%Z x pi) (gather d0 w pi) kl kr wl wr
    = (gather d0 (fst (amm_weights D d0 x w kl kr wl wr)) pi,
       gather d0 (snd (amm_weights D d0 x w kl kr wl wr)) pi).
  Proof.
    intros ND L Hpi. rewrite !amm_as_wrapper.
    pose proof (wrapper_equivariant D d0 (amm_body kl kr wl wr) (amm_body_len kl kr wl wr)
                  x w None pi ND L I Hpi) as E.
    simpl option_map in E. rewrite E. unfold permute_out. cbn [fst snd].
    reflexivity.
  Qed.

  (* ... and in x order (what the polynomial method sees after ITS sort) the constrained array is
     the edge-written sorted weights: the constrained points are those with the smallest / largest
     x whatever the supplied order *)
  Theorem amm_sorted_frame x w kl kr wl wr : length w = length x ->
    gather d0 (fst (amm_weights D d0 x w kl kr wl wr)) (argsort x) = gather d0 w (argsort x) /\
    gather d0 (snd (amm_weights D d0 x w kl kr wl wr)) (argsort x)
    = edge_write D d0 (gather d0 w (argsort x)) kl kr wl wr.
  Proof.
    intro L. unfold amm_weights. cbv zeta. cbn [fst snd].
    pose proof (argsort_perm x) as Hs. pose proof (is_perm_length _ _ Hs) as Ls.
    rewrite (sort_array_eff d0 x w L).
    rewrite !unsort_array_eff by (try rewrite edge_write_length; rewrite gather_length; auto).
    split; apply (gather_inverse' d0 _ (argsort x) (length x)); auto;
      try rewrite edge_write_length; rewrite gather_length; auto.
  Qed.

  (* ---- 2-D *)
  Definition amm_body2 (k0 k1 k2 k3 : nat) (w0 w1 w2 w3 : D) :=
    fun (xs zs : list Z) (ys : list (list D)) (_ : option (list (list D))) =>
      (ys, [edge_write2 D d0 ys (length xs) (length zs) k0 k1 k2 k3 w0 w1 w2 w3]).

  Lemma amm2_as_wrapper x z w k0 k1 k2 k3 w0 w1 w2 w3 :
    amm_weights2 D d0 x z w k0 k1 k2 k3 w0 w1 w2 w3
    = (fst (wrapper2 D d0 (amm_body2 k0 k1 k2 k3 w0 w1 w2 w3) x z w None),
       hd [] (snd (wrapper2 D d0 (amm_body2 k0 k1 k2 k3 w0 w1 w2 w3) x z w None))).
  Proof.
    unfold amm_weights2, wrapper2, amm_body2. cbv zeta. cbn [fst snd map hd].
    rewrite !(sort_array_eff 0%Z _ _ eq_refl), !gather_length.
    rewrite (is_perm_length _ _ (argsort_perm x)), (is_perm_length _ _ (argsort_perm z)).
    reflexivity.
  Qed.

  Lemma amm_body2_rect k0 k1 k2 k3 w0 w1 w2 w3 : forall xs zs ys ws,
    rect ys (length xs) (length zs) -> wrect D ws (length xs) (length zs) ->
    rect (fst (amm_body2 k0 k1 k2 k3 w0 w1 w2 w3 xs zs ys ws)) (length xs) (length zs) /\
    Forall (fun p => rect p (length xs) (length zs)) (snd (amm_body2 k0 k1 k2 k3 w0 w1 w2 w3 xs zs ys ws)).
  Proof.
    intros xs zs ys ws R _. simpl. split; auto. constructor; auto. apply tab2_rect.
  Qed.

  Theorem amm2_equivariant x z w px pz k0 k1 k2 k3 w0 w1 w2 w3 :
    NoDup x -> NoDup z -> rect w (length x) (length z) ->
    is_perm px (length x) -> is_perm pz (length z) ->
    amm_weights2 D d0 (gather 0%Z x px) (gather 0%Z z pz) (gather2 w px pz) k0 k1 k2 k3 w0 w1 w2 w3
    = (gather2 (fst (amm_weights2 D d0 x z w k0 k1 k2 k3 w0 w1 w2 w3)) px pz,
       gather2 (snd (amm_weights2 D d0 x z w k0 k1 k2 k3 w0 w1 w2 w3)) px pz).
  Proof.
    intros NDx NDz R Hpx Hpz. rewrite !amm2_as_wrapper.
    pose proof (wrapper2_equivariant D d0 (amm_body2 k0 k1 k2 k3 w0 w1 w2 w3)
                  (amm_body2_rect k0 k1 k2 k3 w0 w1 w2 w3) x z w None px pz NDx NDz R I Hpx Hpz) as E.
    simpl option_map in E. rewrite E. unfold permute_out2. cbn [fst snd].
    reflexivity.
  Qed.
End AMM.

(* ------------------------------------------------------------------ optimize_extended_range *)
Definition extlen (sd : side) (n aw : nat) : nat :=
  match sd with SBoth => aw + n + aw | _ => n + aw end.

Section ExtMore.
  Variable A : Type.
  Variable d : A.

  Lemma ext_data_length sd (l y r : list A) n aw :
    length l = aw -> length r = aw -> length y = n -> length (extended_data sd l y r) = extlen sd n aw.
  Proof. intros Ll Lr Ly. destruct sd; simpl; rewrite ?app_length; lia. Qed.

  Lemma gather_map {B} (d' : B) (f : A -> B) (l : list A) p : (forall i, In i p -> i < length l) ->
    gather d' (map f l) p = map f (gather d l p).
  Proof.
    intro H. unfold gather. rewrite map_map. apply map_ext_in. intros i Hi.
    apply (nth_map_in f l d d' i). auto.
  Qed.

  Definition ext_l sd (b : list A) (aw : nat) := match sd with SRight => repeat d aw | _ => firstn aw b end.
  Definition ext_r sd (b : list A) (n aw : nat) :=
    match sd with SRight => skipn n b | SLeft => repeat d aw | SBoth => skipn n (skipn aw b) end.

  Lemma split_ext sd (b : list A) n aw : length b = extlen sd n aw ->
    b = extended_data sd (ext_l sd b aw) (middle A sd aw n b) (ext_r sd b n aw) /\
    length (middle A sd aw n b) = n /\
    length (ext_l sd b aw) = aw /\ length (ext_r sd b n aw) = aw.
  Proof.
    intro L. destruct sd; simpl in *.
    - repeat split.
      + symmetry. apply firstn_skipn.
      + rewrite skipn_length. lia.
      + rewrite firstn_length. lia.
      + apply repeat_length.
    - repeat split.
      + symmetry. apply firstn_skipn.
      + rewrite firstn_length. lia.
      + apply repeat_length.
      + rewrite skipn_length. lia.
    - repeat split.
      + rewrite firstn_skipn, firstn_skipn. reflexivity.
      + rewrite firstn_length, skipn_length. lia.
      + rewrite firstn_length. lia.
      + rewrite !skipn_length. lia.
  Qed.

  Lemma middle_ext sd (l y r : list A) n aw : length l = aw -> length y = n ->
    middle A sd aw n (extended_data sd l y r) = y.
  Proof.
    intros Ll Ly. destruct sd; simpl.
    - rewrite skipn_app, skipn_all2 by lia. replace (aw - length l) with 0 by lia. reflexivity.
    - rewrite firstn_app, firstn_all2 by lia. replace (n - length y) with 0 by lia.
      simpl. apply app_nil_r.
    - rewrite skipn_app, skipn_all2 by lia. replace (aw - length l) with 0 by lia. simpl.
      rewrite firstn_app, firstn_all2 by lia. replace (n - length y) with 0 by lia.
      simpl. apply app_nil_r.
  Qed.

  (* un-sorting the sub-fitter's output with the extended order t' = ext(t) and cutting the middle
     out is un-sorting the middle with t *)
  Lemma middle_gather_ext sd (b : list A) (t : list nat) n aw :
    length b = extlen sd n aw -> is_perm t n ->
    middle A sd aw n (gather d b (extended_order sd t n aw)) = gather d (middle A sd aw n b) t.
  Proof.
    intros L Ht. destruct (split_ext sd b n aw L) as [Eb [Lm [Ll Lr]]].
    rewrite Eb at 1.
    rewrite (extended_order_sorts A d sd t n aw _ _ _ Ll Lr Lm)
      by (intros i Hi; apply (is_perm_lt t n i Ht Hi)).
    apply middle_ext; auto. rewrite gather_length. apply (is_perm_length _ _ Ht).
  Qed.
End ExtMore.

Lemma ext_seq sd n aw : extended_order sd (seq 0 n) n aw = seq 0 (extlen sd n aw).
Proof.
  destruct sd; unfold extended_order, extlen.
  - replace (n + aw) with (aw + n) by lia. rewrite seq_app. f_equal.
    symmetry. apply (seq_as_shift n 0 aw).
  - rewrite seq_app. reflexivity.
  - replace (2 * aw - aw) with aw by lia. rewrite !seq_app. rewrite <- app_assoc. f_equal. f_equal.
    + symmetry. apply (seq_as_shift n 0 aw).
    + f_equal. lia.
Qed.

Lemma inverse_from_gather p q N : is_perm p N -> length q = N -> gather 0 q p = seq 0 N ->
  q = inverted_sort p.
Proof.
  intros Hp Lq E. apply (inverse_unique p N q Hp Lq). intros k Hk.
  rewrite <- (nth_gather 0 q p k) by (rewrite (is_perm_length _ _ Hp); auto).
  rewrite E. apply seq_nth. auto.
Qed.

(* the inverse of the extended order is the extended inverse:  _override_x's
   _inverted_sort(new_sort_order) leaves the added parts in place and inverts the middle *)
Lemma ext_inverse sd s n aw : is_perm s n ->
  inverted_sort (extended_order sd s n aw) = extended_order sd (inverted_sort s) n aw.
Proof.
  intro Hs. symmetry.
  pose proof (extended_order_perm sd s n aw Hs) as Hp. fold (extlen sd n aw) in Hp.
  pose proof (inverted_sort_perm s n Hs) as Hi.
  apply (inverse_from_gather _ _ (extlen sd n aw) Hp).
  - apply (is_perm_length _ _ (extended_order_perm sd _ n aw Hi)).
  - pose proof (is_perm_length _ _ Hs) as Ls. pose proof (is_perm_length _ _ Hi) as Li.
    assert (Bs : forall i, In i s -> i < n) by (intros i H; apply (is_perm_lt s n i Hs H)).
    assert (Bs' : forall i, In i s -> i < length (inverted_sort s)) by (intros i H; rewrite Li; auto).
    rewrite <- (ext_seq sd n aw).
    destruct sd; unfold extended_order.
    + change (seq 0 aw ++ map (fun i => i + aw) (inverted_sort s))
        with (extended_data SLeft (seq 0 aw) (map (fun i => i + aw) (inverted_sort s)) (seq 0 aw)).
      rewrite (extended_order_sorts nat 0 SLeft s n aw); auto; try apply seq_length.
      2:{ rewrite map_length; auto. }
      unfold extended_data, extended_order.
      rewrite (gather_map nat 0 0) by auto. rewrite (compose_inverse_l s n Hs). reflexivity.
    + change (inverted_sort s ++ seq n aw)
        with (extended_data SRight (seq 0 aw) (inverted_sort s) (seq n aw)).
      rewrite (extended_order_sorts nat 0 SRight s n aw); auto; try apply seq_length.
      unfold extended_data, extended_order. rewrite (compose_inverse_l s n Hs). reflexivity.
    + change (seq 0 aw ++ map (fun i => i + aw) (inverted_sort s) ++ seq (n + aw) (2 * aw - aw))
        with (extended_data SBoth (seq 0 aw) (map (fun i => i + aw) (inverted_sort s)) (seq (n + aw) (2 * aw - aw))).
      rewrite (extended_order_sorts nat 0 SBoth s n aw); auto; try apply seq_length.
      2:{ rewrite seq_length. lia. }
      2:{ rewrite map_length; auto. }
      unfold extended_data, extended_order.
      rewrite (gather_map nat 0 0) by auto. rewrite (compose_inverse_l s n Hs). reflexivity.
Qed.

Section OER.
  Variable D : Type.
  Variable d0 : D.
  Variable body : list Z -> list D -> option (list D) -> list D * list (list D).
  Variable edge_l edge_r : list D -> list D.
  Variable addx_l addx_r : list Z -> list Z.
  Variable one : D.
  Variable sd : side.
  Variable aw : nat.

  Hypothesis edge_l_len : forall ys, length (edge_l ys) = aw.
  Hypothesis edge_r_len : forall ys, length (edge_r ys) = aw.
  (* the sub-method returns arrays of the extended length *)
  Hypothesis body_ext_len : forall fx ys ws,
    length (fst (body fx ys ws)) = length ys /\ Forall (fun p => length p = length ys) (snd (body fx ys ws)).

  (* the body the standard wrapper would have to be put around to get the same thing:
     extend the SORTED data, run the sub-method on sorted extended inputs, cut the middle out *)
  Definition oer_body (xs : list Z) (ys : list D) (ws : option (list D)) : list D * list (list D) :=
    let n := length xs in
    let r := body (extended_data sd (addx_l xs) xs (addx_r xs))
                  (extended_data sd (edge_l ys) ys (edge_r ys))
                  (option_map (fun w' => extended_data sd (repeat one aw) w' (repeat one aw)) ws) in
    (middle D sd aw n (fst r), map (middle D sd aw n) (snd r)).

  Lemma middle_length (b : list D) n : length b = extlen sd n aw -> length (middle D sd aw n b) = n.
  Proof. intro L. destruct (split_ext D d0 sd b n aw L) as [_ [Lm _]]. exact Lm. Qed.

  Lemma oer_body_len : forall xs ys ws, length ys = length xs -> wlen D ws (length xs) ->
    length (fst (oer_body xs ys ws)) = length xs /\
    Forall (fun p => length p = length xs) (snd (oer_body xs ys ws)).
  Proof.
    intros xs ys ws Ly _. unfold oer_body. cbv zeta. cbn [fst snd].
    set (r := body _ _ _).
    assert (Le : length (extended_data sd (edge_l ys) ys (edge_r ys)) = extlen sd (length xs) aw)
      by (apply ext_data_length; auto).
    destruct (body_ext_len (extended_data sd (addx_l xs) xs (addx_r xs))
                (extended_data sd (edge_l ys) ys (edge_r ys))
                (option_map (fun w' => extended_data sd (repeat one aw) w' (repeat one aw)) ws)) as [Lb Lp].
    fold r in Lb, Lp. rewrite Le in Lb, Lp. split.
    - apply middle_length; auto.
    - apply Forall_forall. intros p Hp. apply in_map_iff in Hp. destruct Hp as [q [<- Hq]].
      rewrite Forall_forall in Lp. apply middle_length; auto.
  Qed.

  Lemma sort_ext_eff {A} (d : A) x (a : list A) : length a = extlen sd (length x) aw ->
    sort_array d a (option_map (fun s => extended_order sd s (length x) aw) (option_map fst (determine_sorts x)))
    = gather d a (extended_order sd (argsort x) (length x) aw).
  Proof.
    intro L. unfold determine_sorts. destruct (incr (argsort x)) eqn:E; simpl; auto.
    rewrite (incr_identity _ _ (argsort_perm x) E), ext_seq, <- L. symmetry. apply gather_seq.
  Qed.

  Lemma unsort_ext_eff {A} (d : A) x (a : list A) : length a = extlen sd (length x) aw ->
    sort_array d a (option_map inverted_sort
        (option_map (fun s => extended_order sd s (length x) aw) (option_map fst (determine_sorts x))))
    = gather d a (extended_order sd (inverted_sort (argsort x)) (length x) aw).
  Proof.
    intro L. unfold determine_sorts. destruct (incr (argsort x)) eqn:E; simpl.
    - rewrite (incr_identity _ _ (argsort_perm x) E), inverted_sort_seq, ext_seq, <- L.
      symmetry. apply gather_seq.
    - rewrite (ext_inverse sd (argsort x) (length x) aw (argsort_perm x)). reflexivity.
  Qed.

  (* optimize_extended_range's own order handling (extended order through _override_x, user
     weights padded in the supplied order, the middle cut out of the un-sorted result) computes
     exactly what the standard wrapper computes around [oer_body] *)
  Theorem oer_is_wrapper x y w : length y = length x -> wlen D w (length x) ->
    oer D d0 body edge_l edge_r addx_l addx_r one sd aw x y w = wrapper D d0 oer_body x y w.
  Proof.
    intros Ly Lw.
    rewrite (wrapper_is_eff D d0 oer_body oer_body_len x y w Ly Lw).
    unfold wrapper_eff, oer, override_wrapper, oer_body, permute_out. cbv zeta. cbn [fst snd].
    pose proof (argsort_perm x) as Hs. pose proof (is_perm_length _ _ Hs) as Ls.
    assert (Bs : forall i, In i (argsort x) -> i < length x) by (intros i H; apply (is_perm_lt _ _ i Hs H)).
    rewrite (sort_array_eff 0%Z x x eq_refl), (sort_array_eff d0 x y Ly).
    rewrite !gather_length, Ls.
    set (ysr := gather d0 y (argsort x)). set (xs := gather 0%Z x (argsort x)).
    rewrite (sort_ext_eff d0 x) by (apply ext_data_length; auto).
    rewrite (extended_order_sorts D d0 sd (argsort x) (length x) aw _ y _ (edge_l_len ysr) (edge_r_len ysr) Ly Bs).
    fold ysr.
    assert (Ew : option_map (fun w' => sort_array d0 w'
                   (option_map (fun s => extended_order sd s (length x) aw) (option_map fst (determine_sorts x))))
                   (option_map (fun w' => extended_data sd (repeat one aw) w' (repeat one aw)) w)
                 = option_map (fun w' => extended_data sd (repeat one aw) w' (repeat one aw))
                     (option_map (fun w' => gather d0 w' (argsort x)) w)).
    { destruct w as [w'|]; simpl; auto. simpl in Lw. f_equal.
      rewrite (sort_ext_eff d0 x) by (apply ext_data_length; auto; apply repeat_length).
      apply extended_order_sorts; auto; apply repeat_length. }
    rewrite Ew.
    set (r := body _ _ _).
    assert (Le : length (extended_data sd (edge_l ysr) ysr (edge_r ysr)) = extlen sd (length x) aw).
    { apply ext_data_length; auto. unfold ysr. rewrite gather_length; auto. }
    destruct (body_ext_len (extended_data sd (addx_l xs) xs (addx_r xs))
                (extended_data sd (edge_l ysr) ysr (edge_r ysr))
                (option_map (fun w' => extended_data sd (repeat one aw) w' (repeat one aw))
                   (option_map (fun w' => gather d0 w' (argsort x)) w))) as [Lb Lp].
    fold r in Lb, Lp. rewrite Le in Lb, Lp.
    pose proof (inverted_sort_perm _ _ Hs) as Hi.
    f_equal.
    - rewrite (unsort_ext_eff d0 x) by auto. apply middle_gather_ext; auto.
    - rewrite !map_map. apply map_ext_in. intros p Hp. rewrite Forall_forall in Lp.
      rewrite (unsort_ext_eff d0 x) by auto. apply middle_gather_ext; auto.
  Qed.

  (* hence, for EVERY permutation of the supplied order: *)
  Theorem oer_equivariant x y w pi :
    NoDup x -> length y = length x -> wlen D w (length x) -> is_perm pi (length x) ->
    oer D d0 body edge_l edge_r addx_l addx_r one sd aw (gather 0%Z x pi) (gather d0 y pi)
        (option_map (fun w' => gather d0 w' pi) w)
    = permute_out D d0 pi (oer D d0 body edge_l edge_r addx_l addx_r one sd aw x y w).
  Proof.
    intros ND Ly Lw Hpi. pose proof (is_perm_length _ _ Hpi) as Lpi.
    rewrite (oer_is_wrapper x y w Ly Lw).
    rewrite oer_is_wrapper.
    - apply (wrapper_equivariant D d0 oer_body oer_body_len x y w pi ND Ly Lw Hpi).
    - rewrite !gather_length; auto.
    - destruct w; simpl; auto. rewrite !gather_length; auto.
  Qed.
End OER.

(* ------------------------------------------------------------------ individual_axes *)
Section IA.
  Variable D : Type.
  Variable d0 : D.
  Variable zero : D.
  Variable add sub : D -> D -> D.
  Notation rect := (rect D).
  Notation gather2 := (gather2 D d0).
  Notation nth2 := (nth2 D d0).
  Notation tab2 := (tab2 D).
  Notation zip2 := (zip2 D d0).
  Notation along0 := (along0 D d0).
  Notation along1 := (along1 D d0).
  Notation col := (col D d0).

  Lemma col_length (a : list (list D)) j : length (col a j) = length a.
  Proof. unfold OptModel.col. apply map_length. Qed.

  Lemma col_gather2 (r : list (list D)) px pz j n :
    length r = n -> (forall i, In i px -> i < n) -> j < length pz ->
    col (gather2 r px pz) j = gather d0 (col r (nth j pz 0)) px.
  Proof.
    intros Lr Bx Hj. unfold OptModel.col. rewrite gather2_alt, map_map. unfold gather at 2.
    apply map_ext_in. intros i Hi.
    rewrite (nth_gather d0 (nth i r []) pz j Hj).
    symmetry. apply (nth_map_in (fun row => nth (nth j pz 0) row d0) r [] d0 i). rewrite Lr. auto.
  Qed.

  Section Loop.
    Variable n m : nat.
    Variable px pz : list nat.
    Hypothesis Hpx : is_perm px n.
    Hypothesis Hpz : is_perm pz m.
    Variable fx fx' fz fz' : list D -> list D.
    Hypothesis Hfx : forall v, length v = n -> fx' (gather d0 v px) = gather d0 (fx v) px.
    Hypothesis Hfz : forall v, length v = m -> fz' (gather d0 v pz) = gather d0 (fz v) pz.

    Let Lpx : length px = n := is_perm_length _ _ Hpx.
    Let Lpz : length pz = m := is_perm_length _ _ Hpz.
    Let Bx : forall i, In i px -> i < n := fun i H => is_perm_lt px n i Hpx H.
    Let Bz : forall i, In i pz -> i < m := fun i H => is_perm_lt pz m i Hpz H.

    Lemma zip2_gather2 op (a b : list (list D)) :
      zip2 op (gather2 a px pz) (gather2 b px pz) n m = gather2 (zip2 op a b n m) px pz.
    Proof.
      unfold OptModel.zip2. rewrite (gather2_tab2 D d0 n m _ px pz Bx Bz), Lpx, Lpz.
      apply (tab2_ext D d0). intros i j Hi Hj.
      rewrite !nth2_gather2 by lia. reflexivity.
    Qed.

    Lemma along0_gather2 (r : list (list D)) : rect r n m ->
      along0 fx' (gather2 r px pz) n m = gather2 (along0 fx r n m) px pz.
    Proof.
      intros [Lr Fr]. unfold OptModel.along0.
      rewrite (gather2_tab2 D d0 n m _ px pz Bx Bz), Lpx, Lpz.
      apply (tab2_ext D d0). intros i j Hi Hj.
      rewrite (col_gather2 r px pz j n Lr Bx) by lia.
      rewrite Hfx by (rewrite col_length; auto).
      apply nth_gather. lia.
    Qed.

    Lemma along1_gather2 (r : list (list D)) : rect r n m ->
      along1 fz' (gather2 r px pz) n m = gather2 (along1 fz r n m) px pz.
    Proof.
      intros R. unfold OptModel.along1.
      rewrite (gather2_tab2 D d0 n m _ px pz Bx Bz), Lpx, Lpz.
      apply (tab2_ext D d0). intros i j Hi Hj.
      rewrite gather2_alt. rewrite (nth_map_in _ px 0 [] i) by lia.
      rewrite Hfz.
      - apply nth_gather. lia.
      - apply (rect_nth D r n m); auto. apply Bx. apply nth_In. lia.
    Qed.

    Lemma ia_loop_gather2 (y : list (list D)) : forall axes b, rect b n m ->
      ia_loop D d0 add sub fx' fz' n m (gather2 y px pz) axes (gather2 b px pz)
      = permute_out2 D d0 px pz (ia_loop D d0 add sub fx fz n m y axes b).
    Proof.
      induction axes as [|ax rest IH]; intros b Rb.
      - reflexivity.
      - cbn [ia_loop]. cbv zeta.
        rewrite (zip2_gather2 sub y b).
        assert (Rr : rect (zip2 sub y b n m) n m) by apply tab2_rect.
        assert (Ep : (if ax then along1 fz' (gather2 (zip2 sub y b n m) px pz) n m
                      else along0 fx' (gather2 (zip2 sub y b n m) px pz) n m)
                     = gather2 (if ax then along1 fz (zip2 sub y b n m) n m
                                else along0 fx (zip2 sub y b n m) n m) px pz).
        { destruct ax; [apply along1_gather2 | apply along0_gather2]; auto. }
        rewrite Ep. rewrite (zip2_gather2 add b _).
        rewrite IH by apply tab2_rect.
        unfold permute_out2. cbn [fst snd map]. reflexivity.
    Qed.
  End Loop.

  Lemma ia_loop_ext (fx fx' fz fz' : list D -> list D) n m y :
    (forall v, fx v = fx' v) -> (forall v, fz v = fz' v) ->
    forall axes b, ia_loop D d0 add sub fx fz n m y axes b = ia_loop D d0 add sub fx' fz' n m y axes b.
  Proof.
    intros Ex Ez. induction axes as [|ax rest IH]; intro b; auto.
    cbn [ia_loop]. cbv zeta.
    assert (Ep : (if ax then along1 fz (zip2 sub y b n m) n m else along0 fx (zip2 sub y b n m) n m)
                 = (if ax then along1 fz' (zip2 sub y b n m) n m else along0 fx' (zip2 sub y b n m) n m)).
    { destruct ax; unfold OptModel.along0, OptModel.along1; apply (tab2_ext D d0); intros i j _ _;
        [rewrite Ez | rewrite Ex]; reflexivity. }
    rewrite Ep, IH. reflexivity.
  Qed.

  Variable bodyx bodyz : list Z -> list D -> option (list D) -> list D * list (list D).
  Hypothesis bodyx_len : forall xs ys ws, length ys = length xs -> wlen D ws (length xs) ->
    length (fst (bodyx xs ys ws)) = length xs /\ Forall (fun p => length p = length xs) (snd (bodyx xs ys ws)).
  Hypothesis bodyz_len : forall xs ys ws, length ys = length xs -> wlen D ws (length xs) ->
    length (fst (bodyz xs ys ws)) = length xs /\ Forall (fun p => length p = length xs) (snd (bodyz xs ys ws)).

  (* the axis values rebuilt from the sorted attributes and _inverted_order ARE the supplied x and z
     in all four layouts, and assume_sorted=True is only used when both were supplied ascending *)
  Lemma axis_values_eff x z : exists srt,
    axis_values x z = (x, z, srt) /\
    (srt = true -> determine_sorts x = None /\ determine_sorts z = None).
  Proof.
    unfold axis_values, determine_sorts.
    destruct (incr (argsort x)) eqn:Ex; destruct (incr (argsort z)) eqn:Ez; simpl.
    - exists true. split; auto.
    - exists false. split; [|discriminate].
      rewrite (gather_inverse 0%Z z (argsort z) (length z) eq_refl (argsort_perm z)). reflexivity.
    - exists false. split; [|discriminate].
      rewrite (gather_inverse 0%Z x (argsort x) (length x) eq_refl (argsort_perm x)). reflexivity.
    - exists false. split; [|discriminate].
      rewrite (gather_inverse 0%Z x (argsort x) (length x) eq_refl (argsort_perm x)),
        (gather_inverse 0%Z z (argsort z) (length z) eq_refl (argsort_perm z)). reflexivity.
  Qed.

  Lemma fit1_eff b srt ax v : (srt = true -> determine_sorts ax = None) ->
    fit1 D d0 b srt ax v = fst (wrapper D d0 b ax v None).
  Proof.
    intro H. unfold fit1. destruct srt; auto.
    unfold wrapper. rewrite (H eq_refl). reflexivity.
  Qed.

  Definition F1 b (ax : list Z) (v : list D) : list D := fst (wrapper D d0 b ax v None).

  Lemma individual_axes_eff x z y axes :
    individual_axes D d0 zero add sub bodyx bodyz x z y axes
    = ia_loop D d0 add sub (F1 bodyx x) (F1 bodyz z) (length x) (length z) y axes
              (tab2 (length x) (length z) (fun _ _ => zero)).
  Proof.
    unfold individual_axes. destruct (axis_values_eff x z) as [srt [E Hs]]. rewrite E.
    apply ia_loop_ext; intro v; apply fit1_eff; intro Hsrt; destruct (Hs Hsrt); auto.
  Qed.

  (* individual_axes is equivariant under independent permutations of x and z: the baseline and
     every partial baseline (params['baseline_rows'], params['baseline_columns']) *)
  Theorem individual_axes_equivariant x z y px pz axes :
    NoDup x -> NoDup z -> rect y (length x) (length z) ->
    is_perm px (length x) -> is_perm pz (length z) ->
    individual_axes D d0 zero add sub bodyx bodyz (gather 0%Z x px) (gather 0%Z z pz) (gather2 y px pz) axes
    = permute_out2 D d0 px pz (individual_axes D d0 zero add sub bodyx bodyz x z y axes).
  Proof.
    intros NDx NDz Ry Hpx Hpz. rewrite !individual_axes_eff.
    pose proof (is_perm_length _ _ Hpx) as Lpx. pose proof (is_perm_length _ _ Hpz) as Lpz.
    rewrite !gather_length, Lpx, Lpz.
    assert (E0 : tab2 (length x) (length z) (fun _ _ => zero)
                 = gather2 (tab2 (length x) (length z) (fun _ _ => zero)) px pz).
    { rewrite (gather2_tab2 D d0 (length x) (length z) _ px pz), Lpx, Lpz; auto.
      - intros i H. apply (is_perm_lt px _ i Hpx H).
      - intros i H. apply (is_perm_lt pz _ i Hpz H). }
    rewrite E0 at 1.
    apply (ia_loop_gather2 (length x) (length z) px pz Hpx Hpz); try apply tab2_rect.
    - intros v Lv. unfold F1.
      pose proof (wrapper_equivariant D d0 bodyx bodyx_len x v None px NDx Lv I Hpx) as E.
      simpl option_map in E. rewrite E. reflexivity.
    - intros v Lv. unfold F1.
      pose proof (wrapper_equivariant D d0 bodyz bodyz_len z v None pz NDz Lv I Hpz) as E.
      simpl option_map in E. rewrite E. reflexivity.
  Qed.
End IA.

(* _get_function hands the sub-fitter the SUPPLIED x (so that it sorts the unsorted data itself) *)
Lemma get_function_x_eff x : exists srt,
  get_function_x x = (x, srt) /\ (srt = true -> determine_sorts x = None).
Proof.
  unfold get_function_x, determine_sorts. destruct (incr (argsort x)) eqn:E; simpl.
  - exists true. split; auto.
  - exists false. split; [|discriminate].
    rewrite (gather_inverse 0%Z x (argsort x) (length x) eq_refl (argsort_perm x)). reflexivity.
Qed.
