(* C02 -- proofs about the sort / un-sort wrapper (C02/Model.v). *)
From Coq Require Import ZArith List Bool Arith Lia Permutation Sorted.
From PB Require Import lib.Perm lib.PermProofs C02.Model.
Import ListNotations.

Lemma inverted_sort_seq n : inverted_sort (seq 0 n) = seq 0 n.
Proof.
  symmetry. apply inverse_unique with n.
  - apply Permutation_refl.
  - apply seq_length.
  - intros k Hk. assert (E : nth k (seq 0 n) 0 = k) by (rewrite seq_nth; auto). rewrite E. exact E.
Qed.

(* The (None, None) shortcut of _determine_sorts is the same as gathering with the argsort. *)
Lemma sort_array_eff {A} (d : A) x a : length a = length x ->
  sort_array d a (option_map fst (determine_sorts x)) = gather d a (argsort x).
Proof.
  intro L. unfold determine_sorts. destruct (incr (argsort x)) eqn:E; simpl; auto.
  rewrite (incr_identity _ _ (argsort_perm x) E). rewrite <- L. symmetry. apply gather_seq.
Qed.

Lemma unsort_array_eff {A} (d : A) x a : length a = length x ->
  sort_array d a (option_map snd (determine_sorts x)) = gather d a (inverted_sort (argsort x)).
Proof.
  intro L. unfold determine_sorts. destruct (incr (argsort x)) eqn:E; simpl; auto.
  rewrite (incr_identity _ _ (argsort_perm x) E), inverted_sort_seq. rewrite <- L. symmetry.
  apply gather_seq.
Qed.

(* inverse of the sort of the permuted keys = (inverse of the sort of the keys)[pi] *)
Lemma inverse_equivariant x pi : NoDup x -> is_perm pi (length x) ->
  inverted_sort (argsort (gather 0%Z x pi)) = gather 0 (inverted_sort (argsort x)) pi.
Proof.
  intros ND Hpi. set (n := length x) in *.
  pose proof (is_perm_length _ _ Hpi) as Lpi.
  assert (Lx' : length (gather 0%Z x pi) = n) by (rewrite gather_length; auto).
  pose proof (argsort_perm (gather 0%Z x pi)) as Hs'. rewrite Lx' in Hs'.
  pose proof (argsort_perm x) as Hs. fold n in Hs.
  symmetry. apply inverse_unique with n; auto.
  - rewrite gather_length; auto.
  - intros k Hk.
    assert (Hk' : nth k (argsort (gather 0%Z x pi)) 0 < n) by (apply is_perm_nth_lt; auto).
    rewrite nth_gather by lia.
    assert (E : nth (nth k (argsort (gather 0%Z x pi)) 0) pi 0 = nth k (argsort x) 0).
    { rewrite <- (argsort_equivariant x pi ND Hpi). symmetry. apply nth_gather.
      rewrite (is_perm_length _ _ Hs'); auto. }
    rewrite E. apply inverted_sort_spec with n; auto.
Qed.

Section Equivariance1D.
  Variable D : Type.
  Variable d0 : D.
  Variable body : list Z -> list D -> option (list D) -> list D * list (list D).
  Definition wlen (w : option (list D)) (n : nat) : Prop :=
    match w with None => True | Some w' => length w' = n end.

  (* the body returns per-point arrays (C01's shape property) when it is given per-point arrays *)
  Hypothesis body_len : forall xs ys ws, length ys = length xs -> wlen ws (length xs) ->
    length (fst (body xs ys ws)) = length xs /\
    Forall (fun p => length p = length xs) (snd (body xs ys ws)).

  Definition wrapper_eff (x : list Z) (y : list D) (w : option (list D)) :=
    let s := argsort x in
    let r := body (gather 0%Z x s) (gather d0 y s) (option_map (fun w' => gather d0 w' s) w) in
    permute_out D d0 (inverted_sort s) r.

  Lemma wrapper_is_eff x y w : length y = length x -> wlen w (length x) ->
    wrapper D d0 body x y w = wrapper_eff x y w.
  Proof.
    intros Ly Lw. unfold wrapper, wrapper_eff, permute_out. cbv zeta.
    rewrite (sort_array_eff 0%Z x x eq_refl), (sort_array_eff d0 x y Ly).
    assert (Ew : option_map (fun w' => sort_array d0 w' (option_map fst (determine_sorts x))) w
                 = option_map (fun w' => gather d0 w' (argsort x)) w).
    { destruct w as [w'|]; simpl; auto. simpl in Lw. rewrite (sort_array_eff d0 x w' Lw). auto. }
    rewrite Ew.
    set (r := body _ _ _).
    destruct (body_len (gather 0%Z x (argsort x)) (gather d0 y (argsort x))
                (option_map (fun w' => gather d0 w' (argsort x)) w)) as [Lb Lp].
    { rewrite !gather_length; auto. }
    { destruct w; simpl; auto. rewrite !gather_length; auto. }
    fold r in Lb, Lp. rewrite gather_length, (is_perm_length _ _ (argsort_perm x)) in Lb, Lp.
    f_equal.
    - apply unsort_array_eff; auto.
    - apply map_ext_in. intros p Hp. rewrite Forall_forall in Lp. apply unsort_array_eff; auto.
  Qed.

  (* THE 1-D EQUIVARIANCE *)
  Theorem wrapper_equivariant x y w pi :
    NoDup x -> length y = length x -> wlen w (length x) -> is_perm pi (length x) ->
    wrapper D d0 body (gather 0%Z x pi) (gather d0 y pi) (option_map (fun w' => gather d0 w' pi) w)
    = permute_out D d0 pi (wrapper D d0 body x y w).
  Proof.
    intros ND Ly Lw Hpi.
    pose proof (is_perm_length _ _ Hpi) as Lpi.
    assert (Lx' : length (gather 0%Z x pi) = length x) by (rewrite gather_length; auto).
    rewrite (wrapper_is_eff x y w Ly Lw).
    rewrite wrapper_is_eff.
    2:{ rewrite !gather_length; auto. }
    2:{ destruct w; simpl; auto. rewrite !gather_length; auto. }
    unfold wrapper_eff.
    set (s' := argsort (gather 0%Z x pi)).
    assert (Hs' : is_perm s' (length x)).
    { unfold s'. rewrite <- Lx'. apply argsort_perm. }
    assert (B : forall i, In i s' -> i < length pi).
    { intros i Hi. rewrite Lpi. eapply is_perm_lt; eauto. }
    assert (C : gather 0 pi s' = argsort x) by (apply argsort_equivariant; auto).
    rewrite (gather_gather 0%Z x pi s' B), (gather_gather d0 y pi s' B), C.
    assert (Ew : option_map (fun w' => gather d0 w' s') (option_map (fun w' => gather d0 w' pi) w)
                 = option_map (fun w' => gather d0 w' (argsort x)) w).
    { destruct w as [w'|]; simpl; auto. rewrite (gather_gather d0 w' pi s' B), C. auto. }
    rewrite Ew.
    set (r := body _ _ _).
    unfold s'. rewrite (inverse_equivariant x pi ND Hpi).
    assert (B2 : forall i, In i pi -> i < length (inverted_sort (argsort x))).
    { intros i Hi. rewrite inverted_sort_length, (is_perm_length _ _ (argsort_perm x)).
      apply (is_perm_lt pi (length x)); auto. }
    unfold permute_out. cbn [fst snd]. f_equal.
    - symmetry. apply gather_gather; auto.
    - rewrite map_map. apply map_ext. intro p. symmetry. apply gather_gather; auto.
  Qed.
End Equivariance1D.
