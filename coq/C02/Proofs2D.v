(* C02 -- the extended sort order of optimize_extended_range and the 2-D gather algebra. *)
From Coq Require Import ZArith List Bool Arith Lia Permutation.
From PB Require Import lib.Perm lib.PermProofs C02.Model.
Import ListNotations.

Section Ext.
  Variable A : Type.
  Variable d : A.

  Lemma gather_app_l (a b : list A) p : (forall i, In i p -> i < length a) ->
    gather d (a ++ b) p = gather d a p.
  Proof. intro H. unfold gather. apply map_ext_in. intros i Hi. apply app_nth1. auto. Qed.

  Lemma gather_app_r (a b : list A) p :
    gather d (a ++ b) (map (fun i => i + length a) p) = gather d b p.
  Proof.
    unfold gather. rewrite map_map. apply map_ext. intro i.
    rewrite Nat.add_comm. apply app_nth2_plus.
  Qed.

  Lemma seq_as_shift m : forall a k, seq (a + k) m = map (fun i => i + k) (seq a m).
  Proof. induction m; intros a k; simpl; auto. f_equal. apply (IHm (S a) k). Qed.

  Lemma gather_app_seq_r (a b : list A) : gather d (a ++ b) (seq (length a) (length b)) = b.
  Proof.
    change (length a) with (0 + length a) at 1. rewrite seq_as_shift, gather_app_r. apply gather_seq.
  Qed.

  Lemma gather_app_seq_l (a b : list A) : gather d (a ++ b) (seq 0 (length a)) = a.
  Proof.
    rewrite gather_app_l. apply gather_seq. intros i Hi. apply in_seq in Hi. lia.
  Qed.

  Lemma gather_app_idx (a : list A) p q : gather d a (p ++ q) = gather d a p ++ gather d a q.
  Proof. unfold gather. apply map_app. Qed.

  (* the extended order sorts the extended data: the added parts stay in place, the middle part is
     sorted by the original order -- for every side, every added_window, every order s *)
  Theorem extended_order_sorts sd (s : list nat) (n aw : nat) (l y r : list A) :
    length l = aw -> length r = aw -> length y = n -> (forall i, In i s -> i < n) ->
    gather d (extended_data sd l y r) (extended_order sd s n aw)
    = extended_data sd l (gather d y s) r.
  Proof.
    intros Ll Lr Ly Hs. destruct sd; unfold extended_data, extended_order.
    - (* left *)
      rewrite gather_app_idx. f_equal.
      + rewrite <- Ll. apply gather_app_seq_l.
      + rewrite <- Ll. apply gather_app_r.
    - (* right *)
      rewrite gather_app_idx. f_equal.
      + apply gather_app_l. intros i Hi. rewrite Ly. auto.
      + rewrite <- Ly, <- Lr. apply gather_app_seq_r.
    - (* both *)
      replace (2 * aw - aw) with aw by lia.
      rewrite !gather_app_idx. f_equal; [|f_equal].
      + rewrite <- Ll. apply gather_app_seq_l.
      + rewrite <- Ll. rewrite gather_app_r. apply gather_app_l. intros i Hi. rewrite Ly. auto.
      + rewrite app_assoc. replace (n + aw) with (length (l ++ y)) by (rewrite app_length; lia).
        rewrite <- Lr. apply gather_app_seq_r.
  Qed.

  (* and it is a permutation of the extended index set *)
  Theorem extended_order_perm sd (s : list nat) (n aw : nat) :
    is_perm s n ->
    is_perm (extended_order sd s n aw)
            (match sd with SBoth => aw + n + aw | _ => n + aw end).
  Proof.
    intro H. unfold is_perm in *. destruct sd; unfold extended_order.
    - (* left: seq 0 aw ++ map (+aw) s *)
      replace (n + aw) with (aw + n) by lia. rewrite seq_app. apply Permutation_app_head.
      change aw with (0 + aw) at 2. rewrite seq_as_shift. apply Permutation_map. exact H.
    - rewrite seq_app. apply Permutation_app_tail. exact H.
    - replace (2 * aw - aw) with aw by lia. rewrite !seq_app. rewrite <- app_assoc.
      apply Permutation_app_head. apply Permutation_app.
      + change (0 + aw) with aw. change aw with (0 + aw) at 2. rewrite seq_as_shift.
        apply Permutation_map. exact H.
      + replace (0 + (aw + n)) with (n + aw) by lia. apply Permutation_refl.
  Qed.
End Ext.

(* ---------------------------------------------------------------- 2-D gather algebra *)
Section G2.
  Variable D : Type.
  Variable d0 : D.

  Definition rect (a : list (list D)) (n m : nat) : Prop :=
    length a = n /\ Forall (fun row => length row = m) a.

  Lemma nth_map_in {X Y} (f : X -> Y) l dx dy k : k < length l -> nth k (map f l) dy = f (nth k l dx).
  Proof.
    intro H. rewrite (nth_indep _ dy (f dx)) by (rewrite map_length; auto). apply map_nth.
  Qed.

  Lemma gather2_alt (a : list (list D)) px pz :
    gather2 D d0 a px pz = map (fun i => gather d0 (nth i a []) pz) px.
  Proof. unfold gather2, gather. rewrite map_map. reflexivity. Qed.

  (* sorting rows and columns and un-sorting both again is the identity, for every pair of
     permutations: the 2-D analogue of a == a[sort_order][inverted_order] *)
  Theorem gather2_inverse (a : list (list D)) px pz n m :
    rect a n m -> is_perm px n -> is_perm pz m ->
    gather2 D d0 (gather2 D d0 a px pz) (inverted_sort px) (inverted_sort pz) = a.
  Proof.
    intros [La Fa] Hx Hz. rewrite !gather2_alt.
    pose proof (is_perm_length _ _ Hx) as Lx.
    apply nth_ext with [] [].
    - rewrite map_length, inverted_sort_length. lia.
    - intros k Hk. rewrite map_length, inverted_sort_length, Lx in Hk.
      rewrite (nth_map_in _ _ 0 [] k) by (rewrite inverted_sort_length; lia).
      set (j := nth k (inverted_sort px) 0).
      assert (Hj : j < n) by (apply inverted_sort_lt; auto).
      rewrite (nth_map_in _ _ 0 [] j) by lia.
      unfold j. rewrite (inverted_sort_spec_r px n k Hx Hk).
      apply (gather_inverse d0 (nth k a []) pz m); auto.
      rewrite Forall_forall in Fa. apply Fa. apply nth_In. lia.
  Qed.
End G2.
