(* C02 -- 2-D: gather algebra over rectangular arrays, the four layouts of _Algorithm2D._sort_order
   reduce to "gather rows by the x argsort and columns by the z argsort", and the 2-D wrapper is
   equivariant under independent permutations of x and z. *)
From Coq Require Import ZArith List Bool Arith Lia Permutation.
From PB Require Import lib.Perm lib.PermProofs C02.Model C02.Proofs C02.Proofs2D.
Import ListNotations.

Section G2b.
  Variable D : Type.
  Variable d0 : D.
  Notation rect := (rect D).
  Notation gather2 := (gather2 D d0).

  Lemma rect_nth (a : list (list D)) n m i : rect a n m -> i < n -> length (nth i a []) = m.
  Proof.
    intros [La Fa] Hi. rewrite Forall_forall in Fa. apply Fa. apply nth_In. lia.
  Qed.

  Lemma gather2_rect (a : list (list D)) px pz : rect (gather2 a px pz) (length px) (length pz).
  Proof.
    rewrite gather2_alt. split.
    - apply map_length.
    - apply Forall_forall. intros row Hr. apply in_map_iff in Hr. destruct Hr as [i [<- _]].
      apply gather_length.
  Qed.

  Lemma gather2_gather2 (a : list (list D)) p1 q1 p2 q2 :
    (forall i, In i p2 -> i < length p1) -> (forall i, In i q2 -> i < length q1) ->
    gather2 (gather2 a p1 q1) p2 q2 = gather2 a (gather 0 p1 p2) (gather 0 q1 q2).
  Proof.
    intros Hp Hq. rewrite (gather2_alt D d0 (gather2 a p1 q1)), (gather2_alt D d0 a (gather 0 p1 p2)).
    change (gather 0 p1 p2) with (map (fun i => nth i p1 0) p2). rewrite map_map.
    apply map_ext_in. intros i Hi. rewrite (gather2_alt D d0 a p1 q1).
    rewrite (nth_map_in _ _ 0 [] i) by auto.
    apply gather_gather. auto.
  Qed.

  Lemma map_gather_id (l : list (list D)) m :
    Forall (fun row => length row = m) l -> map (fun row => gather d0 row (seq 0 m)) l = l.
  Proof.
    intro F. rewrite <- (map_id l) at 2. apply map_ext_in. intros row Hr.
    rewrite Forall_forall in F. rewrite <- (F row Hr). apply gather_seq.
  Qed.

  Lemma gather2_id (a : list (list D)) n m : rect a n m -> gather2 a (seq 0 n) (seq 0 m) = a.
  Proof.
    intros [La Fa]. unfold Model.gather2. rewrite <- La, gather_seq. apply map_gather_id. exact Fa.
  Qed.

  (* the four layouts None | px | (..., pz) | (px[:,None], pz[None,:]) of utils._sort_array2d all
     are "gather2 with the effective index arrays", a missing order standing for arange *)
  Lemma sort2d_gen (a : list (list D)) n m (ox oz : option (list nat)) (ex ez : list nat) :
    rect a n m ->
    match ox with None => ex = seq 0 n | Some p => ex = p /\ (forall i, In i p -> i < n) end ->
    match oz with None => ez = seq 0 m | Some p => ez = p end ->
    sort_array2d D d0 a (mk_order2 ox oz) = gather2 a ex ez.
  Proof.
    intros R Hx Hz. destruct ox as [px|]; destruct oz as [pz|]; simpl mk_order2; cbn [sort_array2d].
    - destruct Hx as [-> _]. subst ez. rewrite gather2_alt. reflexivity.
    - destruct Hx as [-> B]. subst ez. unfold Model.gather2. symmetry. apply map_gather_id.
      apply Forall_forall. intros row Hr. unfold gather in Hr. apply in_map_iff in Hr.
      destruct Hr as [i [<- Hi]]. apply (rect_nth a n m); auto.
    - subst ex ez. unfold Model.gather2. destruct R as [La _]. rewrite <- La, gather_seq. reflexivity.
    - subst ex ez. symmetry. apply gather2_id; auto.
  Qed.

  Lemma sort2d_eff (a : list (list D)) (x z : list Z) : rect a (length x) (length z) ->
    sort_array2d D d0 a (mk_order2 (option_map fst (determine_sorts x)) (option_map fst (determine_sorts z)))
    = gather2 a (argsort x) (argsort z).
  Proof.
    intro R. apply (sort2d_gen a (length x) (length z)); auto.
    - unfold determine_sorts. destruct (incr (argsort x)) eqn:E; simpl.
      + apply (incr_identity _ _ (argsort_perm x) E).
      + split; auto. intros i Hi. apply (is_perm_lt _ _ _ (argsort_perm x) Hi).
    - unfold determine_sorts. destruct (incr (argsort z)) eqn:E; simpl; auto.
      apply (incr_identity _ _ (argsort_perm z) E).
  Qed.

  Lemma unsort2d_eff (a : list (list D)) (x z : list Z) : rect a (length x) (length z) ->
    sort_array2d D d0 a (mk_order2 (option_map snd (determine_sorts x)) (option_map snd (determine_sorts z)))
    = gather2 a (inverted_sort (argsort x)) (inverted_sort (argsort z)).
  Proof.
    intro R. apply (sort2d_gen a (length x) (length z)); auto.
    - unfold determine_sorts. destruct (incr (argsort x)) eqn:E; simpl.
      + rewrite (incr_identity _ _ (argsort_perm x) E). apply inverted_sort_seq.
      + split; auto. intros i Hi.
        apply (is_perm_lt _ _ _ (inverted_sort_perm _ _ (argsort_perm x)) Hi).
    - unfold determine_sorts. destruct (incr (argsort z)) eqn:E; simpl; auto.
      rewrite (incr_identity _ _ (argsort_perm z) E). apply inverted_sort_seq.
  Qed.
End G2b.

Section Equivariance2D.
  Variable D : Type.
  Variable d0 : D.
  Variable body2 : list Z -> list Z -> list (list D) -> option (list (list D))
                   -> list (list D) * list (list (list D)).
  Notation rect := (rect D).
  Notation gather2 := (gather2 D d0).
  Definition wrect (w : option (list (list D))) (n m : nat) : Prop :=
    match w with None => True | Some w' => rect w' n m end.

  (* the body returns arrays of the shape of the data (C01's shape property) when given such arrays *)
  Hypothesis body2_rect : forall xs zs ys ws,
    rect ys (length xs) (length zs) -> wrect ws (length xs) (length zs) ->
    rect (fst (body2 xs zs ys ws)) (length xs) (length zs) /\
    Forall (fun p => rect p (length xs) (length zs)) (snd (body2 xs zs ys ws)).

  Definition wrapper2_eff (x z : list Z) (y : list (list D)) (w : option (list (list D))) :=
    let sx := argsort x in
    let sz := argsort z in
    let r := body2 (gather 0%Z x sx) (gather 0%Z z sz) (gather2 y sx sz)
                   (option_map (fun w' => gather2 w' sx sz) w) in
    permute_out2 D d0 (inverted_sort sx) (inverted_sort sz) r.

  Lemma wrapper2_is_eff x z y w : rect y (length x) (length z) -> wrect w (length x) (length z) ->
    wrapper2 D d0 body2 x z y w = wrapper2_eff x z y w.
  Proof.
    intros Ry Rw. unfold wrapper2, wrapper2_eff, permute_out2. cbv zeta.
    rewrite (sort_array_eff 0%Z x x eq_refl), (sort_array_eff 0%Z z z eq_refl).
    rewrite (sort2d_eff D d0 y x z Ry).
    assert (Ew : option_map (fun w' => sort_array2d D d0 w'
                    (mk_order2 (option_map fst (determine_sorts x)) (option_map fst (determine_sorts z)))) w
                 = option_map (fun w' => gather2 w' (argsort x) (argsort z)) w).
    { destruct w as [w'|]; simpl; auto. simpl in Rw. rewrite (sort2d_eff D d0 w' x z Rw). auto. }
    rewrite Ew.
    set (r := body2 _ _ _ _).
    destruct (body2_rect (gather 0%Z x (argsort x)) (gather 0%Z z (argsort z))
                (gather2 y (argsort x) (argsort z))
                (option_map (fun w' => gather2 w' (argsort x) (argsort z)) w)) as [Rb Rp].
    { rewrite !gather_length. apply gather2_rect. }
    { destruct w; simpl; auto. rewrite !gather_length. apply gather2_rect. }
    fold r in Rb, Rp.
    rewrite !gather_length, (is_perm_length _ _ (argsort_perm x)),
      (is_perm_length _ _ (argsort_perm z)) in Rb, Rp.
    f_equal.
    - apply unsort2d_eff; auto.
    - apply map_ext_in. intros p Hp. rewrite Forall_forall in Rp. apply unsort2d_eff; auto.
  Qed.

  (* THE 2-D EQUIVARIANCE *)
  Theorem wrapper2_equivariant x z y w px pz :
    NoDup x -> NoDup z -> rect y (length x) (length z) -> wrect w (length x) (length z) ->
    is_perm px (length x) -> is_perm pz (length z) ->
    wrapper2 D d0 body2 (gather 0%Z x px) (gather 0%Z z pz) (gather2 y px pz)
             (option_map (fun w' => gather2 w' px pz) w)
    = permute_out2 D d0 px pz (wrapper2 D d0 body2 x z y w).
  Proof.
    intros NDx NDz Ry Rw Hpx Hpz.
    pose proof (is_perm_length _ _ Hpx) as Lpx. pose proof (is_perm_length _ _ Hpz) as Lpz.
    assert (Lx' : length (gather 0%Z x px) = length x) by (rewrite gather_length; auto).
    assert (Lz' : length (gather 0%Z z pz) = length z) by (rewrite gather_length; auto).
    rewrite (wrapper2_is_eff x z y w Ry Rw).
    rewrite wrapper2_is_eff.
    2:{ rewrite Lx', Lz', <- Lpx, <- Lpz. apply gather2_rect. }
    2:{ destruct w; simpl; auto. rewrite Lx', Lz', <- Lpx, <- Lpz. apply gather2_rect. }
    unfold wrapper2_eff.
    set (sx' := argsort (gather 0%Z x px)). set (sz' := argsort (gather 0%Z z pz)).
    assert (Hsx' : is_perm sx' (length x)) by (unfold sx'; rewrite <- Lx'; apply argsort_perm).
    assert (Hsz' : is_perm sz' (length z)) by (unfold sz'; rewrite <- Lz'; apply argsort_perm).
    assert (Bx : forall i, In i sx' -> i < length px)
      by (intros i Hi; rewrite Lpx; apply (is_perm_lt sx' (length x)); auto).
    assert (Bz : forall i, In i sz' -> i < length pz)
      by (intros i Hi; rewrite Lpz; apply (is_perm_lt sz' (length z)); auto).
    assert (Cx : gather 0 px sx' = argsort x) by (apply argsort_equivariant; auto).
    assert (Cz : gather 0 pz sz' = argsort z) by (apply argsort_equivariant; auto).
    rewrite (gather_gather 0%Z x px sx' Bx), (gather_gather 0%Z z pz sz' Bz).
    rewrite (gather2_gather2 D d0 y px pz sx' sz' Bx Bz), Cx, Cz.
    assert (Ew : option_map (fun w' => gather2 w' sx' sz') (option_map (fun w' => gather2 w' px pz) w)
                 = option_map (fun w' => gather2 w' (argsort x) (argsort z)) w).
    { destruct w as [w'|]; simpl; auto. rewrite (gather2_gather2 D d0 w' px pz sx' sz' Bx Bz), Cx, Cz. auto. }
    rewrite Ew.
    set (r := body2 _ _ _ _).
    unfold sx', sz'. rewrite (inverse_equivariant x px NDx Hpx), (inverse_equivariant z pz NDz Hpz).
    assert (B2x : forall i, In i px -> i < length (inverted_sort (argsort x))).
    { intros i Hi. rewrite inverted_sort_length, (is_perm_length _ _ (argsort_perm x)).
      apply (is_perm_lt px (length x)); auto. }
    assert (B2z : forall i, In i pz -> i < length (inverted_sort (argsort z))).
    { intros i Hi. rewrite inverted_sort_length, (is_perm_length _ _ (argsort_perm z)).
      apply (is_perm_lt pz (length z)); auto. }
    unfold permute_out2. cbn [fst snd]. f_equal.
    - symmetry. apply gather2_gather2; auto.
    - rewrite map_map. apply map_ext. intro p. symmetry. apply gather2_gather2; auto.
  Qed.
End Equivariance2D.
