(* C02 -- equivariance of the wrappers for sort_keys entries of any trailing shape (rows of an
   arbitrary type E gathered along the leading axis / the two leading axes). *)
From Coq Require Import ZArith List Bool Arith Lia Permutation.
From PB Require Import lib.Perm lib.PermProofs C02.Model C02.Proofs C02.Proofs2D C02.Wrapper2D.
Import ListNotations.

Section G1.
  Variable D E : Type.
  Variable d0 : D.
  Variable e0 : E.
  Variable body : list Z -> list D -> option (list D) -> list D * list (list E).

  Hypothesis body_len : forall xs ys ws, length ys = length xs -> wlen D ws (length xs) ->
    length (fst (body xs ys ws)) = length xs /\
    Forall (fun p => length p = length xs) (snd (body xs ys ws)).

  Definition wrapperG_eff (x : list Z) (y : list D) (w : option (list D)) :=
    let s := argsort x in
    let r := body (gather 0%Z x s) (gather d0 y s) (option_map (fun w' => gather d0 w' s) w) in
    permute_outG D E d0 e0 (inverted_sort s) r.

  Lemma wrapperG_is_eff x y w : length y = length x -> wlen D w (length x) ->
    wrapperG D E d0 e0 body x y w = wrapperG_eff x y w.
  Proof.
    intros Ly Lw. unfold wrapperG, wrapperG_eff, permute_outG. cbv zeta.
    rewrite (sort_array_eff 0%Z x x eq_refl), (sort_array_eff d0 x y Ly).
    assert (Ew : option_map (fun w' => sort_array d0 w' (option_map fst (determine_sorts x))) w
                 = option_map (fun w' => gather d0 w' (argsort x)) w).
    { destruct w as [w'|]; simpl; auto. simpl in Lw. rewrite (sort_array_eff d0 x w' Lw). auto. }
    rewrite Ew.
    set (r := body _ _ _).
    destruct (body_len (gather 0%Z x (argsort x)) (gather d0 y (argsort x))
                (option_map (fun w' => gather d0 w' (argsort x)) w)) as [Lb Lp].
    { rewrite !gather_length; auto. }
    { destruct w; simpl; auto. rewrite !gather_length; auto. }
    fold r in Lb, Lp. rewrite gather_length, (is_perm_length _ _ (argsort_perm x)) in Lb, Lp.
    f_equal.
    - apply unsort_array_eff; auto.
    - apply map_ext_in. intros p Hp. rewrite Forall_forall in Lp. apply unsort_array_eff; auto.
  Qed.

  Theorem wrapperG_equivariant x y w pi :
    NoDup x -> length y = length x -> wlen D w (length x) -> is_perm pi (length x) ->
    wrapperG D E d0 e0 body (gather 0%Z x pi) (gather d0 y pi) (option_map (fun w' => gather d0 w' pi) w)
    = permute_outG D E d0 e0 pi (wrapperG D E d0 e0 body x y w).
  Proof.
    intros ND Ly Lw Hpi.
    pose proof (is_perm_length _ _ Hpi) as Lpi.
    assert (Lx' : length (gather 0%Z x pi) = length x) by (rewrite gather_length; auto).
    rewrite (wrapperG_is_eff x y w Ly Lw).
    rewrite wrapperG_is_eff.
    2:{ rewrite !gather_length; auto. }
    2:{ destruct w; simpl; auto. rewrite !gather_length; auto. }
    unfold wrapperG_eff.
    set (s' := argsort (gather 0%Z x pi)).
    assert (Hs' : is_perm s' (length x)).
    { unfold s'. rewrite <- Lx'. apply argsort_perm. }
    assert (B : forall i, In i s' -> i < length pi).
    { intros i Hi. rewrite Lpi. eapply is_perm_lt; eauto. }
    assert (C : gather 0 pi s' = argsort x) by (apply argsort_equivariant; auto).
    rewrite (gather_gather 0%Z x pi s' B), (gather_gather d0 y pi s' B), C.
    assert (Ew : option_map (fun w' => gather d0 w' s') (option_map (fun w' => gather d0 w' pi) w)
                 = option_map (fun w' => gather d0 w' (argsort x)) w).
    { destruct w as [w'|]; simpl; auto. rewrite (gather_gather d0 w' pi s' B), C. auto. }
    rewrite Ew.
    set (r := body _ _ _).
    unfold s'. rewrite (inverse_equivariant x pi ND Hpi).
    assert (B2 : forall i, In i pi -> i < length (inverted_sort (argsort x))).
    { intros i Hi. rewrite inverted_sort_length, (is_perm_length _ _ (argsort_perm x)).
      apply (is_perm_lt pi (length x)); auto. }
    unfold permute_outG. cbn [fst snd]. f_equal.
    - symmetry. apply gather_gather; auto.
    - rewrite map_map. apply map_ext. intro p. symmetry. apply gather_gather; auto.
  Qed.
End G1.

Section G2.
  Variable D E : Type.
  Variable d0 : D.
  Variable e0 : E.
  Variable body2 : list Z -> list Z -> list (list D) -> option (list (list D))
                   -> list (list D) * list (list (list E)).

  Hypothesis body2_rect : forall xs zs ys ws,
    rect D ys (length xs) (length zs) -> wrect D ws (length xs) (length zs) ->
    rect D (fst (body2 xs zs ys ws)) (length xs) (length zs) /\
    Forall (fun p => rect E p (length xs) (length zs)) (snd (body2 xs zs ys ws)).

  Definition wrapper2G_eff (x z : list Z) (y : list (list D)) (w : option (list (list D))) :=
    let sx := argsort x in
    let sz := argsort z in
    let r := body2 (gather 0%Z x sx) (gather 0%Z z sz) (gather2 D d0 y sx sz)
                   (option_map (fun w' => gather2 D d0 w' sx sz) w) in
    permute_out2G D E d0 e0 (inverted_sort sx) (inverted_sort sz) r.

  Lemma wrapper2G_is_eff x z y w : rect D y (length x) (length z) -> wrect D w (length x) (length z) ->
    wrapper2G D E d0 e0 body2 x z y w = wrapper2G_eff x z y w.
  Proof.
    intros Ry Rw. unfold wrapper2G, wrapper2G_eff, permute_out2G. cbv zeta.
    rewrite (sort_array_eff 0%Z x x eq_refl), (sort_array_eff 0%Z z z eq_refl).
    rewrite (sort2d_eff D d0 y x z Ry).
    assert (Ew : option_map (fun w' => sort_array2d D d0 w'
                    (mk_order2 (option_map fst (determine_sorts x)) (option_map fst (determine_sorts z)))) w
                 = option_map (fun w' => gather2 D d0 w' (argsort x) (argsort z)) w).
    { destruct w as [w'|]; simpl; auto. simpl in Rw. rewrite (sort2d_eff D d0 w' x z Rw). auto. }
    rewrite Ew.
    set (r := body2 _ _ _ _).
    destruct (body2_rect (gather 0%Z x (argsort x)) (gather 0%Z z (argsort z))
                (gather2 D d0 y (argsort x) (argsort z))
                (option_map (fun w' => gather2 D d0 w' (argsort x) (argsort z)) w)) as [Rb Rp].
    { rewrite !gather_length. apply gather2_rect. }
    { destruct w; simpl; auto. rewrite !gather_length. apply gather2_rect. }
    fold r in Rb, Rp.
    rewrite !gather_length, (is_perm_length _ _ (argsort_perm x)),
      (is_perm_length _ _ (argsort_perm z)) in Rb, Rp.
    f_equal.
    - apply unsort2d_eff; auto.
    - apply map_ext_in. intros p Hp. rewrite Forall_forall in Rp. apply unsort2d_eff; auto.
  Qed.

  Theorem wrapper2G_equivariant x z y w px pz :
    NoDup x -> NoDup z -> rect D y (length x) (length z) -> wrect D w (length x) (length z) ->
    is_perm px (length x) -> is_perm pz (length z) ->
    wrapper2G D E d0 e0 body2 (gather 0%Z x px) (gather 0%Z z pz) (gather2 D d0 y px pz)
              (option_map (fun w' => gather2 D d0 w' px pz) w)
    = permute_out2G D E d0 e0 px pz (wrapper2G D E d0 e0 body2 x z y w).
  Proof.
    intros NDx NDz Ry Rw Hpx Hpz.
    pose proof (is_perm_length _ _ Hpx) as Lpx. pose proof (is_perm_length _ _ Hpz) as Lpz.
    assert (Lx' : length (gather 0%Z x px) = length x) by (rewrite gather_length; auto).
    assert (Lz' : length (gather 0%Z z pz) = length z) by (rewrite gather_length; auto).
    rewrite (wrapper2G_is_eff x z y w Ry Rw).
    rewrite wrapper2G_is_eff.
    2:{ rewrite Lx', Lz', <- Lpx, <- Lpz. apply gather2_rect. }
    2:{ destruct w; simpl; auto. rewrite Lx', Lz', <- Lpx, <- Lpz. apply gather2_rect. }
    unfold wrapper2G_eff.
    set (sx' := argsort (gather 0%Z x px)). set (sz' := argsort (gather 0%Z z pz)).
    assert (Hsx' : is_perm sx' (length x)) by (unfold sx'; rewrite <- Lx'; apply argsort_perm).
    assert (Hsz' : is_perm sz' (length z)) by (unfold sz'; rewrite <- Lz'; apply argsort_perm).
    assert (Bx : forall i, In i sx' -> i < length px)
      by (intros i Hi; rewrite Lpx; apply (is_perm_lt sx' (length x)); auto).
    assert (Bz : forall i, In i sz' -> i < length pz)
      by (intros i Hi; rewrite Lpz; apply (is_perm_lt sz' (length z)); auto).
    assert (Cx : gather 0 px sx' = argsort x) by (apply argsort_equivariant; auto).
    assert (Cz : gather 0 pz sz' = argsort z) by (apply argsort_equivariant; auto).
    rewrite (gather_gather 0%Z x px sx' Bx), (gather_gather 0%Z z pz sz' Bz).
    rewrite (gather2_gather2 D d0 y px pz sx' sz' Bx Bz), Cx, Cz.
    assert (Ew : option_map (fun w' => gather2 D d0 w' sx' sz') (option_map (fun w' => gather2 D d0 w' px pz) w)
                 = option_map (fun w' => gather2 D d0 w' (argsort x) (argsort z)) w).
    { destruct w as [w'|]; simpl; auto. rewrite (gather2_gather2 D d0 w' px pz sx' sz' Bx Bz), Cx, Cz. auto. }
    rewrite Ew.
    set (r := body2 _ _ _ _).
    unfold sx', sz'. rewrite (inverse_equivariant x px NDx Hpx), (inverse_equivariant z pz NDz Hpz).
    assert (B2x : forall i, In i px -> i < length (inverted_sort (argsort x))).
    { intros i Hi. rewrite inverted_sort_length, (is_perm_length _ _ (argsort_perm x)).
      apply (is_perm_lt px (length x)); auto. }
    assert (B2z : forall i, In i pz -> i < length (inverted_sort (argsort z))).
    { intros i Hi. rewrite inverted_sort_length, (is_perm_length _ _ (argsort_perm z)).
      apply (is_perm_lt pz (length z)); auto. }
    unfold permute_out2G. cbn [fst snd]. f_equal.
    - symmetry. apply gather2_gather2; auto.
    - rewrite map_map. apply map_ext. intro p. symmetry. apply gather2_gather2; auto.
  Qed.
End G2.

(* ------------------------------------------------------------------ data may be None *)
Section GN.
  Variable D E : Type.
  Variable d0 : D.
  Variable e0 : E.
  Variable body : list Z -> option (list D) -> option (list D) -> list D * list (list E).

  Hypothesis body_len : forall xs ys ws,
    match ys with None => True | Some y' => length y' = length xs end -> wlen D ws (length xs) ->
    length (fst (body xs ys ws)) = length xs /\
    Forall (fun p => length p = length xs) (snd (body xs ys ws)).

  Definition body_some := fun xs (ys : list D) ws => body xs (Some ys) ws.
  Definition body_none := fun xs (_ : list D) ws => body xs None ws.

  Lemma wrapperN_some x y w :
    wrapperN D E d0 e0 body false x (Some y) w = wrapperG D E d0 e0 body_some x y w.
  Proof. reflexivity. Qed.

  (* without data: the wrapper around a body that ignores the (absent) data, on ANY dummy data *)
  Lemma wrapperN_none x w dummy :
    wrapperN D E d0 e0 body false x None w = wrapperG D E d0 e0 body_none x dummy w.
  Proof. reflexivity. Qed.

  Theorem wrapperN_equivariant x y w pi :
    NoDup x -> match y with None => True | Some y' => length y' = length x end ->
    wlen D w (length x) -> is_perm pi (length x) ->
    wrapperN D E d0 e0 body false (gather 0%Z x pi) (option_map (fun y' => gather d0 y' pi) y)
             (option_map (fun w' => gather d0 w' pi) w)
    = permute_outG D E d0 e0 pi (wrapperN D E d0 e0 body false x y w).
  Proof.
    intros ND Ly Lw Hpi. destruct y as [y'|]; simpl option_map.
    - rewrite !wrapperN_some.
      apply (wrapperG_equivariant D E d0 e0 body_some); auto.
      intros xs ys ws L1 L2. apply (body_len xs (Some ys) ws); auto.
    - set (dm := map (fun _ : Z => d0) x).
      rewrite (wrapperN_none (gather 0%Z x pi) _ (gather d0 dm pi)), (wrapperN_none x w dm).
      apply (wrapperG_equivariant D E d0 e0 body_none); auto.
      + intros xs ys ws _ L2. apply (body_len xs None ws); simpl; auto.
      + unfold dm. apply map_length.
  Qed.
End GN.
