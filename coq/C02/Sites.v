(* C02 -- the statements of the wrappers (_Algorithm/_Algorithm2D.__init__, _register, _return_results, _override_x,
   _get_function) and of the methods that skip the wrapper's sorting (optimizers) + custom_bc that mention the
   sort orders, PINNED as reviewed text (target, expression) in source order.  tools/gen_orderflow.py re-extracts
   the same list from the current source on every run (gen_sites); props/C02.v requires equality.  The order
   discipline of these sites is argued in the comments below and cross-validated dynamically by harness/c02.py
   (arrays that encode their own index) -- it is NOT derived by the abstract interpretation that covers the other
   methods.

   Reviewed meaning (tags as in C02/OrderFlow.v):
   * __init__: x is sorted once; 2-D: the four layouts None / x_order / (..., z_order) / (x_order[:,None], z_order[None,:]).
   * _register: data sorted with _sort_order unless skip_sorting;  _return_results: every sort_keys entry and
     (unless skip_sorting) the baseline gathered with _inverted_order.          [C02_wrapper_equivariant]
   * _get_function / individual_axes: sub-fitters get x (z) back in the SUPPLIED order (self.x[inverted]) so that
     they sort the unsorted data themselves.
   * optimize_extended_range: edges are computed from the sorted data; the sub-fitter's order is the extended
     order [C02_extended_order]; user weights are padded in the supplied order.
   * adaptive_minmax: weights tag -1 --sort--> 0, edge write at tag 0, --unsort--> -1 for the sub-fitter calls;
     default weights (order-invariant) take the same path since the fix 0b7a534 (sort_weights no longer depends
     on weights being given).
   * custom_bc: local argsort of the sampled x_fit only. *)
From Coq Require Import List String.
Import ListNotations.
Open Scope string_scope.

Definition expected_sites : list (string * string * string * string) := [
  ("1d", "__init__", "self._sort_order", "None");
  ("1d", "__init__", "self._inverted_order", "None");
  ("1d", "__init__", "(self._sort_order, self._inverted_order)", "_determine_sorts(self.x)");
  ("1d", "__init__", "<if>", "self._sort_order is not None");
  ("1d", "__init__", "self.x", "self.x[self._sort_order]");
  ("1d", "_register", "<return>", "return partial(cls._register, sort_keys=sort_keys, ensure_1d=ensure_1d, skip_sorting=skip_sorting, require_unique_x=require_unique_x)");
  ("1d", "_register", "<if>", "input_y and (not skip_sorting)");
  ("1d", "_register", "y", "_sort_array(y, sort_order=self._sort_order)");
  ("1d", "_register", "<return>", "return self._return_results(baseline, params, output_dtype, sort_keys, skip_sorting)");
  ("1d", "_return_results", "<if>", "self._sort_order is not None");
  ("1d", "_return_results", "<loop>", "sort_keys");
  ("1d", "_return_results", "params[key]", "params[key][self._inverted_order]");
  ("1d", "_return_results", "<if>", "not skip_sorting");
  ("1d", "_return_results", "baseline", "_sort_array(baseline, sort_order=self._inverted_order)");
  ("1d", "_override_x", "new_object._sort_order", "new_sort_order");
  ("1d", "_override_x", "<if>", "new_sort_order is not None");
  ("1d", "_override_x", "new_object._inverted_order", "_inverted_sort(new_sort_order)");
  ("1d", "_get_function", "<if>", "self._sort_order is not None");
  ("1d", "_get_function", "x", "self.x[self._inverted_order]");
  ("1d", "_get_function", "<else>", "");
  ("2d", "__init__", "x_sort_order", "None");
  ("2d", "__init__", "z_sort_order", "None");
  ("2d", "__init__", "(x_sort_order, x_inverted_order)", "_determine_sorts(self.x)");
  ("2d", "__init__", "<if>", "x_sort_order is not None");
  ("2d", "__init__", "self.x", "self.x[x_sort_order]");
  ("2d", "__init__", "(z_sort_order, z_inverted_order)", "_determine_sorts(self.z)");
  ("2d", "__init__", "<if>", "z_sort_order is not None");
  ("2d", "__init__", "self.z", "self.z[z_sort_order]");
  ("2d", "__init__", "<if>", "x_sort_order is None and z_sort_order is None");
  ("2d", "__init__", "self._sort_order", "None");
  ("2d", "__init__", "self._inverted_order", "None");
  ("2d", "__init__", "<else>", "");
  ("2d", "__init__", "<if>", "z_sort_order is None");
  ("2d", "__init__", "self._sort_order", "x_sort_order");
  ("2d", "__init__", "self._inverted_order", "x_inverted_order");
  ("2d", "__init__", "<else>", "");
  ("2d", "__init__", "<if>", "x_sort_order is None");
  ("2d", "__init__", "self._sort_order", "(..., z_sort_order)");
  ("2d", "__init__", "self._inverted_order", "(..., z_inverted_order)");
  ("2d", "__init__", "<else>", "");
  ("2d", "__init__", "self._sort_order", "(x_sort_order[:, None], z_sort_order[None, :])");
  ("2d", "__init__", "self._inverted_order", "(x_inverted_order[:, None], z_inverted_order[None, :])");
  ("2d", "_register", "<return>", "return partial(cls._register, sort_keys=sort_keys, ensure_2d=ensure_2d, reshape_baseline=reshape_baseline, reshape_keys=reshape_keys, skip_sorting=skip_sorting, require_unique_xz=require_unique_xz)");
  ("2d", "_register", "<if>", "not skip_sorting");
  ("2d", "_register", "y", "_sort_array2d(y, sort_order=self._sort_order)");
  ("2d", "_register", "<return>", "return self._return_results(baseline, params, dtype=output_dtype, sort_keys=sort_keys, ensure_2d=ensure_2d, reshape_baseline=reshape_baseline, reshape_keys=reshape_keys, skip_sorting=skip_sorting)");
  ("2d", "_return_results", "<if>", "self._sort_order is not None");
  ("2d", "_return_results", "<loop>", "sort_keys");
  ("2d", "_return_results", "params[key]", "params[key][self._inverted_order]");
  ("2d", "_return_results", "<if>", "not skip_sorting");
  ("2d", "_return_results", "baseline", "_sort_array2d(baseline, sort_order=self._inverted_order)");
  ("2d", "_get_function", "<if>", "self._sort_order is None");
  ("2d", "_get_function", "<else>", "");
  ("2d", "_get_function", "<if>", "isinstance(self._sort_order, tuple)");
  ("2d", "_get_function", "<if>", "self._sort_order[0] is Ellipsis");
  ("2d", "_get_function", "z", "self.z[self._inverted_order[1]]");
  ("2d", "_get_function", "<else>", "");
  ("2d", "_get_function", "x", "self.x[self._inverted_order[0][:, 0]]");
  ("2d", "_get_function", "z", "self.z[self._inverted_order[1][0]]");
  ("2d", "_get_function", "<else>", "");
  ("2d", "_get_function", "x", "self.x[self._inverted_order]");
  ("1d", "optimize_extended_range", "(added_left, added_right)", "_get_edges(_sort_array(y, self._sort_order), added_window, **pad_kwargs)");
  ("1d", "optimize_extended_range", "<if>", "self._sort_order is None");
  ("1d", "optimize_extended_range", "new_sort_order", "None");
  ("1d", "optimize_extended_range", "<else>", "");
  ("1d", "optimize_extended_range", "new_sort_order", "np.concatenate((self._sort_order, np.arange(self._size, self._size + added_len, dtype=np.intp)), dtype=np.intp)");
  ("1d", "optimize_extended_range", "new_sort_order", "np.concatenate((np.arange(added_len, dtype=np.intp), self._sort_order + added_len), dtype=np.intp)");
  ("1d", "optimize_extended_range", "new_sort_order", "np.concatenate((np.arange(added_window, dtype=np.intp), self._sort_order + added_window, np.arange(self._size + added_window, self._size + added_len, dtype=np.intp)), dtype=np.intp)");
  ("1d", "optimize_extended_range", "new_fitter", "fit_object._override_x(fit_x_data, new_sort_order=new_sort_order)");
  ("1d", "adaptive_minmax", "sort_weights", "self._sort_order is not None");
  ("1d", "adaptive_minmax", "<if>", "sort_weights");
  ("1d", "adaptive_minmax", "weight_array", "_sort_array(weight_array, self._sort_order)");
  ("1d", "adaptive_minmax", "<if>", "sort_weights");
  ("1d", "adaptive_minmax", "weight_array", "_sort_array(weight_array, self._inverted_order)");
  ("1d", "adaptive_minmax", "constrained_weights", "_sort_array(constrained_weights, self._inverted_order)");
  ("1d", "custom_bc", "sort_order", "np.argsort(x_fit, kind='mergesort')");
  ("1d", "custom_bc", "x_fit", "x_fit[sort_order]");
  ("1d", "custom_bc", "y_fit", "np.array(y_sections)[sort_order]");
  ("2d", "adaptive_minmax", "sort_weights", "self._sort_order is not None");
  ("2d", "adaptive_minmax", "<if>", "sort_weights");
  ("2d", "adaptive_minmax", "weight_array", "_sort_array2d(weight_array, self._sort_order)");
  ("2d", "adaptive_minmax", "<if>", "sort_weights");
  ("2d", "adaptive_minmax", "weight_array", "_sort_array2d(weight_array, self._inverted_order)");
  ("2d", "adaptive_minmax", "constrained_weights", "_sort_array2d(constrained_weights, self._inverted_order)");
  ("2d", "individual_axes", "<if>", "self._sort_order is None");
  ("2d", "individual_axes", "<else>", "");
  ("2d", "individual_axes", "<if>", "isinstance(self._sort_order, tuple)");
  ("2d", "individual_axes", "<if>", "self._sort_order[0] is Ellipsis");
  ("2d", "individual_axes", "axis_values", "(self.x, self.z[self._inverted_order[1]])");
  ("2d", "individual_axes", "<else>", "");
  ("2d", "individual_axes", "axis_values", "(self.x[self._inverted_order[0][:, 0]], self.z[self._inverted_order[1][0]])");
  ("2d", "individual_axes", "<else>", "");
  ("2d", "individual_axes", "axis_values", "(self.x[self._inverted_order], self.z)")
].
