(* C02 -- what is still PINNED as reviewed text (target, expression), in source order: the re-ordering block of
   _return_results (1-D and 2-D) VERBATIM -- `for key in sort_keys: if key in params: params[key] = params[key][inverted]`
   with no condition on ndim / shape / type, which is what wrapperG / wrapper2G model (every present entry is
   gathered along its leading axis/axes) -- and the statements of custom_bc
   that mention a sort order (a local argsort of the sampled x_fit only; custom_bc is registered WITH the wrapper's
   sorting, runs its sub-fitter on the ascending x_fit and interpolates back onto the sorted x).
   tools/gen_orderflow.py re-extracts the same list from the current source on every run (gen_sites);
   props/C02.v requires equality.

   Everything else that used to be pinned here is now DERIVED: __init__/_register/_return_results are the
   wrapper / wrapper2 models (C02_wrapper_equivariant, C02_wrapper2_equivariant); _get_function is
   get_function_x / axis_values (C02_get_function, C02_individual_axes); _override_x + optimize_extended_range,
   adaptive_minmax (1-D, 2-D) and individual_axes are modelled in C02/OptModel.v and proved equivariant
   (C02_extended_range, C02_override_x_inverse, C02_adaptive_minmax, C02_adaptive_minmax_2d, C02_individual_axes).
   Each model is tied to the code by an exact-integer correspondence in harness/c02.py.  The translator refuses a
   skip_sorting method that is not in its list of modelled ones.  collab_pls has no order-related statement at all
   (it passes per-point arrays between sub-fitters in the supplied order); it is modelled in C02/CollabModel.v and
   proved equivariant (C02_collab_pls). *)
From Coq Require Import List String.
Import ListNotations.
Open Scope string_scope.

Definition expected_sites : list (string * string * string * string) := [
  ("1d", "_return_results", "<block>", "if self._sort_order is not None: ;     for key in sort_keys: ;         if key in params: ;             params[key] = params[key][self._inverted_order] ;     if not skip_sorting: ;         baseline = _sort_array(baseline, sort_order=self._inverted_order)");
  ("2d", "_return_results", "<block>", "if self._sort_order is not None: ;     for key in sort_keys: ;         if key in params: ;             params[key] = params[key][self._inverted_order] ;     if not skip_sorting: ;         baseline = _sort_array2d(baseline, sort_order=self._inverted_order)");
  ("1d", "custom_bc", "sort_order", "np.argsort(x_fit, kind='mergesort')");
  ("1d", "custom_bc", "x_fit", "x_fit[sort_order]");
  ("1d", "custom_bc", "y_fit", "np.array(y_sections)[sort_order]")
].
