(* C02 -- soundness of the reflective order-flow checker (C02/OrderFlow.v). *)
From Coq Require Import ZArith List Bool String Lia Permutation.
From PB Require Import lib.Perm lib.PermProofs C02.OrderFlow.
Import ListNotations.
Open Scope Z_scope.
Notation length := List.length.

Section Sound.
  Variable D : Type.
  Variable d0 : D.
  Variable sigma : list nat.
  Variable n : nat.
  Hypothesis Hs : is_perm sigma n.

  Definition sortf (a : list D) := gather d0 a sigma.
  Definition unsortf (a : list D) := gather d0 a (inverted_sort sigma).

  (* c gathered k times by sigma (k >= 0) or -k times by the inverse (k < 0) *)
  Definition act (k : Z) (c : list D) : list D :=
    if 0 <=? k then Nat.iter (Z.to_nat k) sortf c else Nat.iter (Z.to_nat (- k)) unsortf c.

  Lemma len_sortf a : length (sortf a) = n.
  Proof. unfold sortf. rewrite gather_length. apply (is_perm_length _ _ Hs). Qed.

  Lemma len_unsortf a : length (unsortf a) = n.
  Proof.
    unfold unsortf. rewrite gather_length, inverted_sort_length. apply (is_perm_length _ _ Hs).
  Qed.

  Lemma len_iter (f : list D -> list D) m c :
    (forall a, length (f a) = n) -> length c = n -> length (Nat.iter m f c) = n.
  Proof. intros Hf L. destruct m; simpl; auto. Qed.

  Lemma su a : length a = n -> sortf (unsortf a) = a.
  Proof. intro L. apply (gather_inverse' d0 a sigma n L Hs). Qed.

  Lemma us a : length a = n -> unsortf (sortf a) = a.
  Proof. intro L. apply (gather_inverse d0 a sigma n L Hs). Qed.

  Lemma act_sort k c : length c = n -> sortf (act k c) = act (k + 1) c.
  Proof.
    intro L. unfold act. destruct (0 <=? k) eqn:E.
    - apply Z.leb_le in E. assert (E1 : (0 <=? k + 1) = true) by (apply Z.leb_le; lia).
      rewrite E1. replace (Z.to_nat (k + 1)) with (S (Z.to_nat k)) by lia. reflexivity.
    - apply Z.leb_gt in E. destruct (0 <=? k + 1) eqn:E1.
      + apply Z.leb_le in E1. assert (k = -1) by lia. subst k. simpl. apply su; auto.
      + apply Z.leb_gt in E1.
        replace (Z.to_nat (- k)) with (S (Z.to_nat (- (k + 1)))) by lia.
        simpl. apply su. apply len_iter; auto. apply len_unsortf.
  Qed.

  Lemma act_unsort k c : length c = n -> unsortf (act k c) = act (k - 1) c.
  Proof.
    intro L. unfold act. destruct (0 <=? k) eqn:E.
    - apply Z.leb_le in E. destruct (0 <=? k - 1) eqn:E1.
      + apply Z.leb_le in E1. replace (Z.to_nat k) with (S (Z.to_nat (k - 1))) by lia.
        simpl. apply us. apply len_iter; auto. apply len_sortf.
      + apply Z.leb_gt in E1. assert (k = 0) by lia. subst k. reflexivity.
    - apply Z.leb_gt in E. assert (E1 : (0 <=? k - 1) = false) by (apply Z.leb_gt; lia).
      rewrite E1. replace (Z.to_nat (- (k - 1))) with (S (Z.to_nat (- k))) by lia. reflexivity.
  Qed.

  Lemma act_len k c : length c = n -> length (act k c) = n.
  Proof.
    intro L. unfold act. destruct (0 <=? k); apply len_iter; auto using len_sortf, len_unsortf.
  Qed.

  Lemma run_ops_act l : forall k c, length c = n ->
    run_ops D d0 sigma l (act k c) = act (k + ops_tag l) c.
  Proof.
    induction l as [|o l IH]; intros k c L.
    - simpl. f_equal. lia.
    - change (run_ops D d0 sigma (o :: l) (act k c))
        with (run_ops D d0 sigma l (do_op D d0 sigma o (act k c))).
      change (ops_tag (o :: l)) with (op_tag o + ops_tag l).
      destruct o; cbn [do_op op_tag].
      + change (gather d0 (act k c) sigma) with (sortf (act k c)).
        rewrite act_sort by auto. rewrite IH by auto. f_equal. lia.
      + change (gather d0 (act k c) (inverted_sort sigma)) with (unsortf (act k c)).
        rewrite act_unsort by auto. rewrite IH by auto. f_equal. lia.
  Qed.

  Lemma run_ops_const l c : (forall p, is_perm p n -> gather d0 c p = c) ->
    run_ops D d0 sigma l c = c.
  Proof.
    intro Hc. induction l as [|o l IH]; auto.
    change (run_ops D d0 sigma (o :: l) c) with (run_ops D d0 sigma l (do_op D d0 sigma o c)).
    destruct o; cbn [do_op].
    - rewrite (Hc sigma Hs). exact IH.
    - rewrite (Hc _ (inverted_sort_perm _ _ Hs)). exact IH.
  Qed.

  (* SOUNDNESS: a row that passes the check delivers, for EVERY sort order sigma, exactly the array
     the computation on sorted inputs holds at that place. *)
  Theorem flow_sound (r : row) (c : list D) :
    length c = n ->
    (r_src r = SConst -> forall p, is_perm p n -> gather d0 c p = c) ->
    flow_ok r = true ->
    arrives D d0 sigma r c = c.
  Proof.
    intros L Hc Hok. unfold arrives, flow_ok in *.
    assert (T : forall t, t = 0 -> act t c = c) by (intros t Ht; subst t; reflexivity).
    assert (EU : gather d0 c (inverted_sort sigma) = act (-1) c) by reflexivity.
    assert (EI : run_ops D d0 sigma (r_ops r) c = run_ops D d0 sigma (r_ops r) (act 0 c)) by reflexivity.
    destruct (r_src r) eqn:Es.
    - (* user order *)
      cbn [is_const src_tag orb] in Hok. apply Z.eqb_eq in Hok. cbn [start]. rewrite EU.
      rewrite run_ops_act by auto. destruct (r_sink r); cbn [deliver sink_tag] in *;
        try (apply T; lia).
      change (gather d0 (act (-1 + ops_tag (r_ops r)) c) sigma)
        with (sortf (act (-1 + ops_tag (r_ops r)) c)).
      rewrite act_sort by auto. apply T; lia.
    - (* built from sorted data *)
      cbn [is_const src_tag orb] in Hok. apply Z.eqb_eq in Hok. cbn [start]. rewrite EI.
      rewrite run_ops_act by auto. destruct (r_sink r); cbn [deliver sink_tag] in *;
        try (apply T; lia).
      change (gather d0 (act (0 + ops_tag (r_ops r)) c) sigma)
        with (sortf (act (0 + ops_tag (r_ops r)) c)).
      rewrite act_sort by auto. apply T; lia.
    - (* order-invariant *)
      cbn [start]. rewrite run_ops_const by auto.
      destruct (r_sink r); cbn [deliver]; auto; try apply (Hc eq_refl sigma Hs).
  Qed.

  (* and the check is not vacuous: a row whose tags do not cancel delivers c gathered by a non-zero
     power of sigma (stated for the two shapes that occurred as defects) *)
  Lemma sorted_twice_arrives c : length c = n ->
    arrives D d0 sigma {| r_dim := ""; r_method := ""; r_var := ""; r_src := SInternal;
                          r_ops := [OSort]; r_sink := KUse |} c = gather d0 c sigma.
  Proof. reflexivity. Qed.
End Sound.
