(* C02 -- executable model of the order handling of collab_pls (pybaselines/optimizers.py:81-135),
   registered with skip_sorting=True: it never touches a sort order itself; per-point arrays travel
   between sub-fitter calls in the SUPPLIED order (a sub-fitter returns its 'weights' un-sorted, and
   sorts the weights it is given).  Models only; proofs in C02/CollabProofs.v. *)
From Coq Require Import ZArith List Bool Arith.
From PB Require Import lib.Perm C02.Model.
Import ListNotations.

Section Collab.
  Variable D : Type.
  Variable d0 : D.
  Variable mean : list D -> D.                     (* np.mean over the data sets, per point *)
  (* the wrapped method in step 1 and in step 2 (same method, tol = inf in step 2):
     sorted x, sorted data, sorted optional weights -> (baseline, weights); sort_keys = ('weights',) *)
  Variable b1 b2 : list Z -> list D -> option (list D) -> list D * list D.

  Definition lift (b : list Z -> list D -> option (list D) -> list D * list D) :=
    fun xs ys ws => (fst (b xs ys ws), [snd (b xs ys ws)]).

  (* baseline_func(entry, **method_kws): the registered method of the fitter = the 1-D wrapper;
     returns (baseline, params['weights']) in the supplied order *)
  Definition sub b (x : list Z) (y : list D) (w : option (list D)) : list D * list D :=
    let r := wrapperG D D d0 d0 (lift b) x y w in (fst r, hd [] (snd r)).

  (* np.mean(array_of_rows, axis=0) *)
  Definition avg_cols (n : nat) (rows : list (list D)) : list D :=
    map (fun k => mean (map (fun r => nth k r d0) rows)) (seq 0 n).

  (* returns (params['average_weights'], [(baselines[i], method_params['weights'][i])]) *)
  Definition collab_pls (average_dataset : bool) (x : list Z) (ys : list (list D))
    : list D * list (list D * list D) :=
    let n := length x in
    let w := if average_dataset
             then snd (sub b1 x (avg_cols n ys) None)                            (* fit the mean data set *)
             else avg_cols n (map (fun y => snd (sub b1 x y None)) ys) in        (* mean of the weights *)
    (w, map (fun y => sub b2 x y (Some w)) ys).                                  (* method_kws['weights'] = w *)
End Collab.
