(* Property C08 -- abstract linear algebra behind `coef = pinv(sqrt(w) V) @ (sqrt(w) y)` (mathcomp; nothing
   here executes).  The pseudo-inverse enters as a Section variable P with the Moore-Penrose conditions the
   code relies on (numpy.linalg.pinv is trusted and its conditions are sampled by the harness). *)
From mathcomp Require Import all_ssreflect all_algebra.
Set Implicit Arguments.
Unset Strict Implicit.
Unset Printing Implicit Defensive.
Import Order.TTheory GRing.Theory Num.Theory.
Local Open Scope ring_scope.

Section NormalEq.
Variable F : realFieldType.

Definition dot k (u v : 'cV[F]_k) : F := \sum_i u i 0 * v i 0.
Definition norm2 k (v : 'cV[F]_k) : F := dot v v.

Lemma dot_mx k (u v : 'cV[F]_k) : dot u v = (u^T *m v) 0 0.
Proof. by rewrite /dot !mxE; apply: eq_bigr => i _; rewrite !mxE. Qed.

Lemma norm2_ge0 k (v : 'cV[F]_k) : 0 <= norm2 v.
Proof. by rewrite /norm2 /dot; apply: sumr_ge0 => i _; rewrite -expr2 sqr_ge0. Qed.

Lemma norm2_eq0 k (v : 'cV[F]_k) : norm2 v = 0 -> v = 0.
Proof.
  move=> /eqP; rewrite /norm2 /dot psumr_eq0; last by move=> i _; rewrite -expr2 sqr_ge0.
  move=> /allP H; apply/colP => i; rewrite mxE.
  have := H i; rewrite mem_index_enum => /(_ isT) /implyP /(_ isT).
  by rewrite -expr2 sqrf_eq0 => /eqP.
Qed.

Lemma norm2D k (u v : 'cV[F]_k) : norm2 (u + v) = norm2 u + dot u v *+ 2 + norm2 v.
Proof.
  rewrite /norm2 /dot -sumrMnl -!big_split /=; apply: eq_bigr => i _.
  by rewrite !mxE -!expr2 sqrrD.
Qed.

Variables m n : nat.
Variable A : 'M[F]_(m, n).
Variable P : 'M[F]_(n, m).
Hypothesis MP1 : A *m P *m A = A.
Hypothesis MP3 : (A *m P)^T = A *m P.

Lemma At_A_P : A^T *m A *m P = A^T.
Proof. by rewrite -mulmxA -MP3 -trmx_mul MP1. Qed.

(* the normal equations *)
Theorem pinv_normal_eq (b : 'cV[F]_m) : A^T *m (A *m (P *m b) - b) = 0.
Proof. by rewrite mulmxBr !mulmxA At_A_P subrr. Qed.

(* ... hence the residual of c = P b is orthogonal to the range of A and P b minimises |A c - b|^2 *)
Theorem pinv_minimises (b : 'cV[F]_m) (c' : 'cV[F]_n) :
  norm2 (A *m (P *m b) - b) <= norm2 (A *m c' - b).
Proof.
  set c := P *m b.
  have -> : A *m c' - b = A *m (c' - c) + (A *m c - b).
    by rewrite mulmxBr addrA subrK.
  rewrite [X in _ <= X]norm2D.
  have -> : dot (A *m (c' - c)) (A *m c - b) = 0.
    by rewrite dot_mx trmx_mul -mulmxA pinv_normal_eq mulmx0 mxE.
  by rewrite mul0rn addr0 ler_addr norm2_ge0.
Qed.

(* uniqueness under full column rank (A c = 0 only for c = 0) *)
Theorem pinv_unique (b : 'cV[F]_m) (c' : 'cV[F]_n) :
  (forall c : 'cV[F]_n, A *m c = 0 -> c = 0) ->
  norm2 (A *m c' - b) <= norm2 (A *m (P *m b) - b) -> c' = P *m b.
Proof.
  move=> inj; set c := P *m b.
  have -> : A *m c' - b = A *m (c' - c) + (A *m c - b).
    by rewrite mulmxBr addrA subrK.
  rewrite [X in X <= _]norm2D.
  have -> : dot (A *m (c' - c)) (A *m c - b) = 0.
    by rewrite dot_mx trmx_mul -mulmxA pinv_normal_eq mulmx0 mxE.
  rewrite mul0rn addr0 -{2}[norm2 (A *m c - b)]add0r ler_add2r => le0.
  have /norm2_eq0 /inj /eqP : norm2 (A *m (c' - c)) = 0.
    by apply/eqP; rewrite eq_le le0 norm2_ge0.
  by rewrite subr_eq0 => /eqP.
Qed.

(* a column of A that is identically zero (2-D Vandermonde column removed by max_cross) gets coefficient 0;
   this needs the other two Moore-Penrose conditions *)
Hypothesis MP2 : P *m A *m P = P.
Hypothesis MP4 : (P *m A)^T = P *m A.

Theorem pinv_zero_column (k : 'I_n) (b : 'cV[F]_m) :
  (forall i, A i k = 0) -> (P *m b) k 0 = 0.
Proof.
  move=> Ak0.
  have PAk j : (P *m A) j k = 0.
    by rewrite mxE big1 // => i _; rewrite Ak0 mulr0.
  have PAk' j : (P *m A) k j = 0.
    by rewrite -MP4 mxE PAk.
  rewrite -MP2 -mulmxA mxE big1 // => j _.
  by rewrite PAk' mul0r.
Qed.

End NormalEq.

(* weighted form: with A = diag(s) V, b = diag(s) y and s_i^2 = w_i, |A c - b|^2 = sum_i w_i (V c - y)_i^2,
   so poly's coefficients minimise the weighted squared distance *)
Section Weighted.
Variable F : realFieldType.
Variables m n : nat.
Variable V : 'M[F]_(m, n).
Variables s w : 'rV[F]_m.
Hypothesis sw : forall i, s 0 i ^+ 2 = w 0 i.

Definition wdist (c : 'cV[F]_n) (y : 'cV[F]_m) : F := \sum_i w 0 i * ((V *m c) i 0 - y i 0) ^+ 2.

Lemma weighted_norm (c : 'cV[F]_n) (y : 'cV[F]_m) :
  norm2 (diag_mx s *m V *m c - diag_mx s *m y) = wdist c y.
Proof.
  rewrite -mulmxA -mulmxBr /norm2 /dot /wdist; apply: eq_bigr => i _.
  rewrite mul_diag_mx !mxE -sw -expr2 exprMn. done.
Qed.

Variable P : 'M[F]_(n, m).
Hypothesis MP1 : diag_mx s *m V *m P *m (diag_mx s *m V) = diag_mx s *m V.
Hypothesis MP3 : (diag_mx s *m V *m P)^T = diag_mx s *m V *m P.

Theorem poly_weighted_optimal (y : 'cV[F]_m) (c' : 'cV[F]_n) :
  wdist (P *m (diag_mx s *m y)) y <= wdist c' y.
Proof. by rewrite -!weighted_norm; apply: pinv_minimises. Qed.

End Weighted.
