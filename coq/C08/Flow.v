(* Property C08 -- which methods: the flow of `coef` and `baseline` through every polynomial method.
   The translator (tools/gen_polyflow.py) abstracts each method body to a regular program over four events;
   `post` is an abstract interpreter over sets of the 8 abstract states; `post_sound` proves that EVERY
   execution (any loop counts, any branch choices) ends in a state of the computed set.  Definitions and the
   soundness proof live together here because the definitions are tiny; nothing here is evaluated by the
   harness except through the reflective theorem in props/C08.v. *)
From Coq Require Import List Bool Arith Lia.
Import ListNotations.

Inductive event :=
| ECoef      (* coef = <pseudo-inverse of the row-scaled Vandermonde> @ rhs, or lstsq on that tall matrix *)
| ECoefOther (* coef = <any other expression> / in-place write: not the solve the optimality theorems describe *)
| EBase      (* baseline = self._polynomial.vandermonde @ coef            *)
| EOther     (* baseline = <anything else>, or an in-place write to it    *)
| EReport.   (* params['coef'] = _convert_coef[2d](coef, <domains>)       *)

Inductive prog :=
| Skip
| Atom (e : event)
| Seq (p q : prog)
| Alt (p q : prog)        (* if / else: either branch *)
| Star (p : prog).        (* loop: any number of iterations, including 0 *)

Definition Plus (p : prog) : prog := Seq p (Star p).   (* loop that runs at least once (or the call raises) *)

(* sync: `baseline` was last assigned vandermonde @ coef after the last assignment of coef;
   reported: params['coef'] has been set; bad: something happened that invalidates the report *)
Record state := mkS { sync : bool; reported : bool; bad : bool }.

Definition step (e : event) (s : state) : state :=
  match e with
  | ECoef => mkS false (reported s) (bad s || reported s)
  | ECoefOther => mkS false (reported s) true
  | EBase => mkS true (reported s) (bad s || reported s)
  | EOther => mkS false (reported s) (bad s || reported s)
  | EReport => mkS (sync s) true (bad s || negb (sync s) || reported s)
  end.

Inductive exec : prog -> state -> state -> Prop :=
| X_skip s : exec Skip s s
| X_atom e s : exec (Atom e) s (step e s)
| X_seq p q s s1 s2 : exec p s s1 -> exec q s1 s2 -> exec (Seq p q) s s2
| X_alt_l p q s s1 : exec p s s1 -> exec (Alt p q) s s1
| X_alt_r p q s s1 : exec q s s1 -> exec (Alt p q) s s1
| X_star_0 p s : exec (Star p) s s
| X_star_S p s s1 s2 : exec p s s1 -> exec (Star p) s1 s2 -> exec (Star p) s s2.

(* ---- abstract interpreter over sets of states ---- *)
Definition state_eqb (a b : state) : bool :=
  Bool.eqb (sync a) (sync b) && Bool.eqb (reported a) (reported b) && Bool.eqb (bad a) (bad b).

Definition mem (s : state) (S : list state) : bool := existsb (state_eqb s) S.
Definition subset (A B : list state) : bool := forallb (fun s => mem s B) A.

Fixpoint iter (f : list state -> option (list state)) (fuel : nat) (X : list state) : option (list state) :=
  match fuel with
  | O => None
  | Datatypes.S k => match f X with
           | None => None
           | Some X1 => if subset X1 X then Some X else iter f k (X ++ X1)
           end
  end.

Fixpoint post (p : prog) (S : list state) : option (list state) :=
  match p with
  | Skip => Some S
  | Atom e => Some (map (step e) S)
  | Seq a b => match post a S with Some S1 => post b S1 | None => None end
  | Alt a b => match post a S, post b S with Some A, Some B => Some (A ++ B) | _, _ => None end
  | Star a => iter (post a) 10 S
  end.

Definition init : state := mkS false false false.

(* at return: nothing invalidated the report, and if coefficients were reported the baseline is
   vandermonde @ (the reported coef) *)
Definition good (s : state) : bool := negb (bad s) && implb (reported s) (sync s).
(* stronger, for methods whose baseline is always the polynomial: in sync at return on every path *)
Definition poly_at_return (s : state) : bool := good s && sync s.

Definition flow_ok (p : prog) : bool :=
  match post p [init] with Some R => forallb good R | None => false end.
Definition flow_poly (p : prog) : bool :=
  match post p [init] with Some R => forallb poly_at_return R | None => false end.

(* ---- soundness ---- *)
Lemma state_eqb_eq a b : state_eqb a b = true <-> a = b.
Proof.
  destruct a as [a1 a2 a3], b as [b1 b2 b3]. unfold state_eqb. cbn [sync reported bad].
  split.
  - intros H. apply andb_true_iff in H. destruct H as [H H3]. apply andb_true_iff in H. destruct H as [H1 H2].
    apply Bool.eqb_prop in H1, H2, H3. subst. reflexivity.
  - intros H. injection H as -> -> ->. rewrite !Bool.eqb_reflx. reflexivity.
Qed.

Lemma mem_In s S : mem s S = true <-> In s S.
Proof.
  unfold mem. rewrite existsb_exists. split.
  - intros [x [Hx E]]. apply state_eqb_eq in E. subst. exact Hx.
  - intros H. exists s. split; [exact H | apply state_eqb_eq; reflexivity].
Qed.

Lemma subset_In A B : subset A B = true -> forall s, In s A -> In s B.
Proof. unfold subset. rewrite forallb_forall. intros H s Hs. apply mem_In. apply H. exact Hs. Qed.

(* what a successful `iter` returns: a superset of the start that the body maps into itself *)
Lemma iter_spec f fuel : forall S R, iter f fuel S = Some R ->
  (forall s, In s S -> In s R) /\ exists R1, f R = Some R1 /\ (forall s, In s R1 -> In s R).
Proof.
  induction fuel as [|k IH]; intros S R H; [discriminate|].
  cbn [iter] in H. destruct (f S) as [S1|] eqn:E; [|discriminate].
  destruct (subset S1 S) eqn:Sub.
  - injection H as <-. split; [auto|]. exists S1. split; [exact E | apply subset_In; exact Sub].
  - apply IH in H. destruct H as [H1 H2]. split; [|exact H2].
    intros s Hs. apply H1. apply in_or_app. left. exact Hs.
Qed.

Lemma star_closed p R : (forall a b, In a R -> exec p a b -> In b R) ->
  forall s s', exec (Star p) s s' -> In s R -> In s' R.
Proof.
  intros Hcl s s' H. remember (Star p) as sp eqn:Esp.
  induction H; try discriminate; intros Hin.
  - exact Hin.
  - injection Esp as ->. apply IHexec2; [reflexivity|]. eapply Hcl; eassumption.
Qed.

Theorem post_sound : forall p S S', post p S = Some S' -> forall s s', In s S -> exec p s s' -> In s' S'.
Proof.
  induction p as [| e | a IHa b IHb | a IHa b IHb | a IHa]; intros S S' Hp s s' Hin Hx; cbn [post] in Hp.
  - injection Hp as <-. inversion Hx; subst. exact Hin.
  - injection Hp as <-. inversion Hx; subst. apply in_map. exact Hin.
  - destruct (post a S) as [S1|] eqn:Ea; [|discriminate].
    inversion Hx; subst. eapply IHb; [exact Hp | | eassumption]. eapply IHa; eassumption.
  - destruct (post a S) as [A|] eqn:Ea; [|discriminate]. destruct (post b S) as [B|] eqn:Eb; [|discriminate].
    injection Hp as <-. apply in_or_app. inversion Hx; subst.
    + left. eapply IHa; eassumption.
    + right. eapply IHb; eassumption.
  - apply iter_spec in Hp. destruct Hp as [Hsup [R1 [HR1 Hsub]]].
    eapply star_closed; [| exact Hx | apply Hsup; exact Hin].
    intros x y Hxin Hxy. apply Hsub. eapply IHa; eassumption.
Qed.

Theorem flow_ok_sound : forall p, flow_ok p = true -> forall s', exec p init s' -> good s' = true.
Proof.
  intros p H s' Hx. unfold flow_ok in H. destruct (post p [init]) as [S|] eqn:E; [|discriminate].
  rewrite forallb_forall in H. apply H. eapply post_sound; [exact E | left; reflexivity | exact Hx].
Qed.

Theorem flow_poly_sound : forall p, flow_poly p = true -> forall s', exec p init s' -> poly_at_return s' = true.
Proof.
  intros p H s' Hx. unfold flow_poly in H. destruct (post p [init]) as [S|] eqn:E; [|discriminate].
  rewrite forallb_forall in H. apply H. eapply post_sound; [exact E | left; reflexivity | exact Hx].
Qed.

(* the checker is not vacuous: it rejects a report of a stale coefficient vector and a baseline
   overwritten after the fit, for some execution *)
Example flow_rejects_stale : flow_ok (Seq (Atom ECoef) (Seq (Atom EBase) (Seq (Star (Atom ECoef)) (Atom EReport)))) = false.
Proof. reflexivity. Qed.
Example flow_rejects_overwrite : flow_poly (Seq (Atom ECoef) (Seq (Atom EBase) (Alt (Atom EOther) Skip))) = false.
Proof. reflexivity. Qed.
Example flow_rejects_other_solve : flow_ok (Seq (Atom ECoefOther) (Atom EBase)) = false.
Proof. reflexivity. Qed.
Example flow_accepts_modpoly :
  flow_poly (Seq (Atom ECoef) (Seq (Atom EBase) (Seq (Plus (Seq (Atom ECoef) (Atom EBase))) (Alt (Atom EReport) Skip)))) = true.
Proof. reflexivity. Qed.
