(* Property C08 -- proofs about C08/Model.v over an arbitrary field with decidable Leibniz equality and
   2 <> 0 (Section hypotheses = the field axioms; discharged for the canonical rationals at the end). *)
From Coq Require Import ZArith List Bool Arith Lia Field Ring.
From PB Require Import C08.Model.

Section Proofs.
Variable F : Fld.
Notation K := (T F).
Notation zero := (f0 F).
Notation one := (f1 F).
Infix "+" := (fadd F).
Infix "*" := (fmul F).
Infix "-" := (fsub F).
Notation "- x" := (fopp F x).
Notation "/ x" := (finv F x).

Hypothesis Fth : field_theory zero one (fadd F) (fmul F) (fsub F) (fopp F) (fdiv F) (finv F) eq.
Hypothesis Feqb : forall a b : K, feqb F a b = true <-> a = b.
Hypothesis Ftwo : one + one <> zero.

Add Field FF : Fth.

Notation sum := (sumF F).
Notation pow := (fpow F).
Notation nat2f := (of_nat F).

(* ---------- finite sums ---------- *)
Lemma sum_ext n f g : (forall i, (i < n)%nat -> f i = g i) -> sum n f = sum n g.
Proof.
  induction n as [|n IH]; intros H; [reflexivity|].
  cbn [sumF]. rewrite IH, (H n) by (try (intros; apply H); lia). reflexivity.
Qed.

Lemma sum_zero n f : (forall i, (i < n)%nat -> f i = zero) -> sum n f = zero.
Proof.
  induction n as [|n IH]; intros H; [reflexivity|].
  cbn [sumF]. rewrite IH, (H n) by (try (intros; apply H); lia). ring.
Qed.

Lemma sum_add n f g : sum n (fun i => f i + g i) = sum n f + sum n g.
Proof. induction n as [|n IH]; cbn [sumF]; [ring|]. rewrite IH. ring. Qed.

Lemma sum_scale n a f : sum n (fun i => a * f i) = a * sum n f.
Proof. induction n as [|n IH]; cbn [sumF]; [ring|]. rewrite IH. ring. Qed.

Lemma sum_scale_r n a f : sum n (fun i => f i * a) = sum n f * a.
Proof. induction n as [|n IH]; cbn [sumF]; [ring|]. rewrite IH. ring. Qed.

Lemma sum_exchange n m (f : nat -> nat -> K) :
  sum n (fun i => sum m (fun j => f i j)) = sum m (fun j => sum n (fun i => f i j)).
Proof.
  induction n as [|n IH]; cbn [sumF].
  - symmetry. apply sum_zero. reflexivity.
  - rewrite IH, <- sum_add. reflexivity.
Qed.

(* sum over 0..n of a function that is 0 at 0 and h (i-1) at i = sum over 0..n-1 of h *)
Lemma sum_shift n (h : nat -> K) :
  sum (S n) (fun i => match i with O => zero | S i' => h i' end) = sum n h.
Proof.
  induction n as [|n IH].
  - cbn [sumF]. ring.
  - change (sum (S (S n)) (fun i => match i with O => zero | S i' => h i' end))
      with (sum (S n) (fun i => match i with O => zero | S i' => h i' end) + h n).
    rewrite IH. reflexivity.
Qed.

(* trailing zeros can be dropped *)
Lemma sum_trunc n m f : (n <= m)%nat -> (forall i, (n <= i < m)%nat -> f i = zero) -> sum m f = sum n f.
Proof.
  intros Hnm. induction m as [|m IH]; intros H.
  - assert (n = O) by lia. subst. reflexivity.
  - destruct (Nat.eq_dec n (S m)) as [->|Hne]; [reflexivity|].
    cbn [sumF]. rewrite IH, (H m) by (try (intros; apply H); lia). ring.
Qed.

(* a sum over a*nz+b, a < nx, b < nz is the double sum (flattened coefficient / column index) *)
Lemma sum_flatten nx nz (g : nat -> nat -> K) : (0 < nz)%nat ->
  sum (nx * nz) (fun col => g (col / nz)%nat (col mod nz)%nat) = sum nx (fun a => sum nz (fun b => g a b)).
Proof.
  intros Hnz. induction nx as [|nx IH]; [reflexivity|].
  cbn [sumF]. rewrite <- IH. clear IH.
  replace (S nx * nz)%nat with (nx * nz + nz)%nat by lia.
  assert (G : forall k, (k <= nz)%nat ->
     sum (nx * nz + k) (fun col => g (col / nz)%nat (col mod nz)%nat)
     = sum (nx * nz) (fun col => g (col / nz)%nat (col mod nz)%nat) + sum k (fun b => g nx b)).
  { induction k as [|k IHk]; intros Hk.
    - rewrite Nat.add_0_r. cbn [sumF]. ring.
    - replace (nx * nz + S k)%nat with (S (nx * nz + k)) by lia. cbn [sumF].
      rewrite IHk by lia.
      replace ((nx * nz + k) / nz)%nat with nx.
      2:{ symmetry. rewrite Nat.add_comm, Nat.div_add by lia. rewrite Nat.div_small by lia. reflexivity. }
      replace ((nx * nz + k) mod nz)%nat with k.
      2:{ symmetry. rewrite Nat.add_comm, Nat.mod_add by lia. apply Nat.mod_small. lia. }
      ring. }
  apply G. lia.
Qed.

(* ---------- powers ---------- *)
Lemma pow_S x n : pow x (S n) = pow x n * x.
Proof. reflexivity. Qed.

Lemma pow_add x n m : pow x (n + m) = pow x n * pow x m.
Proof. induction m as [|m IH]; [rewrite Nat.add_0_r; cbn [fpow]; ring|].
  replace (n + S m)%nat with (S (n + m)) by lia. cbn [fpow]. rewrite IH. ring. Qed.

Lemma pow_mul x y n : pow (x * y) n = pow x n * pow y n.
Proof. induction n as [|n IH]; cbn [fpow]; [ring|]. rewrite IH. ring. Qed.

Lemma pow_zero n : (0 < n)%nat -> pow zero n = zero.
Proof. destruct n; [lia|]. intros _. cbn [fpow]. ring. Qed.

Lemma pow_neq0 x n : x <> zero -> pow x n <> zero.
Proof.
  intros Hx. induction n as [|n IH]; cbn [fpow].
  - intro H. apply (F_1_neq_0 Fth). exact H.
  - intro H. apply IH.
    transitivity (pow x n * x * / x); [field; exact Hx| rewrite H; ring].
Qed.

Lemma pow_inv x n : x <> zero -> / (pow x n) = pow (/ x) n.
Proof.
  intros Hx. induction n as [|n IH]; cbn [fpow].
  - field. apply (F_1_neq_0 Fth).
  - rewrite <- IH. field. split; [exact Hx | apply pow_neq0; exact Hx].
Qed.

(* x ** (-j) *)
Lemma powz_neg x j : x <> zero -> fpowz F x (- Z.of_nat j) = pow (/ x) j.
Proof.
  intros Hx. unfold fpowz. destruct j as [|j].
  - reflexivity.
  - replace (Z.leb Z0 (- Z.of_nat (S j))) with false by (symmetry; apply Z.leb_gt; lia).
    replace (Z.to_nat (- - Z.of_nat (S j))) with (S j) by lia.
    apply pow_inv. exact Hx.
Qed.

Lemma powz_nonneg x (i j : nat) : (i <= j)%nat -> fpowz F x (Z.of_nat j - Z.of_nat i) = pow x (j - i).
Proof.
  intros H. unfold fpowz.
  replace (Z.leb Z0 (Z.of_nat j - Z.of_nat i)) with true by (symmetry; apply Z.leb_le; lia).
  f_equal. lia.
Qed.

(* ---------- binomial coefficients ---------- *)
Lemma binom_gt n : forall k, (n < k)%nat -> binom n k = O.
Proof.
  induction n as [|n IH]; intros k H; destruct k; try lia; cbn [binom]; [reflexivity|].
  rewrite !IH by lia. reflexivity.
Qed.

Lemma binom_0 n : binom n 0 = 1%nat.
Proof. destruct n; reflexivity. Qed.

Lemma binom_diag n : binom n n = 1%nat.
Proof. induction n as [|n IH]; cbn [binom]; [reflexivity|]. rewrite IH, binom_gt by lia. reflexivity. Qed.

Lemma nat2f_add a b : nat2f (a + b) = nat2f a + nat2f b.
Proof. induction b as [|b IH]; [rewrite Nat.add_0_r; cbn [of_nat]; ring|].
  replace (a + S b)%nat with (S (a + b)) by lia. cbn [of_nat]. rewrite IH. ring. Qed.

(* coefficient i of (x + c)^j, by Pascal's recursion *)
Fixpoint row (c : K) (j i : nat) : K :=
  match j with
  | O => match i with O => one | S _ => zero end
  | S j' => c * row c j' i + match i with O => zero | S i' => row c j' i' end
  end.

Lemma row_gt c j : forall i, (j < i)%nat -> row c j i = zero.
Proof.
  induction j as [|j IH]; intros i H; destruct i; try lia; cbn [row]; [reflexivity|].
  rewrite !IH by lia. ring.
Qed.

Lemma row_binom c j : forall i, row c j i = nat2f (binom j i) * pow c (j - i).
Proof.
  induction j as [|j IH]; intros i.
  - destruct i; cbn [row binom of_nat fpow Nat.sub]; ring.
  - destruct i as [|i].
    + cbn [row]. rewrite IH, !binom_0, Nat.sub_0_r.
      change (S j - 0)%nat with (S j). cbn [fpow of_nat]. ring.
    + cbn [row binom]. rewrite !IH, nat2f_add.
      change (S j - S i)%nat with (j - i)%nat.
      destruct (le_lt_dec (S i) j) as [Hle|Hgt].
      * replace (j - i)%nat with (S (j - S i)) by lia. cbn [fpow]. ring.
      * rewrite (binom_gt j (S i)) by lia. cbn [of_nat]. ring.
Qed.

(* the binomial theorem in the form used: sum_i row_j(i) x^i = (x + c)^j, for any bound above j *)
Lemma row_sum c x j : forall m, (j < m)%nat -> sum m (fun i => row c j i * pow x i) = pow (x + c) j.
Proof.
  induction j as [|j IH]; intros m Hm.
  - rewrite (sum_trunc 1 m); [| lia | intros i Hi; destruct i; [lia | cbn [row]; ring]].
    cbn [sumF row fpow]. ring.
  - cbn [row].
    rewrite (sum_ext m _ (fun i => c * (row c j i * pow x i)
                 + match i with O => zero | S i' => x * (row c j i' * pow x i') end)).
    2:{ intros i _. destruct i; cbn [fpow]; ring. }
    rewrite sum_add, sum_scale, IH by lia.
    destruct m as [|m]; [lia|].
    rewrite (sum_shift m (fun k => x * (row c j k * pow x k))), sum_scale, IH by lia.
    cbn [fpow]. ring.
Qed.

(* ---------- _poly_transform_matrix ---------- *)
(* both branches of the code are the one closed form  binom(j,i) scale^-j (-offset)^(j-i)  (0 below the diagonal) *)
Lemma transform_os_closed offset scale i j : scale <> zero ->
  transform_os F offset scale i j = pow (/ scale) j * row (- offset) j i.
Proof.
  intros Hs. unfold transform_os.
  destruct (Nat.ltb j i) eqn:Elt.
  { apply Nat.ltb_lt in Elt. rewrite row_gt by exact Elt. ring. }
  apply Nat.ltb_ge in Elt.
  rewrite row_binom, powz_neg by exact Hs.
  destruct (feqb F offset zero) eqn:E.
  - apply Feqb in E. subst offset.
    destruct (Nat.eqb j i) eqn:Eji.
    + apply Nat.eqb_eq in Eji. subst j. rewrite Nat.sub_diag. cbn [fpow]. ring.
    + apply Nat.eqb_neq in Eji.
      destruct (le_lt_dec j i) as [Hle|Hgt].
      * rewrite binom_gt by lia. cbn [of_nat]. ring.
      * replace (- zero) with zero by ring. rewrite pow_zero by lia. ring.
  - destruct (le_lt_dec i j) as [Hle|Hgt].
    + rewrite powz_nonneg by exact Hle. ring.
    + rewrite binom_gt by lia. cbn [of_nat]. ring.
Qed.

(* the lower triangle of T is exactly zero: correct to leave it unwritten (before commit 97626ff the code wrote
   0 * scale^-j * (-offset)^(j-i) there, which is nan in floats when the negative power overflows) *)
Lemma transform_os_lower offset scale i j : scale <> zero -> (j < i)%nat -> transform_os F offset scale i j = zero.
Proof. intros Hs H. rewrite transform_os_closed, row_gt by assumption. ring. Qed.

Lemma transform_column offset scale x n j : scale <> zero -> (j < n)%nat ->
  sum n (fun i => transform_os F offset scale i j * pow x i) = pow ((x - offset) * / scale) j.
Proof.
  intros Hs Hj.
  rewrite (sum_ext n _ (fun i => pow (/ scale) j * (row (- offset) j i * pow x i))).
  2:{ intros i _. rewrite transform_os_closed by exact Hs. ring. }
  rewrite sum_scale, row_sum by exact Hj.
  rewrite pow_mul. replace (x + - offset) with (x - offset) by ring. ring.
Qed.

Theorem transform_thm : forall (n : nat) (d : nat -> K) (offset scale x : K), scale <> zero ->
  polyval F n (matvec F n (transform_os F offset scale) d) x = polyval F n d ((x - offset) * / scale).
Proof.
  intros n d offset scale x Hs. unfold polyval, matvec.
  rewrite (sum_ext n _ (fun i => sum n (fun j => d j * (transform_os F offset scale i j * pow x i)))).
  2:{ intros i _. rewrite <- sum_scale. apply sum_ext. intros j _. ring. }
  rewrite sum_exchange. apply sum_ext. intros j Hj.
  rewrite sum_scale, transform_column by assumption. ring.
Qed.

(* ---------- mapparms / mapdomain ---------- *)
Lemma two_neq : one - m1 F <> zero.
Proof. unfold m1. intro H. apply Ftwo. rewrite <- H. ring. Qed.

Lemma mapparms_scale_neq0 lo hi : hi <> lo -> snd (mapparms F (m1 F) one lo hi) <> zero.
Proof.
  intros Hne. unfold mapparms. cbn [snd]. unfold fdiv. intro H.
  apply Hne. pose proof two_neq as H2.
  transitivity ((hi - lo) * / (one - m1 F) * (one - m1 F) + lo); [field; exact H2|].
  rewrite H. ring.
Qed.

(* mapdomain(x, [lo, hi], [-1, 1]) is the inverse of  t |-> offset + scale t  with (offset, scale) = mapparms([-1, 1], [lo, hi]) *)
Lemma mapped_inverse x lo hi : hi <> lo ->
  mapped F x lo hi = (x - fst (mapparms F (m1 F) one lo hi)) * / snd (mapparms F (m1 F) one lo hi).
Proof.
  intros Hne. unfold mapped, mapdomain, mapparms. cbn [fst snd]. unfold fdiv.
  pose proof two_neq as H2.
  assert (H3 : hi - lo <> zero) by (intro H; apply Hne; transitivity ((hi - lo) + lo); [ring | rewrite H; ring]).
  field. repeat split; assumption.
Qed.

Theorem coef_reproduce : forall (n : nat) (d : nat -> K) (lo hi x : K), hi <> lo ->
  polyval F n (convert_coef F n d lo hi) x = fitted_baseline F n d lo hi x.
Proof.
  intros n d lo hi x Hne. unfold convert_coef, fitted_baseline, transform.
  rewrite mapped_inverse by exact Hne.
  pose proof (mapparms_scale_neq0 lo hi Hne) as Hs.
  destruct (mapparms F (m1 F) one lo hi) as [offset scale]. cbn [fst snd] in *.
  change (fun i j => transform_os F offset scale i j) with (transform_os F offset scale).
  apply transform_thm. exact Hs.
Qed.

(* the returned coefficients do not depend on the x at which they are evaluated, and the baseline is a
   polynomial of degree < n in the ORIGINAL variable: it is polyval of one fixed coefficient vector *)
Corollary baseline_is_polynomial : forall (n : nat) (d : nat -> K) (lo hi : K), hi <> lo ->
  exists c : nat -> K, forall x, fitted_baseline F n d lo hi x = polyval F n c x.
Proof. intros. exists (convert_coef F n d lo hi). intros x. symmetry. apply coef_reproduce. assumption. Qed.

(* ---------- two dimensions ---------- *)
Lemma transform_column' lo hi x n j : hi <> lo -> (j < n)%nat ->
  sum n (fun i => transform F lo hi i j * pow x i) = pow (mapped F x lo hi) j.
Proof.
  intros Hne Hj. rewrite mapped_inverse by exact Hne. unfold transform.
  pose proof (mapparms_scale_neq0 lo hi Hne) as Hs.
  destruct (mapparms F (m1 F) one lo hi) as [offset scale]. cbn [fst snd] in *.
  apply transform_column; assumption.
Qed.

Theorem transform_2d : forall (nx nz : nat) (c : nat -> K) (lox hix loz hiz x z : K),
  hix <> lox -> hiz <> loz ->
  polyval2d F nx nz (convert_coef2d F nx nz c lox hix loz hiz) x z
  = polyval2d F nx nz (coef2d F nz c) (mapped F x lox hix) (mapped F z loz hiz).
Proof.
  intros nx nz c lox hix loz hiz x z Hx Hz. unfold polyval2d, convert_coef2d.
  set (Tx := transform F lox hix). set (Tz := transform F loz hiz). set (C := coef2d F nz c).
  set (tx := mapped F x lox hix). set (tz := mapped F z loz hiz).
  (* LHS = sum_a sum_b x^a z^b sum_b' (sum_a' Tx a a' C a' b') Tz b b' *)
  transitivity (sum nx (fun a' => sum nz (fun b' => C a' b' *
        (sum nx (fun a => Tx a a' * pow x a) * sum nz (fun b => Tz b b' * pow z b))))).
  - (* expand everything into a 4-fold sum and exchange *)
    transitivity (sum nx (fun a => sum nx (fun a' => sum nz (fun b' =>
        C a' b' * (Tx a a' * pow x a) * sum nz (fun b => Tz b b' * pow z b))))).
    + apply sum_ext. intros a _.
      transitivity (sum nz (fun b => sum nz (fun b' => sum nx (fun a' =>
           C a' b' * (Tx a a' * pow x a) * (Tz b b' * pow z b))))).
      * apply sum_ext. intros b _. rewrite <- sum_scale. apply sum_ext. intros b' _.
        rewrite <- sum_scale_r, <- sum_scale. apply sum_ext. intros a' _. ring.
      * rewrite sum_exchange.
        transitivity (sum nz (fun b' => sum nx (fun a' => C a' b' * (Tx a a' * pow x a) * sum nz (fun b => Tz b b' * pow z b)))).
        { apply sum_ext. intros b' _. rewrite sum_exchange. apply sum_ext. intros a' _.
          rewrite <- sum_scale. reflexivity. }
        rewrite sum_exchange. reflexivity.
    + rewrite sum_exchange. apply sum_ext. intros a' _. rewrite sum_exchange. apply sum_ext. intros b' _.
      rewrite <- sum_scale_r, <- sum_scale. apply sum_ext. intros a _. ring.
  - apply sum_ext. intros a' Ha. apply sum_ext. intros b' Hb.
    unfold Tx, Tz. rewrite !transform_column' by assumption. fold tx tz. ring.
Qed.

(* the 2-D baseline (masked Vandermonde times the flat coefficient vector) is polyval2d of the reshaped
   coefficients whenever the coefficients of masked columns are zero *)
Lemma baseline2d_polyval2d nx nz mc (c : nat -> K) lox hix loz hiz x z : (0 < nz)%nat ->
  (forall a b, (a < nx)%nat -> (b < nz)%nat -> masked mc a b = true -> c (a * nz + b)%nat = zero) ->
  fitted_baseline2d F nx nz mc c lox hix loz hiz x z
  = polyval2d F nx nz (coef2d F nz c) (mapped F x lox hix) (mapped F z loz hiz).
Proof.
  intros Hnz Hmask. unfold fitted_baseline2d, polyval2d, vander2d.
  set (tx := mapped F x lox hix). set (tz := mapped F z loz hiz).
  pose (G := fun a b : nat => (if masked mc a b then zero else pow tx a * pow tz b) * c (a * nz + b)%nat).
  transitivity (sum (nx * nz) (fun col => G (col / nz)%nat (col mod nz)%nat)).
  { apply sum_ext. intros col _. unfold G. f_equal. f_equal. rewrite Nat.mul_comm. apply Nat.div_mod. lia. }
  rewrite (sum_flatten nx nz G) by exact Hnz. unfold G.
  apply sum_ext. intros a Ha. apply sum_ext. intros b Hb. unfold coef2d.
  destruct (masked mc a b) eqn:E; [rewrite (Hmask a b Ha Hb E)|]; ring.
Qed.

Theorem coef_reproduce_2d : forall (nx nz : nat) (mc : option nat) (c : nat -> K) (lox hix loz hiz x z : K),
  (0 < nz)%nat -> hix <> lox -> hiz <> loz ->
  (forall a b, (a < nx)%nat -> (b < nz)%nat -> masked mc a b = true -> c (a * nz + b)%nat = zero) ->
  polyval2d F nx nz (convert_coef2d F nx nz c lox hix loz hiz) x z
  = fitted_baseline2d F nx nz mc c lox hix loz hiz x z.
Proof.
  intros. rewrite transform_2d, baseline2d_polyval2d by assumption. reflexivity.
Qed.

End Proofs.

(* ---------- the canonical rationals satisfy the Section hypotheses ---------- *)
From Coq Require Import QArith Qcanon.

Lemma Qc_field : field_theory (f0 Fld_Qc) (f1 Fld_Qc) (fadd Fld_Qc) (fmul Fld_Qc) (fsub Fld_Qc) (fopp Fld_Qc)
                              (fdiv Fld_Qc) (finv Fld_Qc) eq.
Proof. exact Qcft. Qed.

Lemma Qc_eqb : forall a b : T Fld_Qc, feqb Fld_Qc a b = true <-> a = b.
Proof. intros a b. split; [apply Qc_eq_bool_correct | intros ->; unfold feqb, Fld_Qc, Qc_eq_bool; destruct (Qc_eq_dec b b); congruence]. Qed.

Lemma Qc_two : fadd Fld_Qc (f1 Fld_Qc) (f1 Fld_Qc) <> f0 Fld_Qc.
Proof. intro H. discriminate H. Qed.
