(* Property C08 -- executable model of the polynomial coefficient machinery of pybaselines, written once
   over an abstract record of field operations (models only; proofs are in C08/Proofs.v).

   Modelled code (pybaselines 1.2.0):
     numpy.polynomial.polyutils.mapparms / mapdomain             (as called by _PolyHelper, _PolyHelper2D, loess)
     numpy.polynomial.polynomial.polyvander / polyvander2d       (column order; powers by repeated multiplication)
     pybaselines/utils.py  _poly_transform_matrix, _convert_coef, _convert_coef2d            (lines 586-701)
     pybaselines/two_d/_algorithm_setup.py  _PolyHelper2D.recalc_vandermonde   (column order, max_cross masking)
   The instance Fld_Qc (canonical rationals, Leibniz equality) is what the harness evaluates by vm_compute
   on the same dyadic inputs as the implementation; the theorems are proved for EVERY field with decidable
   Leibniz equality and 2 <> 0, hence for Fld_Qc. *)
From Coq Require Import ZArith List Bool Arith.
Import ListNotations.

Record Fld := mkFld {
  T : Type;
  f0 : T; f1 : T;
  fadd : T -> T -> T; fmul : T -> T -> T; fsub : T -> T -> T;
  fopp : T -> T; finv : T -> T;
  feqb : T -> T -> bool
}.

Section Model.
Variable F : Fld.
Notation "0" := (f0 F).
Notation "1" := (f1 F).
Infix "+" := (fadd F).
Infix "*" := (fmul F).
Infix "-" := (fsub F).
Notation "- x" := (fopp F x).

Definition fdiv (a b : T F) : T F := a * finv F b.
Infix "/" := fdiv.

Fixpoint of_nat (n : nat) : T F := match n with O => 0 | S k => of_nat k + 1 end.

(* polyvander: v[0] = 1, v[i] = v[i-1] * x *)
Fixpoint fpow (x : T F) (n : nat) : T F := match n with O => 1 | S k => fpow x k * x end.

(* float ** integer: a negative exponent is the reciprocal of the positive power *)
Definition fpowz (x : T F) (e : Z) : T F :=
  if Z.leb Z0 e then fpow x (Z.to_nat e) else finv F (fpow x (Z.to_nat (- e))).

(* scipy.special.binom on non-negative integers: Pascal's triangle, 0 when k > n *)
Fixpoint binom (n k : nat) : nat :=
  match n, k with
  | _, O => S O
  | O, S _ => O
  | S n', S k' => (binom n' k' + binom n' (S k'))%nat
  end.

Fixpoint sumF (n : nat) (f : nat -> T F) : T F :=
  match n with O => 0 | S k => sumF k f + f k end.

(* numpy.polynomial.polyutils.mapparms(old, new) -> (off, scl) *)
Definition mapparms (old0 old1 new0 new1 : T F) : T F * T F :=
  let oldlen := old1 - old0 in
  let newlen := new1 - new0 in
  ((old1 * new0 - old0 * new1) / oldlen, newlen / oldlen).

(* numpy.polynomial.polyutils.mapdomain(x, old, new) = off + scl*x *)
Definition mapdomain (x old0 old1 new0 new1 : T F) : T F :=
  let '(off, scl) := mapparms old0 old1 new0 new1 in off + scl * x.

Definition m1 : T F := fopp F (f1 F).

(* mapped x of _PolyHelper.recalc_vandermonde: mapdomain(x, x_domain, [-1, 1]) *)
Definition mapped (x lo hi : T F) : T F := mapdomain x lo hi m1 1.

(* _poly_transform_matrix, entry [i, j], given (offset, scale).  The matrix starts as np.zeros and the inner
   loop is `for j in range(i, num_coefficients)` (commit 97626ff): entries below the diagonal are never written *)
Definition transform_os (offset scale : T F) (i j : nat) : T F :=
  if Nat.ltb j i then 0
  else if feqb F offset 0 then
    (if Nat.eqb j i then of_nat (binom j i) * fpowz scale (- Z.of_nat j) else 0)
  else
    of_nat (binom j i) * fpowz scale (- Z.of_nat j) * fpowz (- offset) (Z.of_nat j - Z.of_nat i).

(* offset, scale = mapparms([-1, 1], original_domain) *)
Definition transform (lo hi : T F) (i j : nat) : T F :=
  let '(offset, scale) := mapparms m1 1 lo hi in transform_os offset scale i j.

Definition matvec (n : nat) (M : nat -> nat -> T F) (d : nat -> T F) : nat -> T F :=
  fun i => sumF n (fun j => M i j * d j).

(* _convert_coef(coef, original_domain) = transformation @ coef *)
Definition convert_coef (n : nat) (d : nat -> T F) (lo hi : T F) : nat -> T F :=
  matvec n (transform lo hi) d.

(* one row of polyvander(x, n-1) times a coefficient vector = polyval(x, c) *)
Definition polyval (n : nat) (c : nat -> T F) (x : T F) : T F := sumF n (fun i => fpow x i * c i).

(* what every 1-D polynomial method returns at the point x: (vandermonde @ coef)[row of x] *)
Definition fitted_baseline (n : nat) (d : nat -> T F) (lo hi x : T F) : T F := polyval n d (mapped x lo hi).

(* ---- two dimensions ---- *)
(* coef.reshape((x_order, z_order)) *)
Definition coef2d (nz : nat) (c : nat -> T F) (a b : nat) : T F := c (a * nz + b)%nat.

(* transformation_x @ C @ transformation_z.T, evaluated left to right *)
Definition convert_coef2d (nx nz : nat) (c : nat -> T F) (lox hix loz hiz : T F) (a b : nat) : T F :=
  sumF nz (fun b' => sumF nx (fun a' => transform lox hix a a' * coef2d nz c a' b') * transform loz hiz b b').

(* `if 0 not in val and any(v > max_cross for v in val)` for val = (a, b) *)
Definition masked (max_cross : option nat) (a b : nat) : bool :=
  match max_cross with
  | None => false
  | Some m => negb (Nat.eqb a O) && negb (Nat.eqb b O) && (Nat.ltb m a || Nat.ltb m b)
  end.

(* column `col` of the 2-D Vandermonde for the point (x, z): polyvander2d column a*(dz+1)+b = x^a z^b,
   zeroed when masked *)
Definition vander2d (nz : nat) (mc : option nat) (x z : T F) (col : nat) : T F :=
  let a := (col / nz)%nat in
  let b := (col mod nz)%nat in
  if masked mc a b then 0 else fpow x a * fpow z b.

(* (vandermonde @ coef)[row of (x, z)] *)
Definition fitted_baseline2d (nx nz : nat) (mc : option nat) (c : nat -> T F) (lox hix loz hiz x z : T F) : T F :=
  sumF (nx * nz) (fun col => vander2d nz mc (mapped x lox hix) (mapped z loz hiz) col * c col).

(* numpy.polynomial.polynomial.polyval2d(x, z, C) = sum_ab C[a, b] x^a z^b *)
Definition polyval2d (nx nz : nat) (C : nat -> nat -> T F) (x z : T F) : T F :=
  sumF nx (fun a => sumF nz (fun b => fpow x a * fpow z b * C a b)).

End Model.

(* the hypotheses of the theorems: F is a field for Leibniz equality, feqb decides equality, 2 <> 0 *)
From Coq Require Import Field_theory.
Definition good_field (F : Fld) : Prop :=
  field_theory (f0 F) (f1 F) (fadd F) (fmul F) (fsub F) (fopp F) (fdiv F) (finv F) eq
  /\ (forall a b : T F, feqb F a b = true <-> a = b)
  /\ fadd F (f1 F) (f1 F) <> f0 F.

(* ---- the executable instance: canonical rationals ---- *)
From Coq Require Import QArith Qcanon.
Definition Fld_Qc : Fld :=
  mkFld Qc (Q2Qc 0) (Q2Qc 1) Qcplus Qcmult Qcminus Qcopp Qcinv Qc_eq_bool.

(* helpers for generated cases *)
Definition qc (n : Z) (d : positive) : Qc := Q2Qc (n # d).
Definition vec (l : list Qc) : nat -> Qc := fun i => nth i l (Q2Qc 0).
Definition qc_eqb (a : Qc) (b : Qc) : bool := Qeq_bool (this a) (this b).
Fixpoint qcl_eqb (x y : list Qc) : bool :=
  match x, y with
  | [], [] => true
  | a :: x', b :: y' => qc_eqb a b && qcl_eqb x' y'
  | _, _ => false
  end.
Definition tab1 (n : nat) (f : nat -> Qc) : list Qc := map f (seq 0 n).
Definition tab2 (n m : nat) (f : nat -> nat -> Qc) : list Qc :=
  flat_map (fun i => map (f i) (seq 0 m)) (seq 0 n).
