(* Property C08 -- the max_cross column mask as a theorem about which monomials survive, and its preservation by
   the coefficient back-transformation (growth sprint; new file, nothing else imports it except props/C08.v). *)
From Coq Require Import ZArith List Bool Arith Lia Field Ring.
From PB Require Import C08.Model C08.Proofs.

(* ---- which monomials x^a z^b are removed: pure combinatorics, no field needed ---- *)
Lemma masked_spec mc a b :
  masked mc a b = true <-> exists m, mc = Some m /\ (1 <= a)%nat /\ (1 <= b)%nat /\ (m < a \/ m < b)%nat.
Proof.
  unfold masked. destruct mc as [m|].
  - rewrite !andb_true_iff, orb_true_iff, !negb_true_iff, !Nat.eqb_neq, !Nat.ltb_lt. split.
    + intros [[Ha Hb] H]. exists m. repeat split; try lia; try reflexivity.
    + intros [m' [E [Ha [Hb H]]]]. injection E as <-. repeat split; try lia.
  - split; [discriminate | intros [m [E _]]; discriminate].
Qed.

(* the removed set is upward closed, i.e. the surviving monomials are downward closed *)
Lemma masked_upward mc a b a' b' : (a <= a')%nat -> (b <= b')%nat -> masked mc a b = true -> masked mc a' b' = true.
Proof.
  intros Ha Hb H. apply masked_spec in H. destruct H as [m [E [H1 [H2 H3]]]].
  apply masked_spec. exists m. repeat split; try lia; try exact E.
Qed.

Lemma masked_pure mc a b : a = O \/ b = O -> masked mc a b = false.
Proof.
  intros H. destruct (masked mc a b) eqn:E; [|reflexivity].
  apply masked_spec in E. destruct E as [m [_ [H1 [H2 _]]]]. lia.
Qed.

Lemma masked_none_in_range m nx nz a b : (nx <= S m)%nat -> (nz <= S m)%nat -> (a < nx)%nat -> (b < nz)%nat ->
  masked (Some m) a b = false.
Proof.
  intros Hx Hz Ha Hb. destruct (masked (Some m) a b) eqn:E; [|reflexivity].
  apply masked_spec in E. destruct E as [m' [E' [_ [_ H]]]]. injection E' as <-. lia.
Qed.

Section MaxCross.
Variable F : Fld.
Hypothesis Fth : field_theory (f0 F) (f1 F) (fadd F) (fmul F) (fsub F) (fopp F) (fdiv F) (finv F) eq.
Add Field FFm : Fth.

(* entries of the transformation below the diagonal are never written: definitional *)
Lemma transform_lower lo hi i j : (j < i)%nat -> transform F lo hi i j = f0 F.
Proof.
  intros H. unfold transform. destruct (mapparms F (m1 F) (f1 F) lo hi) as [o s].
  unfold transform_os. replace (Nat.ltb j i) with true by (symmetry; apply Nat.ltb_lt; exact H). reflexivity.
Qed.

(* the coefficient array handed back to the user respects max_cross in the ORIGINAL variables too: if the fitted
   coefficients vanish on the masked monomials (C08_pinv_zero_column), so do the converted ones *)
Theorem max_cross_preserved : forall (nx nz : nat) (mc : option nat) (c : nat -> T F) (lox hix loz hiz : T F),
  (forall a b, (a < nx)%nat -> (b < nz)%nat -> masked mc a b = true -> c (a * nz + b)%nat = f0 F) ->
  forall a b, masked mc a b = true -> convert_coef2d F nx nz c lox hix loz hiz a b = f0 F.
Proof.
  intros nx nz mc c lox hix loz hiz Hc a b Hm. unfold convert_coef2d.
  apply (sum_zero F Fth). intros b' Hb'.
  destruct (le_lt_dec b b') as [Hbb|Hbb].
  - rewrite (sum_zero F Fth); [ring|]. intros a' Ha'.
    destruct (le_lt_dec a a') as [Haa|Haa].
    + unfold coef2d. rewrite Hc; [ring | exact Ha' | exact Hb' | eapply masked_upward; eassumption].
    + rewrite transform_lower by exact Haa. ring.
  - rewrite (transform_lower loz hiz b b') by exact Hbb. ring.
Qed.

End MaxCross.
