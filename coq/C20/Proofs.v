(* C20 -- proofs about C20/Model.v over an arbitrary commutative semiring. *)
From Coq Require Import ZArith List Bool Lia ZifyBool Ring.
From PB Require Import C20.Model.
Import ListNotations.
Open Scope Z_scope.

(* ---------------------------------------------------------------- index arithmetic *)
Lemma dm_div x y c : 0 <= y < c -> (x * c + y) / c = x.
Proof. intros H. rewrite Z.div_add_l by lia. rewrite Z.div_small by lia. lia. Qed.

Lemma dm_mod x y c : 0 <= y < c -> (x * c + y) mod c = y.
Proof. intros H. rewrite Z.add_comm, Z.mod_add by lia. apply Z.mod_small; lia. Qed.

Lemma rav_bound x y a c : 0 <= x < a -> 0 <= y < c -> 0 <= x * c + y < a * c.
Proof. intros. nia. Qed.

Section Proofs.
Variable R : ops.
Hypothesis Rth : semi_ring_theory (t0 R) (t1 R) (tadd R) (tmul R) (@eq (T R)).
Add Ring Rring : Rth.

Notation "x +' y" := (tadd R x y) (at level 50, left associativity).
Notation "x *' y" := (tmul R x y) (at level 40, left associativity).
Notation "0'" := (t0 R).
Notation "1'" := (t1 R).
Notation sum := (sumf R).

(* ---------------------------------------------------------------- finite sums *)
Lemma sum_S n f : sum (S n) f = sum n f +' f (Z.of_nat n).
Proof. reflexivity. Qed.

Lemma sum_ext n f g : (forall k, 0 <= k < Z.of_nat n -> f k = g k) -> sum n f = sum n g.
Proof.
  induction n as [|n IH]; intros H; [reflexivity|].
  rewrite !sum_S. rewrite IH, (H (Z.of_nat n)) by (try (intros; apply H); lia). reflexivity.
Qed.

Lemma sum_zero n f : (forall k, 0 <= k < Z.of_nat n -> f k = 0') -> sum n f = 0'.
Proof.
  induction n as [|n IH]; intros H; [reflexivity|].
  rewrite sum_S, IH, (H (Z.of_nat n)) by (try (intros; apply H); lia). ring.
Qed.

Lemma sum_add n f g : sum n (fun k => f k +' g k) = sum n f +' sum n g.
Proof. induction n as [|n IH]; [cbn; ring|]. rewrite !sum_S, IH. ring. Qed.

Lemma sum_scale_l n a f : sum n (fun k => a *' f k) = a *' sum n f.
Proof. induction n as [|n IH]; [cbn; ring|]. rewrite !sum_S, IH. ring. Qed.

Lemma sum_scale_r n a f : sum n (fun k => f k *' a) = sum n f *' a.
Proof. induction n as [|n IH]; [cbn; ring|]. rewrite !sum_S, IH. ring. Qed.

Lemma sum_exch n m (f : Z -> Z -> T R) :
  sum n (fun i => sum m (fun j => f i j)) = sum m (fun j => sum n (fun i => f i j)).
Proof.
  induction n as [|n IH].
  - cbn. symmetry. apply sum_zero. reflexivity.
  - rewrite sum_S, IH. rewrite <- sum_add. apply sum_ext. intros. rewrite sum_S. reflexivity.
Qed.

Lemma sum_app n m f :
  sum (n + m) f = sum n f +' sum m (fun j => f (Z.of_nat n + j)).
Proof.
  induction m as [|m IH].
  - rewrite Nat.add_0_r. cbn. ring.
  - rewrite Nat.add_succ_r, !sum_S, IH. rewrite Nat2Z.inj_add. ring.
Qed.

(* a sum over the C-order raveled index of an (n, m) array is the double sum *)
Lemma sum_flatten n m (f : Z -> Z -> T R) :
  sum (n * m) (fun k => f (k / Z.of_nat m) (k mod Z.of_nat m))
  = sum n (fun i => sum m (fun j => f i j)).
Proof.
  induction n as [|n IH]; [reflexivity|].
  rewrite sum_S. change (S n * m)%nat with (m + n * m)%nat.
  rewrite Nat.add_comm, sum_app, IH. f_equal.
  apply sum_ext. intros j Hj.
  rewrite Nat2Z.inj_mul, dm_div, dm_mod by lia. reflexivity.
Qed.

Lemma sum_point n p (v : Z -> T R) :
  sum n (fun k => if k =? p then v k else 0')
  = if (0 <=? p) && (p <? Z.of_nat n) then v p else 0'.
Proof.
  induction n as [|n IH].
  - cbn. destruct (0 <=? p) eqn:?, (p <? 0) eqn:?; cbn [andb]; try reflexivity; lia.
  - rewrite sum_S, IH.
    destruct (Z.of_nat n =? p) eqn:E, (0 <=? p) eqn:?, (p <? Z.of_nat n) eqn:?,
             (p <? Z.of_nat (S n)) eqn:?; cbn [andb]; try lia; try ring.
    apply Z.eqb_eq in E. subst p. ring.
Qed.

Lemma sum_prod n m (f g : Z -> T R) :
  sum n f *' sum m g = sum n (fun x => sum m (fun y => f x *' g y)).
Proof.
  rewrite <- sum_scale_r. apply sum_ext. intros. rewrite sum_scale_l. reflexivity.
Qed.

(* ---------------------------------------------------------------- face splitting *)
Lemma face_splitting_val cf m n (B : mat R) i k :
  xorb (fs_k1 cf) (fs_k2 cf) = true -> 0 <= i < m -> 0 < n ->
  face_splitting R cf m n B i k = B i (k / n) *' B i (k mod n).
Proof.
  intros Hx Hi Hn. unfold face_splitting, hadamard, fs_factor, kron, ones.
  destruct (fs_k1 cf), (fs_k2 cf); cbn in Hx; try discriminate;
    rewrite Z.div_1_r, (Z.mod_small i m) by lia; ring.
Qed.

(* ---------------------------------------------------------------- _make_btwb *)
Definition btwb_sum (M N : nat) (Br W Bc : mat R) (a1 c1 a2 c2 : Z) : T R :=
  sum M (fun i => sum N (fun j => Br i a1 *' Br i a2 *' W i j *' Bc j c1 *' Bc j c2)).

Lemma cfg_ok_inv cf : cfg_ok cf = true ->
  xorb (fs_k1 cf) (fs_k2 cf) = true /\ bt_dims cf = (0, 0, 1, 1) /\ bt_axes cf = (0, 2, 1, 3)
  /\ bt_out cf = [0; 1] /\ pen_rep cf = 1 /\ pen_tile cf = 0.
Proof.
  destruct cf as [k1 k2 [[[d0 d1] d2] d3] [[[x0 x1] x2] x3] out pr pt].
  unfold cfg_ok. cbn [fs_k1 fs_k2 bt_dims bt_axes bt_out pen_rep pen_tile z4_eqb].
  intros H.
  destruct out as [|o0 [|o1 [|o2 l]]]; cbn [zlist_eqb] in H;
    rewrite ?andb_false_r, ?andb_false_l in H; try discriminate.
  rewrite andb_true_r in H.
  repeat match goal with H : _ && _ = true |- _ => apply andb_prop in H; destruct H end.
  repeat split; auto; repeat f_equal; lia.
Qed.

Theorem make_btwb_entry cf (M N a c : nat) (Br W Bc : mat R) a1 c1 a2 c2 :
  cfg_ok cf = true ->
  0 <= a1 < Z.of_nat a -> 0 <= a2 < Z.of_nat a -> 0 <= c1 < Z.of_nat c -> 0 <= c2 < Z.of_nat c ->
  make_btwb R cf M N a c Br W Bc (a1 * Z.of_nat c + c1) (a2 * Z.of_nat c + c2)
  = btwb_sum M N Br W Bc a1 c1 a2 c2.
Proof.
  intros Hcf Ha1 Ha2 Hc1 Hc2.
  destruct (cfg_ok_inv cf Hcf) as (Hx & Hd & Hax & Ho & _ & _).
  unfold make_btwb. rewrite Hd, Hax, Ho.
  set (az := Z.of_nat a) in *. set (cz := Z.of_nat c) in *.
  unfold reshape2, transpose4, tr_shape, tr_index, unravel4, ravel4, ravel2.
  cbn [nth4 nb prod_nb Z.eqb Pos.eqb].
  replace (az * (cz * 1)) with (az * cz) by ring.
  set (k := (a1 * cz + c1) * (az * cz) + (a2 * cz + c2)).
  assert (E3 : k mod cz = c2).
  { replace k with (((a1 * cz + c1) * az + a2) * cz + c2) by (unfold k; ring).
    apply dm_mod; lia. }
  assert (E2 : (k / cz) mod az = a2).
  { replace k with (((a1 * cz + c1) * az + a2) * cz + c2) by (unfold k; ring).
    rewrite dm_div by lia. apply dm_mod; lia. }
  assert (E1 : (k / (az * cz)) mod cz = c1).
  { unfold k. rewrite dm_div by (apply rav_bound; lia). apply dm_mod; lia. }
  assert (E0 : k / (cz * az * cz) = a1).
  { replace k with (a1 * (cz * az * cz) + ((c1 * az + a2) * cz + c2)) by (unfold k; ring).
    apply dm_div. replace (cz * az * cz) with ((cz * az) * cz) by ring.
    apply rav_bound; [|lia]. apply rav_bound; lia. }
  rewrite E0, E1, E2, E3. clearbody k. clear E0 E1 E2 E3 k.
  replace (((a1 * az + a2) * cz + c1) * cz + c2) with ((a1 * az + a2) * (cz * cz) + (c1 * cz + c2)) by ring.
  rewrite dm_div, dm_mod by (apply rav_bound; lia).
  unfold mmul, mT, btwb_sum.
  (* sum_j (sum_i Gr[i,p] W[i,j]) Gc[j,q]  ->  sum_i sum_j ... *)
  transitivity (sum N (fun j => sum M (fun i =>
     face_splitting R cf (Z.of_nat M) az Br i (a1 * az + a2) *' W i j
     *' face_splitting R cf (Z.of_nat N) cz Bc j (c1 * cz + c2)))).
  { apply sum_ext. intros j Hj. rewrite sum_scale_r. reflexivity. }
  rewrite sum_exch. apply sum_ext. intros i Hi. apply sum_ext. intros j Hj.
  rewrite !face_splitting_val by (auto; lia).
  rewrite !dm_div, !dm_mod by lia. ring.
Qed.


(* the same number written with the explicit Kronecker basis B = kron(B_r, B_c) (shape
   (M*N, a*c)) and W = diag(vec(weights)):  (B' W B)[r, s] *)
Lemma diag_mid n (A : mat R) (w : vec R) r k :
  0 <= k < Z.of_nat n ->
  sum n (fun l => mT R A r l *' diagm R w l k) = A k r *' w k.
Proof.
  intros Hk. unfold mT, diagm.
  transitivity (sum n (fun l => if l =? k then A l r *' w l else 0')).
  { apply sum_ext. intros l _. destruct (l =? k); ring. }
  rewrite sum_point. destruct (0 <=? k) eqn:?, (k <? Z.of_nat n) eqn:?; cbn [andb]; try lia.
  reflexivity.
Qed.

Theorem btwb_spec_entry (M N c : nat) (Br W Bc : mat R) a1 c1 a2 c2 :
  0 <= c1 < Z.of_nat c -> 0 <= c2 < Z.of_nat c ->
  btwb_spec R M N (Z.of_nat c) Br W Bc (a1 * Z.of_nat c + c1) (a2 * Z.of_nat c + c2)
  = btwb_sum M N Br W Bc a1 c1 a2 c2.
Proof.
  intros Hc1 Hc2. unfold btwb_spec, btwb_sum. unfold mmul at 1.
  set (cz := Z.of_nat c) in *. set (nz := Z.of_nat N).
  transitivity (sum (M * N) (fun k =>
     (fun i j => Br i a1 *' Br i a2 *' W i j *' Bc j c1 *' Bc j c2) (k / nz) (k mod nz))).
  { apply sum_ext. intros k Hk. unfold mmul. rewrite diag_mid by lia.
    unfold Bkron, kron, ravel2. fold nz.
    rewrite !dm_div, !dm_mod by lia. ring. }
  exact (sum_flatten M N (fun i j => Br i a1 *' Br i a2 *' W i j *' Bc j c1 *' Bc j c2)).
Qed.

Theorem make_btwb_is_BtWB cf (M N a c : nat) (Br W Bc : mat R) r s :
  cfg_ok cf = true -> 0 <= r < Z.of_nat a * Z.of_nat c -> 0 <= s < Z.of_nat a * Z.of_nat c ->
  make_btwb R cf M N a c Br W Bc r s = btwb_spec R M N (Z.of_nat c) Br W Bc r s.
Proof.
  intros Hcf Hr Hs.
  assert (Hc : 0 < Z.of_nat c) by nia.
  rewrite (Z.div_mod r (Z.of_nat c)), (Z.div_mod s (Z.of_nat c)) by lia.
  rewrite !(Z.mul_comm (Z.of_nat c)).
  pose proof (Z.mod_pos_bound r (Z.of_nat c) Hc). pose proof (Z.mod_pos_bound s (Z.of_nat c) Hc).
  assert (0 <= r / Z.of_nat c < Z.of_nat a).
  { split; [apply Z.div_pos; lia|]. apply Z.div_lt_upper_bound; lia. }
  assert (0 <= s / Z.of_nat c < Z.of_nat a).
  { split; [apply Z.div_pos; lia|]. apply Z.div_lt_upper_bound; lia. }
  rewrite make_btwb_entry, btwb_spec_entry by lia. reflexivity.
Qed.

(* ---------------------------------------------------------------- right-hand side *)
Theorem rhs_is_BtWy (M N c : nat) (Br W Y Bc : mat R) k :
  0 <= k -> 0 < Z.of_nat c ->
  rhs_model R M N (Z.of_nat c) Br W Y Bc k = btwy_spec R M N (Z.of_nat c) Br W Y Bc k.
Proof.
  intros Hk Hc. unfold rhs_model, btwy_spec, ravel2 at 1, mvec.
  set (cz := Z.of_nat c) in *. set (nz := Z.of_nat N).
  transitivity (sum M (fun i => sum N (fun j =>
      Br i (k / cz) *' W i j *' Y i j *' Bc j (k mod cz)))).
  { unfold mmul, mT, hadamard.
    transitivity (sum N (fun j => sum M (fun i =>
      Br i (k / cz) *' (W i j *' Y i j) *' Bc j (k mod cz)))).
    { apply sum_ext. intros j _. rewrite sum_scale_r. reflexivity. }
    rewrite sum_exch. apply sum_ext. intros i _. apply sum_ext. intros j _. ring. }
  symmetry.
  transitivity (sum (M * N) (fun l =>
     (fun i j => Br i (k / cz) *' W i j *' Y i j *' Bc j (k mod cz)) (l / nz) (l mod nz))).
  { apply sum_ext. intros l Hl. unfold mmul. rewrite diag_mid by lia.
    unfold Bkron, kron, ravel2. fold nz. ring. }
  exact (sum_flatten M N (fun i j => Br i (k / cz) *' W i j *' Y i j *' Bc j (k mod cz))).
Qed.

(* ---------------------------------------------------------------- output B c *)
Theorem output_is_Bc (N a c : nat) (Br Bc : mat R) (coef : vec R) i j :
  0 <= j < Z.of_nat N ->
  output_model R a c Br Bc coef i j
  = mvec R (a * c) (Bkron R (Z.of_nat N) (Z.of_nat c) Br Bc) coef (i * Z.of_nat N + j).
Proof.
  intros Hj. unfold output_model, mvec, mmul, mT, reshape2.
  set (cz := Z.of_nat c). set (nz := Z.of_nat N) in *.
  transitivity (sum a (fun a1 => sum c (fun c1 => Br i a1 *' coef (a1 * cz + c1) *' Bc j c1))).
  { transitivity (sum c (fun c1 => sum a (fun a1 => Br i a1 *' coef (a1 * cz + c1) *' Bc j c1))).
    { apply sum_ext. intros c1 _. rewrite sum_scale_r. reflexivity. }
    apply sum_exch. }
  symmetry.
  transitivity (sum (a * c) (fun l =>
     (fun a1 c1 => Br i a1 *' coef (a1 * cz + c1) *' Bc j c1) (l / cz) (l mod cz))).
  { apply sum_ext. intros l Hl. unfold Bkron, kron. fold cz.
    rewrite dm_div, dm_mod by lia.
    assert (0 < cz) by (unfold cz; nia).
    replace (l / cz * cz + l mod cz) with l by (rewrite (Z.div_mod l cz) at 1 by lia; ring).
    ring. }
  exact (sum_flatten a c (fun a1 c1 => Br i a1 *' coef (a1 * cz + c1) *' Bc j c1)).
Qed.

(* ---------------------------------------------------------------- penalty *)
Theorem penalty_is_kron_diag cf (a c : nat) lam_r lam_c (vr vc : vec R) k :
  cfg_ok cf = true -> 0 < Z.of_nat c ->
  penalty_lens cf (Z.of_nat a) (Z.of_nat c) = (Z.of_nat a * Z.of_nat c, Z.of_nat c * Z.of_nat a) /\
  penalty R cf (Z.of_nat a) (Z.of_nat c) lam_r lam_c vr vc k
  = pen_spec R (Z.of_nat a) (Z.of_nat c) (vscale R lam_r vr) (vscale R lam_c vc) k k.
Proof.
  intros Hcf Hc. destruct (cfg_ok_inv cf Hcf) as (_ & _ & _ & _ & Hr & Ht).
  unfold penalty_lens, penalty, pen_spec, madd, kron, eye, diagm, np_repeat, np_tile.
  rewrite Hr, Ht. cbn [nb Z.eqb Pos.eqb]. rewrite !Z.eqb_refl. split; [reflexivity|]. ring.
Qed.

(* off the diagonal kron(L_r, I) + kron(I, L_c) vanishes: adding the penalty to the diagonal only
   (np.fill_diagonal) adds the whole matrix *)
Theorem pen_spec_offdiag (a c : Z) (lr lc : vec R) r s :
  0 < c -> r <> s -> pen_spec R a c lr lc r s = 0'.
Proof.
  intros Hc Hrs. unfold pen_spec, madd, kron, eye, diagm.
  destruct (r / c =? s / c) eqn:E1, (r mod c =? s mod c) eqn:E2; try ring.
  exfalso. apply Hrs. rewrite (Z.div_mod r c), (Z.div_mod s c) by lia.
  apply Z.eqb_eq in E1, E2. congruence.
Qed.

Theorem lhs_is_BtWB_plus_P cf (M N a c : nat) (Br W Bc : mat R) lam_r lam_c (vr vc : vec R) r s :
  cfg_ok cf = true -> 0 <= r < Z.of_nat a * Z.of_nat c -> 0 <= s < Z.of_nat a * Z.of_nat c ->
  lhs_model R cf M N a c Br W Bc (penalty R cf (Z.of_nat a) (Z.of_nat c) lam_r lam_c vr vc) r s
  = madd R (btwb_spec R M N (Z.of_nat c) Br W Bc)
           (pen_spec R (Z.of_nat a) (Z.of_nat c) (vscale R lam_r vr) (vscale R lam_c vc)) r s.
Proof.
  intros Hcf Hr Hs. assert (Hc : 0 < Z.of_nat c) by nia.
  unfold lhs_model, fill_diag_add, madd at 1.
  destruct (r =? s) eqn:E.
  - apply Z.eqb_eq in E. subst s.
    rewrite make_btwb_is_BtWB by auto.
    rewrite (proj2 (penalty_is_kron_diag cf a c lam_r lam_c vr vc r Hcf Hc)). reflexivity.
  - rewrite make_btwb_is_BtWB by auto. rewrite pen_spec_offdiag by lia. ring.
Qed.

(* eigenvalues[:diff_order] = 0 changes nothing when those eigenvalues are exactly zero
   (the null space of D_d' D_d has dimension d; LAPACK returns ~1e-15) *)
Theorem zero_first_exact d (v : vec R) k :
  (forall i, 0 <= i < d -> v i = 0') -> 0 <= k -> zero_first R d v k = v k.
Proof. intros H Hk. unfold zero_first. destruct (k <? d) eqn:?; [symmetry; apply H; lia|reflexivity]. Qed.

(* zeroing by POSITION leaves the eigenvalues unchanged iff the first d of them are null ... *)
Theorem zero_first_iff d (n : nat) (v : vec R) :
  (forall k, 0 <= k < Z.of_nat n -> zero_first R d v k = v k)
  <-> (forall k, 0 <= k < Z.of_nat n -> k < d -> v k = 0').
Proof.
  unfold zero_first. split; intros H k Hk.
  - intros Hd. specialize (H k Hk). destruct (k <? d) eqn:E; [symmetry; exact H|lia].
  - destruct (k <? d) eqn:E; [symmetry; apply H; lia|reflexivity].
Qed.

(* ... and when EXACTLY the first d are the null ones, the zeroed positions are exactly the null space *)
Theorem zero_first_null_space d (n : nat) (v : vec R) :
  (forall k, 0 <= k < Z.of_nat n -> (v k = 0' <-> k < d)) ->
  forall k, 0 <= k < Z.of_nat n ->
  zero_first R d v k = v k /\ (zero_first R d v k = 0' <-> k < d).
Proof.
  intros H k Hk. unfold zero_first. destruct (k <? d) eqn:E.
  - split; [symmetry; apply H; [exact Hk|lia]|]. split; intros; [lia|reflexivity].
  - split; [reflexivity|]. apply H, Hk.
Qed.

(* zeroing by MAGNITUDE is harmless iff nothing genuine is small *)
Theorem zero_below_iff (small : T R -> bool) (n : nat) (v : vec R) :
  (forall k, 0 <= k < Z.of_nat n -> zero_below R small v k = v k)
  <-> (forall k, 0 <= k < Z.of_nat n -> small (v k) = true -> v k = 0').
Proof.
  unfold zero_below. split; intros H k Hk.
  - intros Hs. specialize (H k Hk). rewrite Hs in H. symmetry. exact H.
  - destruct (small (v k)) eqn:E; [symmetry; apply H; assumption|reflexivity].
Qed.

(* ---------------------------------------------------------------- Kronecker mixed product *)
(* kron(A, B) @ kron(C, D) = kron(A @ C, B @ D) for A (m x n), B (p x q), C (n x k), D (q x l) *)
Theorem kron_mixed (n q : nat) (p l : Z) (A B C D : mat R) r s :
  mmul R (n * q) (kron R p (Z.of_nat q) A B) (kron R (Z.of_nat q) l C D) r s
  = kron R p l (mmul R n A C) (mmul R q B D) r s.
Proof.
  unfold mmul, kron. set (qz := Z.of_nat q).
  transitivity (sum (n * q) (fun k =>
     (fun x y => (A (r / p) x *' C x (s / l)) *' (B (r mod p) y *' D y (s mod l))) (k / qz) (k mod qz))).
  { apply sum_ext. intros k _. ring. }
  rewrite sum_prod.
  exact (sum_flatten n q (fun x y => (A (r / p) x *' C x (s / l)) *' (B (r mod p) y *' D y (s mod l)))).
Qed.

Theorem kron_transpose (p q : Z) (A B : mat R) r s :
  mT R (kron R p q A B) r s = kron R q p (mT R A) (mT R B) r s.
Proof. reflexivity. Qed.

(* ---------------------------------------------------------------- eigenbasis of the Kronecker penalty *)
Lemma mmul_ext_l n (A A' B : mat R) i j :
  (forall k, 0 <= k < Z.of_nat n -> A i k = A' i k) -> mmul R n A B i j = mmul R n A' B i j.
Proof. intros H. unfold mmul. apply sum_ext. intros k Hk. rewrite H by exact Hk. reflexivity. Qed.

Lemma mmul_eye_r n (X : mat R) i k : 0 <= k < Z.of_nat n -> mmul R n X (eye R) i k = X i k.
Proof.
  intros Hk. unfold mmul, eye, diagm.
  transitivity (sum n (fun l => if l =? k then X i l else 0')).
  { apply sum_ext. intros l _. destruct (l =? k); ring. }
  rewrite sum_point. destruct (0 <=? k) eqn:?, (k <? Z.of_nat n) eqn:?; cbn [andb]; try lia. reflexivity.
Qed.

Lemma mmul_madd_mid n (X P Q Y : mat R) r s :
  mmul R n (mmul R n X (madd R P Q)) Y r s
  = mmul R n (mmul R n X P) Y r s +' mmul R n (mmul R n X Q) Y r s.
Proof.
  unfold mmul, madd. rewrite <- sum_add. apply sum_ext. intros k _.
  transitivity (sum n (fun l => X r l *' P l k +' X r l *' Q l k) *' Y k s).
  { f_equal. apply sum_ext. intros l _. ring. }
  rewrite sum_add. ring.
Qed.

(* kron(U_r,U_c)' kron(A,B) kron(U_r,U_c) = kron(U_r' A U_r, U_c' B U_c), all shapes, all indices *)
Lemma kron_sandwich (M N : nat) (cz : Z) (A B Ur Uc : mat R) r s :
  mmul R (M * N) (mmul R (M * N) (mT R (kron R (Z.of_nat N) cz Ur Uc)) (kron R (Z.of_nat N) (Z.of_nat N) A B))
       (kron R (Z.of_nat N) cz Ur Uc) r s
  = kron R cz cz (mmul R M (mmul R M (mT R Ur) A) Ur) (mmul R N (mmul R N (mT R Uc) B) Uc) r s.
Proof.
  transitivity (mmul R (M * N)
     (kron R cz (Z.of_nat N) (mmul R M (mT R Ur) A) (mmul R N (mT R Uc) B))
     (kron R (Z.of_nat N) cz Ur Uc) r s).
  { apply mmul_ext_l. intros k _.
    exact (kron_mixed M N cz (Z.of_nat N) (mT R Ur) (mT R Uc) A B r k). }
  exact (kron_mixed M N cz cz (mmul R M (mT R Ur) A) (mmul R N (mT R Uc) B) Ur Uc r s).
Qed.

(* contracts of the eigen-solver for one axis: orthonormal columns, and they diagonalise the penalty *)
Definition orthonormal_cols (n k : nat) (U : mat R) : Prop :=
  forall x y, 0 <= x < Z.of_nat k -> 0 <= y < Z.of_nat k -> mmul R n (mT R U) U x y = eye R x y.
Definition diagonalises (n k : nat) (U P : mat R) (lam : vec R) : Prop :=
  forall x y, 0 <= x < Z.of_nat k -> 0 <= y < Z.of_nat k ->
  mmul R n (mmul R n (mT R U) P) U x y = diagm R lam x y.

Lemma div_range r a c : 0 < c -> 0 <= r < a * c -> 0 <= r / c < a /\ 0 <= r mod c < c.
Proof.
  intros Hc Hr. split; [|apply Z.mod_pos_bound; lia].
  split; [apply Z.div_pos; lia|]. apply Z.div_lt_upper_bound; lia.
Qed.

Theorem eigenbasis_orthonormal (M N a c : nat) (Ur Uc : mat R) r s :
  orthonormal_cols M a Ur -> orthonormal_cols N c Uc ->
  0 <= r < Z.of_nat a * Z.of_nat c -> 0 <= s < Z.of_nat a * Z.of_nat c ->
  mmul R (M * N) (mT R (kron R (Z.of_nat N) (Z.of_nat c) Ur Uc)) (kron R (Z.of_nat N) (Z.of_nat c) Ur Uc) r s
  = eye R r s.
Proof.
  intros Hr Hc Rr Rs. assert (Hcz : 0 < Z.of_nat c) by nia.
  destruct (div_range r _ _ Hcz Rr), (div_range s _ _ Hcz Rs).
  etransitivity; [exact (kron_mixed M N (Z.of_nat c) (Z.of_nat c) (mT R Ur) (mT R Uc) Ur Uc r s)|].
  unfold kron. rewrite Hr, Hc by assumption. unfold eye, diagm.
  destruct (r / Z.of_nat c =? s / Z.of_nat c) eqn:E1, (r mod Z.of_nat c =? s mod Z.of_nat c) eqn:E2,
           (r =? s) eqn:E3; try ring; exfalso.
  - apply Z.eqb_eq in E1, E2. apply Z.eqb_neq in E3. apply E3.
    rewrite (Z.div_mod r (Z.of_nat c)), (Z.div_mod s (Z.of_nat c)) by lia. congruence.
  - apply Z.eqb_eq in E3. subst s. lia.
  - apply Z.eqb_eq in E3. subst s. lia.
  - apply Z.eqb_eq in E3. subst s. lia.
Qed.

(* U' (kron(P_r, I_N) + kron(I_M, P_c)) U = kron(L_r, I_c) + kron(I_a, L_c): the matrix whose diagonal
   reset_diagonals stores (penalty_is_kron_diag), hence U'PU = L for the code's penalty *)
Theorem eigenbasis_penalty (M N a c : nat) (Ur Uc Pr Pc : mat R) (lr lc : vec R) r s :
  orthonormal_cols M a Ur -> orthonormal_cols N c Uc ->
  diagonalises M a Ur Pr lr -> diagonalises N c Uc Pc lc ->
  0 <= r < Z.of_nat a * Z.of_nat c -> 0 <= s < Z.of_nat a * Z.of_nat c ->
  mmul R (M * N) (mmul R (M * N) (mT R (kron R (Z.of_nat N) (Z.of_nat c) Ur Uc))
                       (madd R (kron R (Z.of_nat N) (Z.of_nat N) Pr (eye R))
                               (kron R (Z.of_nat N) (Z.of_nat N) (eye R) Pc)))
       (kron R (Z.of_nat N) (Z.of_nat c) Ur Uc) r s
  = pen_spec R (Z.of_nat a) (Z.of_nat c) lr lc r s.
Proof.
  intros Or Oc Dr Dc Rr Rs. assert (Hcz : 0 < Z.of_nat c) by nia.
  destruct (div_range r _ _ Hcz Rr) as [R1 R2], (div_range s _ _ Hcz Rs) as [S1 S2].
  rewrite mmul_madd_mid, !kron_sandwich. unfold pen_spec, madd, kron.
  rewrite (Dr _ _ R1 S1), (Dc _ _ R2 S2).
  rewrite (mmul_ext_l N (mmul R N (mT R Uc) (eye R)) (mT R Uc) Uc)
    by (intros k Hk; apply mmul_eye_r; exact Hk).
  rewrite (mmul_ext_l M (mmul R M (mT R Ur) (eye R)) (mT R Ur) Ur)
    by (intros k Hk; apply mmul_eye_r; exact Hk).
  rewrite (Or _ _ R1 S1), (Oc _ _ R2 S2). reflexivity.
Qed.

End Proofs.

(* the integer instance used by the correspondence is a commutative semiring (non-vacuity) *)
Lemma ZO_sring : semi_ring_theory (t0 ZO) (t1 ZO) (tadd ZO) (tmul ZO) (@eq (T ZO)).
Proof.
  exact (mk_srt 0 1 Z.add Z.mul (@eq Z) Z.add_0_l Z.add_comm Z.add_assoc Z.mul_1_l Z.mul_0_l
           Z.mul_comm Z.mul_assoc Z.mul_add_distr_r).
Qed.

(* the eigen contracts are satisfiable: U = the 2x2 swap, P = diag(3, 0), eigenvalues (0, 3) *)
Lemma eigen_contract_example :
  orthonormal_cols ZO 2 2 (of_rows [[0; 1]; [1; 0]]) /\
  diagonalises ZO 2 2 (of_rows [[0; 1]; [1; 0]]) (of_rows [[3; 0]; [0; 0]]) (of_list [0; 3]).
Proof.
  split; intros x y Hx Hy;
    assert (Ex : x = 0 \/ x = 1) by lia; assert (Ey : y = 0 \/ y = 1) by lia;
    destruct Ex, Ey; subst x y; vm_compute; reflexivity.
Qed.

(* a magnitude threshold zeroes a GENUINE eigenvalue: eigenvalues (0, 0, 3, 50) of a penalty with
   diff_order = 2 (exactly the first two are null), threshold 10.  Zeroing by position is exact,
   zeroing by magnitude changes the third eigenvalue and with it the penalty the system is solved
   with (a = 4 row bases, c = 1 column basis, lam = 1). *)
Definition wit_vals : vec ZO := of_list [0; 0; 3; 50].
Definition wit_small (x : Z) : bool := Z.abs x <? 10.

Lemma threshold_zeroing_wrong :
  (forall k, 0 <= k < 4 -> (wit_vals k = 0 <-> k < 2)) /\
  (forall k, 0 <= k < 4 -> zero_first ZO 2 wit_vals k = wit_vals k) /\
  zero_below ZO wit_small wit_vals 2 <> wit_vals 2 /\
  penalty ZO std_cfg 4 1 1 1 (zero_below ZO wit_small wit_vals) (of_list [0]) 2
  <> penalty ZO std_cfg 4 1 1 1 (zero_first ZO 2 wit_vals) (of_list [0]) 2.
Proof.
  split; [|split; [|split]].
  - intros k Hk. assert (E : k = 0 \/ k = 1 \/ k = 2 \/ k = 3) by lia.
    destruct E as [E | [E | [E | E]]]; subst k; split; intro Hq;
      first [lia | reflexivity | (vm_compute in Hq; discriminate Hq)].
  - intros k Hk. assert (E : k = 0 \/ k = 1 \/ k = 2 \/ k = 3) by lia.
    destruct E as [E | [E | [E | E]]]; subst k; reflexivity.
  - vm_compute. discriminate.
  - vm_compute. discriminate.
Qed.
