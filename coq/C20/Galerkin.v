(* C20 -- abstract linear algebra (mathcomp, ssreflect style; nothing here executes).
   With U (n x k) any basis matrix, W the weight matrix, P the penalty and L = U' P U:
   * the reduced system (U'WU + L) c = U'W y that WhittakerSystem2D.solve assembles (C20_lhs,
     C20_rhs) is exactly the Galerkin condition  U' ((W + P) (U c) - W y) = 0  for the full system
     (W + P) v = W y  in the subspace spanned by the columns of U;
   * for a full square basis with orthonormal columns, v = U c solves the full system, and is THE
     solution when W + P is invertible. *)
Set Warnings "-notation-overridden,-ambiguous-paths,-notation-incompatible-format".
From mathcomp Require Import all_ssreflect all_algebra.
Set Implicit Arguments.
Unset Strict Implicit.
Unset Printing Implicit Defensive.
Import GRing.Theory.
Local Open Scope ring_scope.

Section Galerkin.
Variable F : comUnitRingType.

Lemma galerkin_reduced (n k : nat) (W P : 'M[F]_n) (U : 'M[F]_(n, k)) (L : 'M[F]_k)
      (y : 'cV[F]_n) (c : 'cV[F]_k) :
  U^T *m P *m U = L ->
  ((U^T *m W *m U + L) *m c = U^T *m W *m y
   <-> U^T *m ((W + P) *m (U *m c) - W *m y) = 0).
Proof.
move=> <-.
have -> : U^T *m ((W + P) *m (U *m c) - W *m y)
          = (U^T *m W *m U + U^T *m P *m U) *m c - U^T *m W *m y.
  by rewrite mulmxBr !mulmxA mulmxDr mulmxDl.
split; first by move=> ->; rewrite subrr.
by move/eqP; rewrite subr_eq0 => /eqP.
Qed.

Lemma galerkin_full (n : nat) (W P U L : 'M[F]_n) (y c : 'cV[F]_n) :
  U^T *m U = 1%:M -> U^T *m P *m U = L ->
  (U^T *m W *m U + L) *m c = U^T *m W *m y ->
  (W + P) *m (U *m c) = W *m y.
Proof.
move=> UtU UPU H.
have UUt : U *m U^T = 1%:M by apply: mulmx1C.
have /(congr1 (mulmx U)) := H.
rewrite -UPU -mulmxDl -[U^T *m W + U^T *m P]mulmxDr !mulmxA UUt !mul1mx.
by rewrite -!mulmxA.
Qed.

Lemma galerkin_full_unique (n : nat) (W P U L : 'M[F]_n) (y c : 'cV[F]_n) :
  U^T *m U = 1%:M -> U^T *m P *m U = L -> (W + P) \in unitmx ->
  (U^T *m W *m U + L) *m c = U^T *m W *m y ->
  U *m c = invmx (W + P) *m (W *m y).
Proof.
move=> UtU UPU inv H.
by rewrite -(galerkin_full UtU UPU H) mulKmx.
Qed.

End Galerkin.
