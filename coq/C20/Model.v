(* C20 -- executable model of the 2-D "generalized linear array model" algebra of
   pybaselines/two_d/_whittaker_utils.py (WhittakerSystem2D) and two_d/_spline_utils.py
   (SplineBasis2D._make_btwb).  Models only; the proofs are in C20/Proofs.v.

   Everything is written ONCE over a record [ops] of ring operations: the instance [ZO]
   (integers) is evaluated by vm_compute against the implementation on integer inputs
   (exact), the theorems are proved for every commutative semiring (Proofs.v).

   Arrays are index functions [Z -> T] (1-D, row-major raveled) and [Z -> Z -> T] (2-D);
   shapes are separate arguments ([nat] when summed over, [Z] in index arithmetic).
   The index-level facts that the translator extracts from the source on every run are
   collected in the record [cfg] (gen/GenC20.v instantiates it). *)
From Coq Require Import ZArith List Bool.
Import ListNotations.
Open Scope Z_scope.

Record ops := mkops { T : Type; t0 : T; t1 : T; tadd : T -> T -> T; tmul : T -> T -> T }.

Definition ZO : ops := mkops Z 0 1 Z.add Z.mul.

(* what the translator reads off the source *)
Record cfg := mkcfg {
  fs_k1 : bool;            (* _face_splitting: first  kron has the basis as LEFT factor  *)
  fs_k2 : bool;            (* _face_splitting: second kron has the basis as LEFT factor  *)
  bt_dims : Z * Z * Z * Z; (* _make_btwb: reshape((nb[d0], nb[d1], nb[d2], nb[d3]))        *)
  bt_axes : Z * Z * Z * Z; (* _make_btwb: np.transpose(., axes)                            *)
  bt_out : list Z;         (* _make_btwb: final reshape((prod nb[bt_out], prod nb[bt_out])) *)
  pen_rep : Z;             (* reset_diagonals: np.repeat(lam[0]*values_rows, nb[pen_rep])   *)
  pen_tile : Z             (* reset_diagonals: np.tile(lam[1]*values_columns, nb[pen_tile]) *)
}.

Definition std_cfg : cfg := mkcfg true false (0, 0, 1, 1) (0, 2, 1, 3) [0; 1] 1 0.

Definition z4_eqb (a b : Z * Z * Z * Z) : bool :=
  let '(a0, a1, a2, a3) := a in let '(b0, b1, b2, b3) := b in
  (a0 =? b0) && (a1 =? b1) && (a2 =? b2) && (a3 =? b3).

Fixpoint zlist_eqb (x y : list Z) : bool :=
  match x, y with
  | [], [] => true
  | a :: x', b :: y' => (a =? b) && zlist_eqb x' y'
  | _, _ => false
  end.

(* the configurations the theorems are proved for: the two kron factors of the face-splitting
   product in either order (the product commutes), everything else as in [std_cfg] *)
Definition cfg_ok (c : cfg) : bool :=
  xorb (fs_k1 c) (fs_k2 c) && z4_eqb (bt_dims c) (0, 0, 1, 1) && z4_eqb (bt_axes c) (0, 2, 1, 3)
  && zlist_eqb (bt_out c) [0; 1] && (pen_rep c =? 1) && (pen_tile c =? 0).

Section Model.
Variable R : ops.
Notation T := (T R).
Notation "x + y" := (tadd R x y).
Notation "x * y" := (tmul R x y).

Definition vec := Z -> T.
Definition mat := Z -> Z -> T.

Fixpoint sumf (n : nat) (f : Z -> T) : T :=
  match n with O => t0 R | S n' => sumf n' f + f (Z.of_nat n') end.

Definition mT (A : mat) : mat := fun i j => A j i.
(* A @ B with inner dimension n *)
Definition mmul (n : nat) (A B : mat) : mat := fun i j => sumf n (fun k => A i k * B k j).
Definition mvec (n : nat) (A : mat) (v : vec) : vec := fun i => sumf n (fun k => A i k * v k).
Definition hadamard (A B : mat) : mat := fun i j => A i j * B i j.
Definition madd (A B : mat) : mat := fun i j => A i j + B i j.
Definition ones : mat := fun _ _ => t1 R.
Definition diagm (v : vec) : mat := fun i j => if (i =? j)%Z then v i else t0 R.
Definition eye : mat := diagm (fun _ => t1 R).

(* scipy.sparse.kron(A, B) for B of shape (p, q) *)
Definition kron (p q : Z) (A B : mat) : mat :=
  fun r s => A (r / p)%Z (s / q)%Z * B (r mod p)%Z (s mod q)%Z.

(* C-order ravel of a 2-D array with [ncols] columns, and the inverse reshape *)
Definition ravel2 (ncols : Z) (A : mat) : vec := fun k => A (k / ncols)%Z (k mod ncols)%Z.
Definition reshape2 (ncols : Z) (f : vec) : mat := fun i j => f (i * ncols + j)%Z.

(* ---- _face_splitting(basis), basis of shape (m, n):
        ones = np.ones((1, n)); kron(basis, ones).multiply(kron(ones, basis)) *)
Definition fs_factor (basis_left : bool) (m n : Z) (B : mat) : mat :=
  if basis_left then kron 1 n B ones else kron m n ones B.
Definition face_splitting (c : cfg) (m n : Z) (B : mat) : mat :=
  hadamard (fs_factor (fs_k1 c) m n B) (fs_factor (fs_k2 c) m n B).

(* ---- 4-D index maps on raveled (C-contiguous) data *)
Definition nth4 (s : Z * Z * Z * Z) (k : Z) : Z :=
  let '(s0, s1, s2, s3) := s in
  if (k =? 0)%Z then s0 else if (k =? 1)%Z then s1 else if (k =? 2)%Z then s2 else s3.
Definition unravel4 (s : Z * Z * Z * Z) (k : Z) : Z * Z * Z * Z :=
  let '(s0, s1, s2, s3) := s in
  ((k / (s1 * s2 * s3)), ((k / (s2 * s3)) mod s1), ((k / s3) mod s2), (k mod s3))%Z.
Definition ravel4 (s i : Z * Z * Z * Z) : Z :=
  let '(s0, s1, s2, s3) := s in let '(i0, i1, i2, i3) := i in
  (((i0 * s1 + i1) * s2 + i2) * s3 + i3)%Z.
(* np.transpose(a, axes): out.shape[k] = a.shape[axes[k]]; out[j] = a[i] with i[axes[k]] = j[k] *)
Definition tr_shape (s ax : Z * Z * Z * Z) : Z * Z * Z * Z :=
  (nth4 s (nth4 ax 0), nth4 s (nth4 ax 1), nth4 s (nth4 ax 2), nth4 s (nth4 ax 3)).
Definition tr_index (ax j : Z * Z * Z * Z) : Z * Z * Z * Z :=
  let pick m := if (nth4 ax 0 =? m)%Z then nth4 j 0 else if (nth4 ax 1 =? m)%Z then nth4 j 1
                else if (nth4 ax 2 =? m)%Z then nth4 j 2 else nth4 j 3 in
  (pick 0%Z, pick 1%Z, pick 2%Z, pick 3%Z).
Definition transpose4 (s ax : Z * Z * Z * Z) (f : vec) : vec :=
  fun k => f (ravel4 s (tr_index ax (unravel4 (tr_shape s ax) k))).

Definition nb (a c : Z) (k : Z) : Z := if (k =? 0)%Z then a else c.
Fixpoint prod_nb (a c : Z) (l : list Z) : Z :=
  match l with [] => 1%Z | k :: l' => (nb a c k * prod_nb a c l')%Z end.

(* ---- _make_btwb(weights) for data shape (M, N), bases B_r (M x a), B_c (N x c):
     F = np.transpose((G_r.T @ weights @ G_c).reshape((nb[d0], nb[d1], nb[d2], nb[d3])), axes)
           .reshape((prod, prod))                                                         *)
Definition make_btwb (cf : cfg) (M N a c : nat) (Br W Bc : mat) : mat :=
  let az := Z.of_nat a in let cz := Z.of_nat c in
  let Gr := face_splitting cf (Z.of_nat M) az Br in
  let Gc := face_splitting cf (Z.of_nat N) cz Bc in
  let T2 := mmul N (mmul M (mT Gr) W) Gc in            (* shape (a*a, c*c) *)
  let flat := ravel2 (cz * cz) T2 in
  let '(d0, d1, d2, d3) := bt_dims cf in
  let shape := (nb az cz d0, nb az cz d1, nb az cz d2, nb az cz d3) in
  reshape2 (prod_nb az cz (bt_out cf)) (transpose4 shape (bt_axes cf) flat).

(* ---- reset_diagonals: eigenvalues[:diff_order] = 0; repeat / tile *)
Definition zero_first (d : Z) (v : vec) : vec := fun k => if (k <? d)%Z then t0 R else v k.
(* the same zeroing done by MAGNITUDE instead of position ([small x] = "|x| < threshold"); NOT what
   the source does -- kept to state precisely why position is the right criterion *)
Definition zero_below (small : T -> bool) (v : vec) : vec := fun k => if small (v k) then t0 R else v k.
Definition np_repeat (count : Z) (v : vec) : vec := fun k => v (k / count)%Z.
Definition np_tile (len : Z) (v : vec) : vec := fun k => v (k mod len)%Z.
Definition vscale (l : T) (v : vec) : vec := fun k => l * v k.
(* lengths of the two arrays that are added (they must agree for the addition to be defined) *)
Definition penalty_lens (cf : cfg) (a c : Z) : Z * Z :=
  ((a * nb a c (pen_rep cf))%Z, (c * nb a c (pen_tile cf))%Z).
Definition penalty (cf : cfg) (a c : Z) (lam_r lam_c : T) (vr vc : vec) : vec :=
  fun k => np_repeat (nb a c (pen_rep cf)) (vscale lam_r vr) k + np_tile c (vscale lam_c vc) k.

(* ---- solve(y, weights): rhs, lhs, output *)
Definition rhs_model (M N : nat) (c : Z) (Br W Y Bc : mat) : vec :=
  ravel2 c (mmul N (mmul M (mT Br) (hadamard W Y)) Bc).
(* np.fill_diagonal(lhs, lhs.diagonal() + penalty) *)
Definition fill_diag_add (F : mat) (p : vec) : mat :=
  fun r s => if (r =? s)%Z then F r r + p r else F r s.
Definition lhs_model (cf : cfg) (M N a c : nat) (Br W Bc : mat) (pen : vec) : mat :=
  fill_diag_add (make_btwb cf M N a c Br W Bc) pen.
(* basis_r @ coef.reshape(num_bases) @ basis_c.T *)
Definition output_model (a c : nat) (Br Bc : mat) (coef : vec) : mat :=
  mmul c (mmul a Br (reshape2 (Z.of_nat c) coef)) (mT Bc).

(* ---- specification side: B = kron(B_r, B_c), W = diag(vec(weights)) *)
Definition Bkron (N c : Z) (Br Bc : mat) : mat := kron N c Br Bc.       (* (M*N) x (a*c) *)
Definition btwb_spec (M N : nat) (c : Z) (Br W Bc : mat) : mat :=
  let B := Bkron (Z.of_nat N) c Br Bc in
  mmul (M * N) (mmul (M * N) (mT B) (diagm (ravel2 (Z.of_nat N) W))) B.
Definition btwy_spec (M N : nat) (c : Z) (Br W Y Bc : mat) : vec :=
  let B := Bkron (Z.of_nat N) c Br Bc in
  mvec (M * N) (mmul (M * N) (mT B) (diagm (ravel2 (Z.of_nat N) W))) (ravel2 (Z.of_nat N) Y).
Definition pen_spec (a c : Z) (lr lc : vec) : mat :=
  madd (kron c c (diagm lr) eye) (kron c c eye (diagm lc)).

End Model.

(* ---- tabulation helpers for the correspondence (integer instance) *)
Definition zrange (n : nat) : list Z := map Z.of_nat (seq 0 n).
Definition tab2 (r c : nat) (A : mat ZO) : list (list Z) :=
  map (fun i => map (fun j => A i j) (zrange c)) (zrange r).
Definition tab1 (n : nat) (v : vec ZO) : list Z := map v (zrange n).
Definition of_rows (l : list (list Z)) : mat ZO :=
  fun r c => nth (Z.to_nat c) (nth (Z.to_nat r) l []) 0.
Definition of_list (l : list Z) : vec ZO := fun k => nth (Z.to_nat k) l 0.
