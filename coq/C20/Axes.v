(* C20 -- model of Baseline2D.individual_axes (pybaselines/two_d/optimizers.py): which axis values
   each one-dimensional fitter receives, the assume_sorted flag, the order of the axes and the
   accumulation  baseline += apply_along_axis(fit, axis, data - baseline).
   Models only; proofs in C20/AxesProofs.v.

   The object state is what Baseline2D.__init__ leaves behind: self.x / self.z (sorted copies) and
   the inverted sort orders (None when the axis was already sorted).  The four shapes of
   self._sort_order (None | array | (..., array) | (array[:, None], array[None, :])) are exactly the
   four combinations of the two options. *)
From Coq Require Import ZArith List Bool.
Import ListNotations.
Open Scope Z_scope.

Section Axes.
Variable T : Type.
Variables (tadd tsub : T -> T -> T) (tzero : T).
(* fit1 assume_sorted n axis_values data = Baseline(axis_values, assume_sorted=..).method(data)[0]
   for an axis of length n *)
Variable fit1 : bool -> nat -> (Z -> T) -> (Z -> T) -> (Z -> T).

Record state := mkstate {
  sx : Z -> T; sz : Z -> T;                     (* self.x, self.z *)
  inv_x : option (Z -> Z); inv_z : option (Z -> Z)  (* inverted orders, None = axis was sorted *)
}.

Definition take (v : Z -> T) (idx : Z -> Z) : Z -> T := fun i => v (idx i).

(* axis_values / assume_sorted of the current source *)
Definition axis_values (st : state) : (Z -> T) * (Z -> T) :=
  (match inv_x st with None => sx st | Some ip => take (sx st) ip end,
   match inv_z st with None => sz st | Some ip => take (sz st) ip end).
Definition assume_sorted (st : state) : bool :=
  match inv_x st, inv_z st with None, None => true | _, _ => false end.

(* np.apply_along_axis(f, axis, d) for 2-D d: axis 0 feeds the columns d[:, j] *)
Definition apply_axis (axis : Z) (f : (Z -> T) -> (Z -> T)) (d : Z -> Z -> T) : Z -> Z -> T :=
  if axis =? 0 then fun i j => f (fun i' => d i' j) i else fun i j => f (fun j' => d i j') j.

Definition msub (a b : Z -> Z -> T) : Z -> Z -> T := fun i j => tsub (a i j) (b i j).
Definition madd2 (a b : Z -> Z -> T) : Z -> Z -> T := fun i j => tadd (a i j) (b i j).

Definition partial_fit (flag : bool) (xv zv : Z -> T) (M N : nat) (axis : Z)
           (data baseline : Z -> Z -> T) : Z -> Z -> T :=
  apply_axis axis (fit1 flag (if axis =? 0 then M else N) (if axis =? 0 then xv else zv))
             (msub data baseline).

Fixpoint run (flag : bool) (xv zv : Z -> T) (M N : nat) (axes : list Z)
         (data baseline : Z -> Z -> T) : Z -> Z -> T :=
  match axes with
  | [] => baseline
  | ax :: rest =>
      run flag xv zv M N rest data (madd2 baseline (partial_fit flag xv zv M N ax data baseline))
  end.

(* the code *)
Definition individual_axes (st : state) (M N : nat) (axes : list Z) (data : Z -> Z -> T) :=
  run (assume_sorted st) (fst (axis_values st)) (snd (axis_values st)) M N axes data
      (fun _ _ => tzero).

(* the specification: the 1-D method applied along the requested axes in order, each 1-D fitter
   built from the axis values in their INPUT order (Baseline(x_in) sorts internally) *)
Definition sequential_1d (x_in z_in : Z -> T) (M N : nat) (axes : list Z) (data : Z -> Z -> T) :=
  run false x_in z_in M N axes data (fun _ _ => tzero).

(* the code before commit 712a97d ("fix: individual_axes pairs the data with the axis values in
   their input order"): sorted axis values, assume_sorted=True *)
Definition individual_axes_old (st : state) (M N : nat) (axes : list Z) (data : Z -> Z -> T) :=
  run true (sx st) (sz st) M N axes data (fun _ _ => tzero).

End Axes.

(* integer instance for the correspondence: a position-sensitive stand-in for the 1-D method *)
Definition fitZ (flag : bool) (n : nat) (v d : Z -> Z) : Z -> Z :=
  fun i => 2 * d i + 3 * v i + (if flag then 1000 else 0) + d 0 + 5 * v (Z.of_nat n - 1).
Definition of_listZ (l : list Z) : Z -> Z := fun k => nth (Z.to_nat k) l 0.
Definition of_rowsZ (l : list (list Z)) : Z -> Z -> Z := fun r c => nth (Z.to_nat c) (nth (Z.to_nat r) l []) 0.
Definition mk_stateZ (selfx selfz : list Z) (ix iz : option (list Z)) : state Z :=
  mkstate Z (of_listZ selfx) (of_listZ selfz) (option_map of_listZ ix) (option_map of_listZ iz).
Definition tabZ (r c : nat) (A : Z -> Z -> Z) : list (list Z) :=
  map (fun i => map (fun j => A (Z.of_nat i) (Z.of_nat j)) (seq 0 c)) (seq 0 r).
