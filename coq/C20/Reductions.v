(* C20 -- host-level scalars (stop rules, normalisations) computed from arrays that are 1-D on the
   direct branch (y, weights flattened) and 2-D (M, N) on the eigendecomposition branch.  A reduction
   is branch independent when it is a function of the multiset / row-major sequence of the elements
   (sum, mean, std, min, max, Frobenius norm, .size: "axis=None" forms); it is NOT when its meaning
   depends on ndim (np.linalg.norm with ord, axis=..., len, .shape[k], integer subscripts).
   The translator classifies every reduction of the eigen-capable hosts and their helpers. *)
From Coq Require Import ZArith List Bool Lia.
From PB Require Import C20.Model C20.Proofs.
Import ListNotations.
Open Scope Z_scope.

Inductive red := RedFlat | RedShape.
Definition red_ok (r : red) : bool := match r with RedFlat => true | RedShape => false end.

(* the axis=None sum of the (M, N) array is the sum of its row-major flattening, any commutative semiring
   (the same re-indexing carries mean / std / Frobenius norm, which are sums of element-wise terms) *)
Theorem sum_2d_is_sum_flat (R : ops) :
  semi_ring_theory (t0 R) (t1 R) (tadd R) (tmul R) (@eq (T R)) ->
  forall (M N : nat) (A : mat R),
  sumf R (M * N) (ravel2 R (Z.of_nat N) A) = sumf R M (fun i => sumf R N (fun j => A i j)).
Proof. intros Rth M N A. exact (sum_flatten R Rth M N A). Qed.

(* np.linalg.norm(., 1): on a 1-D array sum |v_k|, on a 2-D array the largest column sum *)
Definition vec_norm1 (n : nat) (v : vec ZO) : Z := sumf ZO n (fun k => Z.abs (v k)).
Fixpoint maxf (n : nat) (f : Z -> Z) : Z :=
  match n with O => 0 | S n' => Z.max (maxf n' f) (f (Z.of_nat n')) end.
Definition mat_norm1 (M N : nat) (A : mat ZO) : Z :=
  maxf N (fun j => sumf ZO M (fun i => Z.abs (A i j))).

Theorem norm1_depends_on_ndim :
  exists (M N : nat) (A : mat ZO),
    mat_norm1 M N A <> vec_norm1 (M * N) (ravel2 ZO (Z.of_nat N) A).
Proof. exists 2%nat, 2%nat, (of_rows [[1; 2]; [3; 4]]). vm_compute. discriminate. Qed.
