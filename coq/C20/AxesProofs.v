(* C20 -- individual_axes equals the sequential 1-D application along the requested axes. *)
From Coq Require Import ZArith List Bool Lia.
From PB Require Import C20.Axes.
Import ListNotations.
Open Scope Z_scope.

Section AxesProofs.
Variable T : Type.
Variables (tadd tsub : T -> T -> T) (tzero : T).
Variable fit1 : bool -> nat -> (Z -> T) -> (Z -> T) -> (Z -> T).
Variable is_sorted : nat -> (Z -> T) -> Prop.

(* contracts of the 1-D fitter (library side, sampled by the harness):
   it reads its axis values and data only at positions 0..n-1 ... *)
Hypothesis fit1_ext : forall flag n v v' d d',
  (forall i, 0 <= i < Z.of_nat n -> v i = v' i) ->
  (forall i, 0 <= i < Z.of_nat n -> d i = d' i) ->
  forall i, 0 <= i < Z.of_nat n -> fit1 flag n v d i = fit1 flag n v' d' i.
(* ... and on sorted axis values assume_sorted=True changes nothing (Baseline finds no sort order) *)
Hypothesis fit1_sorted : forall n v d i,
  is_sorted n v -> fit1 true n v d i = fit1 false n v d i.

Notation run := (run T tadd tsub fit1).

(* what Baseline2D.__init__ establishes for one axis of length n with input values v_in:
   already sorted -> stored as is, no order;  otherwise self.v = v_in[p] and p[inv[i]] = i *)
Definition axis_inv (n : nat) (v_in self_v : Z -> T) (inv : option (Z -> Z)) : Prop :=
  match inv with
  | None => is_sorted n v_in /\ forall i, 0 <= i < Z.of_nat n -> self_v i = v_in i
  | Some ip => exists p : Z -> Z,
      (forall i, 0 <= i < Z.of_nat n -> self_v i = v_in (p i)) /\
      (forall i, 0 <= i < Z.of_nat n -> 0 <= ip i < Z.of_nat n /\ p (ip i) = i)
  end.

Lemma axis_values_input n v_in self_v inv :
  axis_inv n v_in self_v inv ->
  forall i, 0 <= i < Z.of_nat n ->
  match inv with None => self_v | Some ip => take T self_v ip end i = v_in i.
Proof.
  destruct inv as [ip|]; cbn.
  - intros (p & H1 & H2) i Hi. unfold take. destruct (H2 i Hi) as [Hr Hp].
    rewrite H1 by exact Hr. rewrite Hp. reflexivity.
  - intros [_ H] i Hi. apply H, Hi.
Qed.

Definition axes_ok (axes : list Z) : Prop := forall a, In a axes -> a = 0 \/ a = 1.
Definition eq_on (M N : nat) (a b : Z -> Z -> T) : Prop :=
  forall i j, 0 <= i < Z.of_nat M -> 0 <= j < Z.of_nat N -> a i j = b i j.

(* one generic congruence: two runs whose flags are interchangeable and whose axis values and
   baselines agree in range produce the same array in range *)
Lemma run_congr (M N : nat) flag flag' xv xv' zv zv' axes data :
  axes_ok axes ->
  (forall i, 0 <= i < Z.of_nat M -> xv i = xv' i) ->
  (forall j, 0 <= j < Z.of_nat N -> zv j = zv' j) ->
  (forall n v d i, (n = M /\ (forall k, 0 <= k < Z.of_nat n -> v k = xv' k)) \/
                   (n = N /\ (forall k, 0 <= k < Z.of_nat n -> v k = zv' k)) ->
                   0 <= i < Z.of_nat n -> fit1 flag n v d i = fit1 flag' n v d i) ->
  forall b b', eq_on M N b b' ->
  eq_on M N (run flag xv zv M N axes data b) (run flag' xv' zv' M N axes data b').
Proof.
  intros Hax Hx Hz Hflag. induction axes as [|ax rest IH]; intros b b' Hb; [exact Hb|].
  cbn [Axes.run]. apply IH.
  { intros a Ha. apply Hax. right. exact Ha. }
  intros i j Hi Hj. unfold madd2. rewrite (Hb i j Hi Hj). f_equal.
  unfold partial_fit, apply_axis, msub.
  destruct (Hax ax (or_introl eq_refl)) as [-> | ->]; cbn [Z.eqb].
  - rewrite (fit1_ext flag M xv xv' (fun i' => tsub (data i' j) (b i' j))
                     (fun i' => tsub (data i' j) (b' i' j))).
    + apply Hflag; [|exact Hi]. left. split; [reflexivity|]. intros; reflexivity.
    + exact Hx.
    + intros k Hk. rewrite (Hb k j Hk Hj). reflexivity.
    + exact Hi.
  - rewrite (fit1_ext flag N zv zv' (fun j' => tsub (data i j') (b i j'))
                     (fun j' => tsub (data i j') (b' i j'))).
    + apply Hflag; [|exact Hj]. right. split; [reflexivity|]. intros; reflexivity.
    + exact Hz.
    + intros k Hk. rewrite (Hb i k Hi Hk). reflexivity.
    + exact Hj.
Qed.

Theorem individual_axes_sequential (st : state T) (x_in z_in : Z -> T) (M N : nat) axes data :
  axes_ok axes ->
  axis_inv M x_in (sx T st) (inv_x T st) ->
  axis_inv N z_in (sz T st) (inv_z T st) ->
  eq_on M N (individual_axes T tadd tsub tzero fit1 st M N axes data)
            (sequential_1d T tadd tsub tzero fit1 x_in z_in M N axes data).
Proof.
  intros Hax Hx Hz. unfold individual_axes, sequential_1d, axis_values. cbn [fst snd].
  apply run_congr; auto.
  - apply (axis_values_input M x_in); exact Hx.
  - apply (axis_values_input N z_in); exact Hz.
  - unfold assume_sorted. destruct (inv_x T st) eqn:Ex, (inv_z T st) eqn:Ez; auto.
    cbn in Hx, Hz. destruct Hx as [Sx _], Hz as [Sz _].
    intros n v d i [[-> Hv] | [-> Hv]] Hi.
    + rewrite (fit1_ext true M v x_in d d Hv (fun _ _ => eq_refl) i Hi).
      rewrite (fit1_ext false M v x_in d d Hv (fun _ _ => eq_refl) i Hi). apply fit1_sorted, Sx.
    + rewrite (fit1_ext true N v z_in d d Hv (fun _ _ => eq_refl) i Hi).
      rewrite (fit1_ext false N v z_in d d Hv (fun _ _ => eq_refl) i Hi). apply fit1_sorted, Sz.
  - intros i j _ _. reflexivity.
Qed.

End AxesProofs.

(* ---- the hypotheses are satisfiable, and they matter: the pre-fix code (sorted axis values with
   assume_sorted=True) violates the statement on an unsorted axis *)
Definition fitS (flag : bool) (n : nat) (v d : Z -> Z) : Z -> Z := fun i => 2 * d i + 3 * v i.

Lemma fitS_ext : forall flag n v v' d d',
  (forall i, 0 <= i < Z.of_nat n -> v i = v' i) ->
  (forall i, 0 <= i < Z.of_nat n -> d i = d' i) ->
  forall i, 0 <= i < Z.of_nat n -> fitS flag n v d i = fitS flag n v' d' i.
Proof. intros. unfold fitS. rewrite H, H0 by assumption. reflexivity. Qed.

Lemma fitS_sorted : forall n v d i, True -> fitS true n v d i = fitS false n v d i.
Proof. reflexivity. Qed.

(* witness: x_in = [5; 1] (unsorted), p = inv = [1; 0], self.x = [1; 5], one column of data *)
Definition wit_state : state Z := mk_stateZ [1; 5] [7] (Some [1; 0]) None.

Lemma individual_axes_old_differs :
  tabZ 2 1 (individual_axes_old Z Z.add Z.sub 0 fitS wit_state 2 1 [0] (of_rowsZ [[10]; [20]]))
  <> tabZ 2 1 (sequential_1d Z Z.add Z.sub 0 fitS (of_listZ [5; 1]) (of_listZ [7]) 2 1 [0]
                 (of_rowsZ [[10]; [20]])).
Proof. vm_compute. discriminate. Qed.

Lemma individual_axes_new_agrees :
  tabZ 2 1 (individual_axes Z Z.add Z.sub 0 fitS wit_state 2 1 [0] (of_rowsZ [[10]; [20]]))
  = tabZ 2 1 (sequential_1d Z Z.add Z.sub 0 fitS (of_listZ [5; 1]) (of_listZ [7]) 2 1 [0]
                (of_rowsZ [[10]; [20]])).
Proof. vm_compute. reflexivity. Qed.

Lemma wit_inv :
  axis_inv Z (fun _ _ => True) 2 (of_listZ [5; 1]) (sx Z wit_state) (inv_x Z wit_state) /\
  axis_inv Z (fun _ _ => True) 1 (of_listZ [7]) (sz Z wit_state) (inv_z Z wit_state).
Proof.
  split.
  - cbn. exists (of_listZ [1; 0]). split; intros i Hi;
      assert (E : i = 0 \/ i = 1) by lia; destruct E; subst i; vm_compute; intuition congruence.
  - cbn. split; [exact I|]. intros i Hi. assert (i = 0) by lia. subst i. reflexivity.
Qed.
