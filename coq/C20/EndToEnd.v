(* C20 -- composition of the array-algebra theorems with the eigen contracts, inside the index-function model:
   the linear system WhittakerSystem2D.solve hands to scipy.linalg.solve IS the documented full system
   (W + P) v = W y,  P = kron(P_r, I_N) + kron(I_M, P_c),  projected on the columns of U = kron(U_r, U_c)
   (no abstract matrices: same model objects as the exact-integer correspondence evaluates). *)
From Coq Require Import ZArith List Bool Lia Ring.
From PB Require Import C20.Model C20.Proofs.
Import ListNotations.
Open Scope Z_scope.

Section EndToEnd.
Variable R : ops.
Hypothesis Rth : semi_ring_theory (t0 R) (t1 R) (tadd R) (tmul R) (@eq (T R)).
Add Ring Rring2 : Rth.

(* W + P of the documented system, as an (M*N) x (M*N) index function; P_r, P_c already carry lam_r, lam_c *)
Definition full_matrix (N : nat) (W Pr Pc : mat R) : mat R :=
  madd R (diagm R (ravel2 R (Z.of_nat N) W))
         (madd R (kron R (Z.of_nat N) (Z.of_nat N) Pr (eye R)) (kron R (Z.of_nat N) (Z.of_nat N) (eye R) Pc)).

Definition projected (M N c : nat) (Ur Uc A : mat R) : mat R :=
  let U := kron R (Z.of_nat N) (Z.of_nat c) Ur Uc in
  mmul R (M * N) (mmul R (M * N) (mT R U) A) U.

Theorem lhs_is_projected_full_system cf (M N a c : nat) (Ur Uc W Pr Pc : mat R) lam_r lam_c (vr vc : vec R) r s :
  cfg_ok cf = true ->
  orthonormal_cols R M a Ur -> orthonormal_cols R N c Uc ->
  diagonalises R M a Ur Pr (vscale R lam_r vr) -> diagonalises R N c Uc Pc (vscale R lam_c vc) ->
  0 <= r < Z.of_nat a * Z.of_nat c -> 0 <= s < Z.of_nat a * Z.of_nat c ->
  lhs_model R cf M N a c Ur W Uc (penalty R cf (Z.of_nat a) (Z.of_nat c) lam_r lam_c vr vc) r s
  = projected M N c Ur Uc (full_matrix N W Pr Pc) r s.
Proof.
  intros Hcf Or Oc Dr Dc Hr Hs.
  rewrite (lhs_is_BtWB_plus_P R Rth cf M N a c Ur W Uc lam_r lam_c vr vc r s Hcf Hr Hs).
  unfold projected, full_matrix.
  rewrite (mmul_madd_mid R Rth).
  rewrite (eigenbasis_penalty R Rth M N a c Ur Uc Pr Pc _ _ r s Or Oc Dr Dc Hr Hs).
  reflexivity.
Qed.

(* hence: coefficients solving the code's system solve the projected documented system U'(W+P)U c = U'W vec(y) *)
Theorem solve_is_galerkin cf (M N a c : nat) (Ur Uc W Y Pr Pc : mat R) lam_r lam_c (vr vc coef : vec R) :
  cfg_ok cf = true ->
  orthonormal_cols R M a Ur -> orthonormal_cols R N c Uc ->
  diagonalises R M a Ur Pr (vscale R lam_r vr) -> diagonalises R N c Uc Pc (vscale R lam_c vc) ->
  (forall r, 0 <= r < Z.of_nat a * Z.of_nat c ->
     mvec R (a * c) (lhs_model R cf M N a c Ur W Uc (penalty R cf (Z.of_nat a) (Z.of_nat c) lam_r lam_c vr vc)) coef r
     = rhs_model R M N (Z.of_nat c) Ur W Y Uc r) ->
  forall r, 0 <= r < Z.of_nat a * Z.of_nat c ->
    mvec R (a * c) (projected M N c Ur Uc (full_matrix N W Pr Pc)) coef r
    = btwy_spec R M N (Z.of_nat c) Ur W Y Uc r.
Proof.
  intros Hcf Or Oc Dr Dc Hsys r Hr.
  assert (Hc : 0 < Z.of_nat c) by nia.
  rewrite <- (rhs_is_BtWy R Rth M N c Ur W Y Uc r) by lia.
  rewrite <- (Hsys r Hr). unfold mvec. apply (sum_ext R). intros k Hk.
  rewrite (lhs_is_projected_full_system cf M N a c Ur Uc W Pr Pc lam_r lam_c vr vc r k) by (auto; lia).
  reflexivity.
Qed.

End EndToEnd.
