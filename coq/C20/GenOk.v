(* C20 -- the configuration read off the current source by tools/gen_c20.py is one the theorems
   of C20/Proofs.v are proved for. *)
From Coq Require Import ZArith List Bool.
From PB Require Import C20.Model C20.Layout C20.Reductions gen.GenC20.
Open Scope Z_scope.

Lemma gen_cfgs_ok : cfg_ok gen_cfg_whittaker = true /\ cfg_ok gen_cfg_spline = true.
Proof. split; vm_compute; reflexivity. Qed.

(* every flattening in pybaselines/two_d uses the default (row-major, layout independent) order *)
Lemma gen_orders_ok : forallb order_ok gen_flatten_orders = true /\ gen_flatten_orders <> nil.
Proof. split; [vm_compute; reflexivity|discriminate]. Qed.

(* no reduction of the eigen-capable hosts / their helpers depends on whether its array is 1-D or 2-D *)
Lemma gen_reductions_ok : forallb red_ok gen_reductions = true /\ gen_reductions <> nil.
Proof. split; [vm_compute; reflexivity|discriminate]. Qed.
