(* C20 -- which logical element a flattening (ndarray.ravel / flatten / reshape) puts at position k,
   as a function of the `order` argument and of the MEMORY LAYOUT of the 2-D array.  The direct
   (num_eigens=None) branch of the 2-D Whittaker setup flattens data and weights, solves the
   Kronecker system kron(P_r, I_N) + kron(I_M, P_c) (row-major vec) and reshapes back; this is the
   documented system only if the flattening is row-major for EVERY layout of the caller's arrays.
   Models and proofs (small; nothing here executes in the correspondence). *)
From Coq Require Import ZArith List Bool Lia.
From PB Require Import C20.Model C20.Proofs.
Import ListNotations.
Open Scope Z_scope.

Inductive order := OrdC | OrdF | OrdA | OrdK.
(* C-contiguous | Fortran-contiguous and not C-contiguous (np.asfortranarray, .T of a C array) |
   anything else (negative strides, non-contiguous slices) *)
Inductive layout := LayC | LayF | LayStrided.

Definition row_major (M N k : Z) : Z * Z := (k / N, k mod N).
Definition col_major (M N k : Z) : Z * Z := (k mod M, k / M).

(* logical index (i, j) of element k of a.ravel(order) for a of shape (M, N);
   None = depends on the concrete strides (order='K' on a non-contiguous array) *)
Definition ravel_idx (o : order) (l : layout) (M N k : Z) : option (Z * Z) :=
  match o, l with
  | OrdC, _ => Some (row_major M N k)
  | OrdF, _ => Some (col_major M N k)
  | OrdA, LayF => Some (col_major M N k)
  | OrdA, _ => Some (row_major M N k)
  | OrdK, LayC => Some (row_major M N k)
  | OrdK, LayF => Some (col_major M N k)
  | OrdK, LayStrided => None
  end.

(* the orders the theorems accept: only the default *)
Definition order_ok (o : order) : bool := match o with OrdC => true | _ => false end.

(* Model.ravel2 is the row-major flattening *)
Lemma ravel2_row_major (R : ops) (M N : Z) (A : mat R) k :
  ravel2 R N A k = A (fst (row_major M N k)) (snd (row_major M N k)).
Proof. reflexivity. Qed.

Theorem ravel_layout_independent o : order_ok o = true ->
  forall l M N k, ravel_idx o l M N k = Some (row_major M N k).
Proof. destruct o; cbn; intros H; try discriminate. reflexivity. Qed.

(* every other order is layout dependent: on a Fortran-contiguous 2 x 3 array element 1 of the
   flattening is a[1, 0], not a[0, 1] *)
Theorem ravel_other_orders_refuted o : order_ok o = false ->
  exists l M N k, 0 <= k < M * N /\ ravel_idx o l M N k <> Some (row_major M N k).
Proof.
  intros H. exists LayF, 2, 3, 1. split; [lia|].
  destruct o; cbn in H; try discriminate; vm_compute; discriminate.
Qed.

(* flatten row-major, reshape row-major: the identity (the direct branch's vec / unvec plumbing) *)
Theorem ravel_reshape_roundtrip (R : ops) (N : Z) (A : mat R) i j :
  0 <= j < N -> reshape2 R N (ravel2 R N A) i j = A i j.
Proof. intros Hj. unfold reshape2, ravel2. rewrite dm_div, dm_mod by lia. reflexivity. Qed.

Theorem reshape_ravel_roundtrip (R : ops) (N : Z) (f : vec R) k :
  0 < N -> ravel2 R N (reshape2 R N f) k = f k.
Proof.
  intros HN. unfold reshape2, ravel2. f_equal.
  rewrite (Z.div_mod k N) at 3 by lia. ring.
Qed.
