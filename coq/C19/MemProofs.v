(* C19 -- conserve_memory=True and False run the same computation (model: C19/Model.v, Section Kernels).
   Generic in the number instance, the solver `local_fit`, `predict`, the reweighting `update`, the stop
   test and the contents of np.empty: nothing about them is assumed. *)
From Coq Require Import ZArith List Bool Lia.
From PB Require Import lib.PySlice C19.Model C19.FitsProofs.
Import ListNotations.
Open Scope Z_scope.

Lemma map_nth_seq {A} (l : list A) d : map (fun i => nth i l d) (seq 0 (length l)) = l.
Proof.
  induction l as [|a l IH]; [reflexivity|].
  cbn [length seq map nth]. f_equal. rewrite <- seq_shift, map_map. exact IH.
Qed.

Section Mem.
  Variable R : Num.
  Variable Coef : Type.
  Variable local_fit : list (list (T R)) -> list (T R) -> Coef.
  Variable predict : list (T R) -> Coef -> T R.
  Variable x : list (T R).
  Variable vander : list (list (T R)).
  Variable ncoef : nat.
  Variable N : Z.
  Variable windows : list (Z * Z).
  Variable fits : list Z.
  Variable skips : list (Z * Z).
  Hypothesis Hnd : NoDup fits.

  Notation kstate := (kstate R Coef).
  Notation kstep := (kstep R Coef local_fit predict x vander ncoef windows fits).
  Notation kloop := (kloop R Coef local_fit predict x vander ncoef windows fits).
  Notation pass := (pass R Coef local_fit predict x vander ncoef N windows fits skips).
  Definition fit (idx : nat) : Z := nth idx fits 0.
  Definition kern (idx : nat) : list (T R) := kernel_of R x (fit idx) (nth idx windows (0, 0)).

  Definition eqbc (s s' : kstate) : Prop := k_base _ _ s = k_base _ _ s' /\ k_coefs _ _ s = k_coefs _ _ s'.

  (* the cached kernel of every fitted x-index is the kernel the low-memory loop recomputes *)
  Definition valid (cache : Z -> list (T R)) : Prop :=
    forall idx, In idx (seq 0 (length fits)) -> cache (fit idx) = kern idx.

  Lemma step01 y w s s' idx : eqbc s s' -> eqbc (kstep 0%nat y w s idx) (kstep 1%nat y w s' idx).
  Proof. unfold eqbc, Model.kstep; cbn. intros [-> ->]. split; reflexivity. Qed.

  Lemma step02 y w s s' idx : eqbc s s' -> k_cache _ _ s' (fit idx) = kern idx ->
    eqbc (kstep 0%nat y w s idx) (kstep 2%nat y w s' idx).
  Proof.
    unfold eqbc, Model.kstep; cbn. intros [-> ->] Hc. unfold fit, kern in Hc. rewrite Hc. split; reflexivity.
  Qed.

  Lemma fold01 y w l : forall s s', eqbc s s' ->
    eqbc (fold_left (kstep 0%nat y w) l s) (fold_left (kstep 1%nat y w) l s').
  Proof.
    induction l as [|a l IH]; intros s s' H; [exact H|]. cbn [fold_left]. apply IH. apply step01. exact H.
  Qed.

  Lemma fold02 y w l : forall s s', eqbc s s' ->
    (forall idx, In idx l -> k_cache _ _ s' (fit idx) = kern idx) ->
    eqbc (fold_left (kstep 0%nat y w) l s) (fold_left (kstep 2%nat y w) l s') /\
    k_cache _ _ (fold_left (kstep 2%nat y w) l s') = k_cache _ _ s'.
  Proof.
    induction l as [|a l IH]; intros s s' H Hc; [split; [exact H|reflexivity]|].
    cbn [fold_left].
    destruct (IH (kstep 0%nat y w s a) (kstep 2%nat y w s' a)) as [H1 H2].
    - apply step02; [exact H|]. apply Hc. left; reflexivity.
    - intros idx Hin. cbn. apply Hc. right; exact Hin.
    - split; [exact H1|]. rewrite H2. reflexivity.
  Qed.

  Lemma cache_other y w l : forall s j, ~ In j (map fit l) ->
    k_cache _ _ (fold_left (kstep 1%nat y w) l s) j = k_cache _ _ s j.
  Proof.
    induction l as [|a l IH]; intros s j Hj; [reflexivity|].
    cbn [fold_left]. rewrite IH by (intros Hin; apply Hj; right; exact Hin).
    unfold Model.kstep; cbn. unfold upd.
    destruct (j =? nth a fits 0) eqn:E; [|reflexivity].
    exfalso. apply Hj. left. unfold fit. apply Z.eqb_eq in E. symmetry; exact E.
  Qed.

  Lemma cache_valid y w l : forall s, NoDup (map fit l) -> forall idx, In idx l ->
    k_cache _ _ (fold_left (kstep 1%nat y w) l s) (fit idx) = kern idx.
  Proof.
    induction l as [|a l IH]; intros s Hn idx Hin; [destruct Hin|].
    cbn [map] in Hn. inversion Hn as [|? ? Hna Hnl]; subst.
    cbn [fold_left]. destruct Hin as [->|Hin].
    - rewrite cache_other by exact Hna.
      unfold Model.kstep; cbn. unfold upd, fit, kern. rewrite Z.eqb_refl. reflexivity.
    - apply IH; assumption.
  Qed.

  Lemma fits_enum : map fit (seq 0 (length fits)) = fits.
  Proof. unfold fit. apply map_nth_seq. Qed.

  (* first loop: same baseline and coefficients as the low-memory loop, and a valid cache *)
  Lemma pass01 g y w cf ch ch' :
    fst (pass 0%nat g y w cf ch) = fst (pass 1%nat g y w cf ch') /\ valid (snd (pass 1%nat g y w cf ch')).
  Proof.
    unfold Model.pass, Model.kloop. cbn [fst snd].
    set (s0 := {| k_base := g; k_coefs := cf; k_cache := ch |}).
    set (s1 := {| k_base := g; k_coefs := cf; k_cache := ch' |}).
    assert (H : eqbc s0 s1) by (split; reflexivity).
    destruct (fold01 y w (seq 0 (length fits)) s0 s1 H) as [Hb Hc].
    split.
    - rewrite Hb, Hc. reflexivity.
    - intros idx Hin. apply cache_valid; [rewrite fits_enum; exact Hnd|exact Hin].
  Qed.

  (* later loops: with a valid cache, same baseline and coefficients; the cache is not modified *)
  Lemma pass02 g y w cf ch ch' : valid ch' ->
    fst (pass 0%nat g y w cf ch) = fst (pass 2%nat g y w cf ch') /\ snd (pass 2%nat g y w cf ch') = ch'.
  Proof.
    intros Hv. unfold Model.pass, Model.kloop. cbn [fst snd].
    set (s0 := {| k_base := g; k_coefs := cf; k_cache := ch |}).
    set (s1 := {| k_base := g; k_coefs := cf; k_cache := ch' |}).
    assert (H : eqbc s0 s1) by (split; reflexivity).
    destruct (fold02 y w (seq 0 (length fits)) s0 s1 H Hv) as [[Hb Hc] Hk].
    split; [rewrite Hb, Hc; reflexivity|exact Hk].
  Qed.

  Variable D : Type.
  Variable reldiff : list (T R) -> list (T R) -> D.
  Variable below : D -> bool.
  Variable update : list (T R) -> list (T R) -> list (T R) -> list (T R) * list (T R).
  Variable garbage : nat -> Z -> T R.

  Notation dstate := (dstate R Coef D).
  Notation drive := (drive R Coef local_fit predict x vander ncoef N windows fits skips D reldiff below update garbage).

  Definition sim (a b : dstate) : Prop :=
    d_y _ _ _ a = d_y _ _ _ b /\ d_w _ _ _ a = d_w _ _ _ b /\ d_base _ _ _ a = d_base _ _ _ b /\
    d_coefs _ _ _ a = d_coefs _ _ _ b /\ d_hist _ _ _ a = d_hist _ _ _ b.

  Lemma sim_observe a b : sim a b -> observe R Coef N D a = observe R Coef N D b.
  Proof. intros (H1 & H2 & H3 & H4 & H5). unfold observe. rewrite H1, H2, H3, H4, H5. reflexivity. Qed.

  Lemma drive_sim fuel : forall it a b, sim a b -> (it <> O -> valid (d_cache _ _ _ b)) ->
    sim (drive true fuel it a) (drive false fuel it b).
  Proof.
    induction fuel as [|f IH]; intros it a b Hs Hv; [exact Hs|].
    destruct Hs as (H1 & H2 & H3 & H4 & H5).
    cbn [Model.drive].
    destruct it as [|it].
    - (* first iteration: _loess_low_memory vs _loess_first_loop *)
      destruct (pass01 (garbage O) (d_y _ _ _ a) (d_w _ _ _ a) (d_coefs _ _ _ a) (d_cache _ _ _ a) (d_cache _ _ _ b)) as [He Hval].
      rewrite <- H1, <- H2, <- H4.
      destruct (pass 0%nat (garbage O) (d_y _ _ _ a) (d_w _ _ _ a) (d_coefs _ _ _ a) (d_cache _ _ _ a)) as [[b0 c0] k0].
      destruct (pass 1%nat (garbage O) (d_y _ _ _ a) (d_w _ _ _ a) (d_coefs _ _ _ a) (d_cache _ _ _ b)) as [[b1 c1] k1].
      cbn [fst snd] in He, Hval. injection He as <- <-.
      rewrite <- H3, <- H5.
      destruct (below (reldiff (d_base _ _ _ a) b0)).
      + repeat split; reflexivity.
      + destruct (update (d_y _ _ _ a) (d_w _ _ _ a) b0) as [y' w'].
        apply IH; [repeat split; reflexivity|]. intros _. exact Hval.
    - (* later iterations: _loess_low_memory vs _loess_nonfirst_loops on the cache *)
      assert (Hvb : valid (d_cache _ _ _ b)) by (apply Hv; discriminate).
      destruct (pass02 (garbage (S it)) (d_y _ _ _ a) (d_w _ _ _ a) (d_coefs _ _ _ a) (d_cache _ _ _ a) (d_cache _ _ _ b) Hvb) as [He Hk].
      rewrite <- H1, <- H2, <- H4.
      destruct (pass 0%nat (garbage (S it)) (d_y _ _ _ a) (d_w _ _ _ a) (d_coefs _ _ _ a) (d_cache _ _ _ a)) as [[b0 c0] k0].
      destruct (pass 2%nat (garbage (S it)) (d_y _ _ _ a) (d_w _ _ _ a) (d_coefs _ _ _ a) (d_cache _ _ _ b)) as [[b1 c1] k1].
      cbn [fst snd] in He, Hk. injection He as <- <-. subst k1.
      rewrite <- H3, <- H5.
      destruct (below (reldiff (d_base _ _ _ a) b0)).
      + repeat split; reflexivity.
      + destruct (update (d_y _ _ _ a) (d_w _ _ _ a) b0) as [y' w'].
        apply IH; [repeat split; reflexivity|]. intros _. exact Hvb.
  Qed.

  Theorem memory_equiv_nodup max_iter s0 :
    observe R Coef N D (drive true (S max_iter) O s0) = observe R Coef N D (drive false (S max_iter) O s0).
  Proof.
    apply sim_observe. apply drive_sim; [repeat split; reflexivity|]. intros H; exfalso; apply H; reflexivity.
  Qed.
End Mem.

(* with the windows / fits / skips that _determine_fits returns: no hypothesis on x, delta or the arithmetic *)
Theorem memory_equiv (R : Num) (Coef D : Type) local_fit predict reldiff below update garbage
    (xraw x : list (T R)) vander ncoef (N tp : Z) (delta : T R) s0 max_iter :
  1 <= N -> 1 <= tp <= N ->
  let '(windows, fits, skips) := determine_fits R xraw N tp delta in
  observe R Coef N D (drive R Coef local_fit predict x vander ncoef N windows fits skips D reldiff below update garbage true (S max_iter) O s0)
  = observe R Coef N D (drive R Coef local_fit predict x vander ncoef N windows fits skips D reldiff below update garbage false (S max_iter) O s0).
Proof.
  intros HN Htp.
  pose proof (determine_fits_spec R xraw N tp delta HN Htp) as Hs.
  destruct (determine_fits R xraw N tp delta) as [[windows fits] skips].
  destruct Hs as (_ & _ & Hincr & _).
  apply memory_equiv_nodup. apply incr_NoDup. exact Hincr.
Qed.
