(* C19 -- reflective check of the table generated from the CURRENT source by tools/gen_loess_state.py:
   the loess driver writes nothing through `self`, reads only the reviewed attributes, calls through `self` only the
   reviewed setup method, the class and the module hold no state, and the strategy functions are plain functions
   whose only decorator is numba's jit (a compilation cache, not a result cache). *)
From Coq Require Import List String Bool.
From PB Require Import gen.GenLoessState.
Import ListNotations.
Open Scope string_scope.

Definition reviewed_reads : list string := ["_polynomial"; "_setup_polynomial"; "_size"; "x"; "x_domain"].
Definition reviewed_calls : list string := ["_setup_polynomial"].
Definition reviewed_decorator : string := "jit(nopython=True, cache=True)".
Definition mem (a : string) (l : list string) : bool := existsb (String.eqb a) l.

Definition stateless_ok : bool :=
  match loess_module_data_used with [] => true | _ => false end &&
  match loess_self_writes with [] => true | _ => false end &&
  match polynomial_class_state with [] => true | _ => false end &&
  match polynomial_module_state with [] => true | _ => false end &&
  forallb (fun a => mem a reviewed_reads) loess_self_reads &&
  forallb (fun a => mem a reviewed_calls) loess_self_calls &&
  forallb (fun p => forallb (String.eqb reviewed_decorator) (snd p)) loess_strategy_functions.

Lemma stateless_sound : stateless_ok = true ->
  loess_module_data_used = [] /\ loess_self_writes = [] /\ polynomial_class_state = [] /\ polynomial_module_state = [] /\
  (forall a, In a loess_self_reads -> In a reviewed_reads) /\
  (forall a, In a loess_self_calls -> In a reviewed_calls) /\
  (forall f d, In (f, d) loess_strategy_functions -> forall e, In e d -> e = reviewed_decorator).
Proof.
  unfold stateless_ok. intros H.
  repeat (apply andb_true_iff in H; destruct H as [H ?]).
  assert (Hmem : forall a l, mem a l = true -> In a l).
  { intros a l Hm. unfold mem in Hm. apply existsb_exists in Hm. destruct Hm as (b & Hb & E).
    apply String.eqb_eq in E. subst; exact Hb. }
  split; [destruct loess_module_data_used; [reflexivity|discriminate]|].
  split; [destruct loess_self_writes; [reflexivity|discriminate]|].
  split; [destruct polynomial_class_state; [reflexivity|discriminate]|].
  split; [destruct polynomial_module_state; [reflexivity|discriminate]|].
  split; [intros a Ha; apply Hmem; rewrite forallb_forall in H2; apply H2; exact Ha|].
  split; [intros a Ha; apply Hmem; rewrite forallb_forall in H1; apply H1; exact Ha|].
  intros f d Hin e He. rewrite forallb_forall in H0. specialize (H0 _ Hin). cbn [snd] in H0.
  rewrite forallb_forall in H0. specialize (H0 _ He). apply String.eqb_eq in H0. symmetry; exact H0.
Qed.

Lemma driver_stateless :
  loess_module_data_used = [] /\ loess_self_writes = [] /\ polynomial_class_state = [] /\ polynomial_module_state = [] /\
  (forall a, In a loess_self_reads -> In a reviewed_reads) /\
  (forall a, In a loess_self_calls -> In a reviewed_calls) /\
  (forall f d, In (f, d) loess_strategy_functions -> forall e, In e d -> e = reviewed_decorator).
Proof. apply stateless_sound. vm_compute. reflexivity. Qed.
