(* C19 -- _fill_skips on the skips of _determine_fits: fitted points are never overwritten, every skipped
   point receives the value on the straight line through its two fitted neighbours, and no entry of the
   np.empty baseline survives.  Generic in the number instance (no arithmetic law is used). *)
From Coq Require Import ZArith List Bool Lia ZifyBool.
From PB Require Import lib.PySlice C19.Model C19.FitsProofs.
Import ListNotations.
Open Scope Z_scope.

Lemma incr_tail a l : incr (a :: l) -> incr l.
Proof. destruct l; [intros; exact I|]. intros [_ H]; exact H. Qed.

Lemma cpairs_bounds l : incr l -> forall a e, In (a, e) (cpairs l) -> In a l /\ In (e - 1) l /\ a < e - 1.
Proof.
  induction l as [|x l IH]; intros Hi a e Hin; [destruct Hin|].
  destruct l as [|y r]; [destruct Hin|].
  change (cpairs (x :: y :: r)) with ((x, y + 1) :: cpairs (y :: r)) in Hin.
  destruct Hin as [E|Hin].
  - injection E as <- <-. destruct Hi as [Hxy _]. replace (y + 1 - 1) with y by lia.
    split; [left; reflexivity|split; [right; left; reflexivity|exact Hxy]].
  - destruct (IH (incr_tail _ _ Hi) a e Hin) as (H1 & H2 & H3).
    split; [right; exact H1|split; [right; exact H2|exact H3]].
Qed.

Lemma ge_head y r a : incr (y :: r) -> In a (y :: r) -> y <= a.
Proof.
  intros Hi [->|Hin]; [lia|]. pose proof (incr_lt_all _ _ Hi) as HF. rewrite Forall_forall in HF.
  specialize (HF _ Hin). lia.
Qed.

(* F1: nothing fitted lies strictly inside a consecutive pair *)
Lemma inside_not_fitted l : incr l -> forall a e j, In (a, e) (cpairs l) -> a < j < e - 1 -> ~ In j l.
Proof.
  induction l as [|x l IH]; intros Hi a e j Hin Hj; [destruct Hin|].
  destruct l as [|y r]; [destruct Hin|].
  change (cpairs (x :: y :: r)) with ((x, y + 1) :: cpairs (y :: r)) in Hin.
  pose proof (incr_tail _ _ Hi) as Hi'. destruct Hi as [Hxy _].
  destruct Hin as [E|Hin].
  - injection E as <- <-. intros [->|Hjn]; [lia|]. pose proof (ge_head _ _ _ Hi' Hjn). lia.
  - destruct (cpairs_bounds _ Hi' a e Hin) as (Ha & _ & _). pose proof (ge_head _ _ _ Hi' Ha).
    intros [->|Hjn]; [lia|]. exact (IH Hi' a e j Hin Hj Hjn).
Qed.

(* F2: consecutive pairs do not overlap *)
Lemma inside_unique l : incr l -> forall a e a' e' j, In (a, e) (cpairs l) -> In (a', e') (cpairs l) ->
  a < j < e - 1 -> a' < j < e' - 1 -> (a, e) = (a', e').
Proof.
  induction l as [|x l IH]; intros Hi a e a' e' j H1 H2 Hj Hj'; [destruct H1|].
  destruct l as [|y r]; [destruct H1|].
  change (cpairs (x :: y :: r)) with ((x, y + 1) :: cpairs (y :: r)) in H1, H2.
  pose proof (incr_tail _ _ Hi) as Hi'.
  destruct H1 as [E1|H1]; destruct H2 as [E2|H2].
  - rewrite <- E1, <- E2. reflexivity.
  - exfalso. injection E1 as <- <-. destruct (cpairs_bounds _ Hi' a' e' H2) as (Ha & _ & _).
    pose proof (ge_head _ _ _ Hi' Ha). lia.
  - exfalso. injection E2 as <- <-. destruct (cpairs_bounds _ Hi' a e H1) as (Ha & _ & _).
    pose proof (ge_head _ _ _ Hi' Ha). lia.
  - exact (IH Hi' a e a' e' j H1 H2 Hj Hj').
Qed.

(* every index between the first and the last fitted one is fitted or strictly inside a pair *)
Lemma covered l : incr l -> forall j, hd 0 l <= j <= last l 0 -> l <> [] ->
  In j l \/ exists a e, In (a, e) (cpairs l) /\ a < j < e - 1.
Proof.
  induction l as [|x l IH]; intros Hi j Hj Hne; [exfalso; apply Hne; reflexivity|].
  destruct l as [|y r].
  - cbn in Hj. left. left. lia.
  - change (cpairs (x :: y :: r)) with ((x, y + 1) :: cpairs (y :: r)).
    change (last (x :: y :: r) 0) with (last (y :: r) 0) in Hj. cbn [hd] in Hj.
    destruct (Z_lt_le_dec j y) as [Hlt|Hge].
    + destruct (Z.eq_dec j x) as [->|]; [left; left; reflexivity|].
      right. exists x, (y + 1). split; [left; reflexivity|lia].
    + destruct (IH (incr_tail _ _ Hi) j) as [Hin|(a & e & Hin & Hr)]; [cbn [hd]; lia|discriminate| |].
      * left. right. exact Hin.
      * right. exists a, e. split; [right; exact Hin|exact Hr].
Qed.

Section Interp.
  Variable R : Num.
  Variable x : list (T R).
  Variable fits : list Z.
  Hypothesis Hincr : incr fits.

  Notation px c := (pyget (zero R) x c).
  (* the value _interp_inplace assigns to index j of the segment between fitted a and fitted e - 1 *)
  Definition line (b : Z -> T R) (a e j : Z) : T R :=
    add R (b a) (mul R (sub R (px j) (px a)) (div R (sub R (b (e - 1)) (b a)) (sub R (px (e - 1)) (px a)))).

  Lemma fill_one_outside b a e j : ~ (a < j < e - 1) -> fill_one R x b (a, e) j = b j.
  Proof. intros H. unfold fill_one. destruct ((a + 1 <=? j) && (j <? e - 1)) eqn:E; [lia|reflexivity]. Qed.

  Lemma fill_one_inside b a e j : a < j < e - 1 -> fill_one R x b (a, e) j = line b a e j.
  Proof. intros H. unfold fill_one, line. destruct ((a + 1 <=? j) && (j <? e - 1)) eqn:E; [reflexivity|lia]. Qed.

  Lemma fill_keeps_fits sk : forall b, (forall p, In p sk -> In p (cpairs fits)) ->
    forall i, In i fits -> fill_skips R x b sk i = b i.
  Proof.
    induction sk as [|[a e] sk IH]; intros b Hsk i Hi; [reflexivity|].
    unfold fill_skips in *. cbn [fold_left]. rewrite IH; [|intros p Hp; apply Hsk; right; exact Hp|exact Hi].
    apply fill_one_outside. intros Hr. exact (inside_not_fitted _ Hincr a e i (Hsk _ (or_introl eq_refl)) Hr Hi).
  Qed.

  Lemma fill_line sk : forall b, (forall p, In p sk -> In p (cpairs fits)) ->
    forall a e j, In (a, e) (cpairs fits) -> a < j < e - 1 ->
    (In (a, e) sk -> fill_skips R x b sk j = line b a e j) /\
    (~ In (a, e) sk -> fill_skips R x b sk j = b j).
  Proof.
    induction sk as [|[a' e'] sk IH]; intros b Hsk a e j Hp Hj.
    - split; [intros []|reflexivity].
    - assert (Hsk' : forall p, In p sk -> In p (cpairs fits)) by (intros p Hq; apply Hsk; right; exact Hq).
      assert (Hp' : In (a', e') (cpairs fits)) by (apply Hsk; left; reflexivity).
      destruct (cpairs_bounds _ Hincr a e Hp) as (Ha & He & _).
      set (b1 := fill_one R x b (a', e')).
      assert (Hb1a : b1 a = b a).
      { apply fill_one_outside. intros Hr. exact (inside_not_fitted _ Hincr a' e' a Hp' Hr Ha). }
      assert (Hb1e : b1 (e - 1) = b (e - 1)).
      { apply fill_one_outside. intros Hr. exact (inside_not_fitted _ Hincr a' e' (e - 1) Hp' Hr He). }
      assert (Hline : line b1 a e j = line b a e j) by (unfold line; rewrite Hb1a, Hb1e; reflexivity).
      destruct (IH b1 Hsk' a e j Hp Hj) as [IH1 IH2].
      unfold fill_skips in *. cbn [fold_left]. fold b1.
      destruct (Z.eq_dec a a') as [Ea|Na]; [destruct (Z.eq_dec e e') as [Ee|Ne]|].
      + (* this entry is the pair of j *)
        subst a' e'.
        assert (Hb1j : b1 j = line b a e j) by (apply fill_one_inside; exact Hj).
        split.
        * intros _. destruct (in_dec (fun p q : Z * Z => ltac:(decide equality; apply Z.eq_dec)) (a, e) sk) as [Hin|Hnin].
          -- rewrite (IH1 Hin). exact Hline.
          -- rewrite (IH2 Hnin). exact Hb1j.
        * intros Hn. exfalso. apply Hn. left. reflexivity.
      + (* same left end, different right end: impossible for two pairs containing j *)
        assert (Hout : ~ (a' < j < e' - 1)).
        { intros Hr. pose proof (inside_unique _ Hincr a e a' e' j Hp Hp' Hj Hr) as E. injection E; intros; lia. }
        assert (Hb1j : b1 j = b j) by (apply fill_one_outside; exact Hout).
        split.
        * intros [E|Hin]; [injection E; intros; lia|]. rewrite (IH1 Hin). exact Hline.
        * intros Hn. rewrite IH2; [exact Hb1j|]. intros Hin. apply Hn. right. exact Hin.
      + assert (Hout : ~ (a' < j < e' - 1)).
        { intros Hr. pose proof (inside_unique _ Hincr a e a' e' j Hp Hp' Hj Hr) as E. injection E; intros; lia. }
        assert (Hb1j : b1 j = b j) by (apply fill_one_outside; exact Hout).
        split.
        * intros [E|Hin]; [injection E; intros; lia|]. rewrite (IH1 Hin). exact Hline.
        * intros Hn. rewrite IH2; [exact Hb1j|]. intros Hin. apply Hn. right. exact Hin.
  Qed.
End Interp.

Lemma determine_fits_nonempty R xs N tp delta : 1 <= N -> 1 <= tp <= N ->
  snd (fst (determine_fits R xs N tp delta)) <> [].
Proof.
  intros HN Htp. rewrite (determine_fits_eq R xs N tp delta HN Htp). cbv zeta. cbn [fst snd].
  destruct (final_Fin R xs N tp delta HN Htp (ltb R (zero R) delta)) as [(_ & _ & _ & _ & (rest & Hf) & _) _].
  rewrite Hf. cbn [rev]. intros E. apply app_eq_nil in E. destruct E as [_ E]. discriminate.
Qed.

(* on the output of _determine_fits *)
Theorem interp_line (R : Num) (xraw x : list (T R)) (N tp : Z) (delta : T R) (b0 : Z -> T R) :
  1 <= N -> 1 <= tp <= N ->
  let '(_, fits, skips) := determine_fits R xraw N tp delta in
  let b := fill_skips R x b0 skips in
  (forall i, In i fits -> b i = b0 i) /\
  (forall a e j, In (a, e) (cpairs fits) -> a < j < e - 1 -> b j = line R x b0 a e j) /\
  (forall j, 0 <= j < N -> In j fits \/ exists a e, In (a, e) (cpairs fits) /\ a < j < e - 1).
Proof.
  intros HN Htp.
  pose proof (determine_fits_spec R xraw N tp delta HN Htp) as Hs.
  pose proof (determine_fits_nonempty R xraw N tp delta HN Htp) as Hne.
  destruct (determine_fits R xraw N tp delta) as [[windows fits] skips]. cbn [fst snd] in Hne.
  destruct Hs as (Hhd & Hlast & Hincr & _ & _ & Hsk1 & Hsk2 & _).
  cbv zeta. split; [|split].
  - intros i Hi. apply (fill_keeps_fits R x fits Hincr); assumption.
  - intros a e j Hp Hj.
    destruct (fill_line R x fits Hincr skips b0 Hsk1 a e j Hp Hj) as [H1 _].
    apply H1. apply Hsk2. apply gaps_In. split; [exact Hp|cbn [fst snd]; lia].
  - intros j Hj. apply covered; [exact Hincr|rewrite Hhd, Hlast; lia|exact Hne].
Qed.

(* hence the contents of np.empty never reach the result *)
Theorem no_garbage (R : Num) (xraw x : list (T R)) (N tp : Z) (delta : T R) (b0 b0' : Z -> T R) :
  1 <= N -> 1 <= tp <= N ->
  let '(_, fits, skips) := determine_fits R xraw N tp delta in
  (forall i, In i fits -> b0 i = b0' i) ->
  tab N (fill_skips R x b0 skips) = tab N (fill_skips R x b0' skips).
Proof.
  intros HN Htp.
  pose proof (interp_line R xraw x N tp delta b0 HN Htp) as H1.
  pose proof (interp_line R xraw x N tp delta b0' HN Htp) as H2.
  pose proof (determine_fits_spec R xraw N tp delta HN Htp) as Hs.
  destruct (determine_fits R xraw N tp delta) as [[windows fits] skips].
  destruct Hs as (_ & _ & Hincr & _).
  cbv zeta in H1, H2. destruct H1 as (K1 & L1 & C1). destruct H2 as (K2 & L2 & _).
  intros Hag. unfold tab. apply map_ext_in. intros j Hj.
  assert (Hr : 0 <= j < N).
  { unfold zrange in Hj. apply in_map_iff in Hj. destruct Hj as (k & <- & Hk). apply in_seq in Hk. lia. }
  destruct (C1 j Hr) as [Hin|(a & e & Hp & Hjr)].
  - rewrite K1, K2 by exact Hin. apply Hag; exact Hin.
  - rewrite (L1 a e j Hp Hjr), (L2 a e j Hp Hjr).
    destruct (cpairs_bounds _ Hincr a e Hp) as (Ha & He & _).
    unfold line. rewrite (Hag a Ha), (Hag (e - 1) He). reflexivity.
Qed.
