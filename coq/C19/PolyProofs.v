(* C19 -- data lying exactly on a polynomial (more generally: in the column space of the local design
   matrix) is reproduced by the local weighted least-squares fit whenever the weighted normal matrix is
   non-singular.  Pure ring reasoning over any commutative ring with Leibniz equality; instantiated with
   the rationals Qc.  The entries A, b are written exactly as `fit_args` of C19/Model.v builds them:
   A[a][t] = kernel[t] * (vander[t][a] * w[t]),  b[t] = kernel[t] * (y[t] * w[t]). *)
From Coq Require Import List Arith Lia Ring QArith Qcanon.

Section PolyRing.
  Variable K : Type.
  Variables (rO rI : K) (radd rmul rsub : K -> K -> K) (ropp : K -> K).
  Hypothesis Rth : ring_theory rO rI radd rmul rsub ropp (@eq K).
  Add Ring Kring : Rth.
  Local Infix "+" := radd. Local Infix "*" := rmul. Local Infix "-" := rsub.

  Fixpoint rsum (n : nat) (f : nat -> K) : K :=
    match n with O => rO | S n' => rsum n' f + f n' end.

  Lemma rsum_ext n f g : (forall k, (k < n)%nat -> f k = g k) -> rsum n f = rsum n g.
  Proof.
    induction n as [|n IH]; intros H; [reflexivity|]. cbn [rsum].
    rewrite IH by (intros k Hk; apply H; lia). rewrite (H n) by lia. reflexivity.
  Qed.

  Lemma rsum_sub n f g : rsum n (fun k => f k - g k) = rsum n f - rsum n g.
  Proof. induction n as [|n IH]; cbn [rsum]; [ring|]. rewrite IH. ring. Qed.

  Lemma rsum_scale n a f : rsum n (fun k => a * f k) = a * rsum n f.
  Proof. induction n as [|n IH]; cbn [rsum]; [ring|]. rewrite IH. ring. Qed.

  Lemma rsum_zero n : rsum n (fun _ => rO) = rO.
  Proof. induction n as [|n IH]; cbn [rsum]; [reflexivity|]. rewrite IH. ring. Qed.

  Variables m q : nat.              (* window length (total_points), poly_order + 1 *)
  Variable V : nat -> nat -> K.     (* vander[left + t][a] *)
  Variables kk w : nat -> K.        (* kernel[t], sqrt weights w[left + t] *)
  Variable c0 : nat -> K.           (* the polynomial the data lie on *)
  Variable c : nat -> K.            (* what _loess_solver returned *)

  Definition ydata (t : nat) : K := rsum q (fun a => V t a * c0 a).
  Definition A (a t : nat) : K := kk t * (V t a * w t).
  Definition b (t : nat) : K := kk t * (ydata t * w t).
  (* (A A^T d)[a] *)
  Definition normal (d : nat -> K) (a : nat) : K := rsum m (fun t => A a t * rsum q (fun a' => A a' t * d a')).

  Hypothesis Hsolve : forall a, (a < q)%nat -> normal c a = rsum m (fun t => A a t * b t).
  Hypothesis Hnonsing : forall d, (forall a, (a < q)%nat -> normal d a = rO) -> forall a, (a < q)%nat -> d a = rO.

  Lemma b_in_range t : b t = rsum q (fun a => A a t * c0 a).
  Proof.
    unfold b, ydata, A. generalize q as n. induction n as [|n IH]; cbn [rsum]; [ring|].
    rewrite <- IH. ring.
  Qed.

  Theorem coef_exact : forall a, (a < q)%nat -> c a = c0 a.
  Proof.
    intros a Ha.
    assert (Hd : forall a', (a' < q)%nat -> normal (fun k => c k - c0 k) a' = rO).
    { intros a' Ha'. unfold normal.
      rewrite (rsum_ext m _ (fun t => A a' t * rsum q (fun k => A k t * c k) - A a' t * b t)).
      - rewrite rsum_sub. fold (normal c a'). rewrite (Hsolve a' Ha'). ring.
      - intros t _. rewrite b_in_range.
        rewrite (rsum_ext q (fun k => A k t * (c k - c0 k)) (fun k => A k t * c k - A k t * c0 k)) by (intros; ring).
        rewrite rsum_sub. ring. }
    pose proof (Hnonsing _ Hd a Ha) as H. cbv beta in H.
    replace (c a) with ((c a - c0 a) + c0 a) by ring. rewrite H. ring.
  Qed.

  (* baseline[i] = vander[i].dot(coef) is the polynomial's value, for any row of the Vandermonde matrix *)
  Theorem predict_exact (v : nat -> K) : rsum q (fun a => v a * c a) = rsum q (fun a => v a * c0 a).
  Proof. apply rsum_ext. intros a Ha. rewrite (coef_exact a Ha). reflexivity. Qed.
End PolyRing.

(* over the rationals *)
Theorem poly_exact_Qc (m q : nat) (V : nat -> nat -> Qc) (kk w c0 c : nat -> Qc) :
  let A := A Qc Qcmult V kk w in
  let b := b Qc 0%Qc Qcplus Qcmult q V kk w c0 in
  let normal := normal Qc 0%Qc Qcplus Qcmult m q V kk w in
  (forall a, (a < q)%nat -> normal c a = rsum Qc 0%Qc Qcplus m (fun t => Qcmult (A a t) (b t))) ->
  (forall d, (forall a, (a < q)%nat -> normal d a = 0%Qc) -> forall a, (a < q)%nat -> d a = 0%Qc) ->
  (forall a, (a < q)%nat -> c a = c0 a) /\
  (forall v : nat -> Qc, rsum Qc 0%Qc Qcplus q (fun a => Qcmult (v a) (c a)) = rsum Qc 0%Qc Qcplus q (fun a => Qcmult (v a) (c0 a))).
Proof.
  intros A0 b0 n0 H1 H2. split.
  - exact (coef_exact Qc 0%Qc 1%Qc Qcplus Qcmult Qcminus Qcopp Qcrt m q V kk w c0 c H1 H2).
  - exact (predict_exact Qc 0%Qc 1%Qc Qcplus Qcmult Qcminus Qcopp Qcrt m q V kk w c0 c H1 H2).
Qed.

(* the two hypotheses are satisfiable together (one point, constant fit) *)
Lemma poly_exact_hyps_nonvacuous :
  let one := fun _ : nat => 1%Qc in
  let V := fun _ _ : nat => 1%Qc in
  let c := fun _ : nat => Q2Qc 3 in
  (forall a, (a < 1)%nat -> normal Qc 0%Qc Qcplus Qcmult 1 1 V one one c a =
      rsum Qc 0%Qc Qcplus 1 (fun t => Qcmult (A Qc Qcmult V one one a t) (b Qc 0%Qc Qcplus Qcmult 1 V one one c t))) /\
  (forall d, (forall a, (a < 1)%nat -> normal Qc 0%Qc Qcplus Qcmult 1 1 V one one d a = 0%Qc) ->
     forall a, (a < 1)%nat -> d a = 0%Qc).
Proof.
  cbv zeta. split.
  - intros a Ha. unfold normal, b, ydata, A. cbn [rsum]. ring.
  - intros d H a Ha. assert (a = 0)%nat by lia. subst a. specialize (H 0%nat Ha).
    unfold normal, A in H. cbn [rsum] in H. rewrite <- H. ring.
Qed.
