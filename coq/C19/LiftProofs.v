(* C19 -- lifting of polynomial exactness from indexed sums (C19/PolyProofs.v) to the LIST-based kernel step of the
   model: `fit_args` of C19/Model.v, applied to data that is a combination of the Vandermonde columns, produces exactly
   the matrix A[a][t] = kernel[t] * (vander[left+t][a] * w[left+t]) and right-hand side b[t] = kernel[t] * (y[left+t] * w[left+t])
   of PolyProofs (rows/entries of the actual list arguments), so a solver result satisfying the normal equations OF ITS
   LIST ARGUMENTS predicts the polynomial's value at the fitted point.  Any commutative ring on the model's carrier. *)
From Coq Require Import ZArith List Bool Lia Ring.
From PB Require Import lib.PySlice C19.Model C19.PolyProofs.
Import ListNotations.

Lemma map2_map_l {A A' B C} (f : A' -> B -> C) (g : A -> A') l m :
  map2 f (map g l) m = map (fun p => f (g (fst p)) (snd p)) (combine l m).
Proof. revert m. induction l as [|a l IH]; intros [|b m]; cbn; try reflexivity. f_equal. apply IH. Qed.

Lemma map2_map_r {A B B' C} (f : A -> B' -> C) (h : B -> B') l m :
  map2 f l (map h m) = map (fun p => f (fst p) (h (snd p))) (combine l m).
Proof. revert m. induction l as [|a l IH]; intros [|b m]; cbn; try reflexivity. f_equal. apply IH. Qed.

Lemma pyslice_map {A B} (f : A -> B) l s e : pyslice (map f l) s e = map f (pyslice l s e).
Proof. unfold pyslice, zlen. rewrite map_length, <- firstn_map, <- skipn_map. reflexivity. Qed.

Lemma nth_map_lt {A B} (F : A -> B) l t d d' : (t < length l)%nat -> nth t (map F l) d = F (nth t l d').
Proof. intros H. rewrite (nth_indep _ d (F d')) by (rewrite map_length; exact H). apply map_nth. Qed.

Section Lift.
  Variable R : Num.
  Variable ropp : T R -> T R.
  Hypothesis Rth : ring_theory (zero R) (one R) (add R) (mul R) (sub R) ropp (@eq (T R)).
  Notation K := (T R).
  Notation rs := (rsum K (zero R) (add R)).

  Variable vander : list (list K).
  Variable q : nat.                       (* ncoef = poly_order + 1 *)
  Variables kernel w : list K.
  Variable win : Z * Z.
  Variable c0 : nat -> K.

  (* the polynomial's value on a Vandermonde row; the data lie exactly on it *)
  Definition pval (row : list K) : K := rs q (fun a => mul R (nth a row (zero R)) (c0 a)).
  Definition ydata : list K := map pval vander.

  (* the window's entries: (kernel value, (Vandermonde row, sqrt weight)) *)
  Definition Zs : list (K * (list K * K)) := combine kernel (pyslice (combine vander w) (fst win) (snd win)).
  Definition dz : K * (list K * K) := (zero R, ([], zero R)).
  Definition Vt (t a : nat) : K := nth a (fst (snd (nth t Zs dz))) (zero R).
  Definition kt (t : nat) : K := fst (nth t Zs dz).
  Definition wt (t : nat) : K := snd (snd (nth t Zs dz)).

  Lemma fit_args_shape :
    fit_args R vander q kernel ydata w win =
      (map (fun a => map (fun z => mul R (fst z) (mul R (nth a (fst (snd z)) (zero R)) (snd (snd z)))) Zs) (seq 0 q),
       map (fun z => mul R (fst z) (mul R (pval (fst (snd z))) (snd (snd z)))) Zs).
  Proof.
    unfold fit_args, ydata, Zs. f_equal.
    - rewrite map_map. apply map_ext. intros a.
      rewrite map2_map_l, pyslice_map, map2_map_r. reflexivity.
    - rewrite map2_map_l, pyslice_map, map2_map_r. reflexivity.
  Qed.

  (* entries of the list arguments = the indexed A, b of PolyProofs *)
  Lemma AT_entry a t : (a < q)%nat -> (t < length Zs)%nat ->
    nth t (nth a (fst (fit_args R vander q kernel ydata w win)) []) (zero R) = A K (mul R) Vt kt wt a t.
  Proof.
    intros Ha Ht. rewrite fit_args_shape. cbn [fst].
    rewrite (nth_map_lt _ (seq 0 q) a [] O) by (rewrite seq_length; exact Ha).
    rewrite seq_nth by exact Ha. cbn [Nat.add].
    rewrite (nth_map_lt _ Zs t (zero R) dz) by exact Ht. reflexivity.
  Qed.

  Lemma b_entry t : (t < length Zs)%nat ->
    nth t (snd (fit_args R vander q kernel ydata w win)) (zero R) = b K (zero R) (add R) (mul R) q Vt kt wt c0 t.
  Proof.
    intros Ht. rewrite fit_args_shape. cbn [snd].
    rewrite (nth_map_lt _ Zs t (zero R) dz) by exact Ht. reflexivity.
  Qed.

  Variable Coef : Type.
  Variable local_fit : list (list K) -> list K -> Coef.
  Variable predict : list K -> Coef -> K.
  Variable coef_of : Coef -> nat -> K.        (* the entries of a coefficient vector *)
  (* vander[i].dot(coef) *)
  Hypothesis Hpredict : forall row c, predict row c = rs q (fun a => mul R (nth a row (zero R)) (coef_of c a)).

  Let AT := fst (fit_args R vander q kernel ydata w win).
  Let bb := snd (fit_args R vander q kernel ydata w win).
  Let m := length Zs.
  Definition entry (a t : nat) : K := nth t (nth a AT []) (zero R).
  (* _loess_solver's contract on ITS list arguments (C19_solver_is_normal_equations + np.linalg.solve):
     (AT AT^T) c = AT b, row by row *)
  Hypothesis Hsolve : forall a, (a < q)%nat ->
    rs m (fun t => mul R (entry a t) (rs q (fun a' => mul R (entry a' t) (coef_of (local_fit AT bb) a')))) =
    rs m (fun t => mul R (entry a t) (nth t bb (zero R))).
  (* the normal matrix AT AT^T is non-singular *)
  Hypothesis Hnonsing : forall d : nat -> K,
    (forall a, (a < q)%nat -> rs m (fun t => mul R (entry a t) (rs q (fun a' => mul R (entry a' t) (d a')))) = zero R) ->
    forall a, (a < q)%nat -> d a = zero R.

  Lemma normal_bridge d a : (a < q)%nat ->
    rs m (fun t => mul R (entry a t) (rs q (fun a' => mul R (entry a' t) (d a')))) =
    normal K (zero R) (add R) (mul R) m q Vt kt wt d a.
  Proof.
    intros Ha. unfold normal. apply rsum_ext. intros t Ht. unfold entry, AT.
    rewrite (AT_entry a t Ha Ht). f_equal. apply rsum_ext. intros a' Ha'. rewrite (AT_entry a' t Ha' Ht). reflexivity.
  Qed.

  (* one kernel step: the value stored in baseline[i] for ANY Vandermonde row is the polynomial's value on that row *)
  Theorem kstep_poly_exact (row : list K) : predict row (local_fit AT bb) = pval row.
  Proof.
    rewrite Hpredict. unfold pval.
    apply (predict_exact K (zero R) (one R) (add R) (mul R) (sub R) ropp Rth m q Vt kt wt c0 (coef_of (local_fit AT bb))).
    - intros a Ha. rewrite <- (normal_bridge _ a Ha). rewrite (Hsolve a Ha).
      apply rsum_ext. intros t Ht. unfold entry, AT, bb. rewrite (AT_entry a t Ha Ht), (b_entry t Ht). reflexivity.
    - intros d Hd a Ha. apply (Hnonsing d); [|exact Ha]. intros a' Ha'. rewrite (normal_bridge d a' Ha'). apply Hd. exact Ha'.
  Qed.

  (* the same inside the model's loop body `kstep` (modes 0 and 1: kernel recomputed), at position idx of `fits` *)
  Variable x : list K.
  Variable windows : list (Z * Z).
  Variable fits : list Z.
  Variable idx : nat.
  Hypothesis Hwin : win = nth idx windows (0%Z, 0%Z).
  Hypothesis Hkernel : kernel = kernel_of R x (nth idx fits 0%Z) win.

  Theorem kstep_baseline_exact (mode : nat) (s : kstate R Coef) : (mode < 2)%nat ->
    k_base R Coef (kstep R Coef local_fit predict x vander q windows fits mode ydata w s idx) (nth idx fits 0%Z)
    = pval (pyget [] vander (nth idx fits 0%Z)).
  Proof.
    intros Hm. unfold kstep. cbn [k_base]. unfold upd. rewrite Z.eqb_refl.
    rewrite <- Hwin.
    assert (Hk : match mode with 2%nat => k_cache R Coef s (nth idx fits 0%Z) | _ => kernel_of R x (nth idx fits 0%Z) win end = kernel).
    { destruct mode as [|[|mode]]; [symmetry; exact Hkernel|symmetry; exact Hkernel|lia]. }
    rewrite Hk. apply kstep_poly_exact.
  Qed.

  (* and the polynomial's value on row i of the Vandermonde matrix is the data value y[i] *)
  Lemma ydata_entry i : (0 <= i < zlen vander)%Z -> pyget (zero R) ydata i = pval (pyget [] vander i).
  Proof.
    intros Hi. unfold pyget, ydata, zlen in *. rewrite map_length.
    unfold pos. destruct (i <? 0)%Z eqn:E; [lia|].
    apply nth_map_lt. lia.
  Qed.
End Lift.
