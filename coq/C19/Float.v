(* binary64 instance of the C19 model, evaluated by vm_compute on hex-float literals *)
From Coq Require Import ZArith List Bool PrimFloat.
From PB Require Import lib.CaseUtil C19.Model.
Import ListNotations.

Definition Num_F : Num := {|
  T := float;
  add := PrimFloat.add; sub := PrimFloat.sub; mul := PrimFloat.mul; div := PrimFloat.div;
  nabs := PrimFloat.abs; nsqrt := PrimFloat.sqrt;
  ltb := PrimFloat.ltb;
  zero := 0%float; one := 1%float
|}.

(* bit equality: distinguishes +0/-0, identifies NaNs *)
Definition feqb (x y : float) : bool :=
  match PrimFloat.compare x y with
  | FEq => if PrimFloat.eqb x 0%float
           then Bool.eqb (PrimFloat.ltb (PrimFloat.div 1%float x) 0%float) (PrimFloat.ltb (PrimFloat.div 1%float y) 0%float)
           else true
  | FNotComparable => negb (PrimFloat.eqb x x) && negb (PrimFloat.eqb y y)
  | _ => false
  end.

Fixpoint fl_eqb (x y : list float) : bool :=
  match x, y with
  | nil, nil => true
  | cons a x', cons b y' => feqb a b && fl_eqb x' y'
  | _, _ => false
  end.

Fixpoint fll_eqb (x y : list (list float)) : bool :=
  match x, y with
  | nil, nil => true
  | cons a x', cons b y' => fl_eqb a b && fll_eqb x' y'
  | _, _ => false
  end.

Open Scope Z_scope.
Definition pair_list (l : list (Z * Z)) : list (list Z) := map (fun p => [fst p; snd p]) l.

(* one _determine_fits case: (x, total_points, delta, windows, fits, skips); num_x = len(x) *)
Definition df_case := (list float * Z * float * list (list Z) * list Z * list (list Z))%type.
Definition df_ok (c : df_case) : bool :=
  let '(xs, tp, delta, ws, fs, ss) := c in
  let '(w, f, s) := determine_fits Num_F xs (zlen xs) tp delta in
  zll_eqb (pair_list w) ws && zl_eqb f fs && zll_eqb (pair_list s) ss.

(* the same case through the integer instance (x and delta integers): used to tie Num_Z, about
   which the order theorems are proved, to the implementation *)
Definition dz_case := (list Z * Z * Z * list (list Z) * list Z * list (list Z))%type.
Definition dz_ok (c : dz_case) : bool :=
  let '(xs, tp, delta, ws, fs, ss) := c in
  let '(w, f, s) := determine_fits Num_Z xs (zlen xs) tp delta in
  zll_eqb (pair_list w) ws && zl_eqb f fs && zll_eqb (pair_list s) ss.

(* _fill_skips / _interp_inplace: (x, baseline before, skips, baseline after) *)
Definition fs_case := (list float * list float * list (list Z) * list float)%type.
Definition fs_ok (c : fs_case) : bool :=
  let '(xs, b0, ss, b1) := c in
  let sk := map (fun p => (nth 0 p 0, nth 1 p 0)) ss in
  fl_eqb (tab (zlen xs) (fill_skips Num_F xs (fun j => pyget 0%float b0 j) sk)) b1.

(* _interp_inplace alone: (x, y, y_start, y_end, result) *)
Definition ip_case := (list float * list float * float * float * list float)%type.
Definition ip_ok (c : ip_case) : bool :=
  let '(xs, ys, a, b, r) := c in fl_eqb (interp_inplace Num_F xs ys a b) r.

(* kernel loops with a recording solver: Coef := the arguments themselves.
   case = (x, y, w, vander, ncoef, windows, fits, calls_low, calls_first, calls_cached, cache rows at fits)
   where calls = list of (AT, b) in call order *)
Definition call := (list (list float) * list float)%type.
Fixpoint calls_eqb (a b : list call) : bool :=
  match a, b with
  | nil, nil => true
  | cons (m1, v1) a', cons (m2, v2) b' => fll_eqb m1 m2 && fl_eqb v1 v2 && calls_eqb a' b'
  | _, _ => false
  end.

Definition kl_case := (list float * list float * list float * list (list float) * nat *
                       list (list Z) * list Z * list call * list call * list call * list (list float))%type.

Definition rec_fit (AT : list (list float)) (b : list float) : call := (AT, b).
Definition rec_predict (row : list float) (c : call) : float := 0%float.

Definition kl_ok (c : kl_case) : bool :=
  let '(xs, ys, ws, vd, nc, wins, fits, c_low, c_first, c_cached, rows) := c in
  let wn := map (fun p => (nth 0 p 0, nth 1 p 0)) wins in
  let s0 : kstate Num_F call := Build_kstate Num_F call (fun _ => 0%float) (fun _ => (nil, nil)) (fun _ => nil) in
  let run mode s := kloop Num_F call rec_fit rec_predict xs vd nc wn fits mode ys ws s in
  let s_low := run 0%nat s0 in
  let s_first := run 1%nat s0 in
  let s_cached := run 2%nat s_first in
  (* the coefficient slot of x-index fits[idx] holds the arguments of call idx; duplicates in
     fits do not occur (C19_fits_spec) *)
  calls_eqb (map (k_coefs _ _ s_low) fits) c_low &&
  calls_eqb (map (k_coefs _ _ s_first) fits) c_first &&
  calls_eqb (map (k_coefs _ _ s_cached) fits) c_cached &&
  fll_eqb (map (k_cache _ _ s_first) fits) rows.
