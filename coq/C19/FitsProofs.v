(* C19 -- proofs about _determine_fits (model: C19/Model.v).
   Part 1 (Section Generic): structure facts for EVERY number instance (so also for binary64, whatever the
   comparisons answer): first/last fitted, strictly increasing, skips = gaps, window length and bounds.
   Part 2 (Section OrderZ): the window contains its point, for the integer instance and sorted x. *)
From Coq Require Import ZArith List Bool Lia ZifyBool.
From PB Require Import lib.PySlice C19.Model.
Import ListNotations.
Open Scope Z_scope.

Arguments fits_r {R}. Arguments wins_r {R}. Arguments skips_r {R}. Arguments skip_start {R}.
Arguments skip_range {R}. Arguments left {R}. Arguments right {R}.

Fixpoint decr (l : list Z) : Prop :=
  match l with a :: ((b :: _) as r) => b < a /\ decr r | _ => True end.
Fixpoint pairs_r (l : list Z) : list (Z * Z) :=
  match l with b :: ((a :: _) as r) => (a, b + 1) :: pairs_r r | _ => [] end.

(* ---------- list facts ---------- *)
Lemma incr_snoc l a : incr l -> (forall x, last l a = x -> l <> [] -> x < a) -> incr (l ++ [a]).
Proof.
  induction l as [|x l IH]; intros H Hl; [exact I|].
  destruct l as [|y l].
  - cbn. split; [|exact I]. apply (Hl x); [reflexivity|discriminate].
  - cbn [app incr] in *. destruct H as [Hxy H]. split; [exact Hxy|].
    apply IH; [exact H|]. intros z Hz _. apply Hl; [|discriminate]. exact Hz.
Qed.

Lemma last_rev_hd (l : list Z) d : last (rev l) d = hd d l.
Proof. destruct l as [|a l]; [reflexivity|]. cbn [rev hd]. apply last_last. Qed.

Lemma decr_incr_rev l : decr l -> incr (rev l).
Proof.
  induction l as [|a l IH]; intros H; [exact I|].
  cbn [rev]. apply incr_snoc.
  - apply IH. destruct l; [exact I|]. apply H.
  - intros x Hx Hne. rewrite last_rev_hd in Hx. destruct l as [|b l]; [exfalso; apply Hne; reflexivity|].
    cbn in Hx. subst x. apply H.
Qed.

Lemma cpairs_snoc2 l a b : cpairs ((l ++ [a]) ++ [b]) = cpairs (l ++ [a]) ++ [(a, b + 1)].
Proof.
  induction l as [|x l IH]; [reflexivity|].
  destruct l as [|y l].
  - reflexivity.
  - change (cpairs (((x :: y :: l) ++ [a]) ++ [b])) with ((x, y + 1) :: cpairs (((y :: l) ++ [a]) ++ [b])).
    rewrite IH. reflexivity.
Qed.

Lemma cpairs_rev l : cpairs (rev l) = rev (pairs_r l).
Proof.
  induction l as [|b l IH]; [reflexivity|].
  destruct l as [|a l]; [reflexivity|].
  change (rev (b :: a :: l)) with ((rev l ++ [a]) ++ [b]).
  rewrite cpairs_snoc2. change (rev l ++ [a]) with (rev (a :: l)). rewrite IH.
  change (pairs_r (b :: a :: l)) with ((a, b + 1) :: pairs_r (a :: l)). reflexivity.
Qed.

Lemma gaps_In l p : In p (gaps l) <-> In p (cpairs l) /\ 2 <= snd p - 1 - fst p.
Proof.
  induction l as [|a l IH]; [cbn; tauto|].
  destruct l as [|b l]; [cbn; tauto|].
  change (gaps (a :: b :: l)) with (if 2 <=? b - a then (a, b + 1) :: gaps (b :: l) else gaps (b :: l)).
  change (cpairs (a :: b :: l)) with ((a, b + 1) :: cpairs (b :: l)).
  destruct (2 <=? b - a) eqn:E.
  - cbn [In]. rewrite IH. split.
    + intros [<-|[H1 H2]]; [cbn; split; [left; reflexivity|lia]|split; [right; exact H1|exact H2]].
    + intros [[<-|H1] H2]; [left; reflexivity|right; split; assumption].
  - rewrite IH. cbn [In]. split.
    + intros [H1 H2]; split; [right; exact H1|exact H2].
    + intros [[<-|H1] H2]; [cbn in H2; lia|split; assumption].
Qed.

Lemma zrange_S lo n : zrange lo (S n) = zrange lo n ++ [lo + Z.of_nat n].
Proof. unfold zrange. rewrite seq_S, map_app. reflexivity. Qed.

Lemma zrange_length lo n : length (zrange lo n) = n.
Proof. unfold zrange. rewrite map_length, seq_length. reflexivity. Qed.

Lemma zrange_nth lo n k d : (k < n)%nat -> nth k (zrange lo n) d = lo + Z.of_nat k.
Proof.
  intros H. unfold zrange. set (f := fun k => lo + Z.of_nat k).
  rewrite (nth_indep _ d (f O)) by (rewrite map_length, seq_length; exact H).
  rewrite map_nth. rewrite seq_nth by exact H. reflexivity.
Qed.

Lemma incr_lt_all a l : incr (a :: l) -> Forall (fun b => a < b) l.
Proof.
  revert a. induction l as [|b l IH]; intros a H; [constructor|].
  destruct H as [Hab H]. constructor; [exact Hab|].
  specialize (IH b H). eapply Forall_impl; [|exact IH]. cbn. intros; lia.
Qed.

Lemma incr_NoDup l : incr l -> NoDup l.
Proof.
  induction l as [|a l IH]; intros H; [constructor|].
  constructor.
  - intros Hin. pose proof (incr_lt_all _ _ H) as HF. rewrite Forall_forall in HF. specialize (HF _ Hin). lia.
  - apply IH. destruct l; [exact I|]. apply H.
Qed.

Lemma lset_id l k v : nth k l v = v -> lset l k v = l.
Proof.
  revert k. induction l as [|a l IH]; intros k H; [reflexivity|].
  destruct k; cbn in *; [subst; reflexivity|]. rewrite IH; auto.
Qed.

(* ------------------------------------------------------------------------------------------ *)
Section Generic.
  Variable R : Num.
  Variable xs : list (T R).
  Variables N tp : Z.
  Variable delta : T R.
  Hypothesis HN : 1 <= N.
  Hypothesis Htp : 1 <= tp <= N.

  Notation slide := (slide R xs N).
  Notation step := (step R xs N delta).
  Notation fstate := (fstate R).

  Definition wok (w : Z * Z) : Prop := snd w - fst w = tp /\ 0 <= fst w /\ snd w <= N.

  Lemma slide_spec fuel xv l r : r <= N ->
    snd (slide fuel xv l r) - fst (slide fuel xv l r) = r - l /\ l <= fst (slide fuel xv l r) /\ snd (slide fuel xv l r) <= N.
  Proof.
    revert l r. induction fuel as [|f IH]; intros l r Hr; cbn [Model.slide]; [cbn; lia|].
    destruct ((r <? N) && gtb R (sub R xv (X R xs l)) (sub R (X R xs r) xv)) eqn:E; [|cbn; lia].
    assert (r + 1 <= N) by lia. specialize (IH (l + 1) (r + 1) H). lia.
  Qed.

  (* the common part of the invariant that survives the final two blocks *)
  Definition Fin (s : fstate) (top : Z) : Prop :=
    Forall wok (wins_r s) /\
    length (fits_r s) = length (wins_r s) /\
    decr (fits_r s) /\ last (fits_r s) 0 = 0 /\
    (exists rest, fits_r s = top :: rest) /\ 0 <= top /\
    incl (skips_r s) (pairs_r (fits_r s)) /\
    (forall p, In p (pairs_r (fits_r s)) -> 2 <= snd p - 1 - fst p -> In p (skips_r s)).

  Definition Inv (cf : bool) (i : Z) (s : fstate) : Prop :=
    (exists lf, Fin s lf /\ lf < i /\
       (skip_start s = 0 -> lf = i - 1) /\
       (skip_start s <> 0 -> skip_start s = lf + 1 /\ skip_start s <= i - 1)) /\
    (right s - left s = tp /\ 0 <= left s /\ right s <= N) /\
    (cf = false -> skip_start s = 0 /\ skips_r s = [] /\ fits_r s = rev (zrange 0 (Z.to_nat i))).

  Lemma Fin_push s top i (w : Z * Z) sk' :
    Fin s top -> top < i -> wok w ->
    (sk' = skips_r s /\ i = top + 1 \/ sk' = (top, i + 1) :: skips_r s) ->
    forall s', fits_r s' = i :: fits_r s -> wins_r s' = w :: wins_r s -> skips_r s' = sk' -> Fin s' i.
  Proof.
    intros (HW & HL & HD & Hlast & (rest & Hf) & Htop & HS1 & HS2) Hlt Hw Hsk s' Ef Ew Es.
    unfold Fin. rewrite Ef, Ew, Es, Hf in *.
    repeat split.
    - constructor; assumption.
    - cbn in *. lia.
    - exact Hlt.
    - exact HD.
    - exact Hlast.
    - eexists; reflexivity.
    - lia.
    - change (pairs_r (i :: top :: rest)) with ((top, i + 1) :: pairs_r (top :: rest)).
      destruct Hsk as [[-> _]| ->].
      + apply incl_tl. exact HS1.
      + apply incl_cons; [left; reflexivity|apply incl_tl; exact HS1].
    - change (pairs_r (i :: top :: rest)) with ((top, i + 1) :: pairs_r (top :: rest)).
      intros p [<-|Hp] Hbig.
      + destruct Hsk as [[-> Hi]| ->]; [cbn in Hbig; lia|left; reflexivity].
      + destruct Hsk as [[-> _]| ->]; [apply HS2; assumption|right; apply HS2; assumption].
  Qed.

  Lemma fit_window_fields i (s : fstate) :
    fits_r (fit_window R xs N i s) = fits_r s /\ skips_r (fit_window R xs N i s) = skips_r s /\
    skip_start (fit_window R xs N i s) = skip_start s /\
    wins_r (fit_window R xs N i s) = (left (fit_window R xs N i s), right (fit_window R xs N i s)) :: wins_r s /\
    (left (fit_window R xs N i s), right (fit_window R xs N i s)) =
       slide (Z.to_nat (N - right s)) (X R xs i) (left s) (right s).
  Proof.
    unfold fit_window. destruct (slide (Z.to_nat (N - right s)) (X R xs i) (left s) (right s)) as [l r].
    cbn. repeat split.
  Qed.

  Lemma step_inv cf i s : 1 <= i -> Inv cf i s -> Inv cf (i + 1) (step cf i s).
  Proof.
    intros Hi ((lf & HF & Hlf & Hs0 & Hs1) & (HLR1 & HLR2 & HLR3) & Hcf).
    unfold Model.step.
    destruct cf.
    - destruct (ltb R (X R xs (i + 1)) (skip_range s)) eqn:Etest.
      + (* skipped point *)
        destruct (skip_start s =? 0) eqn:Ess.
        * unfold Inv; cbn. split; [|split; [lia|discriminate]].
          exists lf. split; [exact HF|]. split; [lia|]. split; [lia|]. intros _. assert (lf = i - 1) by (apply Hs0; lia). lia.
        * unfold Inv. split; [|split; [lia|discriminate]].
          exists lf. split; [exact HF|]. split; [lia|]. split; [lia|]. intros Hne. specialize (Hs1 Hne). lia.
      + (* fitted point *)
        set (s1 := {| fits_r := i :: fits_r s; wins_r := wins_r s;
                      skips_r := if skip_start s =? 0 then skips_r s else (skip_start s - 1, i + 1) :: skips_r s;
                      skip_start := 0; skip_range := add R (X R xs i) delta; left := left s; right := right s |}).
        destruct (fit_window_fields i s1) as (Ef & Es & Ess & Ew & Esl).
        pose proof (slide_spec (Z.to_nat (N - right s1)) (X R xs i) (left s1) (right s1) HLR3) as Hsl.
        rewrite <- Esl in Hsl. cbn [fst snd] in Hsl. cbn [left right s1] in Hsl.
        unfold Inv. split; [|split; [lia|discriminate]].
        exists i. split; [|split; [lia|split; [lia|rewrite Ess; cbn; lia]]].
        eapply (Fin_push s lf i _ _ HF Hlf); [| |exact Ef|exact Ew|exact Es].
        * unfold wok. cbn [fst snd]. lia.
        * cbn [skips_r s1]. destruct (skip_start s =? 0) eqn:E0.
          -- left. split; [reflexivity|]. assert (lf = i - 1) by (apply Hs0; lia). lia.
          -- right. assert (skip_start s = lf + 1) by (apply Hs1; lia). replace (skip_start s - 1) with lf by lia. reflexivity.
    - (* delta <= 0: every point *)
      destruct (Hcf eq_refl) as (Hc1 & Hc2 & Hc3).
      set (s1 := {| fits_r := i :: fits_r s; wins_r := wins_r s; skips_r := skips_r s; skip_start := skip_start s;
                    skip_range := skip_range s; left := left s; right := right s |}).
      destruct (fit_window_fields i s1) as (Ef & Es & Ess & Ew & Esl).
      pose proof (slide_spec (Z.to_nat (N - right s1)) (X R xs i) (left s1) (right s1) HLR3) as Hsl.
      rewrite <- Esl in Hsl. cbn [fst snd] in Hsl. cbn [left right s1] in Hsl.
      unfold Inv. split; [|split; [lia|]].
      + exists i. split; [|split; [lia|split; [lia|rewrite Ess; cbn [skip_start s1]; lia]]].
        eapply (Fin_push s lf i _ _ HF Hlf); [| |exact Ef|exact Ew|exact Es].
        * unfold wok. cbn [fst snd]. lia.
        * left. split; [reflexivity|]. assert (lf = i - 1) by (apply Hs0; lia). lia.
      + intros _. rewrite Ess, Es, Ef. cbn [skip_start skips_r fits_r s1]. split; [exact Hc1|split; [exact Hc2|]].
        rewrite Hc3. replace (Z.to_nat (i + 1)) with (S (Z.to_nat i)) by lia.
        rewrite zrange_S, rev_unit. f_equal. lia.
  Qed.

  Lemma floop_inv cf fuel : forall i s, 1 <= i -> Inv cf i s ->
    Inv cf (i + Z.of_nat fuel) (floop R xs N delta cf fuel i s).
  Proof.
    induction fuel as [|f IH]; intros i s Hi H.
    - cbn. replace (i + 0) with i by lia. exact H.
    - cbn [floop]. replace (i + Z.of_nat (S f)) with (i + 1 + Z.of_nat f) by lia.
      apply IH; [lia|]. apply step_inv; assumption.
  Qed.

  Lemma init_inv cf : Inv cf 1 (init_state R xs tp delta).
  Proof.
    unfold Inv, init_state; cbn. split; [|split; [lia|intros _; repeat split]].
    exists 0. split; [|lia].
    unfold Fin; cbn. repeat split; try lia.
    all: try (constructor; [unfold wok; cbn; lia|constructor]).
    all: try (eexists; reflexivity).
    all: try (intros p []).
  Qed.

  (* after the loop and the two closing blocks *)
  Lemma final_Fin cf : Fin (final_state R xs N tp delta cf) (N - 1) /\
    (cf = false -> skips_r (final_state R xs N tp delta cf) = [] /\
                   fits_r (final_state R xs N tp delta cf) = rev (zrange 0 (Z.to_nat N))).
  Proof.
    unfold final_state.
    pose proof (floop_inv cf (Z.to_nat (N - 2)) 1 _ (Z.le_refl 1) (init_inv cf)) as HI.
    set (s := floop R xs N delta cf (Z.to_nat (N - 2)) 1 (init_state R xs tp delta)) in *.
    destruct (Z.eq_dec N 1) as [E1|E1].
    - (* a single point: no loop, no closing blocks *)
      assert (Es : s = init_state R xs tp delta) by (unfold s; rewrite E1; reflexivity).
      rewrite Es. unfold second_last, last_item. cbn [skip_start init_state]. cbn [Z.eqb].
      destruct (1 <? N) eqn:EN; [lia|].
      destruct (init_inv cf) as ((lf & HF & _) & _).
      split.
      + assert (lf = 0). { destruct HF as (_ & _ & _ & _ & (rest & Hr) & _). cbn in Hr. injection Hr; intros; lia. }
        subst lf. replace (N - 1) with 0 by lia. exact HF.
      + intros _. cbn. rewrite E1. split; reflexivity.
    - replace (1 + Z.of_nat (Z.to_nat (N - 2))) with (N - 1) in HI by lia.
      destruct HI as ((lf & HF & Hlf & Hs0 & Hs1) & (HLR1 & HLR2 & HLR3) & Hcf).
      assert (HSL : exists top, Fin (second_last R xs N tp s) top /\ top = N - 2 /\
                (cf = false -> second_last R xs N tp s = s)).
      { unfold second_last. destruct (skip_start s =? 0) eqn:Ess.
        - exists lf. split; [exact HF|]. split; [assert (lf = N - 1 - 1) by (apply Hs0; lia); lia|reflexivity].
        - exists (N - 2). split; [|split; [reflexivity|]].
          + assert (Hne : skip_start s <> 0) by lia. destruct (Hs1 Hne) as [Hk1 Hk2].
            eapply (Fin_push s lf (N - 2) _ _ HF); [lia| | |reflexivity|reflexivity|reflexivity].
            * destruct ((tp =? N) || ltb R (sub R (X R xs (-1)) (X R xs (-2))) (sub R (X R xs (-2)) (X R xs (N - tp)))) eqn:Ec.
              -- unfold wok; cbn; lia.
              -- unfold wok; cbn. apply orb_false_iff in Ec. destruct Ec as [Ec _]. lia.
            * right. cbn [skips_r]. replace (N - 2 + 1) with (N - 1) by lia. replace (skip_start s - 1) with lf by lia. reflexivity.
          + intros Hf. destruct (Hcf Hf) as (Hz & _). lia. }
      destruct HSL as (top & HF2 & Etop & Hsame).
      unfold last_item. destruct (1 <? N) eqn:EN; [|lia].
      split.
      + eapply (Fin_push _ top (N - 1) _ _ HF2); [lia| | |reflexivity|reflexivity|reflexivity].
        * unfold wok; cbn; lia.
        * left. split; [reflexivity|lia].
      + intros Hf. rewrite (Hsame Hf). cbn [skips_r fits_r]. destruct (Hcf Hf) as (_ & Hk & Hfit).
        split; [exact Hk|]. rewrite Hfit.
        replace (Z.to_nat N) with (S (Z.to_nat (N - 1))) by lia.
        rewrite zrange_S, rev_unit. f_equal. lia.
  Qed.

  (* ---- the specification of the returned triple ---- *)
  Definition fits_spec (res : list (Z * Z) * list Z * list (Z * Z)) : Prop :=
    let '(windows, fits, skips) := res in
    hd 0 fits = 0 /\ last fits 0 = N - 1 /\
    incr fits /\
    length windows = length fits /\
    Forall wok windows /\
    (forall p, In p skips -> In p (cpairs fits)) /\
    (forall p, In p (gaps fits) -> In p skips) /\
    (ltb R (zero R) delta = false -> fits = zrange 0 (Z.to_nat N) /\ skips = []).

  Lemma spec_of_Fin s (cfalse : Prop) :
    Fin s (N - 1) ->
    hd 0 (rev (fits_r s)) = 0 /\ last (rev (fits_r s)) 0 = N - 1 /\ incr (rev (fits_r s)) /\
    length (rev (wins_r s)) = length (rev (fits_r s)) /\ Forall wok (rev (wins_r s)) /\
    (forall p, In p (rev (skips_r s)) -> In p (cpairs (rev (fits_r s)))) /\
    (forall p, In p (gaps (rev (fits_r s))) -> In p (rev (skips_r s))).
  Proof.
    intros (HW & HL & HD & Hlast & (rest & Hf) & Htop & HS1 & HS2).
    repeat split.
    - (* hd of rev = last *)
      clear - Hlast. rewrite <- (rev_involutive (fits_r s)) in Hlast. rewrite last_rev_hd in Hlast. exact Hlast.
    - rewrite last_rev_hd, Hf. reflexivity.
    - apply decr_incr_rev; exact HD.
    - rewrite !rev_length. lia.
    - apply Forall_rev; exact HW.
    - intros p Hp. rewrite cpairs_rev. rewrite <- in_rev in *. apply HS1; exact Hp.
    - intros p Hp. apply gaps_In in Hp. destruct Hp as [Hp Hbig]. rewrite cpairs_rev in Hp.
      rewrite <- in_rev in *. apply HS2; assumption.
  Qed.

  (* the returned triple is the accumulated state in both branches (for delta <= 0 the arange array
     coincides with the ghost record of loop indices) *)
  Lemma determine_fits_eq :
    determine_fits R xs N tp delta =
      let s := final_state R xs N tp delta (ltb R (zero R) delta) in
      (rev (wins_r s), rev (fits_r s), rev (skips_r s)).
  Proof.
    unfold determine_fits.
    destruct (ltb R (zero R) delta) eqn:Ecf; [reflexivity|].
    destruct (final_Fin false) as [HF Hcf]. destruct (Hcf eq_refl) as [Hsk Hfit].
    destruct (spec_of_Fin _ True HF) as (H1 & H2 & H3 & H4 & H5 & H6 & H7).
    set (s := final_state R xs N tp delta false) in *. cbv zeta.
    assert (Hlen : length (wins_r s) = Z.to_nat N).
    { rewrite !rev_length in H4. rewrite H4, Hfit, rev_length, zrange_length. reflexivity. }
    assert (Har : (if 1 <? N then lset (zrange 0 (Z.to_nat N)) (length (wins_r s) - 1) (N - 1) else zrange 0 (Z.to_nat N))
                  = zrange 0 (Z.to_nat N)).
    { destruct (1 <? N); [|reflexivity]. apply lset_id. rewrite Hlen.
      rewrite zrange_nth by lia. lia. }
    rewrite Har, Hsk. cbn [length firstn rev].
    replace (firstn (length (wins_r s)) (zrange 0 (Z.to_nat N))) with (zrange 0 (Z.to_nat N))
      by (rewrite Hlen; rewrite <- (zrange_length 0 (Z.to_nat N)) at 2; rewrite firstn_all; reflexivity).
    rewrite Hfit, rev_involutive. reflexivity.
  Qed.

  Theorem determine_fits_spec : fits_spec (determine_fits R xs N tp delta).
  Proof.
    rewrite determine_fits_eq. cbv zeta.
    destruct (final_Fin (ltb R (zero R) delta)) as [HF Hcf].
    destruct (spec_of_Fin _ True HF) as (H1 & H2 & H3 & H4 & H5 & H6 & H7).
    unfold fits_spec. split; [exact H1|]. split; [exact H2|]. split; [exact H3|]. split; [exact H4|].
    split; [exact H5|]. split; [exact H6|]. split; [exact H7|].
    intros Hc. destruct (Hcf Hc) as [Hsk Hfit]. rewrite Hsk, Hfit, rev_involutive. split; reflexivity.
  Qed.
End Generic.

(* ------------------------------------------------------------------------------------------ *)
Lemma Forall2_rev {A B} (P : A -> B -> Prop) l m : Forall2 P l m -> Forall2 P (rev l) (rev m).
Proof.
  induction 1 as [|a b l m Hab H IH]; [constructor|].
  cbn [rev]. apply Forall2_app; [exact IH|]. constructor; [exact Hab|constructor].
Qed.

Section OrderZ.
  Variable xs : list Z.
  Variables N tp delta : Z.
  Variable strict : bool.
  Hypothesis HN : 1 <= N.
  Hypothesis Htp : 1 <= tp <= N.
  Hypothesis Hlen : N = zlen xs.
  Notation Xz := (X Num_Z xs).
  Hypothesis Hmono : forall a b, 0 <= a <= b -> b < N -> Xz a <= Xz b.
  Hypothesis Hstrict : strict = true -> forall a b, 0 <= a < b -> b < N -> Xz a < Xz b.

  Definition cont (i : Z) (w : Z * Z) : Prop := fst w <= i /\ (strict = true -> i < snd w).

  Lemma Xneg c : c < 0 -> 0 <= N + c -> Xz c = Xz (N + c).
  Proof.
    intros H1 H2. unfold X, pyget, pos. cbn [T Num_Z]. rewrite <- Hlen.
    destruct (c <? 0) eqn:E1; [|lia]. destruct (N + c <? 0) eqn:E2; [lia|]. reflexivity.
  Qed.

  Lemma slide_contains fuel : forall l r i, N - r <= Z.of_nat fuel -> 0 <= l -> l <= i -> l < r -> r <= N ->
    0 <= i <= N - 2 -> cont i (slide Num_Z xs N fuel (Xz i) l r).
  Proof.
    induction fuel as [|f IH]; intros l r i Hf Hl Hli Hlr Hr Hi; cbn [slide].
    - unfold cont; cbn. split; [lia|]. intros _. lia.
    - unfold gtb. cbn [ltb sub Num_Z].
      destruct ((r <? N) && (Xz r - Xz i <? Xz i - Xz l)) eqn:E.
      + apply andb_true_iff in E. destruct E as [E1 E2].
        assert (l + 1 <= i).
        { destruct (Z.eq_dec l i) as [->|]; [|lia]. pose proof (Hmono i r). lia. }
        apply IH; lia.
      + unfold cont; cbn. split; [lia|]. intros Hs.
        destruct (Z_lt_le_dec i r) as [|Hri]; [assumption|exfalso].
        apply andb_false_iff in E. destruct E as [E|E]; [lia|].
        pose proof (Hstrict Hs l i). pose proof (Hmono r i). lia.
  Qed.

  Definition Inv2 (i : Z) (s : fstate Num_Z) : Prop :=
    Forall2 cont (fits_r s) (wins_r s) /\ left s <= i - 1.

  Lemma step_inv2 cf i s : 1 <= i <= N - 2 -> Inv Num_Z N tp cf i s -> Inv2 i s ->
    Inv2 (i + 1) (step Num_Z xs N delta cf i s).
  Proof.
    intros Hi (_ & (HLR1 & HLR2 & HLR3) & _) [HF2 HL].
    assert (Hfit : forall s1 : fstate Num_Z, left s1 = left s -> right s1 = right s ->
               fits_r s1 = i :: fits_r s -> wins_r s1 = wins_r s -> Inv2 (i + 1) (fit_window Num_Z xs N i s1)).
    { intros s1 E1 E2 E3 E4.
      destruct (fit_window_fields Num_Z xs N i s1) as (Ef & Es & Ess & Ew & Esl).
      pose proof (slide_contains (Z.to_nat (N - right s1)) (left s1) (right s1) i) as Hc.
      rewrite <- Esl in Hc. rewrite E1, E2 in Hc.
      assert (Hc' : cont i (left (fit_window Num_Z xs N i s1), right (fit_window Num_Z xs N i s1))) by (apply Hc; lia).
      unfold Inv2. rewrite Ef, Ew, E3, E4. split; [constructor; assumption|].
      destruct Hc' as [Hc' _]. cbn in Hc'. lia. }
    unfold step. destruct cf.
    - destruct (ltb Num_Z (Xz (i + 1)) (skip_range s)).
      + destruct (skip_start s =? 0); unfold Inv2; cbn; (split; [exact HF2|lia]).
      + apply Hfit; reflexivity.
    - apply Hfit; reflexivity.
  Qed.

  Lemma floop_inv2 cf fuel : forall i s, 1 <= i -> i + Z.of_nat fuel <= Z.max 1 (N - 1) ->
    Inv Num_Z N tp cf i s -> Inv2 i s ->
    Inv Num_Z N tp cf (i + Z.of_nat fuel) (floop Num_Z xs N delta cf fuel i s) /\
    Inv2 (i + Z.of_nat fuel) (floop Num_Z xs N delta cf fuel i s).
  Proof.
    induction fuel as [|f IH]; intros i s Hi Hb H1 H2.
    - cbn. replace (i + 0) with i by lia. split; assumption.
    - cbn [floop]. replace (i + Z.of_nat (S f)) with (i + 1 + Z.of_nat f) by lia.
      apply IH; [lia|lia| |].
      + apply step_inv; [lia|exact H1].
      + apply step_inv2; [lia|exact H1|exact H2].
  Qed.

  Lemma final_contains cf :
    Forall2 cont (fits_r (final_state Num_Z xs N tp delta cf)) (wins_r (final_state Num_Z xs N tp delta cf)).
  Proof.
    unfold final_state.
    assert (H0 : Inv2 1 (init_state Num_Z xs tp delta)).
    { unfold Inv2, init_state; cbn. split; [|lia]. constructor; [|constructor]. unfold cont; cbn. split; [lia|intros _; lia]. }
    destruct (Z.eq_dec N 1) as [E1|E1].
    - replace (Z.to_nat (N - 2)) with O by lia. cbn [floop].
      unfold second_last, last_item. cbn [skip_start init_state Z.eqb].
      destruct (1 <? N) eqn:EN; [lia|]. apply H0.
    - destruct (floop_inv2 cf (Z.to_nat (N - 2)) 1 _ (Z.le_refl 1) ltac:(lia) (init_inv Num_Z xs N tp delta Htp cf) H0) as [HI HI2].
      replace (1 + Z.of_nat (Z.to_nat (N - 2))) with (N - 1) in * by lia.
      set (s := floop Num_Z xs N delta cf (Z.to_nat (N - 2)) 1 (init_state Num_Z xs tp delta)) in *.
      destruct HI as ((lf & HF & Hlf & Hs0 & Hs1) & (HLR1 & HLR2 & HLR3) & Hcf).
      destruct HI2 as [HF2 _].
      assert (Hlf0 : 0 <= lf) by (destruct HF as (_ & _ & _ & _ & _ & H & _); exact H).
      unfold last_item. destruct (1 <? N) eqn:EN; [|lia].
      cbn [fits_r wins_r]. constructor; [unfold cont; cbn; split; [lia|intros _; lia]|].
      unfold second_last. destruct (skip_start s =? 0) eqn:Ess; [exact HF2|].
      cbn [fits_r wins_r]. constructor; [|exact HF2].
      assert (Hne : skip_start s <> 0) by lia. destruct (Hs1 Hne) as [Hk1 Hk2].
      destruct ((tp =? N) || ltb Num_Z (sub Num_Z (Xz (-1)) (Xz (-2))) (sub Num_Z (Xz (-2)) (Xz (N - tp)))) eqn:Ec.
      + unfold cont; cbn. split; [|intros _; lia].
        destruct (Z.eq_dec tp 1) as [Et|]; [exfalso|lia].
        apply orb_true_iff in Ec. destruct Ec as [Ec|Ec]; [lia|].
        cbn [ltb sub Num_Z] in Ec. rewrite (Xneg (-1)), (Xneg (-2)) in Ec by lia.
        pose proof (Hmono (N + -2) (N + -1)). replace (N - tp) with (N + -1) in Ec by lia. lia.
      + unfold cont; cbn. split; [lia|intros _; lia].
  Qed.

  (* every window contains the point it is fitted for *)
  Theorem determine_fits_contains :
    let '(windows, fits, _) := determine_fits Num_Z xs N tp delta in Forall2 cont fits windows.
  Proof.
    rewrite (determine_fits_eq Num_Z xs N tp delta HN Htp). cbv zeta.
    apply Forall2_rev. apply final_contains.
  Qed.
End OrderZ.

(* with ties the window of a tied point need not contain its index *)
Lemma contains_ties_refuted :
  exists (xs : list Z) (tp delta : Z),
    (forall a b, 0 <= a <= b -> b < zlen xs -> X Num_Z xs a <= X Num_Z xs b) /\
    let '(windows, fits, _) := determine_fits Num_Z xs (zlen xs) tp delta in
    exists k, nth k fits 0 = 2 /\ nth k windows (0, 0) = (0, 2).
Proof.
  exists [0; 0; 0; 0; 0], 2, 0. split.
  - assert (H : forall k, nth k [0; 0; 0; 0; 0] 0 = 0).
    { intros k. do 5 (destruct k as [|k]; [reflexivity|]). destruct k; reflexivity. }
    intros a b _ _. unfold X, pyget. cbn [zero Num_Z]. rewrite !H. apply Z.le_refl.
  - exists 2%nat. split; reflexivity.
Qed.
