(* C19 -- the sliding window of _determine_fits is a nearest-neighbour window (integer instance, sorted x),
   except possibly the shifted window of the "fit second to last x-value" branch, for which a witness shows
   that the code as written can pick a non-nearest window. *)
From Coq Require Import ZArith List Bool Lia ZifyBool.
From PB Require Import lib.PySlice C19.Model C19.FitsProofs.
Import ListNotations.
Open Scope Z_scope.

Section NearestZ.
  Variable xs : list Z.
  Variables N tp delta : Z.
  Hypothesis HN : 1 <= N.
  Hypothesis Htp : 1 <= tp <= N.
  Hypothesis Hlen : N = zlen xs.
  Notation Xz := (X Num_Z xs).
  Hypothesis Hmono : forall a b, 0 <= a <= b -> b < N -> Xz a <= Xz b.

  (* boundary form of "nearest": the first point left of the window is at least as far from x[i] as the last
     point inside, and the first point right of the window at least as far as the first point inside *)
  Definition nn (i : Z) (w : Z * Z) : Prop :=
    (0 < fst w -> Xz i - Xz (fst w - 1) >= Xz (snd w - 1) - Xz i) /\
    (snd w < N -> Xz (snd w) - Xz i >= Xz i - Xz (fst w)).

  (* what it means: no point outside the window is strictly closer to x[i] than any point inside *)
  Lemma nn_meaning i l r : nn i (l, r) -> 0 <= l -> l <= i < r -> r <= N ->
    forall j k, 0 <= j < N -> (j < l \/ r <= j) -> l <= k < r -> Z.abs (Xz k - Xz i) <= Z.abs (Xz j - Xz i).
  Proof.
    intros [H1 H2] Hl Hi Hr j k Hj Hout Hk. cbn [fst snd] in *.
    pose proof (Hmono l k). pose proof (Hmono k (r - 1)). pose proof (Hmono l i). pose proof (Hmono i (r - 1)).
    destruct (Z_le_gt_dec k i) as [Hki|Hki].
    - pose proof (Hmono k i).
      destruct Hout as [Hjl|Hjr].
      + pose proof (Hmono j (l - 1)). pose proof (Hmono (l - 1) l). pose proof (Hmono j i). lia.
      + pose proof (Hmono r j). pose proof (Hmono i j). lia.
    - pose proof (Hmono i k).
      destruct Hout as [Hjl|Hjr].
      + pose proof (Hmono j (l - 1)). pose proof (Hmono j i). lia.
      + pose proof (Hmono r j). pose proof (Hmono (r - 1) r). pose proof (Hmono i j). lia.
  Qed.

  Definition J (i l r : Z) : Prop := 0 < l -> Xz i - Xz (l - 1) >= Xz (r - 1) - Xz i.

  Lemma J_next i l r : 0 <= i -> i + 1 < N -> J i l r -> J (i + 1) l r.
  Proof. unfold J. intros H0 H1 H Hl. pose proof (Hmono i (i + 1)). specialize (H Hl). lia. Qed.

  Lemma slide_nn fuel : forall l r i, N - r <= Z.of_nat fuel -> J i l r ->
    nn i (slide Num_Z xs N fuel (Xz i) l r).
  Proof.
    induction fuel as [|f IH]; intros l r i Hf HJ; cbn [slide].
    - unfold nn; cbn [fst snd]. split; [exact HJ|lia].
    - unfold gtb. cbn [ltb sub Num_Z].
      destruct ((r <? N) && (Xz r - Xz i <? Xz i - Xz l)) eqn:E.
      + apply andb_true_iff in E. destruct E as [E1 E2]. apply IH; [lia|].
        unfold J. intros _. replace (l + 1 - 1) with l by lia. replace (r + 1 - 1) with r by lia. lia.
      + unfold nn; cbn [fst snd]. split; [exact HJ|]. intros Hr.
        apply andb_false_iff in E. destruct E as [E|E]; lia.
  Qed.

  Definition nnx (i : Z) (w : Z * Z) : Prop := nn i w \/ (i = N - 2 /\ w = (N - tp - 1, N - 1)).

  Definition Inv3 (i : Z) (s : fstate Num_Z) : Prop :=
    Forall2 nnx (fits_r s) (wins_r s) /\ J i (left s) (right s).

  Lemma step_inv3 cf i s : 1 <= i <= N - 2 -> Inv Num_Z N tp cf i s -> Inv3 i s ->
    Inv3 (i + 1) (step Num_Z xs N delta cf i s).
  Proof.
    intros Hi (_ & (HLR1 & HLR2 & HLR3) & _) [HF HJ].
    assert (Hfit : forall s1 : fstate Num_Z, left s1 = left s -> right s1 = right s ->
               fits_r s1 = i :: fits_r s -> wins_r s1 = wins_r s -> Inv3 (i + 1) (fit_window Num_Z xs N i s1)).
    { intros s1 E1 E2 E3 E4.
      destruct (fit_window_fields Num_Z xs N i s1) as (Ef & Es & Ess & Ew & Esl).
      pose proof (slide_nn (Z.to_nat (N - right s1)) (left s1) (right s1) i) as Hc.
      rewrite <- Esl in Hc. rewrite E1, E2 in Hc.
      assert (Hc' : nn i (left (fit_window Num_Z xs N i s1), right (fit_window Num_Z xs N i s1))) by (apply Hc; [lia|exact HJ]).
      unfold Inv3. rewrite Ef, Ew, E3, E4. split; [constructor; [left; exact Hc'|exact HF]|].
      apply J_next; [lia|lia|]. destruct Hc' as [Hc' _]. exact Hc'. }
    unfold step. destruct cf.
    - destruct (ltb Num_Z (Xz (i + 1)) (skip_range s)).
      + destruct (skip_start s =? 0); unfold Inv3; cbn [fits_r wins_r left right]; (split; [exact HF|apply J_next; [lia|lia|exact HJ]]).
      + apply Hfit; reflexivity.
    - apply Hfit; reflexivity.
  Qed.

  Lemma floop_inv3 cf fuel : forall i s, 1 <= i -> i + Z.of_nat fuel <= Z.max 1 (N - 1) ->
    Inv Num_Z N tp cf i s -> Inv3 i s ->
    Inv Num_Z N tp cf (i + Z.of_nat fuel) (floop Num_Z xs N delta cf fuel i s) /\
    Inv3 (i + Z.of_nat fuel) (floop Num_Z xs N delta cf fuel i s).
  Proof.
    induction fuel as [|f IH]; intros i s Hi Hb H1 H2.
    - cbn. replace (i + 0) with i by lia. split; assumption.
    - cbn [floop]. replace (i + Z.of_nat (S f)) with (i + 1 + Z.of_nat f) by lia.
      apply IH; [lia|lia| |].
      + apply step_inv; [lia|exact H1].
      + apply step_inv3; [lia|exact H1|exact H2].
  Qed.

  Lemma Xneg' c : c < 0 -> 0 <= N + c -> Xz c = Xz (N + c).
  Proof.
    intros H1 H2. unfold X, pyget, pos. cbn [T Num_Z]. rewrite <- Hlen.
    destruct (c <? 0) eqn:E1; [|lia]. destruct (N + c <? 0) eqn:E2; [lia|]. reflexivity.
  Qed.

  Lemma final_nearest cf :
    Forall2 nnx (fits_r (final_state Num_Z xs N tp delta cf)) (wins_r (final_state Num_Z xs N tp delta cf)).
  Proof.
    unfold final_state.
    assert (Hfirst : nn 0 (0, tp)).
    { unfold nn; cbn [fst snd]. split; [lia|]. intros Ht. pose proof (Hmono 0 tp). lia. }
    assert (H0 : Inv3 1 (init_state Num_Z xs tp delta)).
    { unfold Inv3, init_state; cbn [fits_r wins_r left right]. split; [|unfold J; lia].
      constructor; [left; exact Hfirst|constructor]. }
    destruct (Z.eq_dec N 1) as [E1|E1].
    - replace (Z.to_nat (N - 2)) with O by lia. cbn [floop].
      unfold second_last, last_item. cbn [skip_start init_state Z.eqb].
      destruct (1 <? N) eqn:EN; [lia|]. apply H0.
    - destruct (floop_inv3 cf (Z.to_nat (N - 2)) 1 _ (Z.le_refl 1) ltac:(lia) (init_inv Num_Z xs N tp delta Htp cf) H0) as [HI HI3].
      replace (1 + Z.of_nat (Z.to_nat (N - 2))) with (N - 1) in * by lia.
      set (s := floop Num_Z xs N delta cf (Z.to_nat (N - 2)) 1 (init_state Num_Z xs tp delta)) in *.
      destruct HI as ((lf & HF & Hlf & Hs0 & Hs1) & (HLR1 & HLR2 & HLR3) & Hcf).
      destruct HI3 as [HF3 _].
      assert (Hlf0 : 0 <= lf) by (destruct HF as (_ & _ & _ & _ & _ & H & _); exact H).
      unfold last_item. destruct (1 <? N) eqn:EN; [|lia].
      cbn [fits_r wins_r]. constructor.
      { left. unfold nn; cbn [fst snd]. split; [|lia]. intros Hl.
        pose proof (Hmono (N - tp - 1) (N - 1)). replace (N - 1 - 1) with (N - 2) by lia.
        replace (N - tp - 1) with (N - tp - 1) by lia. pose proof (Hmono (N - 2) (N - 1)).
        replace (N - 1) with (N - 1) by lia. lia. }
      unfold second_last. destruct (skip_start s =? 0) eqn:Ess; [exact HF3|].
      cbn [fits_r wins_r]. constructor; [|exact HF3].
      assert (Hne : skip_start s <> 0) by lia. destruct (Hs1 Hne) as [Hk1 Hk2].
      destruct ((tp =? N) || ltb Num_Z (sub Num_Z (Xz (-1)) (Xz (-2))) (sub Num_Z (Xz (-2)) (Xz (N - tp)))) eqn:Ec.
      + left. unfold nn; cbn [fst snd]. split; [|lia]. intros Hl.
        apply orb_true_iff in Ec. destruct Ec as [Ec|Ec]; [lia|].
        cbn [ltb sub Num_Z] in Ec. rewrite (Xneg' (-1)), (Xneg' (-2)) in Ec by lia.
        replace (N + -1) with (N - 1) in Ec by lia. replace (N + -2) with (N - 2) in Ec by lia.
        pose proof (Hmono (N - tp - 1) (N - tp)). replace (N - 1) with (N - 1) by lia. lia.
      + right. split; reflexivity.
  Qed.

  Theorem determine_fits_nearest :
    let '(windows, fits, _) := determine_fits Num_Z xs N tp delta in Forall2 nnx fits windows.
  Proof.
    rewrite (determine_fits_eq Num_Z xs N tp delta HN Htp). cbv zeta.
    apply Forall2_rev. apply final_nearest.
  Qed.
End NearestZ.

(* the second-to-last branch as coded compares the last gap with x[N-2] - x[N-tp] instead of
   x[N-2] - x[N-tp-1]: x = [0,5,10,11], total_points = 2, delta = 100 gives point 2 (x = 10) the window
   (1, 3) = {5, 10} although x[3] = 11 is strictly closer than x[1] = 5 *)
Lemma nearest_second_last_refuted :
  exists (xs : list Z) (tp delta : Z),
    (forall a b, 0 <= a < b -> b < zlen xs -> X Num_Z xs a < X Num_Z xs b) /\
    let '(windows, fits, _) := determine_fits Num_Z xs (zlen xs) tp delta in
    exists k, nth k fits 0 = 2 /\ nth k windows (0, 0) = (1, 3) /\
      Z.abs (X Num_Z xs 3 - X Num_Z xs 2) < Z.abs (X Num_Z xs 1 - X Num_Z xs 2).
Proof.
  exists [0; 5; 10; 11], 2, 100. split.
  - intros a b Ha Hb. change (zlen [0; 5; 10; 11]) with 4 in Hb.
    assert (Ea : a = 0 \/ a = 1 \/ a = 2) by lia. assert (Eb : b = 1 \/ b = 2 \/ b = 3) by lia.
    destruct Ea as [Ea|[Ea|Ea]]; destruct Eb as [Eb|[Eb|Eb]]; subst a b; try lia; vm_compute; reflexivity.
  - exists 1%nat. vm_compute. repeat split; reflexivity.
Qed.
