(* C19 -- one loess call does not depend on what an earlier call left behind: the result of `drive` is the same
   for ANY initial contents of the kernel cache and whichever strategy is used, because the first iteration of the
   cached strategy always refills the cache (`elif i == 0`).  Together with the translator obligation that the
   driver stores nothing on the fitter object (gen/GenLoessState.v, C19/StateCheck.v) this extends
   C19_memory_equiv from single calls to arbitrary call histories on one object. *)
From Coq Require Import ZArith List Bool Lia.
From PB Require Import lib.PySlice C19.Model C19.FitsProofs C19.MemProofs.
Import ListNotations.
Open Scope Z_scope.

(* the dispatch of the driver: 0 = _loess_low_memory, 1 = _loess_first_loop, 2 = _loess_nonfirst_loops *)
Definition mode_of (conserve : bool) (it : nat) : nat :=
  if conserve then 0%nat else match it with O => 1%nat | _ => 2%nat end.
Definition mode_schedule (conserve : bool) (iters : nat) : list nat := map (mode_of conserve) (seq 0 iters).

Section Hist.
  Variable R : Num.
  Variable Coef : Type.
  Variable local_fit : list (list (T R)) -> list (T R) -> Coef.
  Variable predict : list (T R) -> Coef -> T R.
  Variable x : list (T R).
  Variable vander : list (list (T R)).
  Variable ncoef : nat.
  Variable N : Z.
  Variable windows : list (Z * Z).
  Variable fits : list Z.
  Variable skips : list (Z * Z).
  Hypothesis Hnd : NoDup fits.
  Variable D : Type.
  Variable reldiff : list (T R) -> list (T R) -> D.
  Variable below : D -> bool.
  Variable update : list (T R) -> list (T R) -> list (T R) -> list (T R) * list (T R).
  Variable garbage : nat -> Z -> T R.

  Notation drive := (drive R Coef local_fit predict x vander ncoef N windows fits skips D reldiff below update garbage).
  Notation pass := (pass R Coef local_fit predict x vander ncoef N windows fits skips).
  Notation sim := (sim R Coef D).

  (* the model's driver dispatches exactly by mode_of *)
  Lemma drive_dispatch conserve f it s :
    drive conserve (S f) it s =
      let '(b, cf, ch) := pass (mode_of conserve it) (garbage it) (d_y _ _ _ s) (d_w _ _ _ s) (d_coefs _ _ _ s) (d_cache _ _ _ s) in
      let d := reldiff (d_base _ _ _ s) b in
      let s1 := {| d_y := d_y _ _ _ s; d_w := d_w _ _ _ s; d_base := b; d_coefs := cf; d_cache := ch; d_hist := d :: d_hist _ _ _ s |} in
      if below d then s1
      else let '(y', w') := update (d_y _ _ _ s) (d_w _ _ _ s) b in
           drive conserve f (S it) {| d_y := y'; d_w := w'; d_base := b; d_coefs := cf; d_cache := ch; d_hist := d_hist _ _ _ s1 |}.
  Proof. reflexivity. Qed.

  Lemma sim_sym a b : sim a b -> sim b a.
  Proof. intros (H1 & H2 & H3 & H4 & H5). repeat split; symmetry; assumption. Qed.
  Lemma sim_trans a b c : sim a b -> sim b c -> sim a c.
  Proof.
    intros (H1 & H2 & H3 & H4 & H5) (K1 & K2 & K3 & K4 & K5).
    repeat split; etransitivity; eassumption.
  Qed.
  Lemma sim_refl a : sim a a.
  Proof. repeat split. Qed.

  Theorem history_independent (c1 c2 : bool) fuel a b : sim a b ->
    sim (drive c1 fuel O a) (drive c2 fuel O b).
  Proof.
    intros Hs.
    assert (Hz : forall u v, sim u v -> sim (drive true fuel O u) (drive false fuel O v)).
    { intros u v H. apply (drive_sim R Coef local_fit predict x vander ncoef N windows fits skips Hnd D reldiff below update garbage fuel O u v H).
      intros Hne. exfalso. apply Hne. reflexivity. }
    destruct c1, c2.
    - (* both low memory *) eapply sim_trans; [apply (Hz a b Hs)|]. apply sim_sym. apply Hz. apply sim_refl.
    - apply Hz. exact Hs.
    - apply sim_sym. apply Hz. apply sim_sym. exact Hs.
    - (* both cached, different leftover caches *) eapply sim_trans; [|apply (Hz a b Hs)]. apply sim_sym. apply Hz. apply sim_refl.
  Qed.
End Hist.

Theorem history_independent_fits (R : Num) (Coef D : Type) local_fit predict reldiff below update garbage
    (xraw x : list (T R)) vander ncoef (N tp : Z) (delta : T R) (c1 c2 : bool) (a b : dstate R Coef D) max_iter :
  1 <= N -> 1 <= tp <= N ->
  d_y _ _ _ a = d_y _ _ _ b -> d_w _ _ _ a = d_w _ _ _ b -> d_base _ _ _ a = d_base _ _ _ b ->
  d_coefs _ _ _ a = d_coefs _ _ _ b -> d_hist _ _ _ a = d_hist _ _ _ b ->
  let '(windows, fits, skips) := determine_fits R xraw N tp delta in
  observe R Coef N D (drive R Coef local_fit predict x vander ncoef N windows fits skips D reldiff below update garbage c1 (S max_iter) O a)
  = observe R Coef N D (drive R Coef local_fit predict x vander ncoef N windows fits skips D reldiff below update garbage c2 (S max_iter) O b).
Proof.
  intros HN Htp H1 H2 H3 H4 H5.
  pose proof (determine_fits_spec R xraw N tp delta HN Htp) as Hs.
  destruct (determine_fits R xraw N tp delta) as [[windows fits] skips].
  destruct Hs as (_ & _ & Hincr & _).
  apply sim_observe. apply history_independent; [apply incr_NoDup; exact Hincr|].
  repeat split; assumption.
Qed.

(* The stop test is applied to EVERY pass, the first included: if the first recorded difference is below tol the driver
   returns the first-pass fit untouched (one history entry, weights and fit data not updated), whichever strategy runs.
   Hence data that one pass reproduces (C19_poly_exact_partial) are reproduced by the full iteration with default
   tol / max_iter: the robust re-weighting never sees the rounding-noise residuals of an exact fit. *)
Theorem first_pass_exit (R : Num) (Coef D : Type) local_fit predict reldiff (below : D -> bool) update garbage
    (x : list (T R)) vander ncoef (N : Z) windows fits skips (conserve : bool) (max_iter : nat) (s : dstate R Coef D) :
  let p := pass R Coef local_fit predict x vander ncoef N windows fits skips (mode_of conserve O) (garbage O)
             (d_y _ _ _ s) (d_w _ _ _ s) (d_coefs _ _ _ s) (d_cache _ _ _ s) in
  let b := fst (fst p) in
  below (reldiff (d_base _ _ _ s) b) = true ->
  let r := drive R Coef local_fit predict x vander ncoef N windows fits skips D reldiff below update garbage conserve (S max_iter) O s in
  d_base _ _ _ r = b /\ d_coefs _ _ _ r = snd (fst p) /\ d_w _ _ _ r = d_w _ _ _ s /\ d_y _ _ _ r = d_y _ _ _ s /\
  d_hist _ _ _ r = reldiff (d_base _ _ _ s) b :: d_hist _ _ _ s.
Proof.
  cbv zeta. intros H. cbn [drive]. unfold mode_of in *.
  destruct (pass R Coef local_fit predict x vander ncoef N windows fits skips (if conserve then 0%nat else 1%nat) (garbage O)
              (d_y _ _ _ s) (d_w _ _ _ s) (d_coefs _ _ _ s) (d_cache _ _ _ s)) as [[b cf] ch].
  cbn [fst snd] in *. rewrite H. cbn. repeat split.
Qed.
