(* C19 -- the system handed to np.linalg.solve by _loess_solver(AT, b) is the normal-equation system
   (AT . AT^T) c = AT . b and nothing else (no ridge, no scaling): the hypothesis `Hsolve` of C19_poly_exact_partial
   is what the code asks the library to solve.  Table generated from the current source (fail-closed). *)
From Coq Require Import Bool.
From PB Require Import gen.GenLoessSolver.

Fixpoint sexpr_eqb (a b : sexpr) : bool :=
  match a, b with
  | SA, SA => true
  | SB, SB => true
  | ST x, ST y => sexpr_eqb x y
  | SDot x1 x2, SDot y1 y2 => andb (sexpr_eqb x1 y1) (sexpr_eqb x2 y2)
  | _, _ => false
  end.

Lemma sexpr_eqb_eq a : forall b, sexpr_eqb a b = true -> a = b.
Proof.
  induction a as [| |a IH|a1 IH1 a2 IH2]; intros b H; destruct b; try discriminate; cbn in H.
  - reflexivity.
  - reflexivity.
  - f_equal. apply IH. exact H.
  - apply andb_true_iff in H. destruct H as [H1 H2]. f_equal; [apply IH1|apply IH2]; assumption.
Qed.

Lemma solver_is_normal_equations :
  loess_solver_lhs = SDot SA (ST SA) /\ loess_solver_rhs = SDot SA SB.
Proof. split; apply sexpr_eqb_eq; vm_compute; reflexivity. Qed.
