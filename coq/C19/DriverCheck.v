(* C19 -- the control skeleton of the loess iteration, generated from the current source, is the one `drive` of
   C19/Model.v transcribes: max_iter + 1 passes, a single way out of the loop -- `break` guarded by exactly
   `calc_difference < tol` (no further conjunct) -- where calc_difference = relative_difference(baseline_old, baseline)
   with baseline_old the baseline before the pass, and that value is what tol_history records. *)
From Coq Require Import List String Bool.
From PB Require Import gen.GenLoessDriver.
Import ListNotations.
Open Scope string_scope.

Definition exits_eqb (a b : list (string * string)) : bool :=
  (fix go a b := match a, b with
                 | [], [] => true
                 | (k1, g1) :: a', (k2, g2) :: b' => String.eqb k1 k2 && String.eqb g1 g2 && go a' b'
                 | _, _ => false
                 end) a b.
Definition strs_eqb (a b : list string) : bool :=
  (fix go a b := match a, b with
                 | [], [] => true
                 | x :: a', y :: b' => String.eqb x y && go a' b'
                 | _, _ => false
                 end) a b.

Definition expected_exits : list (string * string) := [("break", "(calc_difference < tol)")].
Definition expected_defs : list string :=
  ["baseline_old = baseline"; "calc_difference = relative_difference(baseline_old, baseline)"; "tol_history[i] = calc_difference"].

Definition expected_tests : list string := ["conserve_memory"; "calc_difference < tol"; "use_threshold"; "i == 0"; "use_original"].
(* every assignment inside the iteration: in particular `kernels` is bound once, by _loess_first_loop, and handed
   unchanged to _loess_nonfirst_loops; no size threshold, cast or copy in between *)
Definition expected_assignments : list string :=
  ["baseline_old = baseline"; "calc_difference = relative_difference(baseline_old, baseline)"; "tol_history[i] = calc_difference";
   "baseline = _loess_low_memory(x, y, sqrt_w, coefs, vandermonde, self._size, windows, fits)";
   "y = np.minimum(y0 if use_original else y, baseline + num_std * np.std(y - baseline))";
   "residual = y - baseline";
   "sqrt_w = _tukey_square(residual / _median_absolute_value(residual), scale, symmetric_weights)";
   "kernels, baseline = _loess_first_loop(x, y, sqrt_w, coefs, vandermonde, total_points, self._size, windows, fits)";
   "baseline = _loess_nonfirst_loops(y, sqrt_w, coefs, vandermonde, kernels, windows, self._size, fits)"].

Lemma strs_eqb_eq a : forall b, strs_eqb a b = true -> a = b.
Proof.
  induction a as [|x a IH]; intros [|y b] H; try discriminate; [reflexivity|].
  cbn in H. apply andb_true_iff in H. destruct H as [H1 H2]. apply String.eqb_eq in H1. subst. f_equal. apply IH. exact H2.
Qed.
Lemma exits_eqb_eq a : forall b, exits_eqb a b = true -> a = b.
Proof.
  induction a as [|[k g] a IH]; intros [|[k' g'] b] H; try discriminate; [reflexivity|].
  cbn in H. apply andb_true_iff in H. destruct H as [H H3]. apply andb_true_iff in H. destruct H as [H1 H2].
  apply String.eqb_eq in H1. apply String.eqb_eq in H2. subst. f_equal. apply IH. exact H3.
Qed.

Lemma driver_stop_test :
  loess_loop_header = "for i in range(max_iter + 1)" /\ loess_loop_exits = expected_exits /\ loess_loop_defs = expected_defs.
Proof.
  split; [apply String.eqb_eq; vm_compute; reflexivity|].
  split; [apply exits_eqb_eq; vm_compute; reflexivity|apply strs_eqb_eq; vm_compute; reflexivity].
Qed.

Lemma driver_loop_skeleton : loess_loop_tests = expected_tests /\ loess_loop_assignments = expected_assignments.
Proof. split; apply strs_eqb_eq; vm_compute; reflexivity. Qed.
