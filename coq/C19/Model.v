(* C19 -- executable model of the LOESS machinery of pybaselines/polynomial.py (models only, no proofs).

   _determine_fits      polynomial.py:1833-1948   -> determine_fits
   _interp_inplace      utils.py:558-583          -> interp_inplace (list form), fill_one (in-place form)
   _fill_skips          polynomial.py:1613-1641   -> fill_skips
   _loess_low_memory    polynomial.py:1645-1706   -> loop_low
   _loess_first_loop    polynomial.py:1710-1774   -> loop_first
   _loess_nonfirst_loops polynomial.py:1777-1830  -> loop_cached
   loess driver         polynomial.py:660-699     -> drive

   ONE model over an abstract number record `Num`; the instance Num_Z carries the order proofs,
   the instance Num_F (C19/Float.v, binary64) is evaluated by vm_compute against the implementation.
   Index conventions kept as in the source:
     windows[idx], fits[idx]        -- indexed by POSITION in `fits`
     x[i], vander[i], baseline[i], coefs[i], kernels[i]   -- indexed by x-INDEX i = fits[idx]          *)
From Coq Require Import ZArith List Bool.
From PB Require Import lib.PySlice.
Import ListNotations.
Open Scope Z_scope.

Record Num := {
  T : Type;
  add : T -> T -> T; sub : T -> T -> T; mul : T -> T -> T; div : T -> T -> T;
  nabs : T -> T; nsqrt : T -> T;
  ltb : T -> T -> bool;
  zero : T; one : T
}.

Definition zrange (lo : Z) (n : nat) : list Z := map (fun k => lo + Z.of_nat k) (seq 0 n).
Definition zlen {A} (l : list A) : Z := Z.of_nat (length l).

(* a[c] with Python/numba wrap-around of negative subscripts; out of range reads give `d` (the
   implementation raises IndexError in Python mode and reads foreign memory when compiled) *)
Definition pyget {A} (d : A) (l : list A) (c : Z) : A := nth (Z.to_nat (pos (zlen l) c)) l d.
(* a[s:e] with NumPy clamping *)
Definition pyslice {A} (l : list A) (s e : Z) : list A :=
  let n := zlen l in
  firstn (Z.to_nat (clamp n e - clamp n s)) (skipn (Z.to_nat (clamp n s)) l).

Definition upd {A} (f : Z -> A) (i : Z) (v : A) : Z -> A := fun j => if j =? i then v else f j.
Definition tab {A} (n : Z) (f : Z -> A) : list A := map f (zrange 0 (Z.to_nat n)).

Fixpoint map2 {A B C} (f : A -> B -> C) (l : list A) (m : list B) : list C :=
  match l, m with
  | a :: l', b :: m' => f a b :: map2 f l' m'
  | _, _ => []
  end.

(* ------------------------------------------------------------------------------------------ *)
Section DetermineFits.
  Variable R : Num.
  Variable xs : list (T R).          (* x *)
  Variable N : Z.                    (* num_x *)
  Variable tp : Z.                   (* total_points *)
  Variable delta : T R.

  Definition X (c : Z) : T R := pyget (zero R) xs c.
  Definition gtb (a b : T R) : bool := ltb R b a.

  Record fstate := {
    fits_r : list Z;              (* fits[:total_fits], newest first; when check_fits is False the code
                                     does not write `fits` (it is arange): the field is then a ghost
                                     that records the loop index of every window, and is NOT returned *)
    wins_r : list (Z * Z);        (* windows[:total_fits], newest first *)
    skips_r : list (Z * Z);       (* skips[:total_skips], newest first *)
    skip_start : Z;
    skip_range : T R;
    left : Z;
    right : Z
  }.

  (* while right < num_x and x_val - x[left] > x[right] - x_val: left += 1; right += 1
     (fuel = num_x - right iterations suffice: `right` grows by one each time) *)
  Fixpoint slide (fuel : nat) (xv : T R) (l r : Z) : Z * Z :=
    match fuel with
    | O => (l, r)
    | S f => if (r <? N) && gtb (sub R xv (X l)) (sub R (X r) xv)
             then slide f xv (l + 1) (r + 1) else (l, r)
    end.

  Definition fit_window (i : Z) (s : fstate) : fstate :=
    let '(l, r) := slide (Z.to_nat (N - right s)) (X i) (left s) (right s) in
    {| fits_r := fits_r s; wins_r := (l, r) :: wins_r s; skips_r := skips_r s;
       skip_start := skip_start s; skip_range := skip_range s; left := l; right := r |}.

  (* body of `for i in range(1, num_x - 1)` *)
  Definition step (check_fits : bool) (i : Z) (s : fstate) : fstate :=
    if check_fits then
      if ltb R (X (i + 1)) (skip_range s) then
        (* if not skip_start: skip_start = i ; continue *)
        if skip_start s =? 0
        then {| fits_r := fits_r s; wins_r := wins_r s; skips_r := skips_r s; skip_start := i;
                skip_range := skip_range s; left := left s; right := right s |}
        else s
      else
        let s1 :=
          {| fits_r := i :: fits_r s; wins_r := wins_r s;
             skips_r := if skip_start s =? 0 then skips_r s else (skip_start s - 1, i + 1) :: skips_r s;
             skip_start := 0; skip_range := add R (X i) delta; left := left s; right := right s |} in
        fit_window i s1
    else fit_window i
           {| fits_r := i :: fits_r s; wins_r := wins_r s; skips_r := skips_r s; skip_start := skip_start s;
              skip_range := skip_range s; left := left s; right := right s |}.

  Fixpoint floop (check_fits : bool) (fuel : nat) (i : Z) (s : fstate) : fstate :=
    match fuel with
    | O => s
    | S f => floop check_fits f (i + 1) (step check_fits i s)
    end.

  Definition init_state : fstate :=
    {| fits_r := [0]; wins_r := [(0, tp)]; skips_r := []; skip_start := 0;
       skip_range := add R (X 0) delta; left := 0; right := tp |}.

  (* if skip_start: fit second to last x-value *)
  Definition second_last (s : fstate) : fstate :=
    if skip_start s =? 0 then s else
    let w := if (tp =? N) || ltb R (sub R (X (-1)) (X (-2))) (sub R (X (-2)) (X (N - tp)))
             then (N - tp, N) else (N - tp - 1, N - 1) in
    {| fits_r := (N - 2) :: fits_r s; wins_r := w :: wins_r s;
       skips_r := (skip_start s - 1, N - 1) :: skips_r s;
       skip_start := skip_start s; skip_range := skip_range s; left := left s; right := right s |}.

  (* if num_x > 1: always fit last item *)
  Definition last_item (s : fstate) : fstate :=
    if 1 <? N then
      {| fits_r := (N - 1) :: fits_r s; wins_r := (N - tp, N) :: wins_r s; skips_r := skips_r s;
         skip_start := skip_start s; skip_range := skip_range s; left := left s; right := right s |}
    else s.

  Definition final_state (check_fits : bool) : fstate :=
    last_item (second_last (floop check_fits (Z.to_nat (N - 2)) 1 init_state)).

  (* list update a[k] = v (no-op out of range; the arange array of the delta <= 0 branch) *)
  Fixpoint lset (l : list Z) (k : nat) (v : Z) : list Z :=
    match l, k with
    | [], _ => []
    | _ :: l', O => v :: l'
    | a :: l', S k' => a :: lset l' k' v
    end.

  (* returns (windows[:total_fits], fits[:total_fits], skips[:total_skips]).
     np.empty arrays that are filled strictly sequentially at position total_fits / total_skips are
     modelled by appending; for delta <= 0 `fits` is arange(num_x), whose only write is
     fits[total_fits] = num_x - 1 in "always fit last item", and `skips` is [[0, 0]][:0]. *)
  Definition determine_fits : list (Z * Z) * list Z * list (Z * Z) :=
    let check_fits := ltb R (zero R) delta in          (* delta > 0 *)
    let s := final_state check_fits in
    let total_fits := length (wins_r s) in
    if check_fits then (rev (wins_r s), rev (fits_r s), rev (skips_r s))
    else
      let ar := zrange 0 (Z.to_nat N) in
      let ar' := if 1 <? N then lset ar (total_fits - 1)%nat (N - 1) else ar in
      (rev (wins_r s), firstn total_fits ar', firstn (length (skips_r s)) [(0, 0)]).
End DetermineFits.

(* specification vocabulary for `fits` and `skips` *)
Fixpoint incr (l : list Z) : Prop :=
  match l with a :: ((b :: _) as r) => a < b /\ incr r | _ => True end.
(* (a, b + 1) for every pair of consecutive fitted indices a, b *)
Fixpoint cpairs (fits : list Z) : list (Z * Z) :=
  match fits with
  | a :: ((b :: _) as rest) => (a, b + 1) :: cpairs rest
  | _ => []
  end.
(* ... restricted to the pairs that are not adjacent (something lies strictly between) *)
Fixpoint gaps (fits : list Z) : list (Z * Z) :=
  match fits with
  | a :: ((b :: _) as rest) => if 2 <=? b - a then (a, b + 1) :: gaps rest else gaps rest
  | _ => []
  end.

(* ------------------------------------------------------------------------------------------ *)
Section Interp.
  Variable R : Num.
  Notation T := (T R).

  (* _interp_inplace(x, y, y_start, y_end):
       y[1:-1] = y_start + (x[1:-1] - x[0]) * ((y_end - y_start) / (x[-1] - x[0]))  *)
  Definition interp_inplace (xsl ysl : list T) (ys ye : T) : list T :=
    let m := zlen ysl in
    let slope := div R (sub R ye ys) (sub R (pyget (zero R) xsl (-1)) (pyget (zero R) xsl 0)) in
    map (fun t => if (1 <=? t) && (t <? m - 1)
                  then add R ys (mul R (sub R (pyget (zero R) xsl t) (pyget (zero R) xsl 0)) slope)
                  else pyget (zero R) ysl t)
        (zrange 0 (length ysl)).

  (* one iteration of _fill_skips on the baseline seen as index -> value, for 0 <= l < r <= N
     (guaranteed by C19_fits_spec): the slice views x[l:r], baseline[l:r] start at l, so
     y[1:-1] are the indices l+1 .. r-2, x[0] = x[l], x[-1] = x[r-1] *)
  Definition fill_one (x : list T) (b : Z -> T) (sk : Z * Z) : Z -> T :=
    let '(l, r) := sk in
    fun j => if (l + 1 <=? j) && (j <? r - 1)
             then add R (b l) (mul R (sub R (pyget (zero R) x j) (pyget (zero R) x l))
                                     (div R (sub R (b (r - 1)) (b l))
                                            (sub R (pyget (zero R) x (r - 1)) (pyget (zero R) x l))))
             else b j.

  Definition fill_skips (x : list T) (b : Z -> T) (skips : list (Z * Z)) : Z -> T :=
    fold_left (fill_one x) skips b.
End Interp.

(* ------------------------------------------------------------------------------------------ *)
Section Kernels.
  Variable R : Num.
  Notation T := (T R).
  Variable Coef : Type.
  Variable local_fit : list (list T) -> list T -> Coef.   (* _loess_solver(AT, b) *)
  Variable predict : list T -> Coef -> T.                  (* vander[i].dot(coef) *)

  Variable x : list T.               (* x scaled to [-1, 1] *)
  Variable vander : list (list T).   (* N rows of poly_order + 1 entries *)
  Variable ncoef : nat.              (* poly_order + 1 *)
  Variable N : Z.
  Variable windows : list (Z * Z).
  Variable fits : list Z.
  Variable skips : list (Z * Z).

  Definition fmax (a b : T) : T := if ltb R a b then b else a.      (* max(a, b) *)

  (* difference = np.abs(x[left:right] - x[i]); difference / max(difference[0], difference[-1]);
     d*d*d; 1 - d; sqrt(d*d*d) *)
  Definition kernel_of (i : Z) (w : Z * Z) : list T :=
    let d0 := map (fun v => nabs R (sub R v (pyget (zero R) x i))) (pyslice x (fst w) (snd w)) in
    let m := fmax (pyget (zero R) d0 0) (pyget (zero R) d0 (-1)) in
    map (fun v => let a := div R v m in
                  let c := mul R (mul R a a) a in
                  let e := sub R (one R) c in
                  nsqrt R (mul R (mul R e e) e)) d0.

  (* (kernel * vander_fit[:, left:right], kernel * y_fit[left:right]) with
     y_fit = y * weights, vander_fit = vander.T * weights *)
  Definition fit_args (kernel y w : list T) (win : Z * Z) : list (list T) * list T :=
    let yfit := map2 (mul R) y w in
    let vfit := map (fun k => map2 (mul R) (map (fun row => nth k row (zero R)) vander) w) (seq 0 ncoef) in
    (map (fun row => map2 (mul R) kernel (pyslice row (fst win) (snd win))) vfit,
     map2 (mul R) kernel (pyslice yfit (fst win) (snd win))).

  Record kstate := { k_base : Z -> T; k_coefs : Z -> Coef; k_cache : Z -> list T }.

  (* body of `for idx in range(fits.shape[0])`; `mode`: 0 low memory, 1 first loop, 2 cached *)
  Definition kstep (mode : nat) (y w : list T) (s : kstate) (idx : nat) : kstate :=
    let i := nth idx fits 0 in
    let win := nth idx windows (0, 0) in
    let kernel := match mode with 2%nat => k_cache s i | _ => kernel_of i win end in
    let args := fit_args kernel y w win in
    let coef := local_fit (fst args) (snd args) in
    {| k_base := upd (k_base s) i (predict (pyget [] vander i) coef);
       k_coefs := upd (k_coefs s) i coef;
       k_cache := match mode with 1%nat => upd (k_cache s) i kernel | _ => k_cache s end |}.

  Definition kloop (mode : nat) (y w : list T) (s : kstate) : kstate :=
    fold_left (kstep mode y w) (seq 0 (length fits)) s.

  (* one pass of the driver: kernel loop on a fresh np.empty baseline (`garbage`), _fill_skips *)
  Definition pass (mode : nat) (garbage : Z -> T) (y w : list T) (coefs : Z -> Coef) (cache : Z -> list T)
    : list T * (Z -> Coef) * (Z -> list T) :=
    let s := kloop mode y w {| k_base := garbage; k_coefs := coefs; k_cache := cache |} in
    (tab N (fill_skips R x (k_base s) skips), k_coefs s, k_cache s).

  (* driver loop `for i in range(max_iter + 1)` *)
  Variable D : Type.
  Variable reldiff : list T -> list T -> D.                 (* relative_difference(baseline_old, baseline) *)
  Variable below : D -> bool.                               (* calc_difference < tol *)
  Variable update : list T -> list T -> list T -> list T * list T.
     (* (y, sqrt_w, baseline) -> (y', sqrt_w'): thresholding or _tukey_square reweighting *)
  Variable garbage : nat -> Z -> T.                         (* contents of np.empty per iteration *)

  Record dstate := {
    d_y : list T; d_w : list T; d_base : list T; d_coefs : Z -> Coef;
    d_cache : Z -> list T; d_hist : list D }.

  Fixpoint drive (conserve : bool) (fuel : nat) (it : nat) (s : dstate) : dstate :=
    match fuel with
    | O => s
    | S f =>
        let mode := if conserve then 0%nat else match it with O => 1%nat | _ => 2%nat end in
        let '(b, cf, ch) := pass mode (garbage it) (d_y s) (d_w s) (d_coefs s) (d_cache s) in
        let d := reldiff (d_base s) b in
        let s1 := {| d_y := d_y s; d_w := d_w s; d_base := b; d_coefs := cf; d_cache := ch;
                     d_hist := d :: d_hist s |} in
        if below d then s1
        else let '(y', w') := update (d_y s) (d_w s) b in
             drive conserve f (S it)
               {| d_y := y'; d_w := w'; d_base := b; d_coefs := cf; d_cache := ch; d_hist := d_hist s1 |}
    end.

  (* what the caller can observe: baseline, coefficient rows, weights, fit data, tol_history *)
  Definition observe (s : dstate) := (d_base s, tab N (d_coefs s), d_w s, d_y s, d_hist s).
End Kernels.

(* integer instance used for the order proofs (only add/sub/ltb matter for _determine_fits) *)
Definition Num_Z : Num := {|
  T := Z; add := Z.add; sub := Z.sub; mul := Z.mul; div := Z.div; nabs := Z.abs; nsqrt := Z.sqrt;
  ltb := Z.ltb; zero := 0; one := 1 |}.
