(* C05: histories of public calls on one fitter object -- statements of props/C05.v in explicit form. *)
From Coq Require Import ZArith List Bool String Lia ZifyBool.
From PB Require Import lib.PySlice C05.PyLen C05.Mon C05.Model C05.Callers C05.Logic C05.Proofs C05.CallerProofs
                       C05.Final C05.State C05.StateProofs gen.GenKernels.
Import ListNotations.
Open Scope Z_scope.

Lemma wrapper_handlers_ok_final : handlers_ok fitter_cache_attrs wrapper_handlers = true.
Proof. vm_compute. reflexivity. Qed.

Lemma other_writers_final : fitter_other_writers = [].
Proof. reflexivity. Qed.

Lemma history_state_final (calls : list (Z * list act)) (x0 : option Z) :
  Forall (fun s => ssize s = sx s /\
                   (forall nk d bx, sbasis s = Some (nk, d, bx) -> sx s = Some bx) /\
                   (forall px, spoly s = Some px -> sx s = Some px))
         (fst (run_history wrapper_handlers calls (init_state x0))) /\
  Forall (fun ob : obs => let '(nk, d, bx, yl, wl) := ob in bx = yl /\ bx = wl)
         (snd (run_history wrapper_handlers calls (init_state x0))).
Proof.
  exact (history_ok fitter_cache_attrs wrapper_handlers wrapper_handlers_ok_final calls (init_state x0)
                    (init_sinv x0)).
Qed.

(* every kernel call of every history is a safe _numba_btb_bty call *)
Lemma history_kernel_final (calls : list (Z * list act)) (x0 : option Z) (o : list bool) :
  Forall (fun ob : obs =>
            let '(nk, d, bx, yl, wl) := ob in
            spline_knots_rejects nk = false -> spline_basis_rejects d = false -> 0 <= bx ->
            all_okb (logof (btb_bty bx (spline_nk nk d) d yl wl (d + 1) (spline_num_bases nk d)
                                    (spline_num_bases nk d) (bx * (d + 1)) o)) = true)
         (snd (run_history wrapper_handlers calls (init_state x0))).
Proof.
  destruct (history_state_final calls x0) as [_ H].
  eapply Forall_impl; [| exact H].
  intros [[[[nk d] bx] yl] wl] [E1 E2] G1 G2 Hb. subst yl wl.
  exact (btb_bty_public_final bx nk d o G1 G2 Hb).
Qed.

Lemma stale_basis_example_final :
  handlers_ok ["_polynomial"; "_spline_basis"]%string [["x"; "_size"]%string] = false /\
  snd (run_history [["x"; "_size"]%string]
         [(400, [ASpline 10 3; ARaise]); (60, [ASpline 10 3; AKernel])] (init_state None))
  = [(10, 3, 400, 60, 60)].
Proof. exact stale_basis_example. Qed.
