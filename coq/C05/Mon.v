(* C05: access-logging monad for kernel models (definitions only).

   A kernel model is a computation  M A = oracle -> (result, remaining oracle, access log).
   * every scalar subscript / slice / row subscript of the Python source is one [Acc] event that
     records the raw subscript components as written in the source together with the length of the
     indexed axis;
   * every assignment of an array value into a subscripted target is one [Fit] event (number of
     selected elements, number of supplied elements);
   * every comparison of FLOAT values that steers control flow pops one boolean from the oracle, so
     a statement "for all oracles" covers every data value (NaN, unsorted x, ...);
   * a [while] whose fuel runs out logs [Stuck], which is never safe -- safety theorems therefore
     also prove that the fuel of the model is sufficient (termination of the loop).            *)
From Coq Require Import ZArith List Bool.
From PB Require Import lib.PySlice.
Import ListNotations.
Open Scope Z_scope.

Inductive comp :=
| CI (i len : Z)                    (* subscript meant to be non-negative *)
| CN (i len : Z)                    (* literal negative subscript of the source, e.g. x[-1] *)
| CS (lo hi : option Z) (len : Z).  (* slice lo:hi, raw bounds; NumPy clamps, never out of bounds *)

Inductive ev :=
| Acc (w : bool) (arr : Z) (cs : list comp)
| Fit (n m : Z)
| Stuck.

Definition comp_okb (c : comp) : bool :=
  match c with
  | CI i len => (0 <=? i) && (i <? len)
  | CN i len => (- len <=? i) && (i <? 0)
  | CS _ _ _ => true
  end.

Definition ev_okb (e : ev) : bool :=
  match e with
  | Acc _ _ cs => forallb comp_okb cs
  | Fit n m => n =? m
  | Stuck => false
  end.

Definition ev_ok (e : ev) : Prop := ev_okb e = true.
Definition all_okb (l : list ev) : bool := forallb ev_okb l.

(* the weaker, memory-level condition (numba wraps negative subscripts) *)
Definition comp_wrapb (c : comp) : bool :=
  match c with
  | CI i len | CN i len => (- len <=? i) && (i <? len)
  | CS _ _ _ => true
  end.

(* flattening used to compare with the log recorded on the implementation *)
Definition optf (a : option Z) : list Z := match a with None => [0; 0] | Some v => [1; v] end.
Definition comp_flat (c : comp) : list Z :=
  match c with
  | CI i len | CN i len => [0; i; len]
  | CS lo hi len => 1 :: optf lo ++ optf hi ++ [len]
  end.
Definition ev_flat (e : ev) : list Z :=
  match e with
  | Acc w a cs => (if w then 1 else 0) :: a :: flat_map comp_flat cs
  | Fit n m => [2; n; m]
  | Stuck => [-1]
  end.

Definition M (A : Type) : Type := list bool -> A * list bool * list ev.

Definition ret {A} (a : A) : M A := fun o => (a, o, []).
Definition bind {A B} (m : M A) (f : A -> M B) : M B :=
  fun o => let '(a, o1, l1) := m o in
           let '(b, o2, l2) := f a o1 in (b, o2, l1 ++ l2).
Definition tell (e : ev) : M unit := fun o => (tt, o, [e]).
Definition ask : M bool :=
  fun o => match o with [] => (false, [], []) | b :: o' => (b, o', []) end.

Notation "x <- m ;; k" := (bind m (fun x => k)) (at level 61, m at next level, right associativity).
Notation "m ;;; k" := (bind m (fun _ => k)) (at level 61, right associativity).

Definition rd (a i len : Z) : M unit := tell (Acc false a [CI i len]).
Definition wr (a i len : Z) : M unit := tell (Acc true a [CI i len]).
Definition rdn (a i len : Z) : M unit := tell (Acc false a [CN i len]).
Definition rd2 (a i n0 j n1 : Z) : M unit := tell (Acc false a [CI i n0; CI j n1]).
Definition wr2 (a i n0 j n1 : Z) : M unit := tell (Acc true a [CI i n0; CI j n1]).
Definition rds (a : Z) (lo hi : option Z) (len : Z) : M unit := tell (Acc false a [CS lo hi len]).
Definition wrs (a : Z) (lo hi : option Z) (len : Z) : M unit := tell (Acc true a [CS lo hi len]).
Definition fit (n m : Z) : M unit := tell (Fit n m).

Fixpoint for_n {St} (n : nat) (i : Z) (body : Z -> St -> M St) (s : St) : M St :=
  match n with
  | O => ret s
  | S n' => s1 <- body i s ;; for_n n' (i + 1) body s1
  end.
(* for i in range(lo, hi) *)
Definition for_range {St} (lo hi : Z) (body : Z -> St -> M St) (s : St) : M St :=
  for_n (Z.to_nat (hi - lo)) lo body s.
Definition for_range_ (lo hi : Z) (body : Z -> M unit) : M unit :=
  for_range lo hi (fun i _ => body i) tt.

(* while: [step s] evaluates the condition (logging its subscripts) and, when it holds, the body;
   inl = go on with the new state, inr = the loop has ended in this state *)
Fixpoint while_n {St} (fuel : nat) (step : St -> M (St + St)) (s : St) : M St :=
  match fuel with
  | O => tell Stuck ;;; ret s
  | S f => r <- step s ;; match r with inl s1 => while_n f step s1 | inr s1 => ret s1 end
  end.

Definition run {A} (m : M A) (o : list bool) : A * list bool * list ev := m o.
Definition log_of {A} (m : M A) (o : list bool) : list (list Z) := map ev_flat (snd (m o)).
Definition res_of {A} (m : M A) (o : list bool) : A := fst (fst (m o)).
Definition rest_of {A} (m : M A) (o : list bool) : list bool := snd (fst (m o)).

(* list update  l[i] = v  (no effect outside the list: such a write is reported by the log) *)
Fixpoint upd {A} (l : list A) (i : nat) (v : A) : list A :=
  match l, i with
  | [], _ => []
  | _ :: t, O => v :: t
  | h :: t, S i' => h :: upd t i' v
  end.
Definition updz {A} (l : list A) (i : Z) (v : A) : list A :=
  if i <? 0 then l else upd l (Z.to_nat i) v.
Definition nthz {A} (l : list A) (i : Z) (d : A) : A :=
  if i <? 0 then d else nth (Z.to_nat i) l d.
Definition lenz {A} (l : list A) : Z := Z.of_nat (length l).
Definition firstz {A} (n : Z) (l : list A) : list A := firstn (Z.to_nat n) l.
Fixpoint zseq (n : nat) (start : Z) : list Z :=
  match n with O => [] | S n' => start :: zseq n' (start + 1) end.
