(* C05: length of a Python/NumPy slice a[start:stop:step] of a sequence of length n (slice.indices),
   used by the translator-generated length formulas in gen/GenKernels.v. *)
From Coq Require Import ZArith.
Open Scope Z_scope.

Definition pyslice_len (n : Z) (start stop : option Z) (step : Z) : Z :=
  if step >? 0 then
    let s := match start with None => 0
                            | Some a => if a <? 0 then Z.max (a + n) 0 else Z.min a n end in
    let e := match stop with None => n
                           | Some b => if b <? 0 then Z.max (b + n) 0 else Z.min b n end in
    Z.max 0 ((e - s + step - 1) / step)
  else
    let s := match start with None => n - 1
                            | Some a => if a <? 0 then Z.max (a + n) (-1) else Z.min a (n - 1) end in
    let e := match stop with None => -1
                           | Some b => if b <? 0 then Z.max (b + n) (-1) else Z.min b (n - 1) end in
    Z.max 0 ((s - e + (- step) - 1) / (- step)).
