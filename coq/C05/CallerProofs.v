(* C05: the guards of the public methods (regenerated from the source: gen/GenKernels.v) imply the
   kernel preconditions. *)
From Coq Require Import ZArith List Bool Lia ZifyBool String.
From PB Require Import lib.PySlice C05.PyLen C05.Mon C05.Model C05.Callers C05.Logic C05.Proofs C05.ProofsDF C05.ProofsBZ
                       C05.Sigs gen.GenKernels.
Import ListNotations.
Open Scope Z_scope.
Ltac Zify.zify_post_hook ::= Z.to_euclidean_division_equations.

Lemma kernel_skeletons : GenKernels.kernels = Sigs.expected.
Proof. vm_compute. reflexivity. Qed.

(* ---- loess *)
Lemma loess_guard total_points poly_order size :
  loess_rejects total_points poly_order size = false -> 0 <= poly_order ->
  1 <= total_points <= size.
Proof. unfold loess_rejects. lia. Qed.

Lemma loess_pipeline_spec mode n total_points p :
  1 <= total_points <= n -> 0 <= p -> spec (loess_pipeline mode n total_points p) (fun _ => True).
Proof.
  intros Ht Hp. unfold loess_pipeline.
  eapply spec_bind; [apply determine_fits_spec; exact Ht |].
  intros [[windows fits] skips] (HW & HF & HL & HS).
  eapply spec_bind with (P := fun _ => True).
  - unfold loess_call. apply loess_loop_spec; try lia; assumption.
  - intros _ _. apply fill_skips_spec. exact HS.
Qed.

Lemma loess_public mode n total_points poly_order :
  loess_rejects total_points poly_order n = false -> 0 <= poly_order ->
  spec (loess_pipeline mode n total_points poly_order) (fun _ => True).
Proof. intros G Hp. apply loess_pipeline_spec; [eapply loess_guard; eauto | exact Hp]. Qed.

(* ---- P-splines *)
Lemma spline_guard num_knots degree :
  spline_knots_rejects num_knots = false -> spline_basis_rejects degree = false ->
  0 <= degree /\ degree + 1 <= spline_num_bases num_knots degree /\
  spline_num_bases num_knots degree = spline_nk num_knots degree - (degree + 1).
Proof. unfold spline_knots_rejects, spline_basis_rejects, spline_num_bases, spline_nk, spline_knots_len. lia. Qed.

Lemma btb_bty_public n num_knots degree :
  spline_knots_rejects num_knots = false -> spline_basis_rejects degree = false -> 0 <= n ->
  spec (btb_bty_call n num_knots degree (n * (degree + 1))) (fun _ => True).
Proof.
  intros G1 G2 Hn. destruct (spline_guard _ _ G1 G2) as (Hd & Hb & E).
  unfold btb_bty_call. apply btb_bty_spec; try lia.
Qed.

Lemma design_public n num_knots degree :
  spline_knots_rejects num_knots = false -> spline_basis_rejects degree = false -> 0 <= n ->
  spec (design_call n num_knots degree) (fun _ => True).
Proof.
  intros G1 G2 Hn. destruct (spline_guard _ _ G1 G2) as (Hd & Hb & E).
  unfold design_call. apply design_matrix_spec; lia.
Qed.

(* ---- peak_filling *)
Lemma pf_sections_guard sections size :
  pf_sections_rejects sections size = false -> 1 <= sections <= size.
Proof. unfold pf_sections_rejects. lia. Qed.

Lemma pf_default_guard size : 10 <= size -> 1 <= pf_default_sections size <= size.
Proof. unfold pf_default_sections. lia. Qed.

(* the clamped half window handed to np.log10 is at least 1 (half_win >= 1 by _check_half_window) *)
Lemma pf_half_win_ge1 half_win sections : 1 <= half_win -> 1 <= pf_half_win half_win sections.
Proof. unfold pf_half_win. destruct (half_win >? (sections - 1) / 2) eqn:E; lia. Qed.

Lemma pf_half_win_le half_win sections :
  1 <= half_win -> pf_half_win half_win sections <= half_win.
Proof. unfold pf_half_win. destruct (half_win >? (sections - 1) / 2) eqn:E; lia. Qed.

(* every kernel call of the schedule: any half window >= 0, any padding >= 0 *)
Lemma pf_kernel_public sections pads h :
  1 <= sections -> 0 <= pads -> 0 <= h -> spec (pf_kernel_call sections pads h) (fun _ => True).
Proof. intros. unfold pf_kernel_call. apply dmma_spec; lia. Qed.

(* ---- rolling std *)
Lemma rolling_std_public n half_window :
  1 <= n -> 0 <= half_window -> spec (rolling_std_call n half_window) (fun _ => True).
Proof. intros. unfold rolling_std_call, padded_len, prs_padded_len. apply rolling_std_spec; lia. Qed.

(* ---- beads: banded products with square full shapes *)
Lemma bdb_public n a_lower a_upper b_lower b_upper symmetric :
  0 <= n -> 0 <= a_lower -> 0 <= a_upper -> 0 <= b_lower -> 0 <= b_upper ->
  spec (bdb_call n a_lower a_upper b_lower b_upper symmetric) (fun _ => True).
Proof. intros. unfold bdb_call. apply banded_dot_banded_spec; lia. Qed.

(* ---- lengths that the translator derived from the NumPy calls of the source *)
Lemma spline_knots_len_eq penalized num_knots degree :
  spline_knots_len penalized num_knots degree = num_knots + 2 * degree.
Proof. unfold spline_knots_len. destruct penalized; lia. Qed.

(* np.pad(data, hw, 'reflect'): the padded array is long enough for EVERY half window, also hw >= n *)
Lemma prs_padded_len_ok n half_window :
  1 <= n -> 0 <= half_window ->
  prs_padded_len n half_window = n + 2 * half_window /\ 2 * half_window + 1 <= prs_padded_len n half_window.
Proof. unfold prs_padded_len. lia. Qed.

Lemma pf_y_len_ok sections left_pad right_pad :
  0 <= left_pad -> 0 <= right_pad -> sections <= pf_y_len sections left_pad right_pad.
Proof. unfold pf_y_len. lia. Qed.

Lemma pf_kernel_public2 sections left_pad right_pad h :
  1 <= sections -> 0 <= left_pad -> 0 <= right_pad -> 0 <= h ->
  spec (pf_kernel_call2 sections left_pad right_pad h) (fun _ => True).
Proof.
  intros. unfold pf_kernel_call2, pf_data_len. pose proof (pf_y_len_ok sections left_pad right_pad). apply dmma_spec; lia.
Qed.

(* the sequence branch as coded now never reaches compiled code: data_len is an ndarray *)
Lemma pf_sequence_rejected : pf_seq_data_len_is_int = false.
Proof. reflexivity. Qed.

(* and in general: whatever integer expression the source passes as data_len in the sequence branch, it
   must be provably within [1, len(y_truncated)] for every k and every number of distinct indices *)
Lemma pf_seq_kernel_public k uniq size left_pad right_pad h :
  0 <= k -> 2 <= uniq <= k + 2 -> 1 <= size -> 0 <= left_pad <= 1 -> 0 <= right_pad <= 1 -> 0 <= h ->
  spec (pf_seq_kernel_call k uniq size left_pad right_pad h) (fun _ => True).
Proof.
  intros. unfold pf_seq_kernel_call. destruct pf_seq_data_len_is_int eqn:E.
  - first [ unfold pf_seq_data_len_is_int in E; discriminate E
          | apply dmma_spec; unfold pf_seq_y_len, pf_seq_data_len; lia ].
  - apply spec_ret. exact I.
Qed.

(* ---- corner_cutting *)
Lemma corner_cutting_public n indices :
  idx_sorted n indices -> spec (corner_cutting_call n indices) (fun _ => True).
Proof. intros. unfold corner_cutting_call. apply bezier_spec. assumption. Qed.

(* ---- _averaged_interp *)
Definition seg_ok (n : Z) (se : Z * Z) : Prop := 0 <= fst se /\ fst se <= snd se /\ snd se <= n - 1.

Lemma averaged_interp_calls_spec n segs :
  Forall (seg_ok n) segs -> spec (averaged_interp_calls n segs) (fun _ => True).
Proof.
  intros HF. unfold averaged_interp_calls. apply spec_for__true. intros k Hk.
  pose proof (nthz_Forall _ _ k (0, 0) HF Hk) as Hs.
  destruct (nthz segs k (0, 0)) as [s e]. unfold seg_ok in Hs. cbn [fst snd] in Hs.
  apply interp_inplace_spec; rewrite sl_len_in by lia; lia.
Qed.

(* ---- the spec predicate unfolded: what "safe" means for a log *)
Lemma spec_safe {A} (m : M A) (Q : A -> Prop) :
  spec m Q -> forall o, all_okb (snd (m o)) = true.
Proof.
  intros H o. destruct (H o) as [HF _]. unfold all_okb. apply forallb_forall.
  rewrite Forall_forall in HF. exact HF.
Qed.

(* a safe event is in particular within the memory of its array *)
Lemma ok_wrap c : comp_okb c = true -> comp_wrapb c = true.
Proof. destruct c; cbn; lia. Qed.
