(* C05: every history of public calls on one fitter object keeps "the caches were built from the current x",
   for EVERY set of exception handlers that passes the checker handlers_ok; hence every kernel call sees
   len(basis.x) = len(y) = len(weights). *)
From Coq Require Import ZArith List Bool String Lia ZifyBool.
From PB Require Import C05.State.
Import ListNotations.
Open Scope Z_scope.

Definition sinv (s : fstate) : Prop :=
  ssize s = sx s /\
  (forall nk d bx, sbasis s = Some (nk, d, bx) -> sx s = Some bx) /\
  (forall px, spoly s = Some px -> sx s = Some px).

Definition obs_ok (o : obs) : Prop := let '(nk, d, bx, yl, wl) := o in bx = yl /\ bx = wl.

Lemma smem_forallb a caches h :
  smem a caches = true -> forallb (fun c => smem c h) caches = true -> smem a h = true.
Proof.
  unfold smem at 1. intros H1 H2. apply existsb_exists in H1. destruct H1 as (c & Hc & He).
  apply String.eqb_eq in He. subst c. rewrite forallb_forall in H2. apply H2. exact Hc.
Qed.

Lemma handler_preserves caches h s :
  smem "_spline_basis"%string caches = true -> smem "_polynomial"%string caches = true ->
  handler_ok caches h = true -> sinv s -> sinv (apply_handler h s).
Proof.
  intros Cb Cp Hok (I1 & I2 & I3). unfold handler_ok in Hok. unfold sinv, apply_handler. cbn [sx ssize sbasis spoly].
  destruct (smem "x"%string h) eqn:Ex, (smem "_size"%string h) eqn:Es; cbn [orb andb] in Hok; try discriminate.
  - rewrite (smem_forallb _ _ _ Cb Hok), (smem_forallb _ _ _ Cp Hok).
    repeat split; intros; discriminate.
  - repeat split.
    + exact I1.
    + intros nk d bx. destruct (smem "_spline_basis"%string h); [discriminate | apply I2].
    + intros px. destruct (smem "_polynomial"%string h); [discriminate | apply I3].
Qed.

Lemma handlers_preserve caches hs : handlers_ok caches hs = true ->
  forall s, sinv s -> sinv (apply_handlers hs s).
Proof.
  unfold handlers_ok. intros H. apply andb_prop in H. destruct H as [H Cp]. apply andb_prop in H.
  destruct H as [H Cb]. unfold apply_handlers.
  induction hs as [|h hs IH]; intros s Hs; cbn [fold_left]; [exact Hs|].
  cbn [forallb] in H. apply andb_prop in H. destruct H as [Hh Hr].
  apply IH; [exact Hr |]. eapply handler_preserves; eauto.
Qed.

Lemma run_acts_ok caches hs ylen : handlers_ok caches hs = true ->
  forall acts s, sinv s -> ssize s = Some ylen ->
    sinv (fst (run_acts hs ylen acts s)) /\ Forall obs_ok (snd (run_acts hs ylen acts s)).
Proof.
  intros Hok. induction acts as [|a rest IH]; intros s Hs Hy; cbn [run_acts].
  - cbn. split; [exact Hs | constructor].
  - destruct a as [nk d | | |].
    + apply IH; [| exact Hy].
      destruct Hs as (I1 & I2 & I3). unfold sinv. cbn [sx ssize sbasis spoly].
      split; [exact I1|]. split; [| exact I3].
      intros nk0 d0 bx0 E. destruct (sbasis s) as [[[nk' d'] bx']|] eqn:Eb.
      * destruct ((nk' =? nk) && (d' =? d)); inversion E; subst.
        -- eapply I2; reflexivity.
        -- rewrite <- I1, Hy. reflexivity.
      * inversion E; subst. rewrite <- I1, Hy. reflexivity.
    + apply IH; [| exact Hy].
      destruct Hs as (I1 & I2 & I3). unfold sinv. cbn [sx ssize sbasis spoly].
      split; [exact I1|]. split; [exact I2|].
      intros px E. inversion E; subst. rewrite <- I1, Hy. reflexivity.
    + specialize (IH s Hs Hy). destruct (run_acts hs ylen rest s) as [s' o]. cbn [fst snd] in IH.
      destruct IH as [IHs IHo].
      destruct (sbasis s) as [[[nk d] bx]|] eqn:Eb; [| cbn; split; assumption].
      rewrite Hy. cbn [fst snd]. split; [exact IHs|]. constructor; [| exact IHo].
      destruct Hs as (I1 & I2 & I3). specialize (I2 nk d bx Eb).
      unfold obs_ok. rewrite <- I1, Hy in I2. inversion I2. split; reflexivity.
    + cbn [fst snd]. split; [apply (handlers_preserve caches); assumption | constructor].
Qed.

Lemma run_call_ok caches hs n acts s : handlers_ok caches hs = true -> sinv s ->
  sinv (fst (run_call hs n acts s)) /\ Forall obs_ok (snd (run_call hs n acts s)).
Proof.
  intros Hok Hs. unfold run_call. destruct (sx s) as [xl|] eqn:Ex.
  - destruct (ssize s) as [sz|] eqn:Es.
    + destruct (sz =? n) eqn:E.
      * apply (run_acts_ok caches); [exact Hok | exact Hs |]. rewrite Es. f_equal. lia.
      * cbn [fst snd]. split; [apply (handlers_preserve caches); assumption | constructor].
    + cbn [fst snd]. split; [apply (handlers_preserve caches); assumption | constructor].
  - apply (run_acts_ok caches); [exact Hok | | reflexivity].
    destruct Hs as (I1 & I2 & I3). unfold sinv. cbn [sx ssize sbasis spoly].
    split; [reflexivity|]. split.
    + intros nk d bx E. specialize (I2 nk d bx E). congruence.
    + intros px E. specialize (I3 px E). congruence.
Qed.

Theorem history_ok caches hs : handlers_ok caches hs = true ->
  forall calls s, sinv s ->
    Forall sinv (fst (run_history hs calls s)) /\ Forall obs_ok (snd (run_history hs calls s)).
Proof.
  intros Hok. induction calls as [|[n acts] rest IH]; intros s Hs; cbn [run_history].
  - cbn. split; constructor.
  - pose proof (run_call_ok caches hs n acts s Hok Hs) as [H1 H2].
    destruct (run_call hs n acts s) as [s1 o1]. cbn [fst snd] in H1, H2.
    specialize (IH s1 H1). destruct (run_history hs rest s1) as [ss o2]. cbn [fst snd] in *.
    destruct IH as [IH1 IH2]. split; [constructor; assumption | apply Forall_app; split; assumption].
Qed.

Lemma init_sinv x : sinv (init_state x).
Proof. unfold sinv, init_state. cbn. repeat split; intros; discriminate. Qed.

(* the checker is not vacuous: resetting x and _size alone (the caches survive) is rejected, and the model then
   exhibits the stale basis: 400 points, failing call after the basis was cached, then 60 points *)
Lemma stale_basis_example :
  handlers_ok ["_polynomial"; "_spline_basis"]%string [["x"; "_size"]%string] = false /\
  snd (run_history [["x"; "_size"]%string]
         [(400, [ASpline 10 3; ARaise]); (60, [ASpline 10 3; AKernel])] (init_state None))
  = [(10, 3, 400, 60, 60)].
Proof. split; vm_compute; reflexivity. Qed.
