(* C05: the statements of props/C05.v in explicit form (no Hoare-triple abbreviation). *)
From Coq Require Import ZArith List Bool Lia ZifyBool String.
From PB Require Import lib.PySlice C05.PyLen C05.Mon C05.Model C05.Callers C05.Logic C05.Proofs C05.ProofsDF
                       C05.ProofsBZ C05.CallerProofs C05.ProofsSeg C05.Sigs gen.GenKernels.
Import ListNotations.
Open Scope Z_scope.

Definition logof {A} (r : A * list bool * list ev) : list ev := snd r.
Definition resof {A} (r : A * list bool * list ev) : A := fst (fst r).

Lemma spec_run {A} (m : M A) (Q : A -> Prop) :
  spec m Q -> forall o, all_okb (logof (m o)) = true /\ Q (resof (m o)).
Proof.
  intros H o. destruct (H o) as [HF HQ]. split; [| exact HQ].
  unfold all_okb, logof. apply forallb_forall. rewrite Forall_forall in HF. exact HF.
Qed.

Lemma spec_run_log {A} (m : M A) (Q : A -> Prop) :
  spec m Q -> forall o, all_okb (logof (m o)) = true.
Proof. intros H o. apply (spec_run m Q H o). Qed.

Lemma find_interval_final nk degree last_left num_bases (o : list bool) :
  0 <= degree -> degree + 1 <= num_bases -> num_bases + degree + 1 <= nk ->
  all_okb (logof (find_interval nk degree last_left num_bases o)) = true /\
  degree <= resof (find_interval nk degree last_left num_bases o) <= num_bases - 1.
Proof. intros. apply (spec_run _ _ (find_interval_spec nk degree last_left num_bases H H0 H1)). Qed.

Lemma de_boor_final nk degree left nw num_bases (o : list bool) :
  0 <= degree -> degree <= left <= num_bases - 1 -> num_bases + degree + 1 <= nk ->
  2 * (degree + 1) <= nw ->
  all_okb (logof (de_boor nk degree left nw o)) = true.
Proof. intros. eapply spec_run_log. eapply de_boor_spec; eauto. Qed.

Lemma design_matrix_final nx nk degree (o : list bool) :
  0 <= degree -> 0 <= nx -> degree + 1 <= nk - (degree + 1) ->
  all_okb (logof (design_matrix nx nk degree o)) = true.
Proof. intros. eapply spec_run_log. eapply design_matrix_spec; eauto. Qed.

Lemma btb_bty_final nx nk degree ny nwt ab0 ab1 nrhs nbd (o : list bool) :
  0 <= degree -> 0 <= nx -> degree + 1 <= nk - (degree + 1) ->
  nx <= ny -> nx <= nwt -> degree + 1 <= ab0 -> nk - (degree + 1) <= ab1 -> nk - (degree + 1) <= nrhs ->
  nbd = nx * (degree + 1) ->
  all_okb (logof (btb_bty nx nk degree ny nwt ab0 ab1 nrhs nbd o)) = true.
Proof. intros. eapply spec_run_log. eapply btb_bty_spec; eauto. Qed.

Lemma determine_fits_final num_x total_points (o : list bool) :
  1 <= total_points <= num_x ->
  all_okb (logof (determine_fits num_x total_points o)) = true /\
  (let '(windows, fits, skips) := resof (determine_fits num_x total_points o) in
   Forall (fun w => 0 <= fst w /\ snd w <= num_x /\ snd w - fst w = total_points) windows /\
   Forall (fun f => 0 <= f < num_x) fits /\ lenz windows = lenz fits /\
   Forall (fun s => 0 <= fst s /\ fst s < snd s /\ snd s <= num_x) skips).
Proof. intros. apply (spec_run _ _ (determine_fits_spec num_x total_points H)). Qed.

Lemma fill_skips_final n skips (o : list bool) :
  Forall (fun s => 0 <= fst s /\ fst s < snd s /\ snd s <= n) skips ->
  all_okb (logof (fill_skips n n skips o)) = true.
Proof. intros. eapply spec_run_log. eapply fill_skips_spec; eauto. Qed.

Lemma interp_inplace_final ax ay n (o : list bool) :
  1 <= n -> all_okb (logof (interp_inplace ax n ay n o)) = true.
Proof. intros. eapply spec_run_log. eapply interp_inplace_spec; eauto. Qed.

Lemma loess_loop_final mode n tp c1 windows fits (o : list bool) :
  1 <= tp -> 1 <= c1 ->
  Forall (fun w => 0 <= fst w /\ snd w <= n /\ snd w - fst w = tp) windows ->
  Forall (fun f => 0 <= f < n) fits -> lenz windows = lenz fits ->
  all_okb (logof (loess_loop mode n n n n c1 n c1 n n tp windows fits o)) = true.
Proof. intros. eapply spec_run_log. eapply loess_loop_spec; eauto. Qed.

Lemma dmma_final ny data_len half_window (o : list bool) :
  0 <= half_window -> 1 <= data_len <= ny ->
  all_okb (logof (dmma ny data_len half_window o)) = true.
Proof. intros. eapply spec_run_log. eapply dmma_spec; eauto. Qed.

Lemma rolling_std_final num_y half_window (o : list bool) :
  0 <= half_window -> 2 * half_window + 1 <= num_y ->
  all_okb (logof (rolling_std num_y half_window o)) = true.
Proof. intros. eapply spec_run_log. eapply rolling_std_spec; eauto. Qed.

Lemma banded_dot_banded_final a0 n1a b0 n1b c0 n1c a_lower a_upper b_lower b_upper c_upper n lower_bound
      (o : list bool) :
  0 <= a_lower -> 0 <= a_upper -> 0 <= b_lower -> 0 <= b_upper -> 0 <= n ->
  a_lower + a_upper + 1 <= a0 -> b_lower + b_upper + 1 <= b0 -> n <= n1a -> n <= n1b -> n <= n1c ->
  c_upper = Z.min (a_upper + b_upper) (n - 1) ->
  Z.min (a_lower + b_lower) (n - 1) + c_upper + 1 <= c0 ->
  all_okb (logof (banded_dot_banded a0 n1a b0 n1b c0 n1c a_lower a_upper b_lower b_upper c_upper n
                                    lower_bound o)) = true.
Proof. intros. eapply spec_run_log. eapply banded_dot_banded_spec; eauto. Qed.

(* ---- callers *)
Lemma loess_public_final mode n total_points poly_order (o : list bool) :
  loess_rejects total_points poly_order n = false -> 0 <= poly_order ->
  all_okb (logof (loess_pipeline mode n total_points poly_order o)) = true.
Proof. intros. eapply spec_run_log. eapply loess_public; eauto. Qed.

Lemma btb_bty_public_final n num_knots degree (o : list bool) :
  spline_knots_rejects num_knots = false -> spline_basis_rejects degree = false -> 0 <= n ->
  all_okb (logof (btb_bty_call n num_knots degree (n * (degree + 1)) o)) = true.
Proof. intros. eapply spec_run_log. eapply btb_bty_public; eauto. Qed.

Lemma design_public_final n num_knots degree (o : list bool) :
  spline_knots_rejects num_knots = false -> spline_basis_rejects degree = false -> 0 <= n ->
  all_okb (logof (design_call n num_knots degree o)) = true.
Proof. intros. eapply spec_run_log. eapply design_public; eauto. Qed.

Lemma peak_filling_public_final size sections half_win left_pad right_pad h (o : list bool) :
  (pf_sections_rejects sections size = false \/ (sections = pf_default_sections size /\ 10 <= size)) ->
  1 <= half_win -> 0 <= left_pad <= 1 -> 0 <= right_pad <= 1 ->
  (* h: any entry of the schedule; the first one is pf_half_win half_win sections *)
  (h = pf_half_win half_win sections \/ 1 <= h) ->
  1 <= h /\ all_okb (logof (pf_kernel_call2 sections left_pad right_pad h o)) = true.
Proof.
  intros Hs Hh Hl Hr Hsch.
  assert (H1 : 1 <= sections).
  { destruct Hs as [G | [-> G]]; [apply pf_sections_guard in G; lia | apply pf_default_guard in G; lia]. }
  assert (H2 : 1 <= h) by (destruct Hsch as [-> | ?]; [apply pf_half_win_ge1; exact Hh | assumption]).
  split; [exact H2 |]. eapply spec_run_log. apply pf_kernel_public2; lia.
Qed.

Lemma peak_filling_sequence_rejected_final : pf_seq_data_len_is_int = false.
Proof. exact pf_sequence_rejected. Qed.

Lemma peak_filling_sequence_final k uniq size left_pad right_pad h (o : list bool) :
  0 <= k -> 2 <= uniq <= k + 2 -> 1 <= size -> 0 <= left_pad <= 1 -> 0 <= right_pad <= 1 -> 0 <= h ->
  all_okb (logof (pf_seq_kernel_call k uniq size left_pad right_pad h o)) = true.
Proof. intros. eapply spec_run_log. apply pf_seq_kernel_public; assumption. Qed.

Lemma rolling_std_public_final n half_window (o : list bool) :
  1 <= n -> 0 <= half_window -> all_okb (logof (rolling_std_call n half_window o)) = true.
Proof. intros. eapply spec_run_log. eapply rolling_std_public; eauto. Qed.

Lemma bdb_public_final n a_lower a_upper b_lower b_upper symmetric (o : list bool) :
  0 <= n -> 0 <= a_lower -> 0 <= a_upper -> 0 <= b_lower -> 0 <= b_upper ->
  all_okb (logof (bdb_call n a_lower a_upper b_lower b_upper symmetric o)) = true.
Proof. intros. eapply spec_run_log. eapply bdb_public; eauto. Qed.

Lemma bezier_final nx ny indices (o : list bool) :
  (forall k, 0 <= k < lenz indices ->
     0 <= nthz indices k 0 < nx /\ (k + 1 < lenz indices -> nthz indices k 0 < nthz indices (k + 1) 0)) ->
  all_okb (logof (bezier nx ny indices o)) = true.
Proof. intros H. eapply spec_run_log. apply bezier_spec. exact H. Qed.

Lemma corner_cutting_public_final n indices (o : list bool) :
  (forall k, 0 <= k < lenz indices ->
     0 <= nthz indices k 0 < n /\ (k + 1 < lenz indices -> nthz indices k 0 < nthz indices (k + 1) 0)) ->
  all_okb (logof (corner_cutting_call n indices o)) = true.
Proof. intros H. eapply spec_run_log. apply corner_cutting_public. exact H. Qed.

Lemma np_lengths_final :
  (forall penalized num_knots degree, spline_knots_len penalized num_knots degree = num_knots + 2 * degree) /\
  (forall n half_window, prs_padded_len n half_window = n + 2 * half_window) /\
  (forall sections left_pad right_pad, pf_y_len sections left_pad right_pad = sections + left_pad + right_pad).
Proof.
  split; [exact spline_knots_len_eq|]. split; [intros; unfold prs_padded_len; lia | intros; unfold pf_y_len; lia].
Qed.

Lemma find_peak_segments_final (mask : list bool) :
  Forall (fun se => 0 <= fst se /\ fst se <= snd se /\ snd se <= lenz mask - 1) (find_peak_segments mask).
Proof. exact (find_peak_segments_ok mask). Qed.

Lemma averaged_interp_final (mask : list bool) (o : list bool) :
  all_okb (logof (averaged_interp mask o)) = true.
Proof. eapply spec_run_log. apply averaged_interp_spec. Qed.

(* safe events stay inside the memory of their arrays; a Stuck event never occurs in a safe log *)
Lemma ok_means e :
  ev_okb e = true ->
  match e with
  | Acc _ _ cs => Forall (fun c => match c with
                                   | CI i len => 0 <= i < len
                                   | CN i len => - len <= i < 0
                                   | CS _ _ _ => True end) cs
  | Fit n m => n = m
  | Stuck => False
  end.
Proof.
  destruct e as [w a cs | n m |]; cbn [ev_okb]; intros H.
  - rewrite forallb_forall in H. apply Forall_forall. intros c Hc. specialize (H c Hc).
    destruct c; cbn in H; try lia; exact I.
  - lia.
  - discriminate.
Qed.

(* non-vacuity *)
Lemma loess_guard_nonvacuous : loess_rejects 4 1 4 = false /\ 0 <= 1.
Proof. vm_compute. split; [reflexivity | discriminate]. Qed.
Lemma spline_guard_nonvacuous : spline_knots_rejects 2 = false /\ spline_basis_rejects 0 = false.
Proof. vm_compute. split; reflexivity. Qed.
Lemma pf_guard_nonvacuous : pf_sections_rejects 2 25 = false /\ pf_half_win 5 2 = 1 /\ pf_default_sections 25 = 2.
Proof. vm_compute. repeat split; reflexivity. Qed.
