(* C05: np.flatnonzero returns strictly increasing positions inside the mask, for EVERY mask; hence the
   corner_cutting kernel call is safe without any hypothesis on the index array. *)
From Coq Require Import ZArith List Bool Lia ZifyBool.
From PB Require Import lib.PySlice C05.Mon C05.Model C05.Callers C05.Logic C05.Proofs C05.ProofsBZ
                       C05.CallerProofs C05.ProofsSeg C05.Final C05.Fnz.
Import ListNotations.
Open Scope Z_scope.

Lemma fnz_chain l : forall i, chain i (i + lenz l) (fnz_from i l).
Proof.
  induction l as [|m t IH]; intros i; cbn [fnz_from]; [exact I|].
  assert (E : i + lenz (m :: t) = (i + 1) + lenz t) by (unfold lenz; cbn [length]; lia).
  rewrite E. specialize (IH (i + 1)). destruct m; cbn [app chain].
  - split; [unfold lenz; lia | exact IH].
  - eapply chain_weaken; [| exact IH]. lia.
Qed.

Lemma nthz_cons {A} (a : A) t k d : 0 < k -> nthz (a :: t) k d = nthz t (k - 1) d.
Proof.
  intros Hk. unfold nthz. destruct (k <? 0) eqn:E1; [lia|]. destruct (k - 1 <? 0) eqn:E2; [lia|].
  replace (Z.to_nat k) with (S (Z.to_nat (k - 1))) by lia. reflexivity.
Qed.

Lemma chain_nth hi l : forall lo k, chain lo hi l -> 0 <= k < lenz l ->
  lo <= nthz l k 0 < hi /\ (k + 1 < lenz l -> nthz l k 0 < nthz l (k + 1) 0).
Proof.
  induction l as [|a t IH]; intros lo k Hc Hk; [unfold lenz in Hk; cbn in Hk; lia|].
  destruct Hc as [Ha Ht].
  assert (Hl : lenz (a :: t) = lenz t + 1) by (unfold lenz; cbn [length]; lia).
  destruct (Z.eq_dec k 0) as [-> | Hk0].
  - change (nthz (a :: t) 0 0) with a. split; [exact Ha|]. intros H1.
    rewrite nthz_cons by lia. replace (0 + 1 - 1) with 0 by lia.
    destruct (IH (a + 1) 0 Ht ltac:(lia)) as [H2 _]. lia.
  - rewrite nthz_cons by lia. destruct (IH (a + 1) (k - 1) Ht ltac:(lia)) as [H2 H3].
    split; [lia|]. intros H1. rewrite nthz_cons by lia. replace (k + 1 - 1) with (k - 1 + 1) by lia.
    apply H3. lia.
Qed.

Theorem flatnonzero_sorted mask : idx_sorted (lenz mask) (flatnonzero mask).
Proof.
  unfold idx_sorted, flatnonzero. intros k Hk.
  pose proof (fnz_chain mask 0) as Hc. replace (0 + lenz mask) with (lenz mask) in Hc by lia.
  destruct (chain_nth (lenz mask) (fnz_from 0 mask) 0 k Hc Hk) as [H1 H2]. split; [lia | exact H2].
Qed.

Lemma corner_cutting_mask_final (mask : list bool) (o : list bool) :
  all_okb (logof (corner_cutting_mask_call mask o)) = true.
Proof.
  unfold corner_cutting_mask_call. eapply spec_run_log. apply corner_cutting_public. apply flatnonzero_sorted.
Qed.

Lemma flatnonzero_final (mask : list bool) :
  forall k, 0 <= k < lenz (flatnonzero mask) ->
    0 <= nthz (flatnonzero mask) k 0 < lenz mask /\
    (k + 1 < lenz (flatnonzero mask) -> nthz (flatnonzero mask) k 0 < nthz (flatnonzero mask) (k + 1) 0).
Proof. exact (flatnonzero_sorted mask). Qed.
