(* C05: a small Hoare logic over the access-logging monad.
   spec m Q : for EVERY oracle, every logged event is safe and the result satisfies Q. *)
From Coq Require Import ZArith List Bool Lia ZifyBool.
From PB Require Import lib.PySlice C05.Mon.
Import ListNotations.
Open Scope Z_scope.

Definition spec {A} (m : M A) (Q : A -> Prop) : Prop :=
  forall o, Forall ev_ok (snd (m o)) /\ Q (fst (fst (m o))).

Lemma spec_ret {A} (a : A) (Q : A -> Prop) : Q a -> spec (ret a) Q.
Proof. intros H o. cbn. split; [constructor | exact H]. Qed.

Lemma spec_bind {A B} (m : M A) (f : A -> M B) (P : A -> Prop) (Q : B -> Prop) :
  spec m P -> (forall a, P a -> spec (f a) Q) -> spec (bind m f) Q.
Proof.
  intros Hm Hf o. unfold bind.
  specialize (Hm o). destruct (m o) as [[a o1] l1]. cbn in Hm. destruct Hm as [Hl Hp].
  specialize (Hf a Hp o1). destruct (f a o1) as [[b o2] l2]. cbn in *.
  destruct Hf as [Hl2 Hq]. split; [apply Forall_app; split; assumption | exact Hq].
Qed.

Lemma spec_conseq {A} (m : M A) (P Q : A -> Prop) :
  spec m P -> (forall a, P a -> Q a) -> spec m Q.
Proof. intros H HPQ o. destruct (H o). split; auto. Qed.

Lemma spec_tell e (Q : unit -> Prop) : ev_okb e = true -> Q tt -> spec (tell e) Q.
Proof. intros He HQ o. cbn. split; [repeat constructor; exact He | exact HQ]. Qed.

Lemma spec_tell_bind {B} e (f : unit -> M B) (Q : B -> Prop) :
  ev_okb e = true -> spec (f tt) Q -> spec (bind (tell e) f) Q.
Proof.
  intros He Hf. eapply spec_bind with (P := fun _ => True).
  - apply spec_tell; auto.
  - intros [] _. exact Hf.
Qed.

Lemma spec_ask_bind {B} (f : bool -> M B) (Q : B -> Prop) :
  (forall b, spec (f b) Q) -> spec (bind ask f) Q.
Proof.
  intros Hf. eapply spec_bind with (P := fun _ => True).
  - intros o. destruct o; cbn; split; auto.
  - intros b _. apply Hf.
Qed.

Lemma spec_for_n {St} (Inv : Z -> St -> Prop) (body : Z -> St -> M St) :
  forall n lo s,
    Inv lo s ->
    (forall i s, lo <= i < lo + Z.of_nat n -> Inv i s -> spec (body i s) (Inv (i + 1))) ->
    spec (for_n n lo body s) (Inv (lo + Z.of_nat n)).
Proof.
  induction n as [|n IH]; intros lo s H0 Hb.
  - cbn [for_n]. apply spec_ret. replace (lo + Z.of_nat 0) with lo by lia. exact H0.
  - cbn [for_n]. eapply spec_bind.
    + apply Hb; [lia | exact H0].
    + intros s1 H1. replace (lo + Z.of_nat (S n)) with ((lo + 1) + Z.of_nat n) by lia.
      apply IH; [exact H1 |]. intros i s' Hi. apply Hb. lia.
Qed.

Lemma spec_for {St} (Inv : Z -> St -> Prop) lo hi (body : Z -> St -> M St) s :
  Inv lo s ->
  (forall i s, lo <= i < hi -> Inv i s -> spec (body i s) (Inv (i + 1))) ->
  spec (for_range lo hi body s) (Inv (Z.max lo hi)).
Proof.
  intros H0 Hb. unfold for_range.
  replace (Z.max lo hi) with (lo + Z.of_nat (Z.to_nat (hi - lo))) by lia.
  apply spec_for_n; [exact H0 |]. intros i s' Hi. apply Hb. lia.
Qed.

(* stateless loop: every iteration is safe *)
Lemma spec_for_ lo hi (body : Z -> M unit) (Q : unit -> Prop) :
  (forall i, lo <= i < hi -> spec (body i) (fun _ => True)) -> Q tt ->
  spec (for_range_ lo hi body) Q.
Proof.
  intros Hb HQ. unfold for_range_.
  eapply spec_conseq.
  - apply spec_for with (Inv := fun _ _ => True); [exact I |]. intros i s Hi _. apply Hb. exact Hi.
  - intros [] _. exact HQ.
Qed.

Lemma spec_while {St} (Inv Post : St -> Prop) (mu : St -> Z) (step : St -> M (St + St)) :
  (forall s, Inv s ->
     spec (step s) (fun r => match r with
                             | inl s1 => Inv s1 /\ 0 <= mu s1 < mu s
                             | inr s1 => Post s1 end)) ->
  forall fuel s, Inv s -> mu s < Z.of_nat fuel -> 0 <= mu s -> spec (while_n fuel step s) Post.
Proof.
  intros Hs. induction fuel as [|f IH]; intros s Hi Hm H0.
  - lia.
  - cbn [while_n]. eapply spec_bind; [apply Hs; exact Hi |].
    intros [s1 | s1] H1.
    + destruct H1 as [Hi1 Hm1]. apply IH; [exact Hi1 | lia | lia].
    + apply spec_ret. exact H1.
Qed.

Lemma spec_if {A} (b : bool) (m1 m2 : M A) (Q : A -> Prop) :
  (b = true -> spec m1 Q) -> (b = false -> spec m2 Q) -> spec (if b then m1 else m2) Q.
Proof. destruct b; auto. Qed.

(* ---- automation --------------------------------------------------------------------- *)
Ltac evok := cbn [ev_okb comp_okb forallb]; lia.

Lemma spec_ret_bind {A B} (a : A) (f : A -> M B) (Q : B -> Prop) :
  spec (f a) Q -> spec (bind (ret a) f) Q.
Proof.
  intros Hf. eapply spec_bind with (P := fun x => x = a).
  - apply spec_ret. reflexivity.
  - intros x ->. exact Hf.
Qed.

Lemma spec_bind_assoc {A B C} (m : M A) (f : A -> M B) (g : B -> M C) (Q : C -> Prop) :
  spec (bind m (fun a => bind (f a) g)) Q -> spec (bind (bind m f) g) Q.
Proof.
  intros H o. specialize (H o). unfold bind in *.
  destruct (m o) as [[a o1] l1]. destruct (f a o1) as [[b o2] l2]. destruct (g b o2) as [[c o3] l3].
  cbn in *. rewrite <- app_assoc. exact H.
Qed.

Lemma spec_ask (Q : bool -> Prop) : (forall b, Q b) -> spec ask Q.
Proof. intros H o. destruct o; cbn; split; auto. Qed.

Lemma spec_for__bind {B} lo hi (body : Z -> M unit) (f : unit -> M B) (Q : B -> Prop) :
  (forall i, lo <= i < hi -> spec (body i) (fun _ => True)) -> spec (f tt) Q ->
  spec (bind (for_range_ lo hi body) f) Q.
Proof.
  intros Hb Hf. eapply spec_bind with (P := fun _ => True).
  - apply spec_for_; [exact Hb | exact I].
  - intros [] _. exact Hf.
Qed.

Lemma spec_for__true lo hi (body : Z -> M unit) :
  (forall i, lo <= i < hi -> spec (body i) (fun _ => True)) ->
  spec (for_range_ lo hi body) (fun _ => True).
Proof. intros Hb. apply spec_for_; [exact Hb | exact I]. Qed.

Ltac mstep :=
  lazymatch goal with
  | |- spec (bind (bind _ _) _) _ => apply spec_bind_assoc
  | |- spec (bind (for_range_ _ _ _) _) _ => apply spec_for__bind; [intros ?i ?Hi |]
  | |- spec (for_range_ _ _ _) (fun _ => True) => apply spec_for__true; intros ?i ?Hi
  | |- spec (bind (tell _) _) _ => apply spec_tell_bind; [try evok |]
  | |- spec (bind (rd _ _ _) _) _ => unfold rd at 1
  | |- spec (bind (wr _ _ _) _) _ => unfold wr at 1
  | |- spec (bind (rdn _ _ _) _) _ => unfold rdn at 1
  | |- spec (bind (rd2 _ _ _ _ _) _) _ => unfold rd2 at 1
  | |- spec (bind (wr2 _ _ _ _ _) _) _ => unfold wr2 at 1
  | |- spec (bind (rds _ _ _ _) _) _ => unfold rds at 1
  | |- spec (bind (wrs _ _ _ _) _) _ => unfold wrs at 1
  | |- spec (bind (fit _ _) _) _ => unfold fit at 1
  | |- spec (bind ask _) _ => apply spec_ask_bind; intros ?b
  | |- spec (rd _ _ _) _ => unfold rd
  | |- spec (wr _ _ _) _ => unfold wr
  | |- spec (rdn _ _ _) _ => unfold rdn
  | |- spec (rd2 _ _ _ _ _) _ => unfold rd2
  | |- spec (wr2 _ _ _ _ _) _ => unfold wr2
  | |- spec (rds _ _ _ _) _ => unfold rds
  | |- spec (wrs _ _ _ _) _ => unfold wrs
  | |- spec (fit _ _) _ => unfold fit
  | |- spec (ret _) _ => apply spec_ret
  | |- spec ask _ => apply spec_ask; intros ?b
  | |- spec (tell _) _ => apply spec_tell; [try evok |]
  | |- spec (if ?b then _ else _) _ => destruct b eqn:?
  | |- spec (bind (if ?b then _ else _) _) _ => destruct b eqn:?
  | |- spec (bind (ret _) _) _ => apply spec_ret_bind
  end.
Ltac msteps := repeat mstep.

(* ---- list helpers --------------------------------------------------------------------- *)
Lemma upd_length {A} (l : list A) i v : length (upd l i v) = length l.
Proof. revert i; induction l; destruct i; cbn; auto. Qed.

Lemma firstn_upd_snoc {A} (l : list A) n v :
  (n < length l)%nat -> firstn (S n) (upd l n v) = firstn n l ++ [v].
Proof.
  revert n; induction l as [|h t IH]; intros n Hn; cbn in Hn; [lia|].
  destruct n; cbn [upd firstn app].
  - reflexivity.
  - f_equal. apply IH. lia.
Qed.

Lemma firstn_upd_ge {A} (l : list A) n k v : (n <= k)%nat -> firstn n (upd l k v) = firstn n l.
Proof.
  revert n k; induction l as [|h t IH]; intros n k H; [destruct k; reflexivity|].
  destruct n; [reflexivity|]. destruct k; [lia|]. cbn. f_equal. apply IH. lia.
Qed.

Lemma lenz_updz {A} (l : list A) i v : lenz (updz l i v) = lenz l.
Proof. unfold lenz, updz. destruct (i <? 0); [reflexivity|]. now rewrite upd_length. Qed.

Lemma firstz_updz_snoc {A} (l : list A) n v :
  0 <= n < lenz l -> firstz (n + 1) (updz l n v) = firstz n l ++ [v].
Proof.
  unfold lenz, firstz, updz. intros H. destruct (n <? 0) eqn:E; [lia|].
  replace (Z.to_nat (n + 1)) with (S (Z.to_nat n)) by lia. apply firstn_upd_snoc. lia.
Qed.

Lemma firstz_updz_ge {A} (l : list A) n k v : 0 <= n <= k -> firstz n (updz l k v) = firstz n l.
Proof.
  unfold firstz, updz. intros H. destruct (k <? 0) eqn:E; [lia|]. apply firstn_upd_ge. lia.
Qed.

Lemma lenz_firstz {A} (l : list A) n : 0 <= n <= lenz l -> lenz (firstz n l) = n.
Proof. unfold lenz, firstz. intros H. rewrite firstn_length. lia. Qed.
