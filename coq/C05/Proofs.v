(* C05: index-safety proofs of the kernel models, for all lengths, parameters and oracle outcomes. *)
From Coq Require Import ZArith List Bool Lia ZifyBool.
From PB Require Import lib.PySlice C05.Mon C05.Model C05.Logic.
Import ListNotations.
Open Scope Z_scope.

Ltac Zify.zify_post_hook ::= Z.to_euclidean_division_equations.

Ltac slen := unfold sl_len, sl_start, sl_stop, clamp, oS in *.

Lemma sl_len_in n a b : 0 <= a <= b -> b <= n -> sl_len n (oS a) (oS b) = b - a.
Proof. intros. slen. destruct (b <? 0) eqn:?, (a <? 0) eqn:?; lia. Qed.
Lemma sl_len_to n b : 0 <= b <= n -> sl_len n None (oS b) = b.
Proof. intros. slen. destruct (b <? 0) eqn:?; lia. Qed.

(* ---------------------------------------------------------------- _find_interval *)
Lemma find_interval_spec nk degree last_left num_bases :
  0 <= degree -> degree + 1 <= num_bases -> num_bases + degree + 1 <= nk ->
  spec (find_interval nk degree last_left num_bases) (fun r => degree <= r <= num_bases - 1).
Proof.
  intros Hd Hb Hk. unfold find_interval.
  set (left0 := if (degree <? last_left) && (last_left <? num_bases) then last_left else degree).
  assert (H0 : degree <= left0 <= num_bases - 1).
  { subst left0. destruct ((degree <? last_left) && (last_left <? num_bases)) eqn:E; lia. }
  clearbody left0.
  eapply spec_bind.
  - apply (spec_while (fun l => degree <= l <= num_bases - 1) (fun l => degree <= l <= num_bases - 1)
                      (fun l => l - degree)); [| exact H0 | lia | lia].
    intros l Hl. msteps; lia.
  - intros l1 H1. cbv beta in H1. eapply spec_bind.
    + apply (spec_while (fun l => degree + 1 <= l <= num_bases) (fun l => degree + 1 <= l <= num_bases)
                        (fun l => num_bases - l)); [| lia | lia | lia].
      intros l Hl. msteps; lia.
    + intros l2 H2. cbv beta in H2. apply spec_ret. lia.
Qed.

(* ---------------------------------------------------------------- _de_boor *)
Lemma de_boor_spec nk degree left nw num_bases :
  0 <= degree -> degree <= left <= num_bases - 1 -> num_bases + degree + 1 <= nk ->
  2 * (degree + 1) <= nw ->
  spec (de_boor nk degree left nw) (fun _ => True).
Proof.
  intros Hd Hl Hk Hw. unfold de_boor. msteps; try lia; try exact I.
Qed.

(* ---------------------------------------------------------------- _numba_btb_bty *)
Lemma btb_bty_spec nx nk degree ny nwt ab0 ab1 nrhs nbd :
  0 <= degree -> 0 <= nx -> degree + 1 <= nk - (degree + 1) ->
  nx <= ny -> nx <= nwt -> degree + 1 <= ab0 -> nk - (degree + 1) <= ab1 -> nk - (degree + 1) <= nrhs ->
  nbd = nx * (degree + 1) ->
  spec (btb_bty nx nk degree ny nwt ab0 ab1 nrhs nbd) (fun _ => True).
Proof.
  intros Hd Hnx Hb Hy Hw Hab0 Hab1 Hrhs Hbd. unfold btb_bty.
  set (order := degree + 1) in *. set (num_bases := nk - order) in *.
  eapply spec_bind.
  - apply (spec_for (fun i (st : Z * Z) => fst st = i * order /\ degree <= snd st <= num_bases - 1)).
    + cbn [fst snd]. lia.
    + intros i [idx lk] Hi [H1 H2]. cbn [fst snd] in H1, H2. cbv beta iota.
      msteps; try lia.
      eapply spec_bind; [apply find_interval_spec; lia |].
      intros l' Hl'. cbv beta in Hl'.
      msteps; try lia; try exact I.
      * subst idx nbd. rewrite sl_len_to by lia. rewrite sl_len_in by nia. cbn [ev_okb]. lia.
      * cbn [fst snd]. lia.
  - intros st _. apply spec_ret. exact I.
Qed.

(* ---------------------------------------------------------------- __make_design_matrix *)
Lemma design_matrix_spec nx nk degree :
  0 <= degree -> 0 <= nx -> degree + 1 <= nk - (degree + 1) ->
  spec (design_matrix nx nk degree) (fun _ => True).
Proof.
  intros Hd Hnx Hb. unfold design_matrix.
  set (order := degree + 1) in *. set (num_bases := nk - order) in *.
  eapply spec_bind.
  - apply (spec_for (fun i (st : Z * Z) => fst st = i * order /\ degree <= snd st <= num_bases - 1)).
    + cbn [fst snd]. lia.
    + intros i [idx lk] Hi [H1 H2]. cbn [fst snd] in H1, H2. cbv beta iota.
      msteps; try lia.
      eapply spec_bind; [apply find_interval_spec; lia |].
      intros l' Hl'. cbv beta in Hl'.
      eapply spec_bind; [apply (de_boor_spec _ _ _ _ num_bases); lia |].
      intros [] _.
      assert (E1 : sl_len (nx * order) (oS idx) (oS (idx + order)) = order)
        by (subst idx; rewrite sl_len_in by nia; lia).
      assert (E2 : sl_len (2 * order) None (oS order) = order) by (rewrite sl_len_to by lia; lia).
      rewrite E1, E2.
      msteps; try lia; try exact I.
      cbn [fst snd]. lia.
  - intros st _. apply spec_ret. exact I.
Qed.

(* ---------------------------------------------------------------- _directional_min_moving_avg *)
Lemma dmma_spec ny data_len half_window :
  0 <= half_window -> 1 <= data_len <= ny ->
  spec (dmma ny data_len half_window) (fun _ => True).
Proof.
  intros Hh Hn. unfold dmma.
  set (hw := if half_window >? (data_len - 1) / 2 then (data_len - 1) / 2 else half_window).
  assert (Hhw : 0 <= hw /\ 2 * hw + 1 <= data_len).
  { subst hw. destruct (half_window >? (data_len - 1) / 2) eqn:E; lia. }
  clearbody hw. do 2 mstep.
  eapply spec_bind.
  { apply (spec_for (fun i last => last = 2 * i - 1)); [lia|].
    intros i last Hi Hl. subst last. msteps; try lia; try exact I. }
  intros last1 _. mstep.
  { msteps; try lia; exact I. }
  eapply spec_bind.
  { apply (spec_for (fun i last => last = 2 * hw + 1 - 2 * (i - (data_len - hw)))); [lia|].
    intros i last Hi Hl. subst last. msteps; try lia; try exact I. }
  intros last2 _. apply spec_ret. exact I.
Qed.

(* ---------------------------------------------------------------- _rolling_std *)
Lemma rolling_std_spec num_y half_window :
  0 <= half_window -> 2 * half_window + 1 <= num_y ->
  spec (rolling_std num_y half_window) (fun _ => True).
Proof.
  intros Hh Hn. unfold rolling_std. msteps; try lia; try exact I.
Qed.

(* ---------------------------------------------------------------- _numba_banded_dot_banded *)
(* either the innermost range is empty or all subscripts are in range; includes
   a_upper + b_upper > n - 1 (then c_upper = n - 1 and the extra o_c have empty frame ranges) *)
Lemma banded_dot_banded_spec a0 n1a b0 n1b c0 n1c a_lower a_upper b_lower b_upper c_upper n lower_bound :
  0 <= a_lower -> 0 <= a_upper -> 0 <= b_lower -> 0 <= b_upper -> 0 <= n ->
  a_lower + a_upper + 1 <= a0 -> b_lower + b_upper + 1 <= b0 -> n <= n1a -> n <= n1b -> n <= n1c ->
  c_upper = Z.min (a_upper + b_upper) (n - 1) ->
  Z.min (a_lower + b_lower) (n - 1) + c_upper + 1 <= c0 ->
  spec (banded_dot_banded a0 n1a b0 n1b c0 n1c a_lower a_upper b_lower b_upper c_upper n lower_bound)
       (fun _ => True).
Proof.
  intros. unfold banded_dot_banded. msteps; try lia; try exact I.
Qed.

(* ---------------------------------------------------------------- _interp_inplace *)
Lemma interp_inplace_spec ax nx ay ny :
  1 <= nx -> nx = ny -> spec (interp_inplace ax nx ay ny) (fun _ => True).
Proof.
  intros H1 H2. subst ny. unfold interp_inplace. msteps; try lia; exact I.
Qed.

Lemma nthz_Forall {A} (P : A -> Prop) (l : list A) i d :
  Forall P l -> 0 <= i < lenz l -> P (nthz l i d).
Proof.
  intros HF Hi. unfold nthz, lenz in *. destruct (i <? 0) eqn:E; [lia|].
  rewrite Forall_forall in HF. apply HF. apply nth_In. lia.
Qed.

(* ---------------------------------------------------------------- _fill_skips *)
Definition skip_ok (n : Z) (s : Z * Z) : Prop := 0 <= fst s /\ fst s < snd s /\ snd s <= n.

Lemma fill_skips_spec n skips :
  Forall (skip_ok n) skips -> spec (fill_skips n n skips) (fun _ => True).
Proof.
  intros HF. unfold fill_skips. apply spec_for__true. intros i Hi.
  pose proof (nthz_Forall _ _ i (0, 0) HF Hi) as Hs.
  destruct (nthz skips i (0, 0)) as [lft rgt]. unfold skip_ok in Hs. cbn [fst snd] in Hs.
  msteps; try lia.
  apply interp_inplace_spec; rewrite sl_len_in by lia; lia.
Qed.

(* ---------------------------------------------------------------- _loess_* loops *)
Definition window_ok (n total_points : Z) (w : Z * Z) : Prop :=
  0 <= fst w /\ snd w <= n /\ snd w - fst w = total_points.

Lemma loess_loop_spec mode n tp c1 windows fits :
  1 <= tp -> 1 <= c1 ->
  Forall (window_ok n tp) windows -> Forall (fun f => 0 <= f < n) fits -> lenz windows = lenz fits ->
  spec (loess_loop mode n n n n c1 n c1 n n tp windows fits) (fun _ => True).
Proof.
  intros Ht Hc HW HF HL. unfold loess_loop. apply spec_for__true. intros idx Hidx.
  pose proof (nthz_Forall _ _ idx 0 HF Hidx) as Hf. cbv beta in Hf.
  assert (Hidx' : 0 <= idx < lenz windows) by lia.
  pose proof (nthz_Forall _ _ idx (0, 0) HW Hidx') as Hw.
  destruct (nthz windows idx (0, 0)) as [lft rgt]. unfold window_ok in Hw. cbn [fst snd] in Hw.
  assert (E : sl_len n (oS lft) (oS rgt) = tp) by (rewrite sl_len_in by lia; lia).
  rewrite E.
  msteps; try lia; try exact I.
Qed.
