(* C05: np.flatnonzero on a boolean mask (model only) and the corner_cutting call on a mask. *)
From Coq Require Import ZArith List Bool.
From PB Require Import C05.Mon C05.Model C05.Callers.
Import ListNotations.
Open Scope Z_scope.

Fixpoint fnz_from (i : Z) (l : list bool) : list Z :=
  match l with [] => [] | m :: t => (if m then [i] else []) ++ fnz_from (i + 1) t end.
Definition flatnonzero (mask : list bool) : list Z := fnz_from 0 mask.

(* corner_cutting: _quadratic_bezier_spline(self.x, y, np.flatnonzero(mask)) with len(x) = len(y) = len(mask) *)
Definition corner_cutting_mask_call (mask : list bool) : M unit :=
  corner_cutting_call (lenz mask) (flatnonzero mask).
