(* C05: the Python-level derivation of kernel arguments (models only).
   The guards themselves are NOT written here: they are regenerated from the source on every run
   (gen/GenKernels.v: loess_rejects, spline_knots_rejects, spline_basis_rejects, pf_sections_rejects,
   pf_default_sections, pf_half_win); this file only says how the accepted values reach the kernels. *)
From Coq Require Import ZArith List Bool.
From PB Require Import lib.PySlice C05.Mon C05.Model gen.GenKernels.
Import ListNotations.
Open Scope Z_scope.

(* _spline_knots: concatenate(linspace(.., degree), linspace(.., num_knots), linspace(.., degree)) *)
(* the length formula is derived by the translator from the np.concatenate / np.linspace / np.repeat /
   np.percentile calls of the source (gen/GenKernels.v, spline_knots_len) *)
Definition spline_nk (num_knots degree : Z) : Z := spline_knots_len true num_knots degree.
(* SplineBasis._num_bases = basis.shape[1] = len(knots) - degree - 1 *)
Definition spline_num_bases (num_knots degree : Z) : Z := spline_nk num_knots degree - degree - 1.

(* PSpline.solve_pspline: ab = zeros((degree+1, num_bases)), rhs = zeros(num_bases); x, y, weights of
   length n; basis_data = basis.tocsr().data of length nbd *)
Definition btb_bty_call (n num_knots degree nbd : Z) : M unit :=
  btb_bty n (spline_nk num_knots degree) degree n n (degree + 1) (spline_num_bases num_knots degree)
          (spline_num_bases num_knots degree) nbd.

Definition design_call (n num_knots degree : Z) : M unit :=
  design_matrix n (spline_nk num_knots degree) degree.

(* loess: x, y, weights of length n, coefs = zeros((n, p+1)), vander (n, p+1), kernels (n, total_points) *)
Definition loess_call (mode n total_points p : Z) (windows : list (Z * Z)) (fits : list Z) : M unit :=
  loess_loop mode n n n n (p + 1) n (p + 1) n n total_points windows fits.

(* the whole index pipeline of one loess iteration *)
Definition loess_pipeline (mode n total_points p : Z) : M unit :=
  r <- determine_fits n total_points ;;
  let '(windows, fits, skips) := r in
  loess_call mode n total_points p windows fits ;;;
  fill_skips n n skips.

(* _padded_rolling_std: np.pad(data, half_window, 'reflect') *)
(* length derived by the translator from the padding expression of the source (prs_padded_len) *)
Definition padded_len (n half_window : Z) : Z := prs_padded_len n half_window.
Definition rolling_std_call (n half_window : Z) : M unit := rolling_std (padded_len n half_window) half_window.

(* misc._banded_dot_banded with square full shapes (n, n) *)
Definition bdb_call (n a_lower a_upper b_lower b_upper : Z) (symmetric : bool) : M unit :=
  let c_upper := Z.min (a_upper + b_upper) (n - 1) in
  let c_lower := Z.min (a_lower + b_lower) (n - 1) in
  let lower_bound := if symmetric then 0 else a_lower + b_lower in
  banded_dot_banded (a_lower + a_upper + 1) n (b_lower + b_upper + 1) n (c_lower + c_upper + 1) n
                    a_lower a_upper b_lower b_upper c_upper n lower_bound.

(* peak_filling: y_truncated has sections + pads entries (pads = left_pad + right_pad in 0..2), the
   kernel is called with data_len = sections; the first half window is the clamped one, the others are
   ceil(logspace(log10(first), 0, max_iter)) cast to int *)
Definition pf_call_args (sections half_win pads : Z) : Z := pf_half_win half_win sections.
Definition pf_kernel_call (sections pads h : Z) : M unit := dmma (sections + pads) sections h.

(* the same call with the length of y_truncated derived from the source (pf_y_len): np.empty(sections)
   padded by [left_pad, right_pad], each 0 or 1 *)
Definition pf_kernel_call2 (sections left_pad right_pad h : Z) : M unit :=
  dmma (pf_y_len sections left_pad right_pad) (pf_data_len sections) h.

(* sections given as a SEQUENCE of k split indices: indices = np.unique(concatenate(([0], sections, [size])))
   has uniq entries (2 <= uniq <= k + 2), y_truncated = np.empty(uniq - 1) plus the pads.  The data_len
   argument expression of the kernel call is translated from the source: when it is (built from) an ndarray
   (pf_seq_data_len_is_int = false) numba cannot type the call -- int64 vs array in `half_window > (data_len - 1) // 2`
   -- and raises TypingError before any compiled code runs; when it is an integer expression the kernel runs
   with that data_len. *)
Definition pf_seq_kernel_call (k uniq size left_pad right_pad h : Z) : M unit :=
  if pf_seq_data_len_is_int
  then dmma (pf_seq_y_len k uniq left_pad right_pad) (pf_seq_data_len k uniq size) h
  else ret tt.

(* corner_cutting: _quadratic_bezier_spline(self.x, y, np.flatnonzero(mask)) *)
Definition corner_cutting_call (n : Z) (indices : list Z) : M unit := bezier n n indices.

(* classification._find_peak_segments on a boolean mask (True = baseline point) *)
Fixpoint starts_from (prev : bool) (i : Z) (l : list bool) : list Z :=
  match l with
  | [] => []
  | m :: t => (if negb m && prev then [i] else []) ++ starts_from m (i + 1) t
  end.
Fixpoint ends_from (i : Z) (l : list bool) : list Z :=
  match l with
  | [] => []
  | m :: t => let next := match t with [] => true | m' :: _ => m' end in
              (if negb m && next then [i] else []) ++ ends_from (i + 1) t
  end.
(* peak_starts[1 if peak_starts[0] == 0 else 0:] -= 1 *)
Definition adj_starts (l : list Z) : list Z :=
  match l with [] => [] | a :: t => (if a =? 0 then a else a - 1) :: map (fun v => v - 1) t end.
(* peak_ends[:-1 if peak_ends[-1] == N - 1 else None] += 1 *)
Fixpoint adj_ends (N : Z) (l : list Z) : list Z :=
  match l with
  | [] => []
  | [b] => [if b =? N - 1 then b else b + 1]
  | b :: t => (b + 1) :: adj_ends N t
  end.
Definition find_peak_segments (mask : list bool) : list (Z * Z) :=
  combine (adj_starts (starts_from true 0 mask)) (adj_ends (lenz mask) (ends_from 0 mask)).

(* classification._averaged_interp: one kernel call per segment on x[start:end+1], output[start:end+1] *)
Definition averaged_interp_calls (n : Z) (segs : list (Z * Z)) : M unit :=
  for_range_ 0 (lenz segs) (fun k =>
    let '(s, e) := nthz segs k (0, 0) in
    interp_inplace A_x (sl_len n (oS s) (oS (e + 1))) A_output (sl_len n (oS s) (oS (e + 1)))).
Definition averaged_interp (mask : list bool) : M unit :=
  averaged_interp_calls (lenz mask) (find_peak_segments mask).
