(* C05: the fitter-object STATE that the Python-level guards read, over histories of public calls on ONE
   object (models only).  x / _size are set by __init__ or, when x is None, by the method wrapper
   (_Algorithm._register.inner) from the data of the call; _setup_spline caches a SplineBasis built from
   self.x, keyed on (num_knots, spline_degree) only; _setup_polynomial caches a Vandermonde built from
   self.x.  What the wrapper does when the wrapped method raises is NOT written here: the list of
   attributes its exception handlers reset comes from the source (gen/GenKernels.v, wrapper_handlers). *)
From Coq Require Import ZArith List Bool String.
Import ListNotations.
Open Scope Z_scope.

Record fstate := { sx : option Z;                  (* len(self.x) *)
                   ssize : option Z;               (* self._size *)
                   sbasis : option (Z * Z * Z);    (* cached basis: num_knots, spline_degree, len(basis.x) *)
                   spoly : option Z }.             (* cached Vandermonde: number of rows *)

Definition smem (a : string) (l : list string) : bool := existsb (String.eqb a) l.

(* an exception handler of the wrapper that assigns None to the listed attributes *)
Definition apply_handler (h : list string) (s : fstate) : fstate :=
  {| sx := if smem "x"%string h then None else sx s;
     ssize := if smem "_size"%string h then None else ssize s;
     sbasis := if smem "_spline_basis"%string h then None else sbasis s;
     spoly := if smem "_polynomial"%string h then None else spoly s |}.
Definition apply_handlers (hs : list (list string)) (s : fstate) : fstate :=
  fold_left (fun s h => apply_handler h s) hs s.

(* a handler that resets x or _size must reset both and every cache built from x *)
Definition handler_ok (caches : list string) (h : list string) : bool :=
  if smem "x"%string h || smem "_size"%string h
  then smem "x"%string h && smem "_size"%string h && forallb (fun c => smem c h) caches
  else true.
Definition handlers_ok (caches : list string) (hs : list (list string)) : bool :=
  forallb (handler_ok caches) hs
  && smem "_spline_basis"%string caches && smem "_polynomial"%string caches.

(* what a wrapped method does, in order *)
Inductive act :=
| ASpline (nk d : Z)   (* _setup_spline reached its cache statement: reuse when the key matches, else build from self.x *)
| APoly                (* _setup_polynomial(calc_vander=True): build / recalc from self.x *)
| AKernel              (* PSpline.solve_pspline: _numba_btb_bty(basis.x, knots, degree, y, weights, ...) *)
| ARaise.              (* the method raises here *)

(* observation at a kernel call: num_knots, degree, len(basis.x), len(y), len(weights) *)
Definition obs := (Z * Z * Z * Z * Z)%type.

Fixpoint run_acts (hs : list (list string)) (ylen : Z) (acts : list act) (s : fstate) : fstate * list obs :=
  match acts with
  | [] => (s, [])
  | ARaise :: _ => (apply_handlers hs s, [])
  | ASpline nk d :: rest =>
      let xl := match sx s with Some v => v | None => 0 end in
      let b := match sbasis s with
               | Some (nk', d', bx) => if (nk' =? nk) && (d' =? d) then (nk', d', bx) else (nk, d, xl)
               | None => (nk, d, xl)
               end in
      run_acts hs ylen rest {| sx := sx s; ssize := ssize s; sbasis := Some b; spoly := spoly s |}
  | APoly :: rest =>
      let xl := match sx s with Some v => v | None => 0 end in
      run_acts hs ylen rest {| sx := sx s; ssize := ssize s; sbasis := sbasis s; spoly := Some xl |}
  | AKernel :: rest =>
      let '(s', o) := run_acts hs ylen rest s in
      match sbasis s, ssize s with
      | Some (nk, d, bx), Some sz => (s', (nk, d, bx, ylen, sz) :: o)   (* weights: _check_optional_array(self._size, ..) *)
      | _, _ => (s', o)
      end
  end.

(* one public call with data of length n: the wrapper's entry, then the method *)
Definition run_call (hs : list (list string)) (n : Z) (acts : list act) (s : fstate) : fstate * list obs :=
  match sx s with
  | None => run_acts hs n acts {| sx := Some n; ssize := Some n; sbasis := sbasis s; spoly := spoly s |}
  | Some _ =>
      if match ssize s with Some sz => sz =? n | None => false end
      then run_acts hs n acts s
      else (apply_handlers hs s, [])          (* _check_sized_array raises ValueError('length mismatch') *)
  end.

Fixpoint run_history (hs : list (list string)) (calls : list (Z * list act)) (s : fstate)
  : list fstate * list obs :=
  match calls with
  | [] => ([], [])
  | (n, acts) :: rest =>
      let '(s1, o1) := run_call hs n acts s in
      let '(ss, o2) := run_history hs rest s1 in
      (s1 :: ss, o1 ++ o2)
  end.

Definition init_state (x : option Z) : fstate := {| sx := x; ssize := x; sbasis := None; spoly := None |}.

(* flattening for the comparison with the recorded object state *)
Definition optz (o : option Z) : list Z := match o with None => [0; 0] | Some v => [1; v] end.
Definition state_flat (s : fstate) : list Z :=
  optz (sx s) ++ optz (ssize s) ++
  match sbasis s with None => [0; 0; 0; 0] | Some (nk, d, bx) => [1; nk; d; bx] end.
Definition obs_flat (o : obs) : list Z := let '(nk, d, bx, yl, wl) := o in [nk; d; bx; yl; wl].
