(* C05: the numba kernels of pybaselines as access-logging computations (models only, no proofs).
   Each model follows the statement order and the Python evaluation order of the source, so that its
   log can be compared event by event with the subscripts recorded on the implementation
   (harness/c05.py, kernel.py_func on logging ndarray subclasses).
   Arrays are represented by their lengths only; integer-valued arrays that feed later subscripts
   (fits / windows / skips / indices) carry their contents as lists. *)
From Coq Require Import ZArith List Bool.
From PB Require Import lib.PySlice C05.Mon.
Import ListNotations.
Open Scope Z_scope.

(* array identifiers (harness/c05.py uses the same table) *)
Definition A_tmp := 0.     (* any array produced by array arithmetic inside a kernel *)
Definition A_knots := 1.   Definition A_work := 2.     Definition A_x := 4.
Definition A_y := 5.       Definition A_weights := 6.  Definition A_ab := 7.
Definition A_rhs := 8.     Definition A_bdata := 9.    Definition A_rowind := 10.
Definition A_colind := 11. Definition A_fits := 12.    Definition A_windows := 13.
Definition A_skips := 14.  Definition A_baseline := 16. Definition A_coefs := 17.
Definition A_vander := 18. Definition A_kernels := 19. Definition A_data := 23.
Definition A_sqd := 24.    Definition A_a := 25.       Definition A_b := 26.
Definition A_c := 27.      Definition A_indices := 28. Definition A_output := 29.

Definition oS (z : Z) := Some z.

(* ------------------------------------------------------------------ _spline_utils._find_interval *)
(* nk = len(knots) *)
Definition find_interval (nk degree last_left num_bases : Z) : M Z :=
  let left0 := if (degree <? last_left) && (last_left <? num_bases) then last_left else degree in
  let fuel := S (Z.to_nat nk) in
  left1 <- while_n fuel (fun left =>
             rd A_knots left nk ;;; b <- ask ;;
             if b && negb (left =? degree) then ret (inl (left - 1)) else ret (inr left)) left0 ;;
  left2 <- while_n fuel (fun left =>
             rd A_knots left nk ;;; b <- ask ;;
             if b && negb (left =? num_bases) then ret (inl (left + 1)) else ret (inr left)) (left1 + 1) ;;
  ret (left2 - 1).

(* ------------------------------------------------------------------ _spline_utils._de_boor *)
(* nw = len(work); temp = work + spline_degree + 1 is array arithmetic: a NEW array of length nw *)
Definition de_boor (nk degree left nw : Z) : M unit :=
  wr A_work 0 nw ;;;
  for_range_ 1 (degree + 1) (fun i =>
    rds A_work None (oS i) nw ;;; wrs A_tmp None (oS i) nw ;;;
    fit (sl_len nw None (oS i)) (sl_len nw None (oS i)) ;;;
    wr A_work 0 nw ;;;
    for_range_ 1 (i + 1) (fun j =>
      let idx := left + j in
      rd A_knots idx nk ;;; rd A_knots (idx - i) nk ;;;
      eq <- ask ;;
      if eq then wr A_work j nw
      else
        rd A_tmp (j - 1) nw ;;;
        rd A_work (j - 1) nw ;;; wr A_work (j - 1) nw ;;;
        wr A_work j nw)).

(* ------------------------------------------------------------------ _spline_utils.__make_design_matrix *)
Definition design_matrix (nx nk degree : Z) : M unit :=
  let order := degree + 1 in
  let dl := nx * order in
  let num_bases := nk - order in
  let nw := 2 * order in
  _ <- for_range 0 nx (fun i (st : Z * Z) =>
         let '(idx, lk) := st in
         rd A_x i nx ;;;
         left' <- find_interval nk degree lk num_bases ;;
         de_boor nk degree left' nw ;;;
         let next := idx + order in
         rds A_work None (oS order) nw ;;; wrs A_bdata (oS idx) (oS next) dl ;;;
         fit (sl_len dl (oS idx) (oS next)) (sl_len nw None (oS order)) ;;;
         wrs A_rowind (oS idx) (oS next) dl ;;;
         wrs A_colind (oS idx) (oS next) dl ;;;
         fit (sl_len dl (oS idx) (oS next))
             (Z.max 0 (Z.min (left' + 1) num_bases - (left' - degree))) ;;;
         ret (next, left')) (0, degree) ;;
  ret tt.

(* ------------------------------------------------------------------ _spline_utils._numba_btb_bty *)
(* ab has shape (ab0, ab1); the other arrays are 1-d with the given lengths *)
Definition btb_bty (nx nk degree ny nwt ab0 ab1 nrhs nbd : Z) : M unit :=
  let order := degree + 1 in
  let num_bases := nk - order in
  let nw := 2 * order in
  _ <- for_range 0 nx (fun i (st : Z * Z) =>
         let '(idx, lk) := st in
         rd A_x i nx ;;; rd A_y i ny ;;; rd A_weights i nwt ;;;
         left' <- find_interval nk degree lk num_bases ;;
         let next := idx + order in
         wrs A_work None None nw ;;;
         rds A_bdata (oS idx) (oS next) nbd ;;; wrs A_work None (oS order) nw ;;;
         fit (sl_len nw None (oS order)) (sl_len nbd (oS idx) (oS next)) ;;;
         for_range_ 0 order (fun j =>
           rd A_work j nw ;;;
           for_range_ 0 (j + 1) (fun k =>
             let column := left' - degree + k in
             rd2 A_ab (j - k) ab0 column ab1 ;;; rd A_work k nw ;;; wr2 A_ab (j - k) ab0 column ab1) ;;;
           let row := left' - degree + j in
           rd A_rhs row nrhs ;;; wr A_rhs row nrhs) ;;;
         ret (next, left')) (0, degree) ;;
  ret tt.

(* ------------------------------------------------------------------ polynomial._determine_fits *)
Record dfs := { tf : Z; ts : Z; ss : Z; lf : Z; rt : Z;
                fits : list Z; wins : list (Z * Z); skps : list (Z * Z) }.

Definition df_window (num_x : Z) (i : Z) (s : dfs) : M dfs :=
  lr <- while_n (S (Z.to_nat num_x)) (fun lr : Z * Z =>
          let '(l, r) := lr in
          if r <? num_x then
            rd A_x l num_x ;;; rd A_x r num_x ;;; b <- ask ;;
            if b then ret (inl (l + 1, r + 1)) else ret (inr lr)
          else ret (inr lr)) (lf s, rt s) ;;
  let '(l, r) := lr in
  tell (Acc false A_windows [CI (tf s) num_x]) ;;;
  wr A_windows 0 2 ;;; wr A_windows 1 2 ;;;
  ret {| tf := tf s + 1; ts := ts s; ss := ss s; lf := l; rt := r; fits := fits s;
         wins := updz (wins s) (tf s) (l, r); skps := skps s |}.

Definition determine_fits (num_x total_points : Z) : M (list (Z * Z) * list Z * list (Z * Z)) :=
  check <- ask ;;                                            (* delta > 0 *)
  let nskip := if check then num_x else 1 in
  (if check then wr A_fits 0 num_x else ret tt) ;;;
  let fits0 := if check then updz (repeat 0 (Z.to_nat num_x)) 0 0 else zseq (Z.to_nat num_x) 0 in
  let skips0 := repeat (0, 0) (Z.to_nat nskip) in
  tell (Acc true A_windows [CI 0 num_x]) ;;; fit 2 2 ;;;
  let wins0 := updz (repeat (0, 0) (Z.to_nat num_x)) 0 (0, total_points) in
  rd A_x 0 num_x ;;;
  s1 <- for_range 1 (num_x - 1) (fun i s =>
          rd A_x i num_x ;;;
          if check then
            rd A_x (i + 1) num_x ;;; b <- ask ;;
            if b then
              ret {| tf := tf s; ts := ts s; ss := (if ss s =? 0 then i else ss s); lf := lf s;
                     rt := rt s; fits := fits s; wins := wins s; skps := skps s |}
            else
              wr A_fits (tf s) num_x ;;;
              s' <- (if negb (ss s =? 0) then
                       tell (Acc true A_skips [CI (ts s) nskip]) ;;; fit 2 2 ;;;
                       ret {| tf := tf s; ts := ts s + 1; ss := 0; lf := lf s; rt := rt s;
                              fits := updz (fits s) (tf s) i; wins := wins s;
                              skps := updz (skps s) (ts s) (ss s - 1, i + 1) |}
                     else
                       ret {| tf := tf s; ts := ts s; ss := ss s; lf := lf s; rt := rt s;
                              fits := updz (fits s) (tf s) i; wins := wins s; skps := skps s |}) ;;
              df_window num_x i s'
          else df_window num_x i s)
        {| tf := 1; ts := 0; ss := 0; lf := 0; rt := total_points;
           fits := fits0; wins := wins0; skps := skips0 |} ;;
  s2 <- (if negb (ss s1 =? 0) then
           wr A_fits (tf s1) num_x ;;;
           b <- (if total_points =? num_x then ret true
                 else rdn A_x (-1) num_x ;;; rdn A_x (-2) num_x ;;; rdn A_x (-2) num_x ;;;
                      rd A_x (num_x - total_points) num_x ;;; ask) ;;
           let w := if b then (num_x - total_points, num_x)
                    else (num_x - total_points - 1, num_x - 1) in
           tell (Acc true A_windows [CI (tf s1) num_x]) ;;; fit 2 2 ;;;
           tell (Acc true A_skips [CI (ts s1) nskip]) ;;; fit 2 2 ;;;
           ret {| tf := tf s1 + 1; ts := ts s1 + 1; ss := ss s1; lf := lf s1; rt := rt s1;
                  fits := updz (fits s1) (tf s1) (num_x - 2);
                  wins := updz (wins s1) (tf s1) w;
                  skps := updz (skps s1) (ts s1) (ss s1 - 1, num_x - 1) |}
         else ret s1) ;;
  s3 <- (if 1 <? num_x then
           wr A_fits (tf s2) num_x ;;;
           tell (Acc true A_windows [CI (tf s2) num_x]) ;;; fit 2 2 ;;;
           ret {| tf := tf s2 + 1; ts := ts s2; ss := ss s2; lf := lf s2; rt := rt s2;
                  fits := updz (fits s2) (tf s2) (num_x - 1);
                  wins := updz (wins s2) (tf s2) (num_x - total_points, num_x);
                  skps := skps s2 |}
         else ret s2) ;;
  tell (Acc false A_windows [CS None (oS (tf s3)) num_x]) ;;;
  rds A_fits None (oS (tf s3)) num_x ;;;
  tell (Acc false A_skips [CS None (oS (ts s3)) nskip]) ;;;
  ret (firstz (tf s3) (wins s3), firstz (tf s3) (fits s3), firstz (ts s3) (skps s3)).

(* ------------------------------------------------------------------ utils._interp_inplace *)
(* x and y are the (sliced) arrays handed over: ids and lengths *)
Definition interp_inplace (ax nx ay ny : Z) : M unit :=
  rds ax (oS 1) (oS (-1)) nx ;;; rd ax 0 nx ;;; rdn ax (-1) nx ;;; rd ax 0 nx ;;;
  wrs ay (oS 1) (oS (-1)) ny ;;;
  fit (sl_len ny (oS 1) (oS (-1))) (sl_len nx (oS 1) (oS (-1))).

(* ------------------------------------------------------------------ polynomial._fill_skips *)
Definition fill_skips (nx nb : Z) (skips : list (Z * Z)) : M unit :=
  let g := lenz skips in
  for_range_ 0 g (fun i =>
    let '(lft, rgt) := nthz skips i (0, 0) in
    tell (Acc false A_skips [CI i g]) ;;; rd A_skips 0 2 ;;; rd A_skips 1 2 ;;;
    rds A_x (oS lft) (oS rgt) nx ;;; rds A_baseline (oS lft) (oS rgt) nb ;;;
    rd A_baseline lft nb ;;; rd A_baseline (rgt - 1) nb ;;;
    interp_inplace A_x (sl_len nx (oS lft) (oS rgt)) A_baseline (sl_len nb (oS lft) (oS rgt))).

(* ------------------------------------------------------------------ polynomial._loess_* loops *)
(* vander has shape (v0, v1), coefs (c0, c1), kernels (k0, k1); mode 0 = _loess_low_memory,
   1 = _loess_first_loop, 2 = _loess_nonfirst_loops (which does not receive x).
   _loess_solver (np.linalg.solve, no subscripts) returns an array of length v1. *)
Definition loess_loop (mode : Z) (nx ny nwt c0 c1 v0 v1 num_x k0 k1 : Z)
           (windows : list (Z * Z)) (fits : list Z) : M unit :=
  let nf := lenz fits in
  let nwin := lenz windows in
  for_range_ 0 nf (fun idx =>
    let i := nthz fits idx 0 in
    let '(lft, rgt) := nthz windows idx (0, 0) in
    rd A_fits idx nf ;;;
    tell (Acc false A_windows [CI idx nwin]) ;;; rd A_windows 0 2 ;;; rd A_windows 1 2 ;;;
    (if mode =? 2 then
       tell (Acc false A_kernels [CI i k0])
     else
       let L := sl_len nx (oS lft) (oS rgt) in
       rds A_x (oS lft) (oS rgt) nx ;;; rd A_x i nx ;;;
       rd A_tmp 0 L ;;; rdn A_tmp (-1) L ;;; _ <- ask ;;
       (if mode =? 1 then tell (Acc true A_kernels [CI i k0]) ;;; fit k1 L else ret tt)) ;;;
    tell (Acc false A_tmp [CS None None v1; CS (oS lft) (oS rgt) v0]) ;;;
    rds A_tmp (oS lft) (oS rgt) ny ;;;
    tell (Acc false A_vander [CI i v0]) ;;;
    wr A_baseline i num_x ;;;
    tell (Acc true A_coefs [CI i c0]) ;;; fit c1 v1).

(* ------------------------------------------------------------------ smooth._directional_min_moving_avg *)
Definition dmma (ny data_len half_window : Z) : M unit :=
  let hw := if half_window >? (data_len - 1) / 2 then (data_len - 1) / 2 else half_window in
  let ws := 2 * hw + 1 in
  rd A_y 0 ny ;;;
  _ <- for_range 1 (hw + 1) (fun i last =>
         let new := last + 2 in
         for_range_ last new (fun j => rd A_y j ny) ;;;
         rd A_y i ny ;;; b <- ask ;;
         (if b then wr A_y i ny else ret tt) ;;;
         ret new) 1 ;;
  for_range_ (hw + 1) (data_len - hw) (fun i =>
    rd A_y (i + hw) ny ;;; rd A_y (i - hw - 1) ny ;;; rd A_y i ny ;;; b <- ask ;;
    if b then wr A_y i ny else ret tt) ;;;
  _ <- for_range (data_len - hw) (data_len - 1) (fun i last =>
         let new := last - 2 in
         for_range_ (data_len - last) (data_len - new) (fun j => rd A_y j ny) ;;;
         rd A_y i ny ;;; b <- ask ;;
         (if b then wr A_y i ny else ret tt) ;;;
         ret new) ws ;;
  ret tt.

(* ------------------------------------------------------------------ classification._rolling_std *)
Definition rolling_std (num_y half_window : Z) : M unit :=
  let ws := half_window * 2 + 1 in
  rd A_data 0 num_y ;;;
  for_range_ 1 ws (fun i => rd A_data i num_y ;;; rd A_sqd (i - 1) num_y ;;; wr A_sqd i num_y) ;;;
  rd A_sqd (ws - 1) num_y ;;; wr A_sqd half_window num_y ;;;
  for_range_ (half_window + 1) (num_y - half_window) (fun j =>
    rd A_data (j - half_window - 1) num_y ;;; rd A_data (j + half_window) num_y ;;;
    rd A_sqd (j - 1) num_y ;;; wr A_sqd j num_y) ;;;
  for_range_ (num_y - half_window + 1) num_y (fun k =>
    rd A_data k num_y ;;; rd A_sqd (k - 1) num_y ;;; wr A_sqd k num_y).

(* ------------------------------------------------------------------ misc._numba_banded_dot_banded *)
(* a : (a0, n1a), b : (b0, n1b), c : (c0, n1c) *)
Definition banded_dot_banded (a0 n1a b0 n1b c0 n1c a_lower a_upper b_lower b_upper c_upper
                              diag_length lower_bound : Z) : M unit :=
  for_range_ (- (a_upper + b_upper)) (lower_bound + 1) (fun o_c =>
    for_range_ (- Z.min a_upper (b_lower - o_c)) (Z.min a_lower (b_upper + o_c) + 1) (fun o_a =>
      let o_b := o_c - o_a in
      let row_a := a_upper + o_a in
      let row_b := b_upper + o_b in
      let row_c := c_upper + o_c in
      for_range_ (Z.max 0 (Z.max (- o_a) o_b))
                 (Z.max 0 (diag_length + Z.min 0 (Z.min (- o_a) o_b))) (fun frame =>
        rd2 A_c row_c c0 (frame - o_b) n1c ;;;
        rd2 A_a row_a a0 frame n1a ;;;
        rd2 A_b row_b b0 (frame - o_b) n1b ;;;
        wr2 A_c row_c c0 (frame - o_b) n1c))).

(* ------------------------------------------------------------------ spline._quadratic_bezier_spline *)
(* np.argmin over n elements: any value in [0, n) -- chosen by the oracle in unary (k times true, then
   false unless k = n - 1); the harness encodes the value NumPy returned in the same way *)
Fixpoint choose_n (fuel : nat) (k n : Z) : M Z :=
  match fuel with
  | O => ret k
  | S f => if k <? n - 1 then (b <- ask ;; if b then choose_n f (k + 1) n else ret k) else ret k
  end.
Definition choose (n : Z) : M Z := choose_n (Z.to_nat n) 0 n.

(* right_idx = center_idx + np.argmin(np.abs(x[center_idx:next_idx + 1] - 0.5 * (center_x + x[next_idx])));
   None = np.argmin raised ValueError (empty slice): the kernel ends with a Python exception *)
Definition bz_right (nx c n : Z) : M (option Z) :=
  rds A_x (oS c) (oS (n + 1)) nx ;;; rd A_x n nx ;;;
  let L := sl_len nx (oS c) (oS (n + 1)) in
  if L <=? 0 then ret None else (r <- choose L ;; ret (Some (c + r))).

(* indices: contents of the index array; the loop `for i, center_idx in enumerate(indices[2:-2], 2)` reads
   element k of the slice at the start of iteration k *)
Definition bezier (nx ny : Z) (indices : list Z) : M unit :=
  let ni := lenz indices in
  let ix k := nthz indices k 0 in
  if negb (nx =? ny) then ret tt
  else if ni <? 2 then ret tt
  else if ni <? 4 then
    rd A_indices 0 ni ;;; rdn A_indices (-1) ni ;;;
    let li := ix 0 in let ri := ix (ni - 1) in
    rd A_x li nx ;;; rd A_x ri nx ;;; rd A_y li ny ;;; rd A_y ri ny ;;;
    (if ni =? 2 then ret tt else rd A_indices 1 ni ;;; rd A_y (ix 1) ny)
  else
    rd A_indices 1 ni ;;; rd A_indices 2 ni ;;;
    let c := ix 1 in let n := ix 2 in
    rd A_indices 0 ni ;;; rd A_x (ix 0) nx ;;;
    rd A_x c nx ;;;
    ro <- bz_right nx c n ;;
    match ro with
    | None => ret tt
    | Some r0 =>
      rd A_x r0 nx ;;;
      rd A_indices 0 ni ;;; rd A_y (ix 0) ny ;;;
      rd A_y c ny ;;; rd A_y n ny ;;; rd A_x n nx ;;;
      rds A_x None (oS (n + 1)) nx ;;; wrs A_output None (oS (n + 1)) nx ;;;
      fit (sl_len nx None (oS (n + 1))) (sl_len nx None (oS (n + 1))) ;;;
      let m := sl_len ni (oS 2) (oS (-2)) in
      rds A_indices (oS 2) (oS (-2)) ni ;;;
      st <- for_range 0 m (fun k (st : option Z) =>
              match st with
              | None => ret None
              | Some left_idx =>
                rd A_indices k m ;;;
                let c := ix (k + 2) in
                rd A_indices (k + 3) ni ;;;
                let n := ix (k + 3) in
                rd A_x c nx ;;;
                ro <- bz_right nx c n ;;
                match ro with
                | None => ret None
                | Some r =>
                  rd A_x r nx ;;;
                  z <- ask ;;
                  if z then ret (Some r)
                  else
                    rd A_y c ny ;;; rd A_y n ny ;;; rd A_x n nx ;;;
                    rds A_x (oS left_idx) (oS (r + 1)) nx ;;;
                    wrs A_output (oS left_idx) (oS (r + 1)) nx ;;;
                    fit (sl_len nx (oS left_idx) (oS (r + 1))) (sl_len nx (oS left_idx) (oS (r + 1))) ;;;
                    ret (Some r)
                end
              end) (Some r0) ;;
      match st with
      | None => ret tt
      | Some r =>
        rdn A_indices (-2) ni ;;; rd A_y (ix (ni - 2)) ny ;;;
        rdn A_indices (-1) ni ;;; rd A_y (ix (ni - 1)) ny ;;;
        rds A_x (oS r) None nx ;;; rdn A_indices (-1) ni ;;; rd A_x (ix (ni - 1)) nx ;;;
        wrs A_output (oS r) None nx ;;;
        fit (sl_len nx (oS r) None) (sl_len nx (oS r) None)
      end
    end.
