(* C05: _find_peak_segments returns, for EVERY boolean mask, pairs 0 <= start <= end <= N-1, which is
   what _averaged_interp needs to hand non-empty, equally long slices to _interp_inplace. *)
From Coq Require Import ZArith List Bool Lia ZifyBool.
From PB Require Import lib.PySlice C05.Mon C05.Model C05.Callers C05.Logic C05.Proofs C05.CallerProofs.
Import ListNotations.
Open Scope Z_scope.

(* strictly increasing, inside [lo, hi) *)
Fixpoint chain (lo hi : Z) (l : list Z) : Prop :=
  match l with [] => True | a :: t => lo <= a < hi /\ chain (a + 1) hi t end.

Lemma chain_weaken lo lo' hi l : lo' <= lo -> chain lo hi l -> chain lo' hi l.
Proof. destruct l; cbn; [auto|]. intros ? [? ?]. split; [lia | assumption]. Qed.

Lemma starts_chain l : forall prev i, chain i (i + lenz l) (starts_from prev i l).
Proof.
  induction l as [|m t IH]; intros prev i; cbn [starts_from]; [exact I|].
  assert (E : i + lenz (m :: t) = (i + 1) + lenz t) by (unfold lenz; cbn [length]; lia).
  rewrite E. specialize (IH m (i + 1)).
  destruct (negb m && prev); cbn [app chain].
  - split; [unfold lenz; lia | exact IH].
  - eapply chain_weaken; [| exact IH]. lia.
Qed.

Lemma ends_chain l : forall i, chain i (i + lenz l) (ends_from i l).
Proof.
  induction l as [|m t IH]; intros i; cbn [ends_from]; [exact I|].
  assert (E : i + lenz (m :: t) = (i + 1) + lenz t) by (unfold lenz; cbn [length]; lia).
  rewrite E. specialize (IH (i + 1)).
  match goal with |- context [if ?c then _ else _] => destruct c end; cbn [app chain].
  - split; [unfold lenz; lia | exact IH].
  - eapply chain_weaken; [| exact IH]. lia.
Qed.

(* the k-th start is not after the k-th end *)
Lemma pairing t : forall (m : bool) (i : Z),
  if m then Forall2 Z.le (starts_from m (i + 1) t) (ends_from i (m :: t))
  else exists b E', ends_from i (m :: t) = b :: E' /\ i <= b /\
                    Forall2 Z.le (starts_from m (i + 1) t) E'.
Proof.
  induction t as [|m' t' IH]; intros m i.
  - destruct m; cbn; [constructor|]. exists i, []. repeat split; [lia | constructor].
  - specialize (IH m' (i + 1)). replace (i + 1 + 1) with (i + 2) in IH by lia.
    change (ends_from i (m :: m' :: t')) with
      ((if negb m && m' then [i] else []) ++ ends_from (i + 1) (m' :: t')).
    change (starts_from m (i + 1) (m' :: t')) with
      ((if negb m' && m then [i + 1] else []) ++ starts_from m' (i + 1 + 1) t').
    replace (i + 1 + 1) with (i + 2) by lia.
    destruct m, m'; cbn [negb andb app].
    + exact IH.
    + destruct IH as (b & E' & -> & Hb & HF). constructor; [lia | exact HF].
    + exists i, (ends_from (i + 1) (true :: t')). repeat split; [lia | exact IH].
    + destruct IH as (b & E' & -> & Hb & HF). exists b, E'. repeat split; [lia | exact HF].
Qed.

Lemma starts_le_ends mask : Forall2 Z.le (starts_from true 0 mask) (ends_from 0 mask).
Proof.
  destruct mask as [|m t]; [constructor|].
  pose proof (pairing t m 0) as H. replace (0 + 1) with 1 in H by lia.
  change (starts_from true 0 (m :: t)) with ((if negb m && true then [0] else []) ++ starts_from m 1 t).
  destruct m; cbn [negb andb app].
  - exact H.
  - destruct H as (b & E' & -> & Hb & HF). constructor; [lia | exact HF].
Qed.

Lemma adj_ends_cons N lo b E' :
  chain lo N (b :: E') -> exists b', adj_ends N (b :: E') = b' :: adj_ends N E' /\ b <= b' <= N - 1.
Proof.
  destruct E' as [|b2 E'']; cbn [chain adj_ends]; intros H.
  - exists (if b =? N - 1 then b else b + 1). split; [reflexivity|]. destruct (b =? N - 1) eqn:E; lia.
  - exists (b + 1). split; [reflexivity | lia].
Qed.

Lemma tail_ok N : forall S E lo lo',
  1 <= lo -> chain lo N S -> chain lo' N E -> Forall2 Z.le S E ->
  Forall (seg_ok N) (combine (map (fun v => v - 1) S) (adj_ends N E)).
Proof.
  induction S as [|a S' IH]; intros E lo lo' Hlo HS HE HF; [constructor|].
  inversion HF as [|a0 b S0 E' Hab HF' Ea Eb]; subst.
  destruct (adj_ends_cons N lo' b E' HE) as (b' & -> & Hb').
  cbn [map combine]. destruct HS as [Ha HS']. destruct HE as [Hb HE'].
  constructor.
  - unfold seg_ok; cbn [fst snd]. lia.
  - apply (IH E' (a + 1) (b + 1)); [lia | exact HS' | exact HE' | exact HF'].
Qed.

Theorem find_peak_segments_ok mask : Forall (seg_ok (lenz mask)) (find_peak_segments mask).
Proof.
  unfold find_peak_segments. set (N := lenz mask).
  pose proof (starts_chain mask true 0) as HS. pose proof (ends_chain mask 0) as HE.
  pose proof (starts_le_ends mask) as HF. replace (0 + lenz mask) with N in * by (subst N; lia).
  destruct (starts_from true 0 mask) as [|a S']; [constructor|].
  inversion HF as [|a0 b S0 E' Hab HF' Ea Eb]; subst.
  rewrite <- Eb in HE.
  destruct (adj_ends_cons N 0 b E' HE) as (b' & -> & Hb').
  cbn [adj_starts combine]. destruct HS as [Ha HS']. destruct HE as [Hb HE'].
  constructor.
  - unfold seg_ok; cbn [fst snd]. destruct (a =? 0) eqn:E0; lia.
  - apply (tail_ok N S' E' (a + 1) (b + 1)); [lia | exact HS' | exact HE' | exact HF'].
Qed.

Theorem averaged_interp_spec mask : spec (averaged_interp mask) (fun _ => True).
Proof. unfold averaged_interp. apply averaged_interp_calls_spec. apply find_peak_segments_ok. Qed.
