(* C05: _determine_fits -- safety of its own accesses and the postcondition its callers rely on. *)
From Coq Require Import ZArith List Bool Lia ZifyBool.
From PB Require Import lib.PySlice C05.Mon C05.Model C05.Logic C05.Proofs.
Import ListNotations.
Open Scope Z_scope.

Definition fit_ok (n f : Z) : Prop := 0 <= f < n.

Lemma In_firstn_in {A} (l : list A) n x : In x (firstn n l) -> In x l.
Proof.
  revert n; induction l as [|h t IH]; intros n H; destruct n; cbn in *; try tauto.
  destruct H as [->|H]; [now left | right; eapply IH; eauto].
Qed.

Lemma Forall_firstz {A} (P : A -> Prop) n (l : list A) : Forall P l -> Forall P (firstz n l).
Proof.
  intros H. unfold firstz. rewrite Forall_forall in *. intros x Hx. apply H.
  eapply In_firstn_in; eauto.
Qed.

Lemma Forall_upd {A} (P : A -> Prop) (l : list A) i v : Forall P l -> P v -> Forall P (upd l i v).
Proof.
  intros H Hv. revert i. induction H; intros i; destruct i; cbn; constructor; auto.
Qed.

Lemma Forall_updz {A} (P : A -> Prop) (l : list A) i v : Forall P l -> P v -> Forall P (updz l i v).
Proof. intros. unfold updz. destruct (i <? 0); [assumption | now apply Forall_upd]. Qed.

Lemma Forall_firstz_snoc {A} (P : A -> Prop) (l : list A) n v :
  0 <= n < lenz l -> Forall P (firstz n l) -> P v -> Forall P (firstz (n + 1) (updz l n v)).
Proof.
  intros Hn H Hv. rewrite firstz_updz_snoc by exact Hn. apply Forall_app. split; [exact H | now constructor].
Qed.

Lemma Forall_firstz_keep {A} (P : A -> Prop) (l : list A) n k v :
  0 <= n <= k -> Forall P (firstz n l) -> Forall P (firstz n (updz l k v)).
Proof. intros Hn H. rewrite firstz_updz_ge by exact Hn. exact H. Qed.

Lemma lenz_repeat {A} (a : A) n : lenz (repeat a n) = Z.of_nat n.
Proof. unfold lenz. now rewrite repeat_length. Qed.

Lemma zseq_length n s : length (zseq n s) = n.
Proof. revert s; induction n; intros; cbn; auto. Qed.

Lemma zseq_range n s : Forall (fun f => s <= f < s + Z.of_nat n) (zseq n s).
Proof.
  revert s; induction n as [|n IH]; intros s; cbn [zseq]; constructor; [lia|].
  eapply Forall_impl; [| apply IH]. cbv beta. intros a Ha. lia.
Qed.

(* ---------------------------------------------------------------- window search *)
Lemma df_window_spec num_x tp i s :
  0 <= lf s -> rt s <= num_x -> rt s - lf s = tp -> 0 <= tp -> 0 <= tf s < num_x ->
  spec (df_window num_x i s)
       (fun s' => tf s' = tf s + 1 /\ ts s' = ts s /\ ss s' = ss s /\ fits s' = fits s /\
                  skps s' = skps s /\ 0 <= lf s' /\ rt s' <= num_x /\ rt s' - lf s' = tp /\
                  wins s' = updz (wins s) (tf s) (lf s', rt s')).
Proof.
  intros H1 H2 H3 H4 H5. unfold df_window.
  eapply spec_bind.
  - apply (spec_while (fun lr : Z * Z => 0 <= fst lr /\ snd lr <= num_x /\ snd lr - fst lr = tp)
                      (fun lr : Z * Z => 0 <= fst lr /\ snd lr <= num_x /\ snd lr - fst lr = tp)
                      (fun lr => num_x - snd lr)); cbn [fst snd]; try lia.
    intros [l r] (Ha & Hb & Hc). cbn [fst snd] in *.
    msteps; cbn [fst snd]; try lia.
  - intros [l r] (Ha & Hb & Hc). cbn [fst snd] in *. cbv beta iota.
    msteps; try lia. cbn [tf ts ss lf rt fits wins skps]. repeat split; try lia.
Qed.

(* ---------------------------------------------------------------- the main loop invariant *)
Definition df_inv (check : bool) (num_x tp i : Z) (s : dfs) : Prop :=
  1 <= tf s <= i /\ 0 <= ts s <= tf s - 1 /\
  (ss s = 0 \/ (1 <= ss s < i /\ tf s <= ss s)) /\
  0 <= lf s /\ rt s <= num_x /\ rt s - lf s = tp /\
  lenz (fits s) = num_x /\ lenz (wins s) = num_x /\ lenz (skps s) = (if check then num_x else 1) /\
  Forall (window_ok num_x tp) (firstz (tf s) (wins s)) /\
  Forall (skip_ok num_x) (firstz (ts s) (skps s)) /\
  (if check then Forall (fit_ok num_x) (firstz (tf s) (fits s))
   else Forall (fit_ok num_x) (fits s) /\ ss s = 0).

Definition df_post (num_x tp : Z) (r : list (Z * Z) * list Z * list (Z * Z)) : Prop :=
  let '(w, f, s) := r in
  Forall (window_ok num_x tp) w /\ Forall (fit_ok num_x) f /\ lenz w = lenz f /\
  Forall (skip_ok num_x) s.

Ltac prj := cbn [tf ts ss lf rt fits wins skps] in *.

Lemma df_init check num_x tp :
  1 <= tp <= num_x ->
  df_inv check num_x tp 1
    {| tf := 1; ts := 0; ss := 0; lf := 0; rt := tp;
       fits := if check then updz (repeat 0 (Z.to_nat num_x)) 0 0 else zseq (Z.to_nat num_x) 0;
       wins := updz (repeat (0, 0) (Z.to_nat num_x)) 0 (0, tp);
       skps := repeat (0, 0) (Z.to_nat (if check then num_x else 1)) |}.
Proof.
  intros H. unfold df_inv. prj.
  assert (L1 : lenz (repeat (0, 0) (Z.to_nat num_x)) = num_x) by (rewrite lenz_repeat; lia).
  assert (L2 : lenz (repeat 0 (Z.to_nat num_x)) = num_x) by (rewrite lenz_repeat; lia).
  repeat split; try lia.
  - destruct check; [rewrite lenz_updz; exact L2 | unfold lenz; rewrite zseq_length; lia].
  - rewrite lenz_updz. exact L1.
  - rewrite lenz_repeat. destruct check; lia.
  - change 1 with (0 + 1). apply Forall_firstz_snoc; [lia | constructor |].
    unfold window_ok; cbn [fst snd]; lia.
  - constructor.
  - destruct check.
    + change 1 with (0 + 1). apply Forall_firstz_snoc; [lia | constructor | unfold fit_ok; lia].
    + split; [| reflexivity]. eapply Forall_impl; [| apply zseq_range]. unfold fit_ok. cbv beta. lia.
Qed.

Lemma df_step check num_x tp i s s' :
  1 <= tp <= num_x -> 1 <= i < num_x - 1 ->
  df_inv check num_x tp i s ->
  (* s' : after fits[tf] = i (only when check) and the optional skip entry, before the window search *)
  tf s' = tf s -> lf s' = lf s -> rt s' = rt s -> wins s' = wins s ->
  ss s' = 0 ->
  (if check then fits s' = updz (fits s) (tf s) i else fits s' = fits s) ->
  ((ts s' = ts s /\ skps s' = skps s /\ ss s = 0) \/
   (check = true /\ ss s <> 0 /\ ts s' = ts s + 1 /\ skps s' = updz (skps s) (ts s) (ss s - 1, i + 1))) ->
  spec (df_window num_x i s') (df_inv check num_x tp (i + 1)).
Proof.
  intros Htp Hi (I1 & I2 & I3 & I4 & I5 & I6 & I7 & I8 & I9 & I10 & I11 & I12) E1 E2 E3 E4 E5 E6 E7.
  eapply spec_conseq.
  - apply (df_window_spec num_x tp); lia.
  - intros s2 (F1 & F2 & F3 & F4 & F5 & F6 & F7 & F8 & F9). unfold df_inv.
    rewrite F1, F2, F3, F4, F5, F9, E1, E4, E5.
    assert (Hts : 0 <= ts s' <= tf s /\ lenz (skps s') = (if check then num_x else 1) /\
                  Forall (skip_ok num_x) (firstz (ts s') (skps s'))).
    { destruct E7 as [(-> & -> & _) | (-> & Hss & -> & ->)].
      - repeat split; try lia; assumption.
      - rewrite lenz_updz. repeat split; try lia; try assumption.
        apply Forall_firstz_snoc; [lia | exact I11 |].
        unfold skip_ok; cbn [fst snd]. lia. }
    destruct Hts as (T1 & T2 & T3).
    do 6 (split; [lia|]).
    split. { destruct check; rewrite E6; [rewrite lenz_updz|]; exact I7. }
    split. { rewrite lenz_updz. exact I8. }
    split. { exact T2. }
    split. { apply Forall_firstz_snoc; [lia | exact I10 |]. unfold window_ok; cbn [fst snd]; lia. }
    split. { exact T3. }
    destruct check.
    + rewrite E6. apply Forall_firstz_snoc; [lia | exact I12 | unfold fit_ok; lia].
    + rewrite E6. split; [apply I12 | reflexivity].
Qed.

Lemma df_skip_step num_x tp i s :
  1 <= i < num_x - 1 -> df_inv true num_x tp i s ->
  df_inv true num_x tp (i + 1)
    {| tf := tf s; ts := ts s; ss := (if ss s =? 0 then i else ss s); lf := lf s; rt := rt s;
       fits := fits s; wins := wins s; skps := skps s |}.
Proof.
  intros Hi (I1 & I2 & I3 & I4 & I5 & I6 & I7 & I8 & I9 & I10 & I11 & I12). unfold df_inv. prj.
  do 2 (split; [lia|]).
  split. { destruct (ss s =? 0) eqn:E; lia. }
  do 3 (split; [lia|]). repeat split; assumption.
Qed.

Theorem determine_fits_spec num_x tp :
  1 <= tp <= num_x -> spec (determine_fits num_x tp) (df_post num_x tp).
Proof.
  intros Htp. unfold determine_fits. apply spec_ask_bind. intros check.
  eapply spec_bind with (P := fun _ => True).
  { destruct check; msteps; try lia; exact I. }
  intros _ _. msteps; try lia.
  eapply spec_bind.
  { apply (spec_for (df_inv check num_x tp)); [apply df_init; exact Htp |].
    intros i s Hi HI. do 2 mstep; try lia.
    destruct check.
    - (* delta > 0 *)
      pose proof HI as (I1 & I2 & I3 & I4 & I5 & I6 & I7 & I8 & I9 & I10 & I11 & I12).
      msteps; try lia.
      + apply df_skip_step; assumption.
      + eapply (df_step true num_x tp i s); prj; try reflexivity; try assumption.
        right. repeat split; try reflexivity. lia.
      + eapply (df_step true num_x tp i s); prj; try reflexivity; try assumption; try lia.
        left. repeat split; try reflexivity. lia.
    - pose proof HI as (I1 & I2 & I3 & I4 & I5 & I6 & I7 & I8 & I9 & I10 & I11 & (I12 & I13)).
      eapply (df_step false num_x tp i s); try reflexivity; try assumption.
      left. repeat split; try reflexivity. exact I13. }
  intros s1 H1. cbv beta in H1.
  assert (Hm : Z.max 1 (num_x - 1) = if 1 <? num_x then num_x - 1 else 1) by (destruct (1 <? num_x) eqn:E; lia).
  destruct H1 as (I1 & I2 & I3 & I4 & I5 & I6 & I7 & I8 & I9 & I10 & I11 & I12).
  (* second to last point *)
  eapply spec_bind with
    (P := fun s2 => tf s1 <= tf s2 /\ (1 <? num_x = true -> tf s2 <= num_x - 1) /\
                    (1 <? num_x = false -> tf s2 = 1) /\ 0 <= ts s2 /\
                    lenz (fits s2) = num_x /\ lenz (wins s2) = num_x /\
                    Forall (window_ok num_x tp) (firstz (tf s2) (wins s2)) /\
                    Forall (skip_ok num_x) (firstz (ts s2) (skps s2)) /\
                    (if check then Forall (fit_ok num_x) (firstz (tf s2) (fits s2))
                     else Forall (fit_ok num_x) (fits s2))).
  { destruct (negb (ss s1 =? 0)) eqn:Ess.
    - assert (Hc : check = true) by (destruct check; [reflexivity | destruct I12; lia]).
      subst check.
      assert (Hss : 1 <= ss s1 < Z.max 1 (num_x - 1) /\ tf s1 <= ss s1) by lia.
      assert (Hn : 3 <= num_x) by lia.
      do 2 mstep; try lia.
      eapply spec_bind with (P := fun b : bool => b = false -> tp < num_x).
      { destruct (tp =? num_x) eqn:Et.
        - apply spec_ret. discriminate.
        - msteps; try lia. }
      intros b Hb. msteps; try lia. prj.
      split; [lia|]. split; [intros; lia|]. split; [intros; lia|]. split; [lia|].
      split. { rewrite lenz_updz. exact I7. }
      split. { rewrite lenz_updz. exact I8. }
      split. { apply Forall_firstz_snoc; [lia | exact I10 |].
               unfold window_ok. destruct b; cbn [fst snd]; [lia | specialize (Hb eq_refl); lia]. }
      split. { apply Forall_firstz_snoc; [lia | exact I11 |]. unfold skip_ok; cbn [fst snd]. lia. }
      apply Forall_firstz_snoc; [lia | exact I12 | unfold fit_ok; lia].
    - apply spec_ret.
      split; [lia|]. split; [intros E; rewrite E in Hm; lia|].
      split. { intros E. rewrite E in Hm. lia. }
      split; [lia|]. split; [exact I7|]. split; [exact I8|]. split; [exact I10|]. split; [exact I11|].
      destruct check; [exact I12 | apply I12]. }
  intros s2 (J1 & J2 & J3 & J4 & J5 & J6 & J7 & J8 & J9).
  (* last point *)
  eapply spec_bind with
    (P := fun s3 => 0 <= tf s3 <= num_x /\ ts s3 = ts s2 /\ skps s3 = skps s2 /\
                    lenz (fits s3) = num_x /\ lenz (wins s3) = num_x /\
                    Forall (window_ok num_x tp) (firstz (tf s3) (wins s3)) /\
                    Forall (fit_ok num_x) (firstz (tf s3) (fits s3))).
  { destruct (1 <? num_x) eqn:En.
    - specialize (J2 eq_refl). msteps; try lia. prj.
      split; [lia|]. split; [reflexivity|]. split; [reflexivity|].
      split. { rewrite lenz_updz. exact J5. }
      split. { rewrite lenz_updz. exact J6. }
      split. { apply Forall_firstz_snoc; [lia | exact J7 |]. unfold window_ok; cbn [fst snd]; lia. }
      apply Forall_firstz_snoc; [lia | | unfold fit_ok; lia].
      destruct check; [exact J9 | apply Forall_firstz; exact J9].
    - specialize (J3 eq_refl). apply spec_ret.
      split; [lia|]. split; [reflexivity|]. split; [reflexivity|]. split; [exact J5|]. split; [exact J6|].
      split; [exact J7|]. destruct check; [exact J9 | apply Forall_firstz; exact J9]. }
  intros s3 (K1 & K2 & K3 & K4 & K5 & K6 & K7).
  msteps; try exact I. unfold df_post.
  split; [exact K6|]. split; [exact K7|].
  split. { rewrite !lenz_firstz by lia. reflexivity. }
  rewrite K2, K3. exact J8.
Qed.
