(* C05: _quadratic_bezier_spline -- the argmin results are oracle-chosen values in [0, n). *)
From Coq Require Import ZArith List Bool Lia ZifyBool.
From PB Require Import lib.PySlice C05.Mon C05.Model C05.Logic C05.Proofs.
Import ListNotations.
Open Scope Z_scope.

Lemma choose_n_spec n : forall fuel k, 0 <= k < n -> spec (choose_n fuel k n) (fun r => 0 <= r < n).
Proof.
  induction fuel as [|f IH]; intros k Hk; cbn [choose_n].
  - apply spec_ret. exact Hk.
  - destruct (k <? n - 1) eqn:E.
    + apply spec_ask_bind. intros b. destruct b; [apply IH; lia | apply spec_ret; exact Hk].
    + apply spec_ret. exact Hk.
Qed.

Lemma choose_spec n : 1 <= n -> spec (choose n) (fun r => 0 <= r < n).
Proof. intros. unfold choose. apply choose_n_spec. lia. Qed.

(* what np.flatnonzero(mask) guarantees: strictly increasing positions inside the data *)
Definition idx_sorted (nx : Z) (l : list Z) : Prop :=
  forall k, 0 <= k < lenz l ->
    0 <= nthz l k 0 < nx /\ (k + 1 < lenz l -> nthz l k 0 < nthz l (k + 1) 0).

Lemma bz_right_spec nx c n :
  0 <= c -> c < n -> n < nx ->
  spec (bz_right nx c n) (fun ro => match ro with Some r => c <= r <= n | None => False end).
Proof.
  intros H1 H2 H3. unfold bz_right. msteps; try lia.
  - rewrite sl_len_in in * by lia. lia.
  - eapply spec_bind; [apply choose_spec; rewrite sl_len_in by lia; lia |].
    intros r Hr. cbv beta in Hr. rewrite sl_len_in in Hr by lia. apply spec_ret. lia.
Qed.

Lemma bezier_spec nx ny indices :
  idx_sorted nx indices -> spec (bezier nx ny indices) (fun _ => True).
Proof.
  intros HS. unfold bezier.
  set (ni := lenz indices) in *.
  destruct (negb (nx =? ny)) eqn:Exy; [apply spec_ret; exact I|].
  assert (ny = nx) by lia. subst ny.
  destruct (ni <? 2) eqn:E2; [apply spec_ret; exact I|].
  assert (I0 := HS 0 ltac:(lia)). assert (I1 := HS 1 ltac:(lia)). assert (IL := HS (ni - 1) ltac:(lia)).
  change (0 + 1) with 1 in I0. change (1 + 1) with 2 in I1.
  destruct (ni <? 4) eqn:E4.
  { msteps; try lia; try exact I. }
  assert (I2 := HS 2 ltac:(lia)). assert (IL2 := HS (ni - 2) ltac:(lia)).
  msteps; try lia.
  eapply spec_bind; [apply bz_right_spec; lia |].
  intros [r0|] Hr0; [| contradiction].
  msteps; try lia.
  assert (Em : sl_len ni (oS 2) (oS (-2)) = ni - 4).
  { slen. destruct (-2 <? 0) eqn:?, (2 <? 0) eqn:?; lia. }
  rewrite Em.
  eapply spec_bind.
  { apply (spec_for (fun (_ : Z) (st : option Z) => True)); [exact I|].
    intros k [left_idx|] Hk _; [| apply spec_ret; exact I].
    assert (Ia := HS (k + 2) ltac:(lia)). assert (Ib := HS (k + 3) ltac:(lia)).
    replace (k + 2 + 1) with (k + 3) in Ia by lia.
    msteps; try lia.
    eapply spec_bind; [apply bz_right_spec; lia |].
    intros [r|] Hr; [| contradiction].
    msteps; try lia; exact I. }
  intros [r|] _; [| apply spec_ret; exact I].
  msteps; try lia; exact I.
Qed.
