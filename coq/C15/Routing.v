(* C15 -- what the statement requires to be rejected (per parameter), and the reflective checker of the
   routing table generated from the source.  Definitions only; proofs are in Proofs.v. *)
From Coq Require Import ZArith QArith List Bool String.
From PB Require Import C15.Model.
Import ListNotations.
Open Scope Z_scope.

(* documented domains of the statement *)
Inductive dom :=
| DPos            (* lam > 0 *)
| DOpen01         (* 0 < p < 1, quantile *)
| DClosed01       (* 0 <= eta <= 1; p of mpls / pspline_mpls / mpspline *)
| DGe (c : Z)     (* diff_order >= 1, poly_order >= 0, num_knots >= 2, spline_degree >= 0 *)
| DHw (az : bool). (* a half window: a positive (az = false) or non-negative (az = true) integer; a pair of
                      them where the two-item form is documented (2-D fitters, snip's max_half_window) *)

Definition is_nan (s : sc) : bool := match s with NaN => true | _ => false end.
(* a float that is not an integer: its integer cast differs from it *)
Definition noninteger (s : sc) : bool :=
  match s with Frac q => negb (eq_sc (Int (trunc q)) (Frac q)) | PosInf | NegInf => true | _ => false end.

(* the scalar is outside the documented domain, as listed by the statement *)
Definition bad_sc (d : dom) (s : sc) : bool :=
  match d with
  | DPos => le_sc s (zc 0)
  | DOpen01 => negb (lt_sc (zc 0) s && lt_sc s (zc 1))
  | DClosed01 => negb (le_sc (zc 0) s && le_sc s (zc 1))
  | DGe c => lt_sc s (zc c)
  | DHw az => is_nan s || zero_test az s || noninteger s
  end.
Definition pairable (d : dom) : bool := match d with DOpen01 | DClosed01 => false | _ => true end.

(* the value must be rejected: a scalar (or one-element array) outside the domain, or an array of the
   wrong length (2-D fitters accept pairs for lam / orders / knots / windows) *)
Definition must_reject (d : dom) (td : bool) (v : value) : bool :=
  match v with
  | Sc s => bad_sc d s
  | Arr [s] | Lst [s] => bad_sc d s
  | Arr [a; b] | Lst [a; b] => if td && pairable d then bad_sc d a || bad_sc d b else true
  | Arr _ | Lst _ => true
  | Str | NoneV => false
  end.

(* hypotheses of the routing theorem: no empty array, every FINITE element fits a C long (a finite
   value of 2^63 or more still makes the integer cast raise OverflowError -- see
   C15_huge_finite_overflow_example; such a value is inside the documented domains) *)
Definition regular_sc (s : sc) : bool :=
  match s with Int z => in_i64 z | Frac q => in_i64 (trunc q) | _ => true end.
Definition regular (v : value) : bool :=
  match v with
  | Sc s => regular_sc s
  | Arr l | Lst l => match l with [] => false | _ => forallb regular_sc l end
  | Str | NoneV => true
  end.

Definition closed_p (m : string) : bool :=
  existsb (String.eqb m) ["mpls"; "pspline_mpls"; "mpspline"]%string.
Definition hw_module (m : string) : bool :=
  existsb (String.eqb m) ["morphological"; "smooth"]%string.

(* documented domain of (method, parameter); None = outside the table claim (optimizers forward their
   parameters through method_kwargs at run time; half windows of non-morphological/smoothing methods) *)
(* parameters of a documented OPTIONAL step: rubberband's diff_order is only used when the smoothing is
   requested (lam given), dietrich's poly_order only when max_iter > 0 -- their guards sit under a
   condition on that other parameter, which the table records as conditional (GOpaque) *)
Definition optional_step (e : entry) : bool :=
  (String.eqb (e_method e) "rubberband" && String.eqb (e_param e) "diff_order")
  || (String.eqb (e_method e) "dietrich" && String.eqb (e_param e) "poly_order").
Definition expected (e : entry) : option dom :=
  let p := e_param e in
  if String.eqb (e_module e) "optimizers" then None
  else if optional_step e then None
  else if String.eqb p "lam" then Some DPos
  else if String.eqb p "p" then Some (if closed_p (e_method e) then DClosed01 else DOpen01)
  else if String.eqb p "quantile" then Some DOpen01
  else if String.eqb p "eta" then Some DClosed01
  else if String.eqb p "diff_order" then Some (DGe 1)
  else if String.eqb p "poly_order" then Some (DGe 0)
  else if String.eqb p "num_knots" then Some (DGe 2)
  else if String.eqb p "spline_degree" then Some (DGe 0)
  else if String.eqb p "half_window" then
    (if hw_module (e_module e) || String.eqb (e_method e) "pspline_mpls" then Some (DHw false) else None)
  else if String.eqb p "max_half_window" then (if hw_module (e_module e) then Some (DHw false) else None)
  else if String.eqb p "min_half_window" then (if hw_module (e_module e) then Some (DHw true) else None)
  else None.

(* is the two-item form of the parameter documented?  2-D fitters: (rows, columns); 1-D: only snip's
   max_half_window (left, right).  The flag is part of the claim: every entry of a pair must be valid. *)
Definition pair_of (e : entry) : bool :=
  e_two_d e || (String.eqb (e_method e) "snip" && String.eqb (e_param e) "max_half_window").

(* a single guard that rejects everything must_reject lists *)
Definition covers1 (g : guard) (d : dom) (td : bool) : bool :=
  match g, d with
  | GCSV false td' DtFloat, DPos => Bool.eqb td td'
  | GRange01 true true, DOpen01 => true
  | GRange01 _ _, DClosed01 => true
  | GLt c', DGe c => negb td && (c <=? c')
  | GCSV false td' DtInt, DGe c => Bool.eqb td td' && (c <=? 1)
  | GCSV true td' DtInt, DGe c => Bool.eqb td td' && (c <=? 0)
  | GHalfWindow az' td', DHw az => Bool.eqb td td' && Bool.eqb az az'   (* both flags are pinned *)
  | _, _ => false
  end.
(* 2-D: the pair validator followed by an element-wise `e < c'` guard (num_knots) *)
Definition is_pair_int_validator (g : guard) : bool :=
  match g with GCSV _ true DtInt => true | _ => false end.
Definition covers2 (gs : list guard) (d : dom) (td : bool) : bool :=
  match d with
  | DGe c => td && existsb is_pair_int_validator gs
             && existsb (fun g => match g with GEachLt c' => (c <=? c') && (1 <=? c') | _ => false end) gs
  | _ => false
  end.

Definition entry_ok (e : entry) : bool :=
  match expected e with
  | None => true
  | Some d => let gs := before_use (e_chain e) in
              existsb (fun g => covers1 g d (pair_of e)) gs || covers2 gs d (pair_of e)
  end.
Definition routing_ok (t : list entry) : bool := forallb entry_ok t.

Definition is_vt (o : option exc) : bool :=
  match o with Some VErr | Some TErr => true | _ => false end.

(* ---- per-point arrays: the length / finiteness validation (_check_optional_array / _check_sized_array)
   is the FIRST thing that happens to the argument -- no subscripting, fancy indexing by the sort order
   or conversion before it -- in every function that validates one, and the eight _setup_* families
   (1-D and 2-D) do validate their weights. *)
Definition forwarded_arg : string := "method_kws[key]".
Definition is_pad (a : aevent) : bool := match a with APad | AValidate => true | AUse => false end.
(* forwarded keyword arrays (optimize_extended_range): only padded by np.pad(..., 'constant') -- directly or
   after a length validation --, at least once, never used otherwise *)
Definition forwarded_ok (e : aentry) : bool :=
  match a_events e with [] => false | l => forallb is_pad l end.
Definition aentry_ok (e : aentry) : bool :=
  if String.eqb (a_arg e) forwarded_arg then forwarded_ok e
  else match a_events e with AValidate :: _ => true | _ => false end.
Definition required_arrays : list (bool * string * string) :=
  [(false, "_setup_whittaker", "weights"); (false, "_setup_polynomial", "weights");
   (false, "_setup_spline", "weights"); (false, "_setup_classification", "weights");
   (true, "_setup_whittaker", "weights"); (true, "_setup_polynomial", "weights");
   (true, "_setup_spline", "weights"); (true, "_setup_classification", "weights");
   (false, "adaptive_minmax", "weights"); (true, "adaptive_minmax", "weights");
   (false, "aspls", "alpha"); (true, "aspls", "alpha"); (false, "pspline_aspls", "alpha");
   (false, "optimize_extended_range", "method_kws[key]")]%string.
Definition amatches (r : bool * string * string) (e : aentry) : bool :=
  let '(td, fn, arg) := r in
  Bool.eqb td (a_two_d e) && String.eqb fn (a_fn e) && String.eqb arg (a_arg e).
Definition array_routing_ok (t : list aentry) : bool :=
  forallb aentry_ok t && forallb (fun r => existsb (amatches r) t) required_arrays.

(* ---- check_finite forwarding: every validation call (_check_array, _check_sized_array,
   _check_optional_array, _yx_arrays, _yxz_arrays) in the wrappers _register.inner, the constructors,
   the _setup_* methods and the registered methods passes the fitter's flag on; both branches of each
   wrapper (object with / without x-values) and the weight validation of each _setup_* family exist. *)
Definition count_sites (td : bool) (fn : string) (t : list centry) : nat :=
  List.length (filter (fun e => Bool.eqb td (c_two_d e) && String.eqb fn (c_fn e)) t).
Definition finite_required : list (bool * string * nat) :=
  [(false, "_register", 2%nat); (true, "_register", 2%nat);
   (false, "__init__", 1%nat); (true, "__init__", 2%nat);
   (false, "_setup_whittaker", 1%nat); (false, "_setup_polynomial", 1%nat); (false, "_setup_spline", 1%nat);
   (false, "_setup_classification", 1%nat);
   (true, "_setup_whittaker", 1%nat); (true, "_setup_polynomial", 1%nat); (true, "_setup_spline", 1%nat);
   (true, "_setup_classification", 1%nat)]%string.
Definition finite_routing_ok (t : list centry) : bool :=
  forallb (fun e => c_forwarded e || c_prevalidation e) t
  && forallb (fun r => let '(td, fn, n) := r in Nat.leb n (count_sites td fn t)) finite_required.

(* ---- every call site of _check_half_window with the flags it is called with: the documented contract of
   each site (positive vs non-negative window, scalar vs the two-item form), pinned.  A site that gains
   allow_zero=True, loses two_d=True, appears or disappears makes the comparison fail. *)
Definition hwsite := (bool * string * string * string * bool * bool)%type.   (* 2-D?, module, function, argument, allow_zero, two_d *)
Definition hwsite_eqb (a b : hwsite) : bool :=
  let '(d1, m1, f1, x1, z1, t1) := a in
  let '(d2, m2, f2, x2, z2, t2) := b in
  Bool.eqb d1 d2 && String.eqb m1 m2 && String.eqb f1 f2 && String.eqb x1 x2 && Bool.eqb z1 z2 && Bool.eqb t1 t2.
Fixpoint hwsites_eqb (a b : list hwsite) : bool :=
  match a, b with
  | [], [] => true
  | x :: a', y :: b' => hwsite_eqb x y && hwsites_eqb a' b'
  | _, _ => false
  end.
Definition hw_sites_expected : list hwsite :=
  [(false, "_algorithm_setup", "_setup_morphology", "half_window", false, false);
   (false, "_algorithm_setup", "_setup_smooth", "half_window", false, false);
   (false, "morphological", "mpspline", "half_window", false, false);
   (false, "smooth", "noise_median", "smooth_half_window", true, false);     (* 0 = no smoothing *)
   (false, "smooth", "snip", "max_half_window", false, true);                (* (left, right), both >= 1 *)
   (false, "smooth", "snip", "smooth_half_window", false, false);
   (false, "smooth", "swima", "min_half_window", true, false);
   (false, "smooth", "swima", "smooth_half_window", false, false);
   (true, "_algorithm_setup", "_setup_morphology", "half_window", false, true);
   (true, "_algorithm_setup", "_setup_smooth", "half_window", false, true);
   (true, "morphological", "rolling_ball", "smooth_half_window", true, true)]%string.
Definition hw_sites_ok (t : list hwsite) : bool := hwsites_eqb t hw_sites_expected.

(* ---- writes of fitter configuration attributes (_check_finite, _dtype, _sort_order, _inverted_order,
   banded_solver, pentapy_solver and their private counterparts; on ANY receiver, also through
   setattr / __dict__): allowed only in the constructors, the documented property setters, and the three
   helpers that configure a FRESHLY built object.  No fitting method may change the configuration of an
   object that outlives the call -- so a rejected or accepted call leaves the validation settings alone. *)
Definition cfgwrite := (bool * string * string * string * string)%type.   (* 2-D?, module, function, attribute, receiver *)
Definition str_in (x : string) (l : list string) : bool := existsb (String.eqb x) l.
Definition cfg_allowed (w : cfgwrite) : bool :=
  let '(td, m, fn, attr, recv) := w in
  String.eqb m "_algorithm_setup" &&
    ((String.eqb fn "__init__" && String.eqb recv "self")
     || (String.eqb fn "banded_solver" && String.eqb recv "self"
         && str_in attr ["_banded_solver"; "_pentapy_solver"]%string)
     || (String.eqb fn "pentapy_solver" && String.eqb recv "self" && String.eqb attr "banded_solver")
     || (String.eqb fn "_override_x" && String.eqb recv "new_object"
         && str_in attr ["banded_solver"; "_sort_order"; "_inverted_order"]%string)
     || (String.eqb fn "_get_function" && String.eqb recv "class_object" && String.eqb attr "banded_solver"))
  || (td && String.eqb m "optimizers" && String.eqb fn "individual_axes" && String.eqb recv "fitter"
      && String.eqb attr "banded_solver").
Definition cfg_writes_ok (t : list cfgwrite) : bool := forallb cfg_allowed t.
(* the writes outside the allowed places *)
Definition cfg_violations (t : list cfgwrite) : list cfgwrite := filter (fun w => negb (cfg_allowed w)) t.
